//go:build verif

package PKGNAME

// Shared by the harnesses of the add-on modules: a simulation environment with real rueidis clients
// (built from /repo with -tags verif) talking to verifsim/fakeredis over verifsim/simnet.

import (
	"context"
	"fmt"
	"math/rand/v2"
	"sync/atomic"
	"testing/synctest"
	"time"

	"github.com/redis/rueidis"

	"verifsim/fakeredis"
	"verifsim/sched"
)

type simEnv struct {
	seed    uint64
	sim     *sched.Sim
	out     *Outcome
	addr    string
	node    *fakeredis.Node
	clients []rueidis.Client
}

// SimSpec is the scheduler part of an add-on plan.
type SimSpec struct {
	CutProb    float64 `json:"cut_prob,omitempty"`
	MaxSteps   int     `json:"max_steps,omitempty"`
	TickWeight float64 `json:"tick_weight,omitempty"`
	// NoPayloadHash: see sched.Config.NoPayloadHash (request bytes that depend on map iteration order in the library)
	NoPayloadHash bool `json:"no_payload_hash,omitempty"`
}

func newSimEnv(seed uint64, sp SimSpec, out *Outcome) *simEnv {
	cfg := sched.Config{CutProb: sp.CutProb, MaxSteps: sp.MaxSteps, KeepTape: *flagTape, NoPayloadHash: sp.NoPayloadHash}
	cfg.W = sched.DefaultWeights
	if sp.TickWeight > 0 {
		cfg.W.Tick = sp.TickWeight
	}
	s := sched.New(seed, cfg)
	e := &simEnv{seed: seed, sim: s, out: out, addr: "10.0.0.1:6379"}
	rueidis.VerifSetSim(s, seed)
	rueidis.VerifWireNamer(func() []rueidis.Client { return e.clients })
	e.node = s.W.AddNode(e.addr)
	return e
}

// option returns client options that dial into the simulated network.
func (e *simEnv) option() rueidis.ClientOption {
	opt := rueidis.ClientOption{
		InitAddress:       []string{e.addr},
		ForceSingleClient: true,
		DialCtxFn:         rueidis.VerifDialFn(e.sim),
		PipelineMultiplex: -1,
	}
	opt.Dialer.KeepAlive = time.Hour
	opt.Dialer.Timeout = time.Minute
	return opt
}

// track registers a client for wire naming and pins its parallelism.
func (e *simEnv) track(cl rueidis.Client) {
	rueidis.VerifPinParallelism(cl, 16)
	e.clients = append(e.clients, cl)
}

// background runs fn in a goroutine tagged with name and drives the simulation until it returns.
func (e *simEnv) background(name string, fn func(ctx context.Context)) sched.RunResult {
	var done atomic.Bool
	go func() {
		rueidis.VerifNameGoroutine(name)
		fn(sched.WithTask(context.Background(), name))
		done.Store(true)
	}()
	return e.sim.Run(func() bool { return done.Load() })
}

// runTasks drives the simulation until every task has finished; when the step budget runs out it heals the
// network and keeps draining while calls keep completing. Calls still running afterwards are marked hung.
func (e *simEnv) runTasks() {
	s := e.sim
	rr := s.Run(s.AllTasksDone)
	e.out.Reason = rr.Reason
	if rr.Reason == "stuck" || rr.Reason == "maxsteps" {
		s.Heal()
		s.Cfg.DrainBound = 2 * time.Minute
		completed := func() int {
			n := 0
			for _, t := range s.Tasks {
				n += len(t.Recs)
				if t.Running() != nil {
					n--
				}
			}
			return n
		}
		for round := 0; round < 40; round++ {
			before := completed()
			s.Cfg.MaxSteps = s.Step + 2000
			rr2 := s.Run(s.AllTasksDone)
			e.out.Reason = rr.Reason + "+" + rr2.Reason
			if rr2.Reason != "maxsteps" || completed() == before {
				break
			}
			s.Stats["drain.extra-rounds"]++
		}
	}
	for _, t := range s.Tasks {
		if rec := t.Running(); rec != nil {
			rec.Hung = true
		}
	}
}

// closeAll closes the clients under the scheduler.
func (e *simEnv) closeAll(extra func()) {
	s := e.sim
	s.Heal()
	s.Cfg.MaxSteps = s.Step + 3000
	e.background("close", func(ctx context.Context) {
		if extra != nil {
			extra()
		}
		for _, cl := range e.clients {
			cl.Close()
		}
	})
}

func (e *simEnv) finish() {
	s := e.sim
	out := e.out
	out.Steps = s.Step
	out.FakeMs = s.Elapsed().Milliseconds()
	out.LogHash = s.LogHash()
	out.Stats = s.Stats
	if *flagTape {
		out.Tape = s.Tape
	}
	out.Gaps = append(out.Gaps, s.W.Gaps...)
	if len(s.W.Gaps) > 0 && out.HarnessErr == "" {
		out.HarnessErr = "model gap: " + s.W.Gaps[0]
	}
	s.Shutdown()
	time.Sleep(3 * time.Second)
	synctest.Wait()
}

func planRand(seed uint64, salt uint64) *rand.Rand {
	return rand.New(rand.NewPCG(seed, salt))
}

func pick[T any](r *rand.Rand, xs ...T) T { return xs[r.IntN(len(xs))] }

var _ = fmt.Sprintf
