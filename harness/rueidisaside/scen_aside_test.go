//go:build verif

package rueidisaside

// C39: cache-aside reads never leak locks and load once.
//
// Two or three real CacheAsideClients (each with its own real rueidis client) share one simulated Redis. Tasks call
// Get / Del on one to three shared keys; loaders return a value that is unique per invocation, fail, or take fake time.
// The environment adds ghost writers (SET / DEL of the data keys, a lock placeholder left behind by a process that no
// longer exists, SCRIPT FLUSH), connection faults, reply cuts and the silent death of one client (its connections stop
// carrying anything in either direction, its dials are refused, nothing is closed). The package's Lua scripts run in
// fakeredis + lualite.
//
// The oracle works from (a) what every Get returned and which loader invocations ran when, and (b) the model's history
// of every key (fakeredis.Dataset.Mods: value after each modification, writer connection, step, fake time):
//
//   placeholder-returned      a Get returned (nil error) a value carrying PlaceholderPrefix
//   unattributable-value      a Get returned (nil error) a value that no loader invocation produced for that key and no
//                             other writer stored under that key before the Get returned
//   load-not-once             a loader ran although the caller had not taken the lock for it (no lock acquisition of its
//                             own client on that key between the start of the Get and the start of the loader that is not
//                             already needed by another invocation) while another holder's placeholder was in place, that
//                             holder was alive (liveness key present, client not killed) and ran its own load
//   get-stalled-on-free-key   a Get gave up with its context error, without running its loader, on a healthy client,
//                             although during the last asideStallAllowance of fake time before it gave up the key was
//                             never locked by a live holder (it held a value, nothing, or a placeholder whose liveness key
//                             did not exist): covers "wait for its result" and "a dead client's lock is released"
//   lock-left-after-failed-load  a Get returned its loader's error on a healthy client and the placeholder it had set is
//                             still in place when it returns
//   probe-get-failed          after all faults are healed and max(ClientTTL) of fake time has passed since the last fault,
//                             death or ghost write, a fresh Get per key and live client (instant loader, 5 s) must succeed
//   get-never-returned        a Get of a client that was not killed never returned
//
// Determinism: the package draws client ids from the global math/rand source (seeded per run by the driver). Two Gets
// of one client that learn about a miss in the same scheduler step would draw concurrently; the scenario therefore
// hands every client a rueidis.Client wrapper (through the public ClientBuilder option) that parks the caller after a
// DoCache miss on a data key, so the scheduler releases such callers one at a time.

import (
	"context"
	"encoding/json"
	"errors"
	"fmt"
	"io"
	"net"
	"crypto/tls"
	"sort"
	"strings"
	"sync"
	"sync/atomic"
	"testing"
	"testing/synctest"
	"time"

	"github.com/redis/rueidis"

	"verifsim/fakeredis"
	"verifsim/sched"
	"verifsim/simnet"
)

// asideStallAllowance is the fake time a Get is given to notice that a key became free and to finish (a handful of
// round trips, each of which the scheduler may delay by a few ticks of at most 300 ms). It is a scheduling allowance of
// this harness, not a constant of the implementation.
const asideStallAllowance = 3 * time.Second

const asideProbeTTL = 5 * time.Second

type AsideClientSpec struct {
	Lua         bool `json:"lua"`
	ClientTTLMs int  `json:"client_ttl_ms"`
	Multiplex   int  `json:"multiplex"`
}

type AsideCall struct {
	Op         string `json:"op"` // get | del
	Cl         int    `json:"cl"`
	Key        int    `json:"key"`
	TTLMs      int    `json:"ttl_ms,omitempty"`
	Load       string `json:"load,omitempty"` // ok | err
	SleepMs    int    `json:"sleep_ms,omitempty"`
	OverrideMs int    `json:"override_ms,omitempty"`
	Typed      bool   `json:"typed,omitempty"`
}

type AsideGhost struct {
	MinStep int    `json:"min_step"`
	Kind    string `json:"kind"` // set | del | lock | script-flush
	Key     int    `json:"key"`
	TTLMs   int    `json:"ttl_ms,omitempty"`
}

type AsideFault struct {
	Kind   string `json:"kind"`
	AtStep int    `json:"at_step"`
	Pick   int    `json:"pick"`
}

type AsideDeath struct {
	Client  int  `json:"client"`
	AtStep  int  `json:"at_step"`
	Holding bool `json:"holding"` // wait until the client's placeholder is stored under some data key
}

type AsidePlan struct {
	Scenario string            `json:"scenario"`
	Sim      SimSpec           `json:"sim"`
	Clients  []AsideClientSpec `json:"clients"`
	Keys     int               `json:"keys"`
	Tasks    [][]AsideCall     `json:"tasks"`
	Ghosts   []AsideGhost      `json:"ghosts,omitempty"`
	Faults   []AsideFault      `json:"faults,omitempty"`
	Death    *AsideDeath       `json:"death,omitempty"`
	// Tight: fake time only advances when nothing else can happen (no random ticks between enabled events), so no
	// request or reply is ever late in fake time; only such runs judge "the holder's liveness key must not lapse".
	Tight bool `json:"tight_clock,omitempty"`
}

func init() {
	registerScenario(&scenario{name: "aside", gen: genAside, load: func(b []byte) (any, error) {
		p := &AsidePlan{}
		return p, json.Unmarshal(b, p)
	}, exec: execAside})
}

func genAside(seed uint64, tier, variant string) any {
	r := planRand(seed, 0xC39)
	p := &AsidePlan{Scenario: "aside"}
	calm := variant == "calm"
	p.Sim = SimSpec{CutProb: pick(r, 0.0, 0.3, 0.8), MaxSteps: 9000, TickWeight: pick(r, 0.1, 0.4)}
	nc := 2 + r.IntN(2)
	for i := 0; i < nc; i++ {
		p.Clients = append(p.Clients, AsideClientSpec{Lua: r.IntN(2) == 0, ClientTTLMs: pick(r, 1000, 2000, 4000), Multiplex: -1})
	}
	p.Keys = 1 + r.IntN(3)
	p.Tight = r.IntN(2) == 0
	nt := 2 + r.IntN(7)
	for ti := 0; ti < nt; ti++ {
		cl := ti % nc
		if ti >= nc {
			cl = r.IntN(nc)
		}
		var calls []AsideCall
		for ci, n := 0, 1+r.IntN(4); ci < n; ci++ {
			c := AsideCall{Op: "get", Cl: cl, Key: r.IntN(p.Keys), TTLMs: pick(r, 2000, 3000, 5000, 8000), Load: "ok"}
			switch x := r.IntN(20); {
			case x < 3:
				c = AsideCall{Op: "del", Cl: cl, Key: c.Key}
			case x < 6:
				c.Load, c.SleepMs = "err", pick(r, 0, 0, 300)
			case x < 10:
				c.SleepMs = pick(r, 50, 300, 1000, 2500)
			case x < 12:
				c.OverrideMs = pick(r, 500, 10000)
			}
			if c.Op == "get" {
				c.Typed = r.IntN(5) == 0
			}
			calls = append(calls, c)
		}
		p.Tasks = append(p.Tasks, calls)
	}
	if calm {
		return p
	}
	for i, n := 0, r.IntN(5); i < n; i++ {
		p.Ghosts = append(p.Ghosts, AsideGhost{MinStep: r.IntN(200), Kind: pick(r, "set", "del", "del", "lock", "lock", "script-flush"), Key: r.IntN(p.Keys), TTLMs: pick(r, 2000, 6000)})
	}
	if r.IntN(10) < 3 {
		for i, n := 0, 1+r.IntN(2); i < n; i++ {
			p.Faults = append(p.Faults, AsideFault{Kind: pick(r, "reset", "eof", "reset-after-exec", "eof-mid-reply"), AtStep: 10 + r.IntN(200), Pick: r.IntN(8)})
		}
	}
	if r.IntN(20) < 7 {
		p.Death = &AsideDeath{Client: r.IntN(nc), AtStep: 10 + r.IntN(150), Holding: r.IntN(10) < 7}
	}
	return p
}

// ---- run-time records ----

type asideLoad struct {
	Task, Call, Client, Key int
	Order                   int
	StartStep, EndStep      int // EndStep -1 while running
	StartAt, EndAt          time.Time
	Val, Err                string
}

type asideRes struct {
	Op     string
	Val    string
	HasVal bool
	Err    error
	Loads  []*asideLoad
	Probe  bool
}

type asideState struct {
	mu         sync.Mutex
	connClient map[int]int
	loads      []*asideLoad
	dead       []atomic.Bool
	refused    []int // refused dials per client (dead clients)
	deathStep  int
	deathAt    time.Time
	cas        []CacheAsideClient
	inner      []rueidis.Client
	taskCalls  map[int][]AsideCall // by scheduler task id
	taskProbe  map[int]bool
}

// asideYieldClient parks the caller after a cache miss on a data key (see the file comment).
type asideYieldClient struct {
	rueidis.Client
	sim *sched.Sim
}

func (y *asideYieldClient) DoCache(ctx context.Context, cmd rueidis.Cacheable, ttl time.Duration) rueidis.RedisResult {
	key := ""
	if cs := cmd.Commands(); len(cs) == 2 && cs[0] == "GET" {
		key = strings.Clone(cs[1]) // the command is recycled by DoCache
	}
	res := y.Client.DoCache(ctx, cmd, ttl)
	if key != "" && !strings.HasPrefix(key, PlaceholderPrefix) && rueidis.IsRedisNil(res.Error()) {
		who := sched.TaskID(ctx)
		if who == "" {
			who = "bg"
		}
		y.sim.Park(who + "|aside.miss|" + key)
	}
	return res
}

// Do parks the caller after the reply to a write of a liveness key (SET rueidisid:... by keepalive and refresh): when
// several Gets of one client have each proposed an id, the replies may arrive in one delivery, and which of them
// becomes the client's id is decided by who takes Client.mu first. Released one at a time, the order is the scheduler's.
func (y *asideYieldClient) Do(ctx context.Context, cmd rueidis.Completed) rueidis.RedisResult {
	id := ""
	if cs := cmd.Commands(); len(cs) >= 2 && cs[0] == "SET" && strings.HasPrefix(cs[1], PlaceholderPrefix) {
		id = strings.Clone(cs[1])
	}
	if sched.TaskID(ctx) == "" && y.sim.Identify != nil {
		// the package releases locks with context.Background(): two Gets of one client doing that at once would park at
		// rueidis' yield points under one and the same identity. Name the calling task (a value-only context keeps a
		// nil Done channel, so rueidis treats it exactly like the original).
		if who := y.sim.Identify(); len(who) > 1 && who[0] == 't' && strings.Trim(who[1:], "0123456789") == "" {
			ctx = sched.WithTask(ctx, who)
		}
	}
	res := y.Client.Do(ctx, cmd)
	if id != "" {
		y.sim.Park("bg|aside.idset|" + id)
	}
	return res
}

func asideKey(i int) string { return fmt.Sprintf("ak%d", i) }

func execAside(t *testing.T, plan any, out *Outcome) {
	p := plan.(*AsidePlan)
	e := newSimEnv(out.Seed, p.Sim, out)
	s := e.sim
	nc := len(p.Clients)
	st := &asideState{connClient: map[int]int{}, dead: make([]atomic.Bool, nc), refused: make([]int, nc), taskCalls: map[int][]AsideCall{}, taskProbe: map[int]bool{}}
	lua := 0
	for _, c := range p.Clients {
		if c.Lua {
			lua++
		}
	}
	out.Config = fmt.Sprintf("cl=%d,lua=%d,keys=%d,gh=%d,flt=%d,death=%v,cut=%v,tight=%v", nc, lua, p.Keys, len(p.Ghosts), len(p.Faults), p.Death != nil, p.Sim.CutProb, p.Tight)
	if p.Tight {
		s.Cfg.W.Tick = 0
	}

	var setupErr error
	rr := e.background("setup", func(ctx context.Context) {
		for ci, cs := range p.Clients {
			ci := ci
			opt := e.option()
			// one pipelined connection per client: with several, rueidis picks the wire of a keyed command through
			// util.FastRand, whose seeded seam hands out values by a global counter, and the liveness refreshes of two
			// clients fire in the same fake instant
			opt.PipelineMultiplex = cs.Multiplex
			opt.RetryDelay = func(attempts int, _ rueidis.Completed, _ error) time.Duration {
				return time.Duration(attempts) * 20 * time.Millisecond // the default draws a jitter from util.FastRand
			}
			opt.DialCtxFn = func(ctx context.Context, dst string, _ *net.Dialer, _ *tls.Config) (net.Conn, error) {
				if st.dead[ci].Load() {
					st.mu.Lock()
					st.refused[ci]++
					st.mu.Unlock()
					return nil, simnet.ErrRefused
				}
				conn, err := s.Net.DialContext(ctx, dst, fmt.Sprintf("cl%d/%s", ci, sched.TaskID(ctx)))
				if c, ok := conn.(*simnet.Conn); ok && err == nil {
					st.mu.Lock()
					st.connClient[c.ID] = ci
					st.mu.Unlock()
				}
				return conn, err
			}
			ca, err := NewClient(ClientOption{
				ClientOption: opt,
				ClientTTL:    time.Duration(cs.ClientTTLMs) * time.Millisecond,
				UseLuaLock:   cs.Lua,
				ClientBuilder: func(o rueidis.ClientOption) (rueidis.Client, error) {
					cl, err := rueidis.NewClient(o)
					if err != nil {
						return nil, err
					}
					e.track(cl)
					st.inner = append(st.inner, cl)
					return &asideYieldClient{Client: cl, sim: s}, nil
				},
			})
			if err != nil {
				setupErr = err
				return
			}
			st.cas = append(st.cas, ca)
		}
	})
	if rr.Reason != "done" || setupErr != nil {
		out.HarnessErr = fmt.Sprintf("setup failed: reason=%s err=%v", rr.Reason, setupErr)
		e.finish()
		return
	}
	base := s.Step

	clientOfTask := map[int]int{}
	addTask := func(name string, calls []AsideCall, probe bool) *sched.Task {
		ti := len(s.Tasks)
		st.taskCalls[ti], st.taskProbe[ti] = calls, probe
		var cs []sched.Call
		for ci, c := range calls {
			ci, c := ci, c
			clientOfTask[ti] = c.Cl
			cs = append(cs, sched.Call{Name: c.Op, Run: func(ctx context.Context, rec *sched.CallRec) any {
				rueidis.VerifNameGoroutine(sched.TaskID(ctx))
				return st.runCall(ctx, s, ti, ci, c, probe)
			}})
		}
		return s.AddTask(name, cs)
	}
	for ti, calls := range p.Tasks {
		if len(calls) == 0 {
			continue
		}
		addTask(fmt.Sprintf("task%d", ti), calls, false)
	}
	for gi, g := range p.Ghosts {
		gi, g := gi, g
		var argv []string
		switch g.Kind {
		case "set":
			argv = []string{"SET", asideKey(g.Key), fmt.Sprintf("gv|k%d|g%d", g.Key, gi), "PX", fmt.Sprint(g.TTLMs)}
		case "del":
			argv = []string{"DEL", asideKey(g.Key)}
		case "lock":
			argv = []string{"SET", asideKey(g.Key), fmt.Sprintf("%sghost%d", PlaceholderPrefix, gi), "PX", fmt.Sprint(g.TTLMs)}
		case "script-flush":
			argv = []string{"SCRIPT", "FLUSH"}
		default:
			out.HarnessErr = "unknown ghost kind " + g.Kind
		}
		s.Ghosts = append(s.Ghosts, &sched.GhostOp{Name: g.Kind + " " + strings.Join(argv, " "), MinStep: base + g.MinStep, Do: func(s *sched.Sim) { s.W.Ghost(e.addr, argv...) }})
	}
	// Connection faults are scheduler events of this scenario rather than sched.Faults: they only strike connections
	// that have finished their handshake and carry traffic. (The teardown of a handshake that fails half-way is not
	// deterministic inside rueidis: whether its clean-up needs a fake millisecond depends on goroutine timing.)
	faultFired := make([]bool, len(p.Faults))
	faultsOff := false
	s.UserEvents = func(s *sched.Sim) []sched.Event {
		if faultsOff {
			return nil
		}
		for fi, f := range p.Faults {
			if faultFired[fi] || s.Step < base+f.AtStep {
				continue
			}
			var el []*sched.Link
			for _, l := range s.LiveLinks() {
				st.mu.Lock()
				ci, known := st.connClient[l.ID]
				st.mu.Unlock()
				if !known || st.dead[ci].Load() || l.S.UserCmds == 0 || l.CutAfter >= 0 {
					continue
				}
				if l.C.PendingWritten() == 0 && len(l.S.Out) == 0 && l.S.PendingInput() == 0 {
					continue
				}
				el = append(el, l)
			}
			if len(el) == 0 {
				return nil // faults fire in plan order
			}
			fi, f, l := fi, f, el[f.Pick%len(el)]
			return []sched.Event{{Kind: "fault", Key: fmt.Sprintf("%s c%d", f.Kind, l.ID), Weight: 1000, Do: func() {
				faultFired[fi] = true
				s.Stats["fault."+f.Kind]++
				switch f.Kind {
				case "reset", "eof":
					s.BreakLink(l, f.Kind, false)
				case "reset-after-exec":
					s.BreakLink(l, "reset", true)
				case "eof-mid-reply":
					if len(l.S.Out) < 2 {
						s.BreakLink(l, "eof", false)
					} else {
						l.CutAfter, l.CutKind = 1+f.Pick%(len(l.S.Out)-1), "eof"
					}
				default:
					out.HarnessErr = "unknown fault kind " + f.Kind
				}
			}}}
		}
		return nil
	}

	taskDead := func(t *sched.Task) bool { return st.dead[clientOfTask[t.ID]].Load() }
	deathAllowed := true
	s.OnStep = func(s *sched.Sim) error {
		// stamp what the model does during the coming step with that step's number (ghost writes and expiry would
		// otherwise carry the previous one)
		s.W.Step = s.Step + 1
		if d := p.Death; d != nil && deathAllowed && st.deathStep == 0 && s.Step >= base+d.AtStep && d.Client < nc {
			if !d.Holding || st.holdsSomething(e, d.Client, p.Keys) {
				st.kill(e, d.Client, taskDead)
				synctest.Wait() // refused dials wake their callers: let them settle before the next event is chosen
			}
		}
		return nil
	}
	done := func() bool {
		for _, t := range s.Tasks {
			if taskDead(t) {
				continue
			}
			if t.Running() != nil || (t.Remaining() > 0 && !t.Hold) {
				return false
			}
		}
		return true
	}
	runUntil := func(done func() bool) string {
		rr := s.Run(done)
		reason := rr.Reason
		if rr.Reason == "stuck" || rr.Reason == "maxsteps" {
			s.Heal()
			faultsOff = true
			s.Cfg.DrainBound = 2 * time.Minute
			completed := func() int {
				n := 0
				for _, t := range s.Tasks {
					n += len(t.Recs)
					if t.Running() != nil {
						n--
					}
				}
				return n
			}
			for round := 0; round < 40; round++ {
				before := completed()
				s.Cfg.MaxSteps = s.Step + 2000
				rr2 := s.Run(done)
				reason = rr.Reason + "+" + rr2.Reason
				if rr2.Reason != "maxsteps" || completed() == before {
					break
				}
				s.Stats["drain.extra-rounds"]++
			}
		}
		return reason
	}
	out.Reason = runUntil(done)

	// ---- probe phase: everything healed, every remaining lock must be releasable ----
	s.Heal()
	faultsOff = true
	for _, g := range s.Ghosts {
		g.Done = true
	}
	deathAllowed = false // a death that has not happened by now does not happen
	quietSince := time.Now()
	maxTTL := time.Duration(0)
	for _, c := range p.Clients {
		if d := time.Duration(c.ClientTTLMs) * time.Millisecond; d > maxTTL {
			maxTTL = d
		}
	}
	mainHung := false
	for _, t := range s.Tasks {
		if !taskDead(t) && t.Running() != nil {
			mainHung = true
		}
	}
	probeFrom := len(s.Tasks)
	if !mainHung {
		s.Cfg.MaxSteps = s.Step + 4000
		until := quietSince.Add(maxTTL + 50*time.Millisecond)
		s.Run(func() bool { return !time.Now().Before(until) })
		for ci := 0; ci < nc; ci++ {
			if st.dead[ci].Load() {
				continue
			}
			var calls []AsideCall
			for k := 0; k < p.Keys; k++ {
				calls = append(calls, AsideCall{Op: "get", Cl: ci, Key: k, TTLMs: int(asideProbeTTL / time.Millisecond), Load: "ok"})
			}
			addTask(fmt.Sprintf("probe%d", ci), calls, true)
		}
		s.Cfg.MaxSteps = s.Step + 6000
		out.Reason += "|probe:" + runUntil(done)
	}
	for _, t := range s.Tasks {
		if rec := t.Running(); rec != nil {
			rec.Hung = true
		}
		t.Hold = true // nothing new starts while the clients are being closed
	}
	snap := st.snapshot(e)

	// ---- shut down: the dead client's connections now fail, so that its goroutines can end ----
	for _, l := range s.Links {
		if ci, ok := st.connClient[l.ID]; ok && st.dead[ci].Load() {
			l.C.FailRead(io.EOF)
			l.C.FailWrite(simnet.ErrPipe)
		}
	}
	s.Heal()
	s.Cfg.MaxSteps = s.Step + 4000
	e.background("settle", func(ctx context.Context) {}) // let what the failing connections woke run before Close starts
	e.background("close", func(ctx context.Context) {
		for _, ca := range st.cas {
			ca.Close()
		}
	})
	e.finish()
	checkAside(e, p, st, snap, probeFrom, quietSince, mainHung)
}

// holdsSomething reports whether some data key currently holds a placeholder written by client ci.
func (st *asideState) holdsSomething(e *simEnv, ci, keys int) bool {
	db := e.node.DBs
	for k := 0; k < keys; k++ {
		v, ok := db.Lookup(asideKey(k))
		if !ok || !strings.HasPrefix(v, PlaceholderPrefix) {
			continue
		}
		// who wrote the liveness key of this placeholder?
		for i := len(db.Mods) - 1; i >= 0; i-- {
			if m := db.Mods[i]; m.Key == v && m.Conn >= 0 {
				st.mu.Lock()
				owner, known := st.connClient[m.Conn]
				st.mu.Unlock()
				if known && owner == ci {
					return true
				}
				break
			}
		}
	}
	return false
}

// kill makes client ci disappear: nothing moves on its connections any more (the client is not told), the server
// forgets them, further dials are refused, its tasks start no further calls.
func (st *asideState) kill(e *simEnv, ci int, taskDead func(*sched.Task) bool) {
	s := e.sim
	st.dead[ci].Store(true)
	st.deathStep, st.deathAt = s.Step, time.Now()
	n := 0
	for _, l := range s.Links {
		st.mu.Lock()
		owner, known := st.connClient[l.ID]
		st.mu.Unlock()
		if !known || owner != ci || l.Dead {
			continue
		}
		l.C.DropWritten()
		l.S.Out = nil
		l.EndedAt, l.EndStep = time.Now(), s.Step
		l.SrvClosed, l.Dead = true, true
		s.W.CloseConn(l.S)
		n++
	}
	for _, t := range s.Tasks {
		if taskDead(t) {
			t.Hold = true
		}
	}
	// a dial of this client that is still waiting for the scheduler's decision must not bring it back
	for _, d := range s.Net.PendingDials() {
		if strings.HasPrefix(d.Tag, fmt.Sprintf("cl%d/", ci)) {
			s.Net.Refuse(d, simnet.ErrRefused)
		}
	}
	s.Stats["fault.client-death"]++
	s.Logf("step %d death of client %d (%d connections)", s.Step, ci, n)
}

func (st *asideState) runCall(ctx context.Context, s *sched.Sim, ti, ci int, c AsideCall, probe bool) *asideRes {
	res := &asideRes{Op: c.Op, Probe: probe}
	ca := st.cas[c.Cl]
	key := asideKey(c.Key)
	if c.Op == "del" {
		res.Err = ca.Del(ctx, key)
		return res
	}
	ninv := 0
	loader := func(lctx context.Context, k string) (string, error) {
		ld := &asideLoad{Task: ti, Call: ci, Client: c.Cl, Key: c.Key, StartStep: s.Step, EndStep: -1, StartAt: time.Now()}
		st.mu.Lock()
		ld.Order = len(st.loads)
		st.loads = append(st.loads, ld)
		st.mu.Unlock()
		res.Loads = append(res.Loads, ld)
		ninv++
		if k != key {
			ld.Err = "loader called with key " + k
		}
		if c.SleepMs > 0 {
			time.Sleep(time.Duration(c.SleepMs) * time.Millisecond)
		}
		if c.OverrideMs > 0 {
			OverrideCacheTTL(lctx, time.Duration(c.OverrideMs)*time.Millisecond)
		}
		var val string
		var err error
		if c.Load == "err" {
			err = fmt.Errorf("loader-fail|k%d|c%d|t%d|i%d|n%d", c.Key, c.Cl, ti, ci, ninv)
			if ld.Err == "" {
				ld.Err = err.Error()
			}
		} else {
			val = fmt.Sprintf("lv|k%d|c%d|t%d|i%d|n%d", c.Key, c.Cl, ti, ci, ninv)
			ld.Val = val
		}
		ld.EndAt = time.Now()
		ld.EndStep = s.Step
		return val, err
	}
	ttl := time.Duration(c.TTLMs) * time.Millisecond
	if c.Typed {
		tc := NewTypedCacheAsideClient[string](ca, func(v *string) (string, error) { return *v, nil }, func(x string) (*string, error) { return &x, nil })
		v, err := tc.Get(ctx, ttl, key, func(lctx context.Context, k string) (*string, error) {
			x, err := loader(lctx, k)
			if err != nil {
				return nil, err
			}
			return &x, nil
		})
		res.Err = err
		if v != nil {
			res.Val, res.HasVal = *v, true
		}
		return res
	}
	res.Val, res.Err = ca.Get(ctx, ttl, key, loader)
	res.HasVal = true
	return res
}

// asideSnap is what the oracle needs from the model, copied before the clients are closed.
type asideSnap struct {
	seq    int
	mods   []fakeredis.Mod
	links  []asideLinkEnd
	ghosts []*sched.GhostOp
}

type asideLinkEnd struct {
	client  int
	endStep int
}

func (st *asideState) snapshot(e *simEnv) *asideSnap {
	sn := &asideSnap{seq: e.sim.W.Seq(), mods: append([]fakeredis.Mod(nil), e.node.DBs.Mods...), ghosts: e.sim.Ghosts}
	for _, l := range e.sim.Links {
		if ci, ok := st.connClient[l.ID]; ok && l.EndStep > 0 {
			sn.links = append(sn.links, asideLinkEnd{ci, l.EndStep})
		}
	}
	return sn
}

// ---- oracle ----

type asideEpoch struct {
	key          string
	ph           string
	ownerConn    int
	owner        int // client, -1 = not a client of this run
	aStep, bStep int // bStep 0 = still in place
	aSeq, bSeq   int
	aAt, bAt     time.Time
	load         *asideLoad // the invocation this acquisition pays for
}

func checkAside(e *simEnv, p *AsidePlan, st *asideState, sn *asideSnap, probeFrom int, quietSince time.Time, mainHung bool) {
	out := e.out
	s := e.sim
	nc := len(p.Clients)
	if out.HarnessErr != "" {
		return
	}
	hist := map[string][]fakeredis.Mod{}
	for _, m := range sn.mods {
		if m.Flush {
			out.HarnessErr = "unexpected flush in the model history"
			return
		}
		hist[m.Key] = append(hist[m.Key], m)
	}
	// presentAtStep: does key exist after everything the model did up to and including step?
	presentAfter := func(key string, step int) bool {
		present := false
		for _, m := range hist[key] {
			if m.Step > step {
				break
			}
			present = m.Present
		}
		return present
	}
	changedIn := func(key string, from, to int) bool {
		for _, m := range hist[key] {
			if m.Step >= from && m.Step <= to {
				return true
			}
		}
		return false
	}
	clientAliveAt := func(ci, step int) bool {
		return ci >= 0 && (!st.dead[ci].Load() || step < st.deathStep)
	}
	healthy := func(ci, from, to int) bool {
		if st.dead[ci].Load() && to >= st.deathStep {
			return false
		}
		for _, l := range sn.links {
			if l.client == ci && l.endStep >= from && l.endStep <= to {
				return false
			}
		}
		return true
	}

	// epochs of every data key
	epochs := map[int][]*asideEpoch{}
	for k := 0; k < p.Keys; k++ {
		var cur *asideEpoch
		for _, m := range hist[asideKey(k)] {
			if cur != nil {
				cur.bStep, cur.bSeq, cur.bAt = m.Step, m.Seq, m.At
				cur = nil
			}
			if m.Present && strings.HasPrefix(m.Str, PlaceholderPrefix) {
				cur = &asideEpoch{key: m.Key, ph: m.Str, ownerConn: m.Conn, owner: -1, aStep: m.Step, aSeq: m.Seq, aAt: m.At}
				if ci, ok := st.connClient[m.Conn]; ok && m.Conn >= 0 {
					cur.owner = ci
				}
				epochs[k] = append(epochs[k], cur)
			}
		}
	}

	// values that may legitimately be returned for a key, with the step from which they exist
	produced := map[string]int{}
	for _, ld := range st.loads {
		if ld.Val != "" && ld.EndStep >= 0 {
			produced[fmt.Sprintf("%d|%s", ld.Key, ld.Val)] = ld.EndStep
		}
	}
	for gi, g := range p.Ghosts {
		if g.Kind == "set" && gi < len(sn.ghosts) && sn.ghosts[gi].Done && sn.ghosts[gi].DoneStep > 0 {
			produced[fmt.Sprintf("%d|gv|k%d|g%d", g.Key, g.Key, gi)] = sn.ghosts[gi].DoneStep
		}
	}

	// collect the Get calls
	type getCall struct {
		ti, ci   int
		c        AsideCall
		rec      *sched.CallRec
		res      *asideRes
		client   int
		probe    bool
	}
	var gets []*getCall
	for _, t := range s.Tasks {
		for _, rec := range t.Recs {
			c := st.taskCalls[t.ID][rec.Index]
			probe := st.taskProbe[t.ID]
			var res *asideRes
			if rec.Done {
				res, _ = rec.Result.(*asideRes)
			}
			where := fmt.Sprintf("%s call %d (client %d, %s %s)", t.Name, rec.Index, c.Cl, c.Op, asideKey(c.Key))
			if rec.Hung || !rec.Done || res == nil {
				if st.dead[c.Cl].Load() {
					out.notJudged("call-of-killed-client-abandoned")
				} else {
					out.violate("C39", "get-never-returned", "%s never returned (started at step %d)", where, rec.StartStep)
				}
				continue
			}
			if c.Op != "get" {
				continue
			}
			gets = append(gets, &getCall{ti: t.ID, ci: rec.Index, c: c, rec: rec, res: res, client: c.Cl, probe: probe})
		}
	}

	// ---- rule 1 and 2: what a Get may return ----
	for _, g := range gets {
		where := fmt.Sprintf("task %d call %d (client %d, key %s)", g.ti, g.ci, g.client, asideKey(g.c.Key))
		if g.res.Err != nil {
			if g.res.HasVal && strings.HasPrefix(g.res.Val, PlaceholderPrefix) {
				out.probe("placeholder-returned-with-error")
			}
			continue
		}
		out.judged("get-returned-value")
		if !g.res.HasVal {
			out.violate("C39", "unattributable-value", "%s: typed Get returned neither a value nor an error", where)
			continue
		}
		if strings.HasPrefix(g.res.Val, PlaceholderPrefix) {
			out.violate("C39", "placeholder-returned", "%s returned the lock placeholder %q (steps %d..%d)", where, g.res.Val, g.rec.StartStep, g.rec.EndStep)
			continue
		}
		from, ok := produced[fmt.Sprintf("%d|%s", g.c.Key, g.res.Val)]
		if !ok || from > g.rec.EndStep {
			out.violate("C39", "unattributable-value", "%s returned %q at step %d: no loader invocation produced it for this key and no other writer stored it there (known from step %d, known=%v)", where, g.res.Val, g.rec.EndStep, from, ok)
			continue
		}
		if len(g.res.Loads) == 0 {
			out.probe("get-served-without-loading")
		}
	}

	// ---- rule 3: load once ----
	getOfLoad := map[*asideLoad]*getCall{}
	for _, g := range gets {
		if len(g.res.Loads) > 1 {
			out.violate("C39", "load-not-once", "task %d call %d ran its loader %d times within one Get", g.ti, g.ci, len(g.res.Loads))
		}
		for _, ld := range g.res.Loads {
			getOfLoad[ld] = g
		}
	}
	loads := append([]*asideLoad(nil), st.loads...)
	sort.SliceStable(loads, func(i, j int) bool {
		if loads[i].StartStep != loads[j].StartStep {
			return loads[i].StartStep < loads[j].StartStep
		}
		if loads[i].Task != loads[j].Task {
			return loads[i].Task < loads[j].Task
		}
		return loads[i].Call < loads[j].Call
	})
	epochOfLoad := map[*asideLoad]*asideEpoch{}
	var unpaid []*asideLoad
	for _, ld := range loads {
		if ld.Err != "" && strings.HasPrefix(ld.Err, "loader called with key") {
			out.violate("C39", "unattributable-value", "loader of task %d call %d: %s", ld.Task, ld.Call, ld.Err)
		}
		g := getOfLoad[ld]
		from := 0
		if g != nil {
			from = g.rec.StartStep
		} else {
			// the Get that ran this loader has not returned (killed client): find its start
			for _, t := range s.Tasks {
				if t.ID == ld.Task {
					for _, rec := range t.Recs {
						if rec.Index == ld.Call {
							from = rec.StartStep
						}
					}
				}
			}
		}
		var paid *asideEpoch
		for _, ep := range epochs[ld.Key] {
			if ep.load == nil && ep.owner == ld.Client && ep.aStep >= from && ep.aStep <= ld.StartStep {
				paid = ep
				break
			}
		}
		if paid != nil {
			paid.load = ld
			epochOfLoad[ld] = paid
			out.judged("load-with-own-lock")
			continue
		}
		unpaid = append(unpaid, ld)
	}
	for _, ld := range unpaid {
		// a loader that ran without a lock of its own: was somebody else's lock in place, its holder alive and loading?
		var held *asideEpoch
		for _, ep := range epochs[ld.Key] {
			if ep.aStep < ld.StartStep && (ep.bStep == 0 || ep.bStep > ld.StartStep) && ep.owner >= 0 && ep.load != nil && ep.load != ld {
				if clientAliveAt(ep.owner, ld.StartStep) && presentAfter(ep.ph, ld.StartStep-1) && presentAfter(ep.ph, ld.StartStep) && !changedIn(ep.ph, ld.StartStep, ld.StartStep) {
					held = ep
				}
			}
		}
		if held == nil {
			out.probe("load-without-own-lock-nobody-holding")
			out.notJudged("load-without-own-lock-nobody-holding")
			continue
		}
		out.violate("C39", "load-not-once", "loader of task %d call %d (client %d) started at step %d for %s without a lock of its own while the placeholder %q of client %d (set at step %d, in place until step %d, holder alive) was in place; that holder's own load is task %d call %d started at step %d",
			ld.Task, ld.Call, ld.Client, ld.StartStep, asideKey(ld.Key), held.ph, held.owner, held.aStep, held.bStep, held.load.Task, held.load.Call, held.load.StartStep)
	}
	// ---- rule 3, second half: a live holder's lock is not taken over (judged in tight-clock runs only) ----
	// the top-level command that caused a modification: the last one received before it
	cmdOf := func(m fakeredis.Mod) string {
		name := ""
		for _, ex := range s.W.Log {
			if ex.Seq > m.Seq {
				break
			}
			if ex.Conn == m.Conn {
				name = strings.ToUpper(ex.Argv[0])
			}
		}
		return name
	}
	everUnhealthyBefore := func(ci, step int) bool {
		if st.dead[ci].Load() && st.deathStep <= step {
			return true
		}
		for _, l := range sn.links {
			if l.client == ci && l.endStep <= step {
				return true
			}
		}
		return false
	}
	// callerDelInFlight: was a Del call of some task on key running, at that step, on the client that owns connection conn?
	// (a removal that no caller asked for was decided by the library itself, whatever command it used)
	callerDelInFlight := func(conn, key, step int) bool {
		cl, known := st.connClient[conn]
		if !known {
			return true // cannot attribute: treat as a caller's
		}
		for _, t := range s.Tasks {
			for _, rec := range t.Recs {
				c := st.taskCalls[t.ID][rec.Index]
				if c.Op == "del" && c.Cl == cl && c.Key == key && rec.StartStep <= step && (rec.EndStep < 0 || step <= rec.EndStep) {
					return true
				}
			}
		}
		return false
	}
	for _, l2 := range loads {
		for _, l1 := range loads {
			ep := epochOfLoad[l1]
			if l1 == l2 || l1.Key != l2.Key || ep == nil || !(l2.StartStep > l1.StartStep) || !(l1.EndStep < 0 || l2.StartStep < l1.EndStep) {
				continue
			}
			// l2 started while l1 was running
			out.probe("two-loaders-ran-concurrently-for-one-key")
			var end *fakeredis.Mod
			for i, m := range hist[ep.key] {
				if m.Seq == ep.bSeq && ep.bSeq != 0 {
					end = &hist[ep.key][i]
				}
			}
			switch {
			case !p.Tight:
				out.notJudged("concurrent-loads-with-loose-clock")
			case everUnhealthyBefore(l1.Client, l2.StartStep):
				out.notJudged("concurrent-loads-holder-lost-a-connection")
			case end == nil || end.Step > l2.StartStep:
				out.notJudged("concurrent-loads-first-lock-still-in-place") // judged by the first half
			case end.Conn < 0 || end.Present:
				out.notJudged("concurrent-loads-lock-removed-by-expiry-or-foreign-writer")
			case !strings.HasPrefix(cmdOf(*end), "EVAL") && callerDelInFlight(end.Conn, l1.Key, end.Step):
				// a task's own Del call on that key was running on that client: the caller asked for the removal
				out.notJudged("concurrent-loads-key-deleted-by-a-caller")
			default:
				taker, known := st.connClient[end.Conn]
				if !known || taker == l1.Client {
					out.notJudged("concurrent-loads-lock-released-by-holder")
					break
				}
				out.judged("takeover-of-live-holders-lock")
				out.violate("C39", "load-not-once", "the loader for %s ran twice at the same time: task %d call %d (client %d) started it at step %d under placeholder %q (set at step %d) and was still running (until step %d) when task %d call %d (client %d) started it at step %d; client %d never lost a connection and was not killed, no reply or request was late in fake time (tight clock), yet client %d removed its placeholder at step %d as if it were dead",
					asideKey(l1.Key), l1.Task, l1.Call, l1.Client, l1.StartStep, ep.ph, ep.aStep, l1.EndStep, l2.Task, l2.Call, l2.Client, l2.StartStep, l1.Client, taker, end.Step)
			}
		}
	}
	// probes about contention
	for _, g := range gets {
		if g.res.Err != nil || len(g.res.Loads) > 0 {
			continue
		}
		for _, ep := range epochs[g.c.Key] {
			if ep.load != nil && ep.load.Val == g.res.Val && g.rec.StartStep < ep.bStep && g.rec.StartStep >= ep.aStep {
				if ep.owner != g.client {
					out.probe("waiter-on-another-client-got-the-result")
				} else {
					out.probe("waiter-on-same-client-got-the-result")
				}
				out.Nontrivial = true
			}
		}
	}

	// ---- timeline of "locked by a live holder" per key, for the stall rule ----
	type span struct {
		from time.Time
		locked bool
	}
	lockedSpans := func(k int) []span {
		key := asideKey(k)
		// merge the modifications of the key and of every placeholder ever stored in it, in model order
		phs := map[string]bool{}
		for _, ep := range epochs[k] {
			phs[ep.ph] = true
		}
		var ms []fakeredis.Mod
		for _, m := range sn.mods {
			if m.Key == key || phs[m.Key] {
				ms = append(ms, m)
			}
		}
		cur := ""
		alive := map[string]bool{}
		var spans []span
		spans = append(spans, span{time.Time{}, false})
		for _, m := range ms {
			if m.Key == key {
				cur = ""
				if m.Present && strings.HasPrefix(m.Str, PlaceholderPrefix) {
					cur = m.Str
				}
			} else {
				alive[m.Key] = m.Present
			}
			locked := cur != "" && alive[cur]
			if locked != spans[len(spans)-1].locked {
				spans = append(spans, span{m.At, locked})
			}
		}
		return spans
	}
	spansOf := map[int][]span{}
	for k := 0; k < p.Keys; k++ {
		spansOf[k] = lockedSpans(k)
	}
	// freeSince: the start of the last span before `at` in which the key was not locked by a live holder, provided it
	// lasts until `at`
	freeSince := func(k int, at time.Time) (time.Time, bool) {
		sp := spansOf[k]
		last := sp[0]
		for _, x := range sp[1:] {
			if x.from.After(at) {
				break
			}
			last = x
		}
		return last.from, !last.locked
	}

	for _, g := range gets {
		where := fmt.Sprintf("task %d call %d (client %d, key %s, ttl %d ms, steps %d..%d)", g.ti, g.ci, g.client, asideKey(g.c.Key), g.c.TTLMs, g.rec.StartStep, g.rec.EndStep)
		ok := healthy(g.client, g.rec.StartStep, g.rec.EndStep)
		err := g.res.Err
		// ---- rule 5: a failed load releases the lock ----
		if err != nil && len(g.res.Loads) == 1 && g.res.Loads[0].Err != "" && err.Error() == g.res.Loads[0].Err {
			out.probe("loader-failed")
			ep := epochOfLoad[g.res.Loads[0]]
			alone := true
			for _, o := range gets {
				if o != g && o.client == g.client && o.c.Key == g.c.Key && o.rec.StartStep <= g.rec.EndStep && o.rec.EndStep >= g.rec.StartStep {
					alone = false
				}
			}
			switch {
			case !ok:
				out.notJudged("failed-load-on-unhealthy-client")
			case ep == nil:
				out.notJudged("failed-load-without-known-lock")
			case !alone:
				out.notJudged("failed-load-overlapping-same-client-get")
			default:
				out.judged("failed-load-release")
				if ep.bStep == 0 || ep.bStep > g.rec.EndStep {
					out.violate("C39", "lock-left-after-failed-load", "%s returned its loader's error %q but the placeholder %q it set at step %d is still stored under the key when it returns (removed at step %d; 0 = never)", where, err, ep.ph, ep.aStep, ep.bStep)
				}
			}
		}
		// ---- rule 4a: no stalling on a free key ----
		if err != nil && (errors.Is(err, context.DeadlineExceeded) || errors.Is(err, context.Canceled)) && len(g.res.Loads) == 0 {
			out.probe("get-gave-up-waiting")
			switch {
			case !ok:
				out.notJudged("gave-up-on-unhealthy-client")
			default:
				since, free := freeSince(g.c.Key, g.rec.EndAt)
				if since.Before(g.rec.StartAt) {
					since = g.rec.StartAt
				}
				out.judged("gave-up-get-on-healthy-client")
				if !free || g.rec.EndAt.Sub(since) < asideStallAllowance {
					out.probe("gave-up-while-locked-by-live-holder-or-freed-late")
				} else {
					out.violate("C39", "get-stalled-on-free-key", "%s gave up with %q at %s although since %s (%.1f s before) the key was not locked by any live holder (it held a value, nothing, or a placeholder without liveness key); it never ran its loader",
						where, err, g.rec.EndAt.Sub(s.Start), since.Sub(s.Start), g.rec.EndAt.Sub(since).Seconds())
				}
			}
		}
		// ---- rule 4b: probes ----
		if g.probe {
			switch {
			case !ok:
				out.notJudged("probe-on-unhealthy-client")
			default:
				// a placeholder of a holder that is still alive when the probe starts is not a dead client's lock
				liveHolder := false
				for _, ep := range epochs[g.c.Key] {
					if ep.aStep <= g.rec.StartStep && (ep.bStep == 0 || ep.bStep > g.rec.StartStep) && presentAfter(ep.ph, g.rec.StartStep) && ep.owner >= 0 {
						liveHolder = true
					}
				}
				if liveHolder && err != nil {
					out.probe("probe-met-live-holder")
					out.notJudged("probe-met-live-holder")
					break
				}
				out.judged("probe-get")
				if err != nil {
					out.violate("C39", "probe-get-failed", "%s: with every fault healed and %v of quiet fake time behind it, the Get failed with %q (loader invocations %d)", where, g.rec.StartAt.Sub(quietSince), err, len(g.res.Loads))
				}
			}
		}
	}

	// ---- reach ----
	for _, c := range p.Clients {
		if c.Lua {
			out.probe("lua-lock-client")
		} else {
			out.probe("setnx-lock-client")
		}
	}
	for k := 0; k < p.Keys; k++ {
		for _, ep := range epochs[k] {
			if ep.owner < 0 {
				if ep.bStep > 0 {
					out.probe("foreign-placeholder-removed")
				}
				continue
			}
			out.probe("lock-taken")
			// released by somebody else while its liveness key was gone
			if ep.bStep > 0 {
				for _, m := range hist[ep.key] {
					if m.Seq == ep.bSeq && m.Conn >= 0 && !m.Present {
						if ci, ok := st.connClient[m.Conn]; ok && ci != ep.owner {
							if st.dead[ep.owner].Load() && m.Step > st.deathStep {
								out.probe("dead-clients-lock-released-by-another-client")
							} else {
								out.probe("lock-released-by-another-client")
							}
						}
					}
				}
			}
			if st.dead[ep.owner].Load() && ep.aStep < st.deathStep && (ep.bStep == 0 || ep.bStep > st.deathStep) {
				out.probe("client-died-holding-a-lock")
			}
		}
	}
	if st.deathStep > 0 {
		out.probe("client-died")
	}
	for _, g := range p.Ghosts {
		if g.Kind == "script-flush" {
			out.probe("script-flush-planned")
		}
	}
	nloads := map[int]map[int]bool{}
	for _, ld := range st.loads {
		if nloads[ld.Key] == nil {
			nloads[ld.Key] = map[int]bool{}
		}
		nloads[ld.Key][ld.Client] = true
	}
	for _, m := range nloads {
		if len(m) >= 2 {
			out.probe("key-loaded-by-two-clients")
		}
	}
	// two Gets of different clients on one key overlapped in time and a loader ran
	for i, a := range gets {
		for _, b := range gets[i+1:] {
			if a.client != b.client && a.c.Key == b.c.Key && a.rec.StartStep <= b.rec.EndStep && b.rec.StartStep <= a.rec.EndStep && len(a.res.Loads)+len(b.res.Loads) > 0 {
				out.probe("gets-of-two-clients-overlapped")
				out.Nontrivial = true
			}
		}
	}
	_ = nc
	_ = mainHung
}
