//go:build verif

package rueidislimiter

// C38: the rate limiter never admits more than the limit per window.
//
// Workload: 2-8 tasks call Allow / AllowN(n in 0..limit+2) / Check on 1-3 limiter instances (each with its own
// rueidis client and connection(s), normally the same key prefix, so identifiers are shared between instances),
// 1-3 identifiers, limits 1..20, windows 50 ms..5 s of fake time crossed by scheduler ticks, optional per-call
// WithCustomRateLimit, ghost SCRIPT FLUSH, and per variant: connection faults ("faults"), context
// deadlines ("deadline"), a server clock offset ("skew"). The real rateLimitScript is interpreted by the model.
//
// Oracle (only what the property text states):
//  (a) over-admission: per (key, ResetAtMs) the n of calls with n>0 that reported Allowed add up to <= the limit;
//  (b) the recorded history of every key is linearizable (porcupine) against the sequential fixed-window counter of
//      limModelStep below: Remaining == max(limit - requested so far in the window incl. this call, 0), Check adds
//      nothing, admitted units of a window <= limit, ResetAtMs names the window the call was counted in: a call can
//      be counted in window W only if it began at or before W, can open a new window only if the previous one is
//      over by the time the call ends, and the window it opens must contain some instant of the call.
// Not demanded (the text does not): that a request which fits IS admitted, what Check's Allowed means, which of the two
// windows a call exactly at the boundary belongs to, monotonic window ids.
// A call that returned an error (or never returned) is not judged; in the model it may or may not have been counted,
// at any time after it began.

import (
	"context"
	"encoding/json"
	"fmt"
	"runtime"
	"runtime/debug"
	"sort"
	"strconv"
	"strings"
	"testing"
	"time"

	"github.com/anishathalye/porcupine"
	"github.com/redis/rueidis"
	"github.com/redis/rueidis/internal/util"

	"verifsim/sched"
)

type LimCall struct {
	Lim       int    `json:"lim"`
	Op        string `json:"op"` // allow | allown | check
	ID        string `json:"id"`
	N         int64  `json:"n"`
	CLimit    int    `json:"climit,omitempty"` // WithCustomRateLimit for this call (0 = the limiter's own limit and window)
	CWindowMs int    `json:"cwindow_ms,omitempty"`
	TimeoutMs int    `json:"timeout_ms,omitempty"`
}

type LimGhost struct {
	MinStep int      `json:"min_step"`
	Argv    []string `json:"argv"`
}

type LimFault struct {
	Kind         string `json:"kind"`
	AtStep       int    `json:"at_step"`
	Pick         int    `json:"pick"`
	DurMs        int    `json:"dur_ms,omitempty"`
	Arg          int    `json:"arg,omitempty"`
	NeedInflight bool   `json:"need_inflight,omitempty"`
}

type LimPlan struct {
	Scenario   string      `json:"scenario"`
	Variant    string      `json:"variant,omitempty"`
	Sim        SimSpec     `json:"sim"`
	TickMs     []int       `json:"tick_ms"`
	Limit      int         `json:"limit"`
	WindowMs   int         `json:"window_ms"`
	Prefixes   []string    `json:"prefixes"` // one limiter instance per entry ("" = the package's default prefix)
	Multiplex  int         `json:"multiplex"`
	ClockOffMs int         `json:"clock_off_ms,omitempty"`
	Tasks      [][]LimCall `json:"tasks"`
	Ghosts     []LimGhost  `json:"ghosts,omitempty"`
	Faults     []LimFault  `json:"faults,omitempty"`
}

const limMaxOpsPerKey = 40
const limMaxStateSet = 256
const limStepBudget = 20000

func init() {
	registerScenario(&scenario{name: "limiter", gen: genLimiter, load: func(b []byte) (any, error) {
		p := &LimPlan{}
		return p, json.Unmarshal(b, p)
	}, exec: execLimiter})
}

var limWindows = []int{50, 80, 200, 500, 1000, 2500, 5000}

func genLimiter(seed uint64, tier, variant string) any {
	r := planRand(seed, 0xC38)
	p := &LimPlan{Scenario: "limiter", Variant: variant}
	p.Limit = 1 + r.IntN(20)
	if r.IntN(4) == 0 {
		p.Limit = 1 + r.IntN(4) // small limits fill up quickly
	}
	p.WindowMs = pick(r, limWindows...)
	ntasks := 2 + r.IntN(7)
	ninst := 1 + r.IntN(3)
	if variant == "faults" {
		// one limiter instance (client, connection) per task: a broken connection then has at most one caller in flight.
		// With several, rueidis fails them from the clean-up loop of the dead pipe, which spins with Gosched (under the
		// simulator: polls once per fake millisecond); who is failed before the first poll is the Go runtime's choice.
		ninst = ntasks
	}
	for i := 0; i < ninst; i++ {
		pre := ""
		if i > 0 && r.IntN(5) == 0 {
			pre = "other" // an instance with its own key space: must not share counters with the others
		}
		p.Prefixes = append(p.Prefixes, pre)
	}
	// one connection per client: with several, rueidis picks the wire of every command with util.FastRand, whose seeded
	// stand-in hands out values in call order, and two callers answered by one delivery (NOSCRIPT, then EVAL) race for it
	p.Multiplex = -1
	w := p.WindowMs
	p.TickMs = []int{1, max(1, w/10), w / 2, w/2 + 1, w, w + 1} // w and w/2 put calls exactly on window boundaries
	p.Sim = SimSpec{CutProb: pick(r, 0.0, 0.3), MaxSteps: 8000, TickWeight: pick(r, 0.3, 0.8, 2.0)}
	ids := []string{"u1", "u2", "u3"}[:1+r.IntN(3)]
	custom := r.IntN(3) == 0
	perKey := map[string]int{}
	for ti := 0; ti < ntasks; ti++ {
		var calls []LimCall
		lim := r.IntN(len(p.Prefixes))
		for ci, n := 0, 2+r.IntN(7); ci < n; ci++ {
			if r.IntN(4) == 0 {
				lim = r.IntN(len(p.Prefixes))
			}
			if variant == "faults" {
				lim = ti
			}
			c := LimCall{Lim: lim, ID: pick(r, ids...)}
			switch x := r.IntN(10); {
			case x < 3:
				c.Op, c.N = "allow", 1
			case x < 5:
				c.Op, c.N = "check", 0
			default:
				c.Op, c.N = "allown", int64(r.IntN(p.Limit+3))
				if r.IntN(3) == 0 {
					c.N = int64(1 + r.IntN(3)) // small requests: many admissions per window
				}
			}
			if custom && r.IntN(4) == 0 {
				c.CLimit = 1 + r.IntN(20)
				c.CWindowMs = pick(r, limWindows...)
				if c.Op == "allown" && r.IntN(2) == 0 {
					c.N = int64(r.IntN(c.CLimit + 3))
				}
			}
			if variant == "deadline" && r.IntN(4) == 0 {
				c.TimeoutMs = pick(r, 1, 5, 30, 200)
			}
			key := p.Prefixes[c.Lim] + "|" + c.ID
			if perKey[key] >= limMaxOpsPerKey {
				continue
			}
			perKey[key]++
			calls = append(calls, c)
		}
		if len(calls) > 0 {
			p.Tasks = append(p.Tasks, calls)
		}
	}
	for i, n := 0, r.IntN(3); i < n; i++ {
		p.Ghosts = append(p.Ghosts, LimGhost{MinStep: r.IntN(200), Argv: []string{"SCRIPT", "FLUSH"}})
	}
	switch variant {
	case "faults":
		for i, n := 0, 1+r.IntN(3); i < n; i++ {
			p.Faults = append(p.Faults, LimFault{Kind: pick(r, "reset", "eof", "reset-after-exec", "eof-mid-reply", "stall"),
				AtStep: r.IntN(250), Pick: r.IntN(4), DurMs: pick(r, 20, w/2+1, w+5, 2*w+1500), Arg: r.IntN(100), NeedInflight: r.IntN(4) != 0})
		}
	case "deadline":
		if r.IntN(2) == 0 {
			p.Faults = append(p.Faults, LimFault{Kind: "stall", AtStep: r.IntN(200), Pick: r.IntN(4), DurMs: pick(r, 20, 300), NeedInflight: true})
		}
	case "skew":
		// the server's clock only matters for the expiry of the keys; "ahead" is kept below half a second (see checks.py)
		p.ClockOffMs = pick(r, -60000, -3000, -400, -50, 50, 400)
	case "skew-ahead":
		p.ClockOffMs = pick(r, 1500, 3000, 10000)
	}
	return p
}

type limResult struct {
	Err string
	Res Result
}

func execLimiter(t *testing.T, plan any, out *Outcome) {
	p := plan.(*LimPlan)
	// (a pool of its own per run: see harness/rueidisprob/scen_prob_test.go, startProb)
	rateBuffersPool = util.NewPool(func(capacity int) *rateBuffersContainer {
		return &rateBuffersContainer{keyBuf: make([]byte, 0, capacity)}
	})
	e := newSimEnv(out.Seed, p.Sim, out)
	s := e.sim
	if len(p.TickMs) > 0 {
		s.Cfg.TickSizes = nil
		for _, ms := range p.TickMs {
			s.Cfg.TickSizes = append(s.Cfg.TickSizes, time.Duration(ms)*time.Millisecond)
		}
	}
	e.node.ClockOff = time.Duration(p.ClockOffMs) * time.Millisecond
	ndl := 0
	for _, calls := range p.Tasks {
		for _, c := range calls {
			if c.TimeoutMs > 0 {
				ndl++
			}
		}
	}
	// AllowN keeps its key and arguments in a buffer from a process-wide sync.Pool. Which buffer a call gets never
	// matters unless a command outlives its call (context ended while the command was still queued, see checks.py), so
	// plans with deadlines pin what sync.Pool's choice depends on: a pool of their own, one P, no collection cycle.
	rateBuffersPool = util.NewPool(func(capacity int) *rateBuffersContainer {
		return &rateBuffersContainer{keyBuf: make([]byte, 0, capacity)}
	})
	if ndl > 0 {
		defer runtime.GOMAXPROCS(runtime.GOMAXPROCS(1))
		defer debug.SetGCPercent(debug.SetGCPercent(-1))
	}
	out.Config = fmt.Sprintf("lims=%d,mx=%d,flt=%d,dl=%v,off=%d,gh=%d", len(p.Prefixes), p.Multiplex, len(p.Faults), ndl > 0, p.ClockOffMs, len(p.Ghosts))
	var lims []RateLimiterClient
	var setupErr error
	rr := e.background("setup", func(ctx context.Context) {
		for _, pre := range p.Prefixes {
			opt := e.option()
			opt.DisableCache = true
			if p.Multiplex > 0 {
				opt.PipelineMultiplex = p.Multiplex
			}
			l, err := NewRateLimiter(RateLimiterOption{ClientOption: opt, KeyPrefix: pre, Limit: p.Limit, Window: time.Duration(p.WindowMs) * time.Millisecond,
				ClientBuilder: func(o rueidis.ClientOption) (rueidis.Client, error) {
					cl, err := rueidis.NewClient(o)
					if err == nil {
						e.track(cl)
					}
					return cl, err
				}})
			if err != nil {
				setupErr = err
				return
			}
			lims = append(lims, l)
		}
	})
	if rr.Reason != "done" || setupErr != nil {
		out.HarnessErr = fmt.Sprintf("setup failed: reason=%s err=%v", rr.Reason, setupErr)
		e.finish()
		return
	}
	base := s.Step
	for ti, calls := range p.Tasks {
		var cs []sched.Call
		for ci, c := range calls {
			c := c
			timeout := time.Duration(c.TimeoutMs) * time.Millisecond
			if timeout > 0 {
				// calls start at the same fake instants; deadlines that expire at one instant would wake their callers as a
				// herd whose order the Go runtime chooses: give every deadline an instant of its own
				timeout += time.Duration(ti*64+ci+1) * time.Microsecond
			}
			cs = append(cs, sched.Call{Name: c.Op, Timeout: timeout, Run: func(ctx context.Context, rec *sched.CallRec) any {
				rueidis.VerifNameGoroutine(sched.TaskID(ctx))
				l := lims[c.Lim%len(lims)]
				var opts []RateLimitOption
				if c.CLimit > 0 {
					opts = append(opts, WithCustomRateLimit(c.CLimit, time.Duration(c.CWindowMs)*time.Millisecond))
				}
				var res Result
				var err error
				switch c.Op {
				case "allow":
					res, err = l.Allow(ctx, c.ID, opts...)
				case "check":
					res, err = l.Check(ctx, c.ID, opts...)
				default:
					res, err = l.AllowN(ctx, c.ID, c.N, opts...)
				}
				lr := &limResult{Res: res}
				if err != nil {
					lr.Err = err.Error()
					if lr.Err == "" {
						lr.Err = "error"
					}
				}
				return lr
			}})
		}
		s.AddTask(fmt.Sprintf("task%d", ti), cs)
	}
	for _, g := range p.Ghosts {
		g := g
		s.Ghosts = append(s.Ghosts, &sched.GhostOp{Name: "cmd " + strings.Join(g.Argv, " "), MinStep: base + g.MinStep, Do: func(s *sched.Sim) { s.W.Ghost(e.addr, g.Argv...) }})
	}
	for _, f := range p.Faults {
		limAddFault(s, f, base)
	}
	e.runTasks()
	// The log hash covers the workload: everything the oracle reads exists at this point. Closing up to eight clients
	// afterwards is not part of it: Close waits for the pipe's background goroutine, whose clean-up loop polls once per
	// fake millisecond under the simulator, and whether a Close needs such a poll depends on the Go runtime.
	workloadHash := s.LogHash()
	e.closeAll(nil)
	e.finish()
	out.LogHash = workloadHash
	checkLimiter(e, p)
}

// limAddFault plans a connection fault as an environment action that picks its victim among connections that have
// finished their handshake and carried workload commands. (sched.Fault would also strike a connection whose HELLO is
// still in flight; how rueidis then tears that half-made connection down - directly, or after its clean-up loop has
// slept - depends on which of its goroutines sees the error first, and the event log with it.)
func limAddFault(s *sched.Sim, f LimFault, base int) {
	tries := 0
	var g *sched.GhostOp
	g = &sched.GhostOp{Name: "fault " + f.Kind, MinStep: base + f.AtStep, Do: func(s *sched.Sim) {
		var el []*sched.Link
		for _, l := range s.LiveLinks() {
			if l.S.UserCmds == 0 || l.CutAfter >= 0 {
				continue
			}
			if f.NeedInflight && l.C.PendingWritten() == 0 && len(l.S.Out) == 0 && l.S.PendingInput() == 0 {
				continue
			}
			el = append(el, l)
		}
		if len(el) == 0 {
			if tries++; tries < 40 {
				g.Done, g.MinStep = false, s.Step+3 // nothing to strike yet: try again a little later
			}
			return
		}
		l := el[f.Pick%len(el)]
		s.Stats["fault."+f.Kind]++
		s.Logf("  fault %s c%d", f.Kind, l.ID)
		switch f.Kind {
		case "reset", "eof":
			s.BreakLink(l, f.Kind, false)
		case "reset-after-exec":
			s.BreakLink(l, "reset", true)
		case "eof-mid-reply":
			if len(l.S.Out) < 2 {
				s.BreakLink(l, "eof", false)
			} else {
				l.CutAfter, l.CutKind = 1+f.Arg%(len(l.S.Out)-1), "eof"
			}
		case "stall":
			until := time.Now().Add(time.Duration(f.DurMs) * time.Millisecond)
			l.StallS2C, l.StallC2S = until, until
		default:
			panic("limiter: unknown fault kind " + f.Kind)
		}
	}}
	s.Ghosts = append(s.Ghosts, g)
}

// ---------------------------------------------------------------------------------------------------- oracle

// limOp is one recorded call.
type limOp struct {
	task, idx          int
	op                 string
	id, key            string
	n, limit, windowMs int64
	startStep, endStep int
	startMs, endMs     int64 // endMs is endless for a call whose effect may come at any later time
	retMs              int64 // when the call returned (-1 = never)
	capR               int64 // the largest limit any call on this key used: counts at or above it are indistinguishable (Remaining 0)
	known              bool  // returned without error: the result is judged
	res                Result
	err                string
}

func (o *limOp) String() string {
	var sb strings.Builder
	fmt.Fprintf(&sb, "t%d#%d %s(%s n=%d limit=%d window=%dms) steps %d..", o.task, o.idx, o.op, o.key, o.n, o.limit, o.windowMs, o.startStep)
	if o.endStep >= 0 {
		fmt.Fprintf(&sb, "%d", o.endStep)
	}
	fmt.Fprintf(&sb, " at %d..", o.startMs)
	if o.retMs >= 0 {
		fmt.Fprintf(&sb, "%d", o.retMs)
	}
	if o.known {
		fmt.Fprintf(&sb, " -> allowed=%v remaining=%d reset=%d", o.res.Allowed, o.res.Remaining, o.res.ResetAtMs)
	} else {
		fmt.Fprintf(&sb, " -> not judged (%s)", o.err)
	}
	return sb.String()
}

// limState is the state of the sequential reference model for one key. Windows are identified by their reset time:
// the counters of a window that has been left are remembered, so a call that is counted in that window again goes on
// from them.
type limState struct {
	W    int64  // id (reset time, ms) of the window counted in last; 0 = none yet; -1 = a window entered by a call whose result is unknown
	R    int64  // units requested so far in that window (admitted or not)
	A    int64  // units admitted so far in that window
	Past string // windows left behind: "id:R:A;" sorted by id, only those with R > 0
}

type limWin struct{ id, r, a int64 }

func limPast(s string) []limWin {
	var ws []limWin
	var w limWin
	f, v := 0, int64(0)
	for i := 0; i < len(s); i++ {
		switch c := s[i]; c {
		case ':', ';':
			switch f {
			case 0:
				w.id = v
			case 1:
				w.r = v
			default:
				w.a = v
			}
			f, v = f+1, 0
			if c == ';' {
				ws = append(ws, w)
				f = 0
			}
		default:
			v = v*10 + int64(c-'0')
		}
	}
	return ws
}

func limPastString(ws []limWin) string {
	sort.Slice(ws, func(i, j int) bool { return ws[i].id < ws[j].id })
	b := make([]byte, 0, 24*len(ws))
	for _, w := range ws {
		b = strconv.AppendInt(b, w.id, 10)
		b = append(b, ':')
		b = strconv.AppendInt(b, w.r, 10)
		b = append(b, ':')
		b = strconv.AppendInt(b, w.a, 10)
		b = append(b, ';')
	}
	return string(b)
}

// leave files the current window of st under Past and takes window id out of it: the counters to go on from.
func (st limState) leave(id int64) (past string, r, a int64, seen bool) {
	var ws []limWin
	for _, w := range limPast(st.Past) {
		if w.id == id {
			r, a, seen = w.r, w.a, true
			continue
		}
		ws = append(ws, w)
	}
	if st.W > 0 && st.R > 0 {
		ws = append(ws, limWin{st.W, st.R, st.A})
	}
	return limPastString(ws), r, a, seen
}

const limEndless = int64(1) << 60

// limModelStep returns the states the fixed-window counter of the property text may be in after o, given that it was
// in st. With lateRestart (used only to name a violation, never to accept a history) a call that was answered after
// the window it reports had ended may find that window's counters at zero again.
func limModelStep(st limState, o *limOp, lateRestart bool) []limState {
	var next []limState
	n := o.n
	// every count >= the largest limit in use on the key reports Remaining 0 and stays so until the window changes:
	// such counts are one state (keeps the sets of states small when many requests are denied)
	sat := func(r int64) int64 {
		if o.capR > 0 && r > o.capR {
			return o.capR
		}
		return r
	}
	if !o.known {
		// the call failed or never returned: it may not have been counted at all, may have been counted in the current
		// window or in one left earlier, or may have entered a window of its own; its caller was told nothing, so
		// nothing was admitted
		next = append(next, st)
		if n > 0 && st.W != 0 && (st.W < 0 || o.startMs <= st.W) {
			next = append(next, limState{st.W, sat(st.R + n), st.A, st.Past})
		}
		for _, w := range limPast(st.Past) {
			if o.startMs <= w.id {
				past, r, a, _ := st.leave(w.id)
				next = append(next, limState{w.id, sat(r + n), a, past})
			}
		}
		past, _, _, _ := st.leave(-1)
		next = append(next, limState{-1, sat(n), 0, past})
		return next
	}
	L, reset := o.limit, o.res.ResetAtMs
	admit := o.res.Allowed && n > 0
	try := func(R, A int64, past string) {
		if o.res.Remaining != max(L-R, 0) {
			return
		}
		if admit {
			A += n
			if A > L {
				return
			}
		}
		next = append(next, limState{reset, sat(R), A, past})
	}
	late := lateRestart && o.endMs > reset
	// counted in the window counted in last: possible only if the call had begun when that window ended
	if st.W != 0 && (st.W == reset || st.W < 0) && o.startMs <= reset {
		try(st.R+n, st.A, st.Past)
		if late && st.W == reset {
			try(n, 0, st.Past)
		}
	}
	// counted in another window: the one counted in last must be over by the time the call ended (a call exactly at
	// the boundary may go either way), and the window [reset-window, reset] must contain an instant of the call
	if st.W != reset && (st.W <= 0 || o.endMs >= st.W) && reset >= o.startMs && reset-o.windowMs <= o.endMs {
		past, r, a, seen := st.leave(reset)
		try(r+n, a, past)
		if late && seen {
			try(n, 0, past)
		}
	}
	return next
}

type limBudget struct {
	left     int
	exceeded bool
}

var limStepsUsed int // model steps spent by the last run's checks (statistics)

func limPorcupineModel(b *limBudget, lateRestart bool) porcupine.Model {
	nm := porcupine.NondeterministicModel{
		Init: func() []interface{} { return []interface{}{limState{}} },
		Step: func(state, input, output interface{}) []interface{} {
			if b.left <= 0 {
				b.exceeded = true
				return nil
			}
			b.left--
			limStepsUsed++
			var out []interface{}
			for _, s := range limModelStep(state.(limState), input.(*limOp), lateRestart) {
				out = append(out, s)
			}
			return out
		},
		Equal: func(a, b interface{}) bool { return a.(limState) == b.(limState) },
		Hash: func(s interface{}) uint64 {
			x := s.(limState)
			h := uint64(x.W)*0x9e3779b97f4a7c15 ^ uint64(x.R)*0xbf58476d1ce4e5b9 ^ uint64(x.A)*0x94d049bb133111eb
			for i := 0; i < len(x.Past); i++ {
				h = (h ^ uint64(x.Past[i])) * 0x100000001b3
			}
			return h
		},
		DescribeOperation: func(in, _ interface{}) string { return in.(*limOp).String() },
		DescribeState:     func(s interface{}) string { return fmt.Sprintf("%+v", s.(limState)) },
	}
	m := nm.ToModel()
	// ToModel works on sets of states; many calls with unknown results make the sets (and their quadratic merging) large:
	// such a history is given up as undecided
	inner := m.StepContext
	m.StepContext = func(ctx context.Context, state, input, output interface{}) (bool, interface{}) {
		ok, ns := inner(ctx, state, input, output)
		if ok && len(ns.([]interface{})) > limMaxStateSet {
			b.exceeded = true
			return false, nil
		}
		return ok, ns
	}
	m.Step = func(state, input, output interface{}) (bool, interface{}) {
		return m.StepContext(context.Background(), state, input, output)
	}
	return m
}

func limHistory(ops []*limOp) []porcupine.Operation {
	var h []porcupine.Operation
	for _, o := range ops {
		// a call returned in the step in which S observed it; it precedes another call only if that one was started in
		// a later step
		ret := int64(2*o.endStep + 1)
		if !o.known {
			ret = limEndless // its effect may come at any later moment (or never)
		}
		h = append(h, porcupine.Operation{ClientId: o.task, Input: o, Call: int64(2 * o.startStep), Output: o, Return: ret})
	}
	return h
}

// limCheckHistory decides whether ops (the calls on one key) are linearizable. verdict: "ok", "illegal", "unknown"
// (budget exceeded). For an illegal history, stuck lists the calls outside the longest linearizable prefix.
//
// porcupine's own timeout is a timer on the clock of the bubble this runs in (fake, and it cannot advance while the
// checker computes), so the search is bounded by a deterministic budget of model steps instead; the timeout argument of
// CheckOperationsTimeout is 0 = no timer.
func limCheckHistory(ops []*limOp, budget int, lateRestart, explain bool) (verdict string, stuck []*limOp) {
	b := &limBudget{left: budget}
	res := porcupine.CheckOperationsTimeout(limPorcupineModel(b, lateRestart), limHistory(ops), 0)
	switch {
	case b.exceeded || res == porcupine.Unknown:
		return "unknown", nil
	case res == porcupine.Ok:
		return "ok", nil
	}
	if !explain {
		return "illegal", nil
	}
	b2 := &limBudget{left: 4 * budget}
	_, info := porcupine.CheckOperationsVerbose(limPorcupineModel(b2, lateRestart), limHistory(ops), 0)
	if !b2.exceeded {
		best := []porcupine.Operation(nil)
		for _, part := range info.PartialLinearizationsOperations() {
			for _, lin := range part {
				if len(lin) > len(best) {
					best = lin
				}
			}
		}
		placed := map[*limOp]bool{}
		for _, x := range best {
			placed[x.Input.(*limOp)] = true
		}
		for _, o := range ops {
			if !placed[o] {
				stuck = append(stuck, o)
			}
		}
	}
	return "illegal", stuck
}

func checkLimiter(e *simEnv, p *LimPlan) {
	out := e.out
	limStepsUsed = 0
	defer func() { out.Stats["oracle.model_steps"] = limStepsUsed }()
	byKey := map[string][]*limOp{}
	var keys []string
	users := map[string]map[int]bool{}
	for ti, t := range e.sim.Tasks {
		for _, rec := range t.Recs {
			c := p.Tasks[ti][rec.Index]
			o := &limOp{task: ti, idx: rec.Index, op: c.Op, id: c.ID, n: c.N, limit: int64(p.Limit), windowMs: int64(p.WindowMs),
				startStep: rec.StartStep, endStep: rec.EndStep, startMs: rec.StartAt.UnixMilli(), endMs: limEndless, retMs: -1}
			switch c.Op {
			case "allow":
				o.n = 1
			case "check":
				o.n = 0
			}
			if c.CLimit > 0 {
				o.limit, o.windowMs = int64(c.CLimit), int64(c.CWindowMs)
				out.probe("custom-rate-limit-used")
			}
			pre := p.Prefixes[c.Lim%len(p.Prefixes)]
			if pre == "" {
				pre = PlaceholderPrefix
			}
			o.key = pre + keyDelimOpen + c.ID + keyDelimClose
			switch {
			case rec.Hung || !rec.Done:
				o.err = "never returned"
				out.notJudged("call-never-returned")
			default:
				lr := rec.Result.(*limResult)
				o.endMs = rec.EndAt.UnixMilli()
				o.retMs = o.endMs
				if lr.Err != "" {
					o.err = lr.Err
					o.endMs = limEndless
					out.notJudged("call-returned-error")
					out.probe("errored-call-possibly-counted")
				} else {
					o.known, o.res = true, lr.Res
				}
			}
			// with a server clock offset the property does not say whose clock ResetAtMs is read on: the instants of a call
			// are widened so that they hold on either clock
			o.startMs += min(0, int64(p.ClockOffMs))
			if o.endMs != limEndless {
				o.endMs += max(0, int64(p.ClockOffMs))
			}
			if _, ok := byKey[o.key]; !ok {
				keys = append(keys, o.key)
				users[o.key] = map[int]bool{}
			}
			byKey[o.key] = append(byKey[o.key], o)
			users[o.key][c.Lim%len(p.Prefixes)] = true
		}
	}
	sort.Strings(keys)
	for _, key := range keys {
		capR := int64(0)
		for _, o := range byKey[key] {
			capR = max(capR, o.limit)
		}
		for _, o := range byKey[key] {
			o.capR = capR
		}
	}
	for _, ex := range e.sim.W.Log {
		if ex.Reply.IsErr() && strings.HasPrefix(ex.Reply.S, "NOSCRIPT") {
			out.probe("noscript-fallback-to-eval")
			break
		}
	}
	for _, key := range keys {
		ops := byKey[key]
		if len(users[key]) > 1 {
			out.probe("identifier-shared-by-limiter-instances")
		}
		// (a) over-admission per window
		type grp struct {
			sum, maxLimit int64
			calls         []*limOp
		}
		groups := map[int64]*grp{}
		var resets []int64
		overlap := false
		for i, o := range ops {
			for _, q := range ops[:i] {
				if q.task != o.task && q.startStep <= o.endStep && o.startStep <= q.endStep {
					overlap = true
				}
			}
			if !o.known {
				continue
			}
			g := groups[o.res.ResetAtMs]
			if g == nil {
				g = &grp{}
				groups[o.res.ResetAtMs] = g
				resets = append(resets, o.res.ResetAtMs)
			}
			if o.n > 0 && o.res.Allowed {
				g.sum += o.n
				g.maxLimit = max(g.maxLimit, o.limit)
				g.calls = append(g.calls, o)
				if o.res.Remaining == 0 {
					out.probe("window-filled-exactly")
				}
			}
			if o.n > 0 && !o.res.Allowed {
				out.probe("request-denied")
				if o.res.Remaining > 0 {
					out.probe("info-denied-with-room-left") // under-admission is not forbidden by the property text
				}
			}
			if o.n == 0 && o.res.Allowed != (o.res.Remaining > 0) {
				out.probe("info-check-allowed-disagrees-with-remaining")
			}
			if o.startMs == o.res.ResetAtMs {
				out.probe("call-exactly-at-window-boundary")
			}
		}
		if overlap {
			out.probe("concurrent-calls-on-one-identifier")
		}
		if len(resets) > 1 {
			out.probe("window-rollover")
		}
		// (b) linearizability against the fixed-window counter
		sorted := append([]*limOp(nil), ops...)
		sort.SliceStable(sorted, func(i, j int) bool { return sorted[i].startStep < sorted[j].startStep })
		verdict := "skipped"
		if len(ops) > limMaxOpsPerKey {
			out.notJudged("history-too-long")
		} else {
			var stuck []*limOp
			verdict, stuck = limCheckHistory(sorted, limStepBudget, false, true)
			switch verdict {
			case "unknown":
				out.notJudged("linearizability-undecided")
			case "ok":
				out.judged("history-linearizable")
				if overlap {
					out.Nontrivial = true
				}
			case "illegal":
				var hs, st []string
				for _, o := range sorted {
					hs = append(hs, o.String())
				}
				for _, o := range stuck {
					st = append(st, fmt.Sprintf("t%d#%d", o.task, o.idx))
				}
				out.Nontrivial = true
				// name the violation: is it explained by a window whose counters were at zero again for a call that was
				// answered after that window had ended?
				rule, what := "not-a-fixed-window-counter", "no sequential order of the calls that respects real time explains the results"
				if v2, _ := limCheckHistory(sorted, 10*limStepBudget, true, false); v2 == "ok" {
					rule, what = "window-restarted-for-late-call", "the results are explained only if a window (same ResetAtMs) started again from zero for a call answered after that window had ended"
				} else if un := limUnattributed(e, key, ops); len(un) > 0 {
					rule, what = "request-nobody-made-was-counted", "the server counted requests on this key that no caller made with these arguments ("+strings.Join(un, ", ")+"), and no sequential order of the calls explains the results"
				}
				out.violate("C38", rule, "key %s, %d calls: %s (demanded: Remaining = limit - units requested so far in the window named by ResetAtMs, Check adds nothing, admitted units per window <= limit); calls outside the longest explainable prefix: %s; history: %s; server: %s",
					key, len(ops), what, strings.Join(st, ","), strings.Join(hs, " ; "), limServerLog(e, key))
			}
		}
		// (a) over-admission per window
		sort.Slice(resets, func(i, j int) bool { return resets[i] < resets[j] })
		for _, r := range resets {
			g := groups[r]
			out.judged("window")
			if g.sum > g.maxLimit {
				var hs []string
				answeredLate, onTime := false, int64(0)
				for _, o := range g.calls {
					hs = append(hs, o.String())
					if o.retMs > r {
						answeredLate = true
					} else {
						onTime += o.n
					}
				}
				// name it: if the calls answered while the window was still open fit the limit, the excess came with calls
				// answered after the window had ended
				rule := "over-admission"
				if answeredLate && onTime <= g.maxLimit {
					rule = "over-admission-by-late-call"
				}
				out.violate("C38", rule, "key %s window reset=%d: admitted units add up to %d > limit %d: %s; server: %s", key, r, g.sum, g.maxLimit, strings.Join(hs, " ; "), limServerLog(e, key))
			}
		}
		_ = verdict
	}
}

// limServerLog renders the executions of the rate-limit script on key as the model saw them (explanation only).
func limServerLog(e *simEnv, key string) string {
	var sb strings.Builder
	n := 0
	for _, ex := range e.sim.W.Log {
		if ex.ScriptRuns == 0 || len(ex.Argv) < 8 || ex.Argv[3] != key {
			continue
		}
		n++
		if n > 60 {
			sb.WriteString("...")
			break
		}
		fmt.Fprintf(&sb, "step %d c%d at %d n=%s now=%s next=%s", ex.Step, ex.Conn, ex.At.UnixMilli(), ex.Argv[5], ex.Argv[7], ex.Argv[6])
		if len(ex.Sub) > 0 && ex.Sub[0].Reply.String() == "nil" {
			sb.WriteString(" (keys absent)")
		}
		fmt.Fprintf(&sb, " -> %s ; ", ex.Reply.String())
	}
	return sb.String()
}

// limUnattributed lists executions of the script on key that match no call on that key by (units, caller's clock at
// the start of the call), counting multiplicities. Used to name a violation, not to find one.
func limUnattributed(e *simEnv, key string, ops []*limOp) []string {
	calls := map[string]int{}
	for _, o := range ops {
		calls[fmt.Sprintf("n=%d now=%d", o.n, o.startMs)]++
	}
	var un []string
	for _, ex := range e.sim.W.Log {
		if ex.ScriptRuns == 0 || len(ex.Argv) < 8 || ex.Argv[3] != key {
			continue
		}
		k := fmt.Sprintf("n=%s now=%s", ex.Argv[5], ex.Argv[7])
		if calls[k] > 0 {
			calls[k]--
			continue
		}
		un = append(un, fmt.Sprintf("step %d c%d %s", ex.Step, ex.Conn, k))
	}
	return un
}
