//go:build verif

package rueidislimiter

// Self-test of the C38 oracle on hand-written histories (run with -test.run TestVerifLimModel): what the reference
// model of scen_limiter_test.go accepts and what it refuses.

import "testing"

type limH struct {
	ops []*limOp
}

// add appends a judged call: task, steps [s0,s1], fake ms [t0,t1], n, limit, window -> allowed, remaining, reset.
func (h *limH) add(task, s0, s1 int, t0, t1, n, limit, window int64, allowed bool, rem, reset int64) *limH {
	op := "allown"
	if n == 0 {
		op = "check"
	}
	h.ops = append(h.ops, &limOp{task: task, idx: len(h.ops), op: op, key: "k", n: n, limit: limit, windowMs: window, startStep: s0, endStep: s1,
		startMs: t0, endMs: t1, retMs: t1, known: true, res: Result{Allowed: allowed, Remaining: rem, ResetAtMs: reset}})
	return h
}

// fail appends a call that returned an error.
func (h *limH) fail(task, s0, s1 int, t0, t1, n, limit, window int64) *limH {
	h.ops = append(h.ops, &limOp{task: task, idx: len(h.ops), op: "allown", key: "k", n: n, limit: limit, windowMs: window, startStep: s0, endStep: s1,
		startMs: t0, endMs: limEndless, retMs: t1, err: "boom"})
	return h
}

func TestVerifLimModel(t *testing.T) {
	const L, W = 5, 100
	cases := []struct {
		name    string
		h       *limH
		strict  string
		relaxed string
	}{
		{"sequential fill, deny, check", (&limH{}).
			add(0, 1, 2, 1000, 1000, 3, L, W, true, 2, 1100).
			add(0, 3, 4, 1000, 1000, 3, L, W, false, 0, 1100).
			add(0, 5, 6, 1010, 1010, 0, L, W, false, 0, 1100), "ok", "ok"},
		{"denied requests count: a later request that would fit alone is refused", (&limH{}).
			add(0, 1, 2, 1000, 1000, 4, L, W, true, 1, 1100).
			add(0, 3, 4, 1000, 1000, 3, L, W, false, 0, 1100).
			add(0, 5, 6, 1000, 1000, 1, L, W, false, 0, 1100), "ok", "ok"},
		{"two admissions of 3 in a window of 5", (&limH{}).
			add(0, 1, 2, 1000, 1000, 3, L, W, true, 2, 1100).
			add(1, 1, 2, 1000, 1000, 3, L, W, true, 2, 1100), "illegal", "illegal"},
		{"admitted although the window is spent (remaining right, decision wrong)", (&limH{}).
			add(0, 1, 2, 1000, 1000, 4, L, W, true, 1, 1100).
			add(0, 3, 4, 1000, 1000, 2, L, W, true, 0, 1100), "illegal", "illegal"},
		{"check that consumed a unit", (&limH{}).
			add(0, 1, 2, 1000, 1000, 1, L, W, true, 4, 1100).
			add(0, 3, 4, 1000, 1000, 0, L, W, true, 4, 1100).
			add(0, 5, 6, 1000, 1000, 0, L, W, true, 3, 1100), "illegal", "illegal"},
		{"allown that counted 1 instead of n", (&limH{}).
			add(0, 1, 2, 1000, 1000, 3, L, W, true, 4, 1100), "illegal", "illegal"},
		{"concurrent calls may take effect in either order", (&limH{}).
			add(0, 1, 10, 1000, 1000, 2, L, W, true, 1, 1100).
			add(1, 2, 4, 1000, 1000, 2, L, W, true, 3, 1100), "ok", "ok"},
		{"but not against real time", (&limH{}).
			add(0, 1, 2, 1000, 1000, 2, L, W, true, 1, 1100).
			add(1, 3, 4, 1000, 1000, 2, L, W, true, 3, 1100), "illegal", "illegal"},
		{"rollover: new window after the old one ended", (&limH{}).
			add(0, 1, 2, 1000, 1000, 5, L, W, true, 0, 1100).
			add(0, 3, 4, 1101, 1101, 5, L, W, true, 0, 1201), "ok", "ok"},
		{"counted in a window that had ended before the call began", (&limH{}).
			add(0, 1, 2, 1000, 1000, 2, L, W, true, 3, 1100).
			add(0, 3, 4, 1150, 1150, 1, L, W, true, 2, 1100), "illegal", "illegal"},
		{"window replaced while it was still open", (&limH{}).
			add(0, 1, 2, 1000, 1000, 5, L, W, true, 0, 1100).
			add(0, 3, 4, 1050, 1050, 5, L, W, true, 0, 1150), "illegal", "illegal"},
		{"window reset without resetting the count", (&limH{}).
			add(0, 1, 2, 1000, 1000, 5, L, W, true, 0, 1100).
			add(0, 3, 4, 1101, 1101, 1, L, W, false, 0, 1201), "illegal", "illegal"},
		{"a call exactly at the boundary may stay in the old window", (&limH{}).
			add(0, 1, 2, 1000, 1000, 2, L, W, true, 3, 1100).
			add(0, 3, 4, 1100, 1100, 1, L, W, true, 2, 1100), "ok", "ok"},
		{"or open the next one", (&limH{}).
			add(0, 1, 2, 1000, 1000, 2, L, W, true, 3, 1100).
			add(0, 3, 4, 1100, 1100, 1, L, W, true, 4, 1200), "ok", "ok"},
		{"reported window does not contain the call", (&limH{}).
			add(0, 1, 2, 1000, 1000, 1, L, W, true, 4, 1300), "illegal", "illegal"},
		{"custom limit of one call is applied to the shared count", (&limH{}).
			add(0, 1, 2, 1000, 1000, 4, L, W, true, 1, 1100).
			add(0, 3, 4, 1000, 1000, 3, 10, W, true, 3, 1100).
			add(0, 5, 6, 1000, 1000, 0, L, W, false, 0, 1100), "ok", "ok"},
		{"failed call may have been counted", (&limH{}).
			fail(1, 1, 2, 1000, 1000, 3, L, W).
			add(0, 3, 4, 1000, 1000, 1, L, W, true, 1, 1100), "ok", "ok"},
		{"or not", (&limH{}).
			fail(1, 1, 2, 1000, 1000, 3, L, W).
			add(0, 3, 4, 1000, 1000, 1, L, W, true, 4, 1100), "ok", "ok"},
		{"even after it returned", (&limH{}).
			add(0, 1, 2, 1000, 1000, 1, L, W, true, 4, 1100).
			fail(1, 3, 4, 1000, 1000, 3, L, W).
			add(0, 5, 6, 1000, 1000, 0, L, W, true, 4, 1100).
			add(0, 7, 8, 1000, 1000, 0, L, W, true, 1, 1100), "ok", "ok"},
		{"but only once and only with its own n", (&limH{}).
			fail(1, 1, 2, 1000, 1000, 3, L, W).
			add(0, 3, 4, 1000, 1000, 1, L, W, true, 0, 1100), "illegal", "illegal"},
		{"a failed check consumes nothing", (&limH{}).
			add(0, 1, 2, 1000, 1000, 1, L, W, true, 4, 1100).
			fail(1, 3, 4, 1000, 1000, 0, L, W).
			add(0, 5, 6, 1000, 1000, 0, L, W, true, 3, 1100), "illegal", "illegal"},
		{"same window started again from zero for a call answered after it had ended (named separately)", (&limH{}).
			add(0, 1, 2, 1000, 1000, 5, L, W, true, 0, 1100).
			add(1, 1, 9, 1000, 2300, 5, L, W, true, 0, 1100), "illegal", "ok"},
		{"same, with other windows in between", (&limH{}).
			add(0, 1, 2, 1000, 1000, 5, L, W, true, 0, 1100).
			add(0, 3, 4, 1200, 1200, 1, L, W, true, 4, 1300).
			add(1, 1, 9, 1000, 2500, 5, L, W, true, 0, 1100), "illegal", "ok"},
		{"a restart inside the window is not excused", (&limH{}).
			add(0, 1, 2, 1000, 1000, 5, L, W, true, 0, 1100).
			add(1, 1, 9, 1000, 1090, 5, L, W, true, 0, 1100), "illegal", "illegal"},
	}
	for _, c := range cases {
		capR := int64(0)
		for _, o := range c.h.ops {
			capR = max(capR, o.limit)
		}
		for _, o := range c.h.ops {
			o.capR = capR
		}
		if v, _ := limCheckHistory(c.h.ops, 100000, false, true); v != c.strict {
			t.Errorf("%s: strict model says %s, want %s", c.name, v, c.strict)
		}
		if v, _ := limCheckHistory(c.h.ops, 100000, true, false); v != c.relaxed {
			t.Errorf("%s: model with late restarts says %s, want %s", c.name, v, c.relaxed)
		}
	}
	// the step budget turns a search that is cut short into "unknown", never into a verdict
	h := &limH{}
	for i := 0; i < 12; i++ {
		h.add(i, 1, 50, 1000, 1000, 1, 100, W, true, int64(99-i), 1100)
	}
	if v, _ := limCheckHistory(h.ops, 5, false, false); v != "unknown" {
		t.Errorf("budget: got %s, want unknown", v)
	}
	if v, _ := limCheckHistory(h.ops, 100000, false, false); v != "ok" {
		t.Errorf("budget (large): got %s, want ok", v)
	}
}
