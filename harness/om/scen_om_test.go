//go:build verif

package om

// C40: object-mapping saves are optimistic and round-trip.
//
// Real code: package om (HashRepository / JSONRepository, their Lua save scripts, conv.go / schema.go) on real rueidis
// clients; the scripts run for real in fakeredis + lualite. 2-6 tasks on 1-2 clients Fetch / FetchCache an entity,
// regenerate every field from a salt (edge values of every supported field type), and Save copies that are based on
// the fetched version (twice from the same fetched copy, chained on the object a previous Save advanced, or from
// scratch), raced by ghost writers (version bump + content change, DEL, SCRIPT FLUSH), reply cuts and connection faults.
//
// Oracle (reference = a versioned register per key, advanced in the order in which the server executed the scripts;
// every Save carries a unique tag, so each script execution in the model's log is attributable to one Save call):
//   (a) a script execution against an existing key succeeds iff the stored version equals the version of the entity
//       passed to Save; Save returns nil exactly when its execution succeeded and ErrVersionMismatch exactly when it
//       was refused; per stored version instance at most one Save returns nil;
//   (b) a successful execution answers base+1, the entity passed to Save carries base+1 afterwards, and the stored
//       record - read back raw after every step that ran a script and decoded with the repository's own decoder -
//       equals the saved entity with version base+1 in every field;
//   (c) Fetch returns an entity equal to a reference state that was current at some step of the call; FetchCache
//       returns an entity equal to some reference state (it may be an older one while the cache is allowed to be
//       stale); once everything is delivered and nothing runs, both return the latest state.
// A Save that ended with a transport error is not judged for its return value; whether it was applied is read from
// the server's log, so the reference allows both.

import (
	"bytes"
	"context"
	"crypto/sha256"
	"encoding/json"
	"errors"
	"fmt"
	"math"
	"math/rand/v2"
	"os"
	"reflect"
	"sort"
	"strconv"
	"strings"
	"sync/atomic"
	"testing"
	"testing/synctest"
	"time"

	"github.com/redis/rueidis"

	"verifsim/fakeredis"
	"verifsim/resp"
	"verifsim/sched"
)

// ---------------------------------------------------------------------------------------------------- entities

type omPoint struct{ X, Y int64 }

func (p omPoint) MarshalJSON() ([]byte, error) {
	return []byte(`"` + strconv.FormatInt(p.X, 10) + ";" + strconv.FormatInt(p.Y, 10) + `"`), nil
}

func (p *omPoint) UnmarshalJSON(b []byte) error {
	var s string
	if err := json.Unmarshal(b, &s); err != nil {
		return err
	}
	xs := strings.Split(s, ";")
	if len(xs) != 2 {
		return fmt.Errorf("omPoint: %q", s)
	}
	var err error
	if p.X, err = strconv.ParseInt(xs[0], 10, 64); err != nil {
		return err
	}
	p.Y, err = strconv.ParseInt(xs[1], 10, 64)
	return err
}

type omNested struct {
	A string           `json:"a"`
	N int64            `json:"n"`
	F float64          `json:"f"`
	B bool             `json:"b"`
	L []string         `json:"l"`
	M map[string]int32 `json:"m"`
	P *string          `json:"p"`
}

// omHashEnt has one field of every type the hash converter accepts (conv.go: string, int64, bool, pointers to
// them, []byte, []float32, []float64, and struct / *struct / []struct through encoding/json).
type omHashEnt struct {
	Key   string          `json:"key" redis:",key"`
	Ver   int64           `json:"ver" redis:",ver"`
	ExAt  time.Time       `json:"exat" redis:",exat"`
	Tag   string          `json:"tag"`
	Str   string          `json:"str"`
	I64   int64           `json:"i64"`
	Bool  bool            `json:"bool"`
	PStr  *string         `json:"pstr"`
	PI64  *int64          `json:"pi64"`
	PBool *bool           `json:"pbool"`
	Bytes []byte          `json:"bytes"`
	Raw   json.RawMessage `json:"raw"`
	V32   []float32       `json:"v32"`
	V64   []float64       `json:"v64"`
	St    omNested        `json:"st"`
	PSt   *omNested       `json:"pst"`
	Sts   []omNested      `json:"sts"`
	Time  time.Time       `json:"time"`
	PTime *time.Time      `json:"ptime"`
	Pt    omPoint         `json:"pt"`
	NoTag string
}

// omJSONEnt has the field types encoding/json round-trips.
type omJSONEnt struct {
	Key   string              `json:"key" redis:",key"`
	Ver   int64               `json:"ver" redis:",ver"`
	ExAt  time.Time           `json:"exat" redis:",exat"`
	Tag   string              `json:"tag"`
	Str   string              `json:"str"`
	I     int                 `json:"i"`
	I8    int8                `json:"i8"`
	I16   int16               `json:"i16"`
	I32   int32               `json:"i32"`
	I64   int64               `json:"i64"`
	U     uint                `json:"u"`
	U8    uint8               `json:"u8"`
	U16   uint16              `json:"u16"`
	U32   uint32              `json:"u32"`
	U64   uint64              `json:"u64"`
	F32   float32             `json:"f32"`
	F64   float64             `json:"f64"`
	Bool  bool                `json:"bool"`
	Bytes []byte              `json:"bytes"`
	Strs  []string            `json:"strs"`
	Ints  []int64             `json:"ints"`
	Flts  []float64           `json:"flts"`
	F32s  []float32           `json:"f32s"`
	Bools []bool              `json:"bools"`
	PStr  *string             `json:"pstr"`
	PI64  *int64              `json:"pi64"`
	PBool *bool               `json:"pbool"`
	PF64  *float64            `json:"pf64"`
	Map   map[string]string   `json:"map"`
	MapSt map[string]omNested `json:"mapst"`
	St    omNested            `json:"st"`
	PSt   *omNested           `json:"pst"`
	Sts   []omNested          `json:"sts"`
	Time  time.Time           `json:"time"`
	PTime *time.Time          `json:"ptime"`
	Pt    omPoint             `json:"pt"`
	Arr   [3]int16            `json:"arr"`
	Omit  string              `json:"omit,omitempty"`
	NoTag string
}

var omTimeType = reflect.TypeOf(time.Time{})
var omPointType = reflect.TypeOf(omPoint{})

// ---------------------------------------------------------------------------------------------------- value generation

type omGenCtx struct {
	r       *rand.Rand
	json    bool // every string must survive encoding/json (valid UTF-8), floats finite, unsigned values <= MaxInt64
	nilMask uint64
	fixNil  bool // nil-ness of top-level pointer fields is fixed for the run by nilMask (no pointer is ever cleared)
}

var omStringsAny = []string{"", "t", "f", "0", "-1", "007", "1e5", " lead and trail ", "a b\r\nc\x00d", "\r\n", `"qA\\"<>&'`, "héllo ☃ \U0001F600   ", "$-1\r\n+OK\r\n", "*2\r\n$3\r\nfoo\r\n", "null", "{}", "[]"}
var omStringsBin = []string{"\xff\xfe\x80bin\x00", "\xc3\x28", "\xed\xa0\x80"}

func (g *omGenCtx) str(utf8only bool) string {
	r := g.r
	switch r.IntN(10) {
	case 0, 1, 2, 3:
		return omStringsAny[r.IntN(len(omStringsAny))]
	case 4:
		if !utf8only {
			return omStringsBin[r.IntN(len(omStringsBin))]
		}
		return "nul\x00in"
	case 5:
		n := pick(r, 64, 500, 1500, 3000)
		b := make([]byte, n)
		for i := range b {
			b[i] = "abcdefghijklmnopqrstuvwxyz0123456789 \r\n"[(i*7+n)%39]
		}
		return string(b)
	}
	n := 1 + r.IntN(12)
	b := make([]byte, n)
	for i := range b {
		b[i] = byte('a' + r.IntN(26))
	}
	return string(b)
}

func (g *omGenCtx) float(bits int, finite bool) float64 {
	r := g.r
	max, tiny := math.MaxFloat64, math.SmallestNonzeroFloat64
	if bits == 32 {
		max, tiny = math.MaxFloat32, math.SmallestNonzeroFloat32
	}
	switch r.IntN(14) {
	case 0:
		return 0
	case 1:
		return math.Copysign(0, -1)
	case 2:
		return max
	case 3:
		return -max
	case 4:
		return tiny
	case 5:
		return 1e21
	case 6:
		return 1e-7
	case 7:
		return 123456789.125
	case 8:
		if !finite {
			return math.NaN()
		}
	case 9:
		if !finite {
			return math.Inf(1 - 2*r.IntN(2))
		}
	case 10:
		return 0.1
	}
	f := (r.Float64() - 0.5) * math.Pow(10, float64(r.IntN(30)-10))
	if bits == 32 {
		f = float64(float32(f))
	}
	return f
}

func (g *omGenCtx) fill(v reflect.Value, depth int) {
	r := g.r
	t := v.Type()
	switch {
	case t == omTimeType:
		v.Set(reflect.ValueOf(pick(r, time.Time{}, time.Unix(0, 0).UTC(), time.Unix(1700000000, 123456789).UTC(), time.Date(9999, 12, 31, 23, 59, 59, 999999999, time.UTC), time.Unix(int64(r.IntN(2000000000)), int64(r.IntN(1000000000))).UTC())))
		return
	case t == omPointType:
		v.Set(reflect.ValueOf(omPoint{X: int64(r.IntN(100)) - 50, Y: pick(r, int64(0), math.MaxInt64, math.MinInt64)}))
		return
	}
	switch t.Kind() {
	case reflect.String:
		v.SetString(g.str(g.json || depth > 1))
	case reflect.Bool:
		v.SetBool(r.IntN(2) == 0)
	case reflect.Int, reflect.Int8, reflect.Int16, reflect.Int32, reflect.Int64:
		bits := t.Bits()
		min, max := int64(-1)<<(bits-1), int64(1)<<(bits-1)-1
		v.SetInt(pick(r, 0, 1, -1, min, max, min+1, max-1, r.Int64()>>(64-bits), int64(r.IntN(1000))))
	case reflect.Uint, reflect.Uint8, reflect.Uint16, reflect.Uint32, reflect.Uint64:
		bits := t.Bits()
		max := uint64(math.MaxInt64) // the model keeps integers above MaxInt64 as floats: not generated
		if bits < 64 {
			max = uint64(1)<<bits - 1
		}
		v.SetUint(pick(r, 0, 1, max, max-1, r.Uint64()%(max/2+1), uint64(r.IntN(1000))))
	case reflect.Float32:
		v.SetFloat(g.float(32, g.json || depth > 1))
	case reflect.Float64:
		v.SetFloat(g.float(64, g.json || depth > 1))
	case reflect.Ptr:
		if r.IntN(3) == 0 {
			v.Set(reflect.Zero(t))
			return
		}
		p := reflect.New(t.Elem())
		g.fill(p.Elem(), depth+1)
		v.Set(p)
	case reflect.Slice:
		if t.Elem().Kind() == reflect.Uint8 {
			switch r.IntN(6) {
			case 0:
				v.Set(reflect.Zero(t))
			case 1:
				v.Set(reflect.MakeSlice(t, 0, 0))
			case 2:
				v.SetBytes([]byte("\r\n\x00\xff$-1\r\n"))
			default:
				b := make([]byte, pick(r, 1, 3, 16, 300, 2000))
				for i := range b {
					b[i] = byte(r.IntN(256))
				}
				v.SetBytes(b)
			}
			return
		}
		switch r.IntN(5) {
		case 0:
			v.Set(reflect.Zero(t))
			return
		case 1:
			v.Set(reflect.MakeSlice(t, 0, 0))
			return
		}
		n := 1 + r.IntN(4)
		s := reflect.MakeSlice(t, n, n)
		for i := 0; i < n; i++ {
			if ek := t.Elem().Kind(); ek == reflect.Float32 || ek == reflect.Float64 {
				// vectors of a hash record are stored bit by bit: NaN and the infinities are legal there
				s.Index(i).SetFloat(g.float(t.Elem().Bits(), g.json || depth > 1))
				continue
			}
			g.fill(s.Index(i), depth+1)
		}
		v.Set(s)
	case reflect.Array:
		for i := 0; i < t.Len(); i++ {
			g.fill(v.Index(i), depth+1)
		}
	case reflect.Map:
		switch r.IntN(5) {
		case 0:
			v.Set(reflect.Zero(t))
			return
		case 1:
			v.Set(reflect.MakeMap(t))
			return
		}
		m := reflect.MakeMap(t)
		for i, n := 0, 1+r.IntN(3); i < n; i++ {
			k := reflect.New(t.Key()).Elem()
			k.SetString(pick(r, "", "k", "a b", "é", "k\"q", "x.y", "$") + strconv.Itoa(i))
			e := reflect.New(t.Elem()).Elem()
			g.fill(e, depth+1)
			m.SetMapIndex(k, e)
		}
		v.Set(m)
	case reflect.Struct:
		for i := 0; i < t.NumField(); i++ {
			if !t.Field(i).IsExported() {
				continue
			}
			if depth == 0 {
				switch t.Field(i).Name {
				case "Key", "Ver", "Tag":
					continue
				case "ExAt":
					// zero (expiry untouched) or far beyond the simulated time: exercises the trailing-argument branch
					if r.IntN(2) == 0 {
						v.Field(i).Set(reflect.ValueOf(time.Time{}))
					} else {
						v.Field(i).Set(reflect.ValueOf(time.Date(2100, 1, 1, 0, 0, r.IntN(100000), 1000000*r.IntN(1000), time.UTC)))
					}
					continue
				}
				if g.fixNil && t.Field(i).Type.Kind() == reflect.Ptr && t.Field(i).Type.Elem().Kind() != reflect.Struct {
					if g.nilMask>>(uint(i)%64)&1 == 1 {
						v.Field(i).Set(reflect.Zero(t.Field(i).Type))
					} else {
						p := reflect.New(t.Field(i).Type.Elem())
						g.fill(p.Elem(), depth+2)
						v.Field(i).Set(p)
					}
					continue
				}
			}
			g.fill(v.Field(i), depth+1)
		}
	default:
		panic("omGen: unsupported kind " + t.Kind().String())
	}
}

// omClone makes a deep copy (nothing of the copy shares memory with the original).
func omClone(v reflect.Value) reflect.Value {
	out := reflect.New(v.Type()).Elem()
	omCopyInto(out, v)
	return out
}

func omCopyInto(dst, src reflect.Value) {
	switch src.Kind() {
	case reflect.Ptr:
		if src.IsNil() {
			return
		}
		p := reflect.New(src.Type().Elem())
		omCopyInto(p.Elem(), src.Elem())
		dst.Set(p)
	case reflect.Slice:
		if src.IsNil() {
			return
		}
		s := reflect.MakeSlice(src.Type(), src.Len(), src.Len())
		for i := 0; i < src.Len(); i++ {
			omCopyInto(s.Index(i), src.Index(i))
		}
		dst.Set(s)
	case reflect.Array:
		for i := 0; i < src.Len(); i++ {
			omCopyInto(dst.Index(i), src.Index(i))
		}
	case reflect.Map:
		if src.IsNil() {
			return
		}
		m := reflect.MakeMapWithSize(src.Type(), src.Len())
		it := src.MapRange()
		for it.Next() {
			e := reflect.New(src.Type().Elem()).Elem()
			omCopyInto(e, it.Value())
			m.SetMapIndex(it.Key(), e)
		}
		dst.Set(m)
	case reflect.Struct:
		if src.Type() == omTimeType {
			dst.Set(src)
			return
		}
		for i := 0; i < src.NumField(); i++ {
			if src.Type().Field(i).IsExported() {
				omCopyInto(dst.Field(i), src.Field(i))
			}
		}
	default:
		dst.Set(src)
	}
}

type omDiffEntry struct {
	Path, What string
	PtrNilWant bool // a top-level pointer field: nil in the wanted entity, non-nil in the other
}

func omShort(v reflect.Value) string {
	if !v.IsValid() {
		return "<invalid>"
	}
	if (v.Kind() == reflect.Ptr || v.Kind() == reflect.Slice || v.Kind() == reflect.Map) && v.IsNil() {
		return "nil"
	}
	for v.Kind() == reflect.Ptr {
		v = v.Elem()
	}
	s := fmt.Sprintf("%#v", v.Interface())
	if len(s) > 90 {
		s = s[:90] + "..."
	}
	return s
}

// omDiff lists the differences between the wanted entity and the one obtained. Floats are equal when their bits are
// equal or they compare equal (a NaN only equals the same NaN); times are compared with Equal; nil and empty are
// different except where lenientEmpty says otherwise (top-level byte / float slices of a hash record: a hash field
// cannot tell them apart and the package does not say which one comes back).
func omDiff(want, got reflect.Value, path string, depth int, lenientEmpty bool, out *[]omDiffEntry) {
	add := func(what string) *omDiffEntry {
		if len(*out) < 8 {
			*out = append(*out, omDiffEntry{Path: path, What: what})
			return &(*out)[len(*out)-1]
		}
		return &omDiffEntry{}
	}
	switch want.Kind() {
	case reflect.Ptr:
		if want.IsNil() || got.IsNil() {
			if want.IsNil() != got.IsNil() {
				d := add(fmt.Sprintf("saved %s, fetched %s", omShort(want), omShort(got)))
				d.PtrNilWant = depth == 1 && want.IsNil() && want.Type().Elem().Kind() != reflect.Struct
			}
			return
		}
		omDiff(want.Elem(), got.Elem(), path, depth+1, false, out)
	case reflect.Struct:
		if want.Type() == omTimeType {
			if !want.Interface().(time.Time).Equal(got.Interface().(time.Time)) {
				add(fmt.Sprintf("saved %v, fetched %v", want.Interface(), got.Interface()))
			}
			return
		}
		for i := 0; i < want.NumField(); i++ {
			f := want.Type().Field(i)
			if !f.IsExported() {
				continue
			}
			omDiff(want.Field(i), got.Field(i), path+"."+f.Name, depth+1, lenientEmpty, out)
		}
	case reflect.Slice:
		ek := want.Type().Elem().Kind()
		lenient := lenientEmpty && depth == 1 && (ek == reflect.Uint8 || ek == reflect.Float32 || ek == reflect.Float64)
		if want.Len() == 0 && got.Len() == 0 {
			if want.IsNil() != got.IsNil() && !lenient {
				add(fmt.Sprintf("saved %s, fetched %s (nil vs empty)", omShort(want), omShort(got)))
			}
			return
		}
		if want.Len() != got.Len() {
			add(fmt.Sprintf("saved %d elements, fetched %d", want.Len(), got.Len()))
			return
		}
		if ek == reflect.Uint8 {
			if !bytes.Equal(want.Bytes(), got.Bytes()) {
				add(fmt.Sprintf("saved %q, fetched %q", omTrunc(want.Bytes()), omTrunc(got.Bytes())))
			}
			return
		}
		for i := 0; i < want.Len(); i++ {
			omDiff(want.Index(i), got.Index(i), fmt.Sprintf("%s[%d]", path, i), depth+1, false, out)
		}
	case reflect.Array:
		for i := 0; i < want.Len(); i++ {
			omDiff(want.Index(i), got.Index(i), fmt.Sprintf("%s[%d]", path, i), depth+1, false, out)
		}
	case reflect.Map:
		if want.Len() == 0 && got.Len() == 0 {
			if want.IsNil() != got.IsNil() {
				add(fmt.Sprintf("saved %s, fetched %s (nil vs empty)", omShort(want), omShort(got)))
			}
			return
		}
		if want.Len() != got.Len() {
			add(fmt.Sprintf("saved %d entries, fetched %d", want.Len(), got.Len()))
			return
		}
		keys := want.MapKeys()
		sort.Slice(keys, func(i, j int) bool { return keys[i].String() < keys[j].String() })
		for _, k := range keys {
			g := got.MapIndex(k)
			if !g.IsValid() {
				add(fmt.Sprintf("key %q missing", k.String()))
				continue
			}
			omDiff(want.MapIndex(k), g, fmt.Sprintf("%s[%q]", path, k.String()), depth+1, false, out)
		}
	case reflect.Float32, reflect.Float64:
		a, b := want.Float(), got.Float()
		if math.Float64bits(a) != math.Float64bits(b) && a != b {
			add(fmt.Sprintf("saved %v, fetched %v", a, b))
		}
	case reflect.String:
		if want.String() != got.String() {
			add(fmt.Sprintf("saved %q, fetched %q", omTrunc([]byte(want.String())), omTrunc([]byte(got.String()))))
		}
	case reflect.Bool:
		if want.Bool() != got.Bool() {
			add(fmt.Sprintf("saved %v, fetched %v", want.Bool(), got.Bool()))
		}
	case reflect.Int, reflect.Int8, reflect.Int16, reflect.Int32, reflect.Int64:
		if want.Int() != got.Int() {
			add(fmt.Sprintf("saved %d, fetched %d", want.Int(), got.Int()))
		}
	case reflect.Uint, reflect.Uint8, reflect.Uint16, reflect.Uint32, reflect.Uint64:
		if want.Uint() != got.Uint() {
			add(fmt.Sprintf("saved %d, fetched %d", want.Uint(), got.Uint()))
		}
	default:
		panic("omDiff: unsupported kind " + want.Kind().String())
	}
}

func omTrunc(b []byte) string {
	if len(b) > 40 {
		return string(b[:40]) + fmt.Sprintf("...(%d bytes)", len(b))
	}
	return string(b)
}

func omDiffs(want, got reflect.Value, lenientEmpty bool) []omDiffEntry {
	var out []omDiffEntry
	omDiff(want, got, "", 0, lenientEmpty, &out)
	return out
}

func omDiffText(ds []omDiffEntry) string {
	var xs []string
	for _, d := range ds {
		xs = append(xs, strings.TrimPrefix(d.Path, ".")+": "+d.What)
	}
	return strings.Join(xs, "; ")
}

// ---------------------------------------------------------------------------------------------------- repository adaptor

type omRepo interface {
	fetch(ctx context.Context, id string) (reflect.Value, error) // the struct value behind the returned pointer
	fetchCache(ctx context.Context, id string, ttl time.Duration) (reflect.Value, error)
	save(ctx context.Context, ent reflect.Value) error // ent: addressable struct value
	newEnt() reflect.Value
	decodeRaw(raw resp.Value) (ent reflect.Value, exists bool, err error)
	readCmd(key string) []string
}

type omAd[T any] struct {
	r    Repository[T]
	hash bool
}

func omElem[T any](v *T, err error) (reflect.Value, error) {
	if v == nil {
		return reflect.Value{}, err
	}
	return reflect.ValueOf(v).Elem(), err
}

func (a *omAd[T]) fetch(ctx context.Context, id string) (reflect.Value, error) {
	return omElem(a.r.Fetch(ctx, id))
}
func (a *omAd[T]) fetchCache(ctx context.Context, id string, ttl time.Duration) (reflect.Value, error) {
	return omElem(a.r.FetchCache(ctx, id, ttl))
}
func (a *omAd[T]) save(ctx context.Context, ent reflect.Value) error {
	return a.r.Save(ctx, ent.Addr().Interface().(*T))
}
func (a *omAd[T]) newEnt() reflect.Value { return reflect.ValueOf(new(T)).Elem() }
func (a *omAd[T]) readCmd(key string) []string {
	if a.hash {
		return []string{"HGETALL", key}
	}
	return []string{"JSON.GET", key, "."}
}

// decodeRaw turns the raw reply of readCmd (as another client sees the record) into an entity with the repository's
// own decoder, i.e. the code Fetch runs on a reply.
func (a *omAd[T]) decodeRaw(raw resp.Value) (reflect.Value, bool, error) {
	if raw.IsErr() {
		return reflect.Value{}, false, errors.New(raw.S)
	}
	if a.hash {
		if len(raw.A) == 0 {
			return reflect.Value{}, false, nil
		}
		m := make(map[string]string, len(raw.A)/2)
		for i := 0; i+1 < len(raw.A); i += 2 {
			m[raw.A[i].S] = raw.A[i+1].S
		}
		v, err := a.r.(*HashRepository[T]).fromHash(m)
		if err != nil {
			return reflect.Value{}, true, err
		}
		return reflect.ValueOf(v).Elem(), true, nil
	}
	if raw.T == '_' || raw.Null {
		return reflect.Value{}, false, nil
	}
	v, err := a.r.(*JSONRepository[T]).decode(raw.S)
	if err != nil {
		return reflect.Value{}, true, err
	}
	return reflect.ValueOf(v).Elem(), true, nil
}

const omPrefix = "ent"

func omNewRepo(kind string, cl rueidis.Client) omRepo {
	if kind == "hash" {
		return &omAd[omHashEnt]{r: NewHashRepository(omPrefix, omHashEnt{}, cl), hash: true}
	}
	return &omAd[omJSONEnt]{r: NewJSONRepository(omPrefix, omJSONEnt{}, cl)}
}

func omVer(ent reflect.Value) int64        { return ent.FieldByName("Ver").Int() }
func omTag(ent reflect.Value) string       { return ent.FieldByName("Tag").String() }
func omSetVer(ent reflect.Value, v int64)  { ent.FieldByName("Ver").SetInt(v) }
func omSetTag(ent reflect.Value, s string) { ent.FieldByName("Tag").SetString(s) }

// ---------------------------------------------------------------------------------------------------- plan

type OmCall struct {
	K     string `json:"k"` // fetch | fetchc | save | scribble
	E     int    `json:"e"`
	Salt  uint64 `json:"salt,omitempty"`
	Base  string `json:"base,omitempty"` // save: fetched (a copy of the entity last fetched) | last (the object the previous Save got) | new
	TTLms int    `json:"ttl_ms,omitempty"`
}

type OmGhost struct {
	MinStep int    `json:"min_step"`
	Kind    string `json:"kind"` // bump | del | flush
	E       int    `json:"e"`
	Inc     int    `json:"inc,omitempty"`
}

type OmFault struct {
	Kind   string `json:"kind"`
	AtStep int    `json:"at_step"`
	Pick   int    `json:"pick"`
}

type OmPlan struct {
	Scenario   string     `json:"scenario"`
	Repo       string     `json:"repo"` // hash | json
	Sim        SimSpec    `json:"sim"`
	Clients    int        `json:"clients"`
	Cache      bool       `json:"cache"`
	RESP2      bool       `json:"resp2,omitempty"`
	Ents       int        `json:"ents"`
	Init       []uint64   `json:"init"`                // per entity: 0 = does not exist at the start, else the salt of its first version
	InitVer    []int64    `json:"init_ver"`            // version field of the entity passed to the first Save
	ClearPtr   bool       `json:"clear_ptr,omitempty"` // hash: top-level pointer fields may go from a value back to nil
	NilMask    uint64     `json:"nil_mask,omitempty"`
	TaskClient []int      `json:"task_client"`
	Tasks      [][]OmCall `json:"tasks"`
	Ghosts     []OmGhost  `json:"ghosts,omitempty"`
	Faults     []OmFault  `json:"faults,omitempty"`
	NoFinal    bool       `json:"no_final,omitempty"`
	Alias      bool       `json:"alias,omitempty"` // some callers edit the byte slices of a fetched entity in place (call kind "scribble")
	// Queue is the command queue of the clients: "" (ring) or "flowbuffer". Plans with connection faults use the flow
	// buffer: when a connection with several queued callers dies, the writer loop and the clean-up loop of the ring
	// contend for slot locks, and whether one of them has to wait (a scheduler-granted lock = an event) is decided by
	// the Go runtime. The queue is not what this scenario is about.
	Queue string `json:"queue,omitempty"`
}

func init() {
	registerScenario(&scenario{name: "om", gen: genOm, load: func(b []byte) (any, error) {
		p := &OmPlan{}
		return p, json.Unmarshal(b, p)
	}, exec: execOm})
}

// variants: "" (mixed), "hash", "json" force the repository; suffixes ",nofault" ",fault" ",clearptr" ",bigver" ",alias"
func genOm(seed uint64, tier, variant string) any {
	r := planRand(seed, 0xC40)
	has := func(s string) bool {
		for _, x := range strings.Split(variant, ",") {
			if x == s {
				return true
			}
		}
		return false
	}
	p := &OmPlan{Scenario: "om", Repo: pick(r, "hash", "json"), Clients: pick(r, 1, 1, 2), Ents: pick(r, 1, 1, 1, 2)}
	if has("hash") {
		p.Repo = "hash"
	}
	if has("json") {
		p.Repo = "json"
	}
	p.Cache = r.IntN(4) != 0
	p.RESP2 = !p.Cache && r.IntN(2) == 0
	p.Sim = SimSpec{CutProb: pick(r, 0.0, 0.3, 0.8), MaxSteps: 8000, TickWeight: pick(r, 0.05, 0.3), NoPayloadHash: p.Repo == "hash"}
	p.NilMask = r.Uint64()
	p.ClearPtr = has("clearptr")
	p.Queue = pick(r, "", "", "flowbuffer")
	for i := 0; i < p.Ents; i++ {
		if r.IntN(4) != 0 {
			p.Init = append(p.Init, 1+r.Uint64()>>1)
		} else {
			p.Init = append(p.Init, 0)
		}
		v := pick(r, int64(0), 0, 0, 1, 41, math.MaxInt32, math.MaxUint32, 99999999999990)
		if has("bigver") {
			v = pick(r, int64(99999999999998), 1<<53-2, math.MaxInt64-3)
			p.Init[i] |= 1
		}
		p.InitVer = append(p.InitVer, v)
	}
	ntasks := 2 + r.IntN(5)
	for ti := 0; ti < ntasks; ti++ {
		p.TaskClient = append(p.TaskClient, r.IntN(p.Clients))
		var calls []OmCall
		n := 2 + r.IntN(5)
		for ci := 0; ci < n; ci++ {
			c := OmCall{E: r.IntN(p.Ents), Salt: 1 + r.Uint64()>>1}
			x := r.IntN(10)
			if ci == 0 && r.IntN(4) != 0 {
				x = r.IntN(5) // mostly begin by fetching
			}
			switch {
			case x < 3:
				c.K = "fetch"
			case x < 5:
				c.K, c.TTLms = "fetchc", pick(r, 50, 1000, 10000, 60000)
			default:
				c.K, c.Base = "save", pick(r, "fetched", "fetched", "fetched", "last", "last", "new")
			}
			if has("alias") && r.IntN(5) == 0 {
				c.K, p.Alias = "scribble", true
			}
			calls = append(calls, c)
		}
		p.Tasks = append(p.Tasks, calls)
	}
	for i, n := 0, r.IntN(4); i < n; i++ {
		p.Ghosts = append(p.Ghosts, OmGhost{MinStep: r.IntN(150), Kind: pick(r, "bump", "bump", "bump", "flush", "flush", "del"), E: r.IntN(p.Ents), Inc: pick(r, 1, 1, 2)})
	}
	if (r.IntN(3) == 0 || has("fault")) && !has("nofault") {
		for i, n := 0, 1+r.IntN(2); i < n; i++ {
			p.Queue = "flowbuffer"
			p.Faults = append(p.Faults, OmFault{Kind: pick(r, "reset", "eof", "reset-after-exec", "reset-after-exec", "eof-mid-reply", "stall", "node-restart"), AtStep: r.IntN(150), Pick: r.IntN(4)})
		}
	}
	return p
}

// ---------------------------------------------------------------------------------------------------- execution

type omSaveRec struct {
	who     string
	ent     int
	tag     string
	base    int64         // version field of the entity when Save was called
	baseHow string        // fetched | last | new
	pre     reflect.Value // deep copy of the entity as passed to Save
	err     error
	post    int64 // version field of the entity after Save returned
	done    atomic.Bool
	faulty  bool
	execs   []*fakeredis.Exec // script executions attributed to this call
	epochs  []int             // index of the reference state each execution ran against
}

type omFetchRec struct {
	who   string
	ent   int
	cache bool
	ttl   time.Duration
	final bool
	got   reflect.Value // deep copy of what the call returned (invalid when err != nil)
	err   error
	done  atomic.Bool
	rec   *sched.CallRec
}

type omState struct {
	seq, step int
	exists    bool
	ent       reflect.Value
	by        string
	execs     int      // script executions that ran against this state
	winners   []string // Save calls that returned nil and whose execution ran against this state
}

func (st *omState) desc() string {
	if !st.exists {
		return "absent (by " + st.by + ")"
	}
	return fmt.Sprintf("version %d by %s", omVer(st.ent), st.by)
}

type omSnap struct {
	seq, step, ent int
	raw            resp.Value
}

type omTaskState struct {
	fetched []reflect.Value // per entity: what the last successful fetch returned (the very object)
	last    []reflect.Value // per entity: the object passed to the last Save
}

type omRun struct {
	p           *OmPlan
	e           *simEnv
	repos       []omRepo
	logSeen     int
	ghostDirty  bool
	snaps       []omSnap
	inits       []*omSaveRec
	faultBase   int
	faultFired  []bool
	faultsFired int
	downUntil   time.Time
	healed      bool
}

func omID(i int) string                { return pick2(i, "e0", "id:1 x") }
func omKey(i int) string               { return omPrefix + ":" + omID(i) }
func pick2(i int, xs ...string) string { return xs[i%len(xs)] }

func omIsNil(v resp.Value) bool { return v.T == '_' || v.Null }

func omCanonArgs(argv []string) string {
	if len(argv) < 4 {
		return strings.Join(argv, " ")
	}
	rest := append([]string(nil), argv[4:]...)
	sort.Strings(rest)
	h := sha256.New()
	for _, a := range rest {
		fmt.Fprintf(h, "%d:%s,", len(a), a)
	}
	return fmt.Sprintf("%s %x", argv[3], h.Sum(nil)[:6])
}

func (x *omRun) mutate(ent reflect.Value, salt uint64, tag string) {
	g := &omGenCtx{r: rand.New(rand.NewPCG(salt, 0x0C40)), json: x.p.Repo == "json", nilMask: x.p.NilMask, fixNil: x.p.Repo == "hash" && !x.p.ClearPtr}
	g.fill(ent, 0)
	omSetTag(ent, tag)
}

func (x *omRun) doSave(ctx context.Context, repo omRepo, who string, ei int, ent reflect.Value, how string, salt uint64, rec *sched.CallRec) *omSaveRec {
	tag := fmt.Sprintf("%s.%x", who, salt&0xffff)
	x.mutate(ent, salt, tag)
	sr := &omSaveRec{who: who, ent: ei, tag: tag, base: omVer(ent), baseHow: how, pre: omClone(ent), faulty: len(x.p.Faults) > 0}
	if rec != nil {
		rec.Notes = map[string]any{"save": sr}
	}
	sr.err = repo.save(ctx, ent)
	sr.post = omVer(ent)
	sr.done.Store(true)
	return sr
}

func execOm(t *testing.T, plan any, out *Outcome) {
	p := plan.(*OmPlan)
	e := newSimEnv(out.Seed, p.Sim, out)
	s := e.sim
	rueidis.VerifCleanupSpinBudget(omSpinBudget())
	rueidis.VerifQueueType(p.Queue)
	x := &omRun{p: p, e: e}
	out.Config = fmt.Sprintf("repo=%s,cl=%d,cache=%v,resp2=%v,ents=%d,flt=%d,clr=%v,q=%s", p.Repo, p.Clients, p.Cache, p.RESP2, p.Ents, len(p.Faults), p.ClearPtr, p.Queue)
	var setupErr error
	rr := e.background("setup", func(ctx context.Context) {
		for i := 0; i < p.Clients; i++ {
			opt := e.option()
			opt.DisableCache = !p.Cache
			opt.AlwaysRESP2 = p.RESP2
			// the default back-off draws its jitter from util.FastRand; two callers woken by the same connection loss would
			// race for the seam's counter, so the delay is a plain function of the attempt here
			opt.RetryDelay = func(attempts int, _ rueidis.Completed, _ error) time.Duration {
				return time.Duration(attempts+1) * 20 * time.Millisecond
			}
			cl, err := rueidis.NewClient(opt)
			if err != nil {
				setupErr = err
				return
			}
			e.track(cl)
			x.repos = append(x.repos, omNewRepo(p.Repo, cl))
		}
	})
	if rr.Reason != "done" || setupErr != nil {
		out.HarnessErr = fmt.Sprintf("setup failed: reason=%s err=%v", rr.Reason, setupErr)
		e.finish()
		return
	}
	x.logSeen = len(s.W.Log)
	x.faultBase, x.faultFired = 1<<60, make([]bool, len(p.Faults)) // no faults before the workload starts
	s.OnStep = func(s *sched.Sim) error {
		w := s.W
		x.fireFaults(s)
		ran := false
		for ; x.logSeen < len(w.Log); x.logSeen++ {
			ex := w.Log[x.logSeen]
			if ex.Conn == -1 {
				continue
			}
			if name := strings.ToUpper(ex.Argv[0]); name == "EVAL" || name == "EVALSHA" {
				// the request bytes of a hash Save depend on map iteration order (toExec): log them canonically
				s.Logf("  om %s c%d ran=%d %s", name, ex.Conn, ex.ScriptRuns, omCanonArgs(ex.Argv))
				ran = ran || ex.ScriptRuns > 0
			}
		}
		if ran || x.ghostDirty {
			x.ghostDirty = false
			for i := 0; i < p.Ents; i++ {
				seq := w.Seq()
				raw := w.Ghost(e.addr, x.repos[0].readCmd(omKey(i))...)
				x.snaps = append(x.snaps, omSnap{seq: seq, step: s.Step, ent: i, raw: raw})
			}
			x.logSeen = len(w.Log)
		}
		return nil
	}
	// first versions, saved through the library like any other
	rr = e.background("init", func(ctx context.Context) {
		rueidis.VerifNameGoroutine("init")
		for i := 0; i < p.Ents; i++ {
			if p.Init[i] == 0 {
				continue
			}
			ent := x.repos[0].newEnt()
			ent.FieldByName("Key").SetString(omID(i))
			omSetVer(ent, p.InitVer[i])
			sr := x.doSave(ctx, x.repos[0], fmt.Sprintf("init%d", i), i, ent, "new", p.Init[i], nil)
			sr.faulty = false
			x.inits = append(x.inits, sr)
		}
	})
	if rr.Reason != "done" {
		out.HarnessErr = "initial saves did not finish: " + rr.Reason
		e.finish()
		return
	}
	base := s.Step
	for ti, calls := range p.Tasks {
		ti := ti
		repo := x.repos[p.TaskClient[ti]%len(x.repos)]
		st := &omTaskState{fetched: make([]reflect.Value, p.Ents), last: make([]reflect.Value, p.Ents)}
		var cs []sched.Call
		for ci, c := range calls {
			ci, c := ci, c
			c.E %= p.Ents
			who := fmt.Sprintf("t%d.c%d", ti, ci)
			cs = append(cs, sched.Call{Name: c.K, Run: func(ctx context.Context, rec *sched.CallRec) any {
				rueidis.VerifNameGoroutine(sched.TaskID(ctx))
				return x.runCall(ctx, repo, st, who, c, rec, false)
			}})
		}
		s.AddTask(fmt.Sprintf("task%d", ti), cs)
	}
	for gi, g := range p.Ghosts {
		gi, g := gi, g
		g.E %= p.Ents
		s.Ghosts = append(s.Ghosts, &sched.GhostOp{Name: g.Kind, MinStep: base + g.MinStep, Do: func(s *sched.Sim) { x.ghost(s, gi, g) }})
	}
	x.faultBase = base
	e.runTasks()
	hung := false
	for _, t := range s.Tasks {
		for _, rec := range t.Recs {
			hung = hung || rec.Hung
		}
	}
	if !hung && !p.NoFinal {
		// final phase: nothing runs, every reply and push is delivered; then each client reads every entity both ways
		s.Heal()
		x.healed = true
		for _, g := range s.Ghosts {
			g.Done = true // ghost writers that have not acted by now stay quiet: the final reads are reads at rest
		}
		s.Cfg.MaxSteps = s.Step + 3000
		s.Run(func() bool {
			if s.ParkedCount() > 0 {
				return false
			}
			for _, l := range s.LiveLinks() {
				if len(l.S.Out) > 0 || l.C.PendingWritten() > 0 || l.S.PendingInput() > 0 {
					return false
				}
			}
			return true
		})
		s.Cfg.MaxSteps = s.Step + 4000
		for ci := range x.repos {
			ci := ci
			st := &omTaskState{fetched: make([]reflect.Value, p.Ents), last: make([]reflect.Value, p.Ents)}
			var cs []sched.Call
			for ei := 0; ei < p.Ents; ei++ {
				for _, k := range []string{"fetchc", "fetch"} {
					c := OmCall{K: k, E: ei, TTLms: 60000}
					who := fmt.Sprintf("final%d.%s%d", ci, k, ei)
					cs = append(cs, sched.Call{Name: "final-" + k, Run: func(ctx context.Context, rec *sched.CallRec) any {
						rueidis.VerifNameGoroutine(sched.TaskID(ctx))
						return x.runCall(ctx, x.repos[ci], st, who, c, rec, true)
					}})
				}
			}
			s.AddTask(fmt.Sprintf("final%d", ci), cs)
		}
		reason := out.Reason
		e.runTasks()
		out.Reason = reason + "/" + out.Reason
	}
	// The log hash covers set-up, workload and final reads. The teardown is left out: Close sends a PING through the
	// queue while the dying pipe's clean-up loop walks the same ring slots, and whether one of them has to wait for a
	// slot lock (a scheduler event) is decided by the Go runtime. Nothing is judged after this point.
	hash := s.LogHash()
	e.closeAll(nil)
	e.finish()
	out.LogHash = hash
	x.check()
}

func (x *omRun) runCall(ctx context.Context, repo omRepo, st *omTaskState, who string, c OmCall, rec *sched.CallRec, final bool) any {
	id := omID(c.E)
	switch c.K {
	case "fetch", "fetchc":
		fr := &omFetchRec{who: who, ent: c.E, cache: c.K == "fetchc", ttl: time.Duration(c.TTLms) * time.Millisecond, final: final, rec: rec}
		rec.Notes = map[string]any{"fetch": fr}
		var v reflect.Value
		if fr.cache {
			v, fr.err = repo.fetchCache(ctx, id, fr.ttl)
		} else {
			v, fr.err = repo.fetch(ctx, id)
		}
		if fr.err == nil && v.IsValid() {
			fr.got = omClone(v)
			st.fetched[c.E] = v
		}
		fr.done.Store(true)
		return fr
	case "save":
		var ent reflect.Value
		how := c.Base
		switch {
		case how == "last" && st.last[c.E].IsValid():
			ent = st.last[c.E]
		case how != "new" && st.fetched[c.E].IsValid():
			how = "fetched"
			ent = omClone(st.fetched[c.E])
		default:
			how = "new"
			ent = repo.newEnt()
			ent.FieldByName("Key").SetString(id)
		}
		sr := x.doSave(ctx, repo, who, c.E, ent, how, c.Salt, rec)
		st.last[c.E] = ent
		return sr
	case "scribble":
		// a caller that edits a fetched entity in place (and never saves it)
		if f := st.fetched[c.E]; f.IsValid() {
			for _, name := range []string{"Bytes", "Raw"} {
				if b := f.FieldByName(name); b.IsValid() && b.Len() > 0 {
					bs := b.Bytes()
					for i := range bs {
						bs[i] ^= 0x5a
					}
				}
			}
			return "scribbled"
		}
		return "nothing-to-scribble"
	}
	panic("om: unknown call kind " + c.K)
}

// fireFaults applies the planned connection faults. They are applied here rather than through sched.Faults because a
// connection is only eligible once it has carried a user command: breaking a connection whose handshake is still in
// flight makes the dialling caller race with the dead pipe's clean-up loop inside rueidis (pipe.Close against
// _background), and the outcome of that race shows up as one fake millisecond more or less, i.e. as a divergent log.
func (x *omRun) fireFaults(s *sched.Sim) {
	now := time.Now()
	if !x.downUntil.IsZero() && !now.Before(x.downUntil) {
		x.downUntil = time.Time{}
		x.e.node.Down = false
		s.Logf("  om node up")
	}
	if x.healed {
		return
	}
	inflight := func(l *sched.Link) bool {
		return l.C.PendingWritten() > 0 || len(l.S.Out) > 0 || l.S.PendingInput() > 0
	}
	for fi, f := range x.p.Faults {
		if x.faultFired[fi] || s.Step < x.faultBase+f.AtStep {
			continue
		}
		live := s.LiveLinks()
		var el []*sched.Link
		settled := len(live) > 0
		for _, l := range live {
			settled = settled && l.S.UserCmds > 0
			if l.S.UserCmds > 0 && inflight(l) {
				el = append(el, l)
			}
		}
		if len(el) == 0 || f.Kind == "node-restart" && !settled {
			continue
		}
		l := el[f.Pick%len(el)]
		switch f.Kind {
		case "reset", "eof":
			s.BreakLink(l, f.Kind, false)
		case "reset-after-exec":
			s.BreakLink(l, "reset", true)
		case "eof-mid-reply":
			if len(l.S.Out) >= 2 {
				l.CutAfter, l.CutKind = 1+f.Pick%(len(l.S.Out)-1), "eof"
			} else {
				s.BreakLink(l, "eof", false)
			}
		case "stall":
			l.StallS2C, l.StallC2S = now.Add(30*time.Second), now.Add(30*time.Second)
		case "node-restart":
			for _, k := range live {
				s.BreakLink(k, "reset", false)
			}
			for k := range x.e.node.Scripts {
				delete(x.e.node.Scripts, k)
			}
			x.e.node.Down = true
			x.downUntil = now.Add(pick2d(f.Pick, 50*time.Millisecond, 2*time.Second, 30*time.Second))
		default:
			panic("om: unknown fault kind " + f.Kind)
		}
		x.faultFired[fi] = true
		x.faultsFired++
		s.Stats["fault."+f.Kind]++
		s.Logf("  om fault %s c%d", f.Kind, l.ID)
		// let the client goroutines notice (reader sees EOF, callers fail over) before the scheduler looks again
		synctest.Wait()
		return
	}
}

func pick2d(i int, xs ...time.Duration) time.Duration { return xs[i%len(xs)] }

func (x *omRun) ghost(s *sched.Sim, gi int, g OmGhost) {
	w, addr, key := s.W, x.e.addr, omKey(g.E)
	w.Step = s.Step
	x.ghostDirty = true
	switch g.Kind {
	case "flush":
		w.Ghost(addr, "SCRIPT", "FLUSH")
	case "del":
		w.Ghost(addr, "DEL", key)
	case "bump":
		// another writer that follows the protocol: new content, version advanced
		if w.Ghost(addr, "EXISTS", key).I != 1 {
			return
		}
		tag := fmt.Sprintf("ghost%d", gi)
		if x.p.Repo == "hash" {
			w.Ghost(addr, "HSET", key, "tag", tag)
			w.Ghost(addr, "HINCRBY", key, "ver", strconv.Itoa(g.Inc))
			return
		}
		cur, err := strconv.ParseInt(w.Ghost(addr, "JSON.GET", key, ".ver").S, 10, 64)
		if err != nil {
			return
		}
		w.Ghost(addr, "JSON.SET", key, "$.tag", strconv.Quote(tag))
		w.Ghost(addr, "JSON.SET", key, "$.ver", strconv.FormatInt(cur+int64(g.Inc), 10))
	}
}

// ---------------------------------------------------------------------------------------------------- oracle

// omExecTag extracts the tag a script execution carries in its arguments.
func omExecTag(repo string, argv []string, known func(string) bool) (key, tag string, ok bool) {
	// EVAL script 1 key vername ver ... | EVALSHA sha 1 key vername ver ...
	if len(argv) < 6 || argv[2] != "1" {
		return "", "", false
	}
	key = argv[3]
	rest := argv[6:]
	if repo == "hash" {
		// the field named "tag", wherever the argument layout puts the pairs
		for i := 0; i+1 < len(rest); i++ {
			if rest[i] == "tag" && known(rest[i+1]) {
				return key, rest[i+1], true
			}
		}
		return key, "", false
	}
	if len(rest) == 0 {
		return key, "", false
	}
	var doc struct {
		Tag string `json:"tag"`
	}
	if err := json.Unmarshal([]byte(rest[0]), &doc); err != nil {
		return key, "", false
	}
	return key, doc.Tag, true
}

func (x *omRun) check() {
	out, p, s := x.e.out, x.p, x.e.sim
	if out.HarnessErr != "" {
		return
	}
	faulty := len(p.Faults) > 0
	lenient := p.Repo == "hash"
	keyIdx := map[string]int{}
	for i := 0; i < p.Ents; i++ {
		keyIdx[omKey(i)] = i
	}
	// collect the call records
	saves := map[string]*omSaveRec{}
	var saveList []*omSaveRec
	var fetches []*omFetchRec
	addSave := func(sr *omSaveRec) {
		if _, dup := saves[sr.tag]; dup {
			out.HarnessErr = "duplicate save tag " + sr.tag
		}
		saves[sr.tag] = sr
		saveList = append(saveList, sr)
	}
	for _, sr := range x.inits {
		addSave(sr)
	}
	for _, t := range s.Tasks {
		for _, rec := range t.Recs {
			if sr, ok := rec.Notes["save"].(*omSaveRec); ok {
				addSave(sr)
			}
			if fr, ok := rec.Notes["fetch"].(*omFetchRec); ok {
				fetches = append(fetches, fr)
			}
		}
	}
	// the reference: one versioned register per key, advanced in the server's execution order
	states := make([][]*omState, p.Ents)
	poisoned := make([]bool, p.Ents)
	for i := range states {
		states[i] = []*omState{{by: "start"}}
	}
	cur := func(i int) *omState { return states[i][len(states[i])-1] }
	push := func(i int, ex *fakeredis.Exec, st *omState) {
		st.seq, st.step = ex.Seq, ex.Step
		states[i] = append(states[i], st)
	}
	noscript := 0
	for _, ex := range s.W.Log {
		name := strings.ToUpper(ex.Argv[0])
		if ex.Conn == -1 {
			if len(ex.Argv) < 2 {
				continue
			}
			i, isEnt := keyIdx[ex.Argv[1]]
			if !isEnt || ex.Reply.IsErr() {
				continue
			}
			c := cur(i)
			switch {
			case name == "DEL" && c.exists:
				push(i, ex, &omState{by: "ghost DEL"})
				out.probe("ghost-deleted-entity")
			case c.exists && (name == "HSET" && len(ex.Argv) == 4 && ex.Argv[2] == "tag" || name == "JSON.SET" && ex.Argv[2] == "$.tag"):
				ent := omClone(c.ent)
				tag := ex.Argv[3]
				if name == "JSON.SET" {
					tag, _ = strconv.Unquote(tag)
				}
				omSetTag(ent, tag)
				push(i, ex, &omState{exists: true, ent: ent, by: "ghost content " + tag})
			case c.exists && name == "HINCRBY" && ex.Argv[2] == "ver":
				ent := omClone(c.ent)
				n, _ := strconv.ParseInt(ex.Argv[3], 10, 64)
				omSetVer(ent, omVer(ent)+n)
				push(i, ex, &omState{exists: true, ent: ent, by: "ghost version bump"})
				out.probe("ghost-bumped-version")
			case c.exists && name == "JSON.SET" && ex.Argv[2] == "$.ver":
				ent := omClone(c.ent)
				n, _ := strconv.ParseInt(ex.Argv[3], 10, 64)
				omSetVer(ent, n)
				push(i, ex, &omState{exists: true, ent: ent, by: "ghost version bump"})
				out.probe("ghost-bumped-version")
			}
			continue
		}
		if name != "EVAL" && name != "EVALSHA" {
			continue
		}
		if ex.ScriptRuns == 0 {
			if strings.HasPrefix(ex.Reply.S, "NOSCRIPT") {
				noscript++
			}
			continue
		}
		key, tag, ok := omExecTag(p.Repo, ex.Argv, func(t string) bool { return saves[t] != nil })
		i, isEnt := keyIdx[key]
		sr := saves[tag]
		if !ok || !isEnt || sr == nil || sr.ent != i {
			out.HarnessErr = fmt.Sprintf("script execution not attributable to a Save call: key %q tag %q argv %.200q", key, tag, ex.Argv[2:])
			return
		}
		c := cur(i)
		c.execs++
		sr.execs = append(sr.execs, ex)
		sr.epochs = append(sr.epochs, len(states[i])-1)
		saved := !omIsNil(ex.Reply)
		if ex.Reply.IsErr() {
			// a script error: nothing the property allows in a Save of a well-formed entity
			if !poisoned[i] {
				out.violate("C40", "save-script-error", "%s: Save of %s (version %d) made the script fail: %s", sr.who, key, sr.base, ex.Reply.S)
				poisoned[i] = true
			}
			continue
		}
		if poisoned[i] {
			continue
		}
		if c.exists {
			want := omVer(c.ent) == sr.base
			if want != saved {
				if saved {
					out.violate("C40", "stale-save-accepted", "%s: Save of %s based on version %d was applied although the stored version was %d (state by %s)", sr.who, key, sr.base, omVer(c.ent), c.by)
				} else {
					out.violate("C40", "current-save-refused", "%s: Save of %s based on version %d was refused although the stored version was %d (state by %s)", sr.who, key, sr.base, omVer(c.ent), c.by)
				}
				poisoned[i] = true
				continue
			}
		}
		if !saved {
			continue
		}
		if nv, err := strconv.ParseInt(ex.Reply.S, 10, 64); err != nil || nv != sr.base+1 {
			out.violate("C40", "version-not-advanced-by-one", "%s: successful Save of %s based on version %d: the script answered %q, want %d", sr.who, key, sr.base, ex.Reply.S, sr.base+1)
			poisoned[i] = true
			continue
		}
		ent := omClone(sr.pre)
		omSetVer(ent, sr.base+1)
		push(i, ex, &omState{exists: true, ent: ent, by: sr.who})
	}
	if noscript > 0 {
		out.probe("noscript-fallback")
	}
	stateAt := func(i, seq int) *omState {
		st := states[i][0]
		for _, c := range states[i] {
			if c.seq <= seq {
				st = c
			}
		}
		return st
	}
	// a difference that consists only of top-level pointer fields that were nil in the saved entity and came back with a
	// value is reported under its own rule
	const ruleNilPtr = "nil-pointer-field-kept-old-value"
	onlyNilPtr := func(ds []omDiffEntry) bool {
		for _, d := range ds {
			if !d.PtrNilWant {
				return false
			}
		}
		return true
	}
	onlyBytes := func(ds []omDiffEntry) bool {
		for _, d := range ds {
			if d.Path != ".Bytes" && d.Path != ".Raw" {
				return false
			}
		}
		return true
	}
	reported := map[string]bool{}
	// (b) the stored record after every step that ran a script or a ghost write
	for _, sn := range x.snaps {
		i := sn.ent
		if poisoned[i] {
			continue
		}
		st := stateAt(i, sn.seq)
		got, exists, err := x.repos[0].decodeRaw(sn.raw)
		switch {
		case err != nil:
			out.violate("C40", "stored-record-undecodable", "step %d: the record of %s stored by %s cannot be decoded: %v (raw %.300s)", sn.step, omKey(i), st.by, err, sn.raw.String())
			poisoned[i] = true
		case exists != st.exists:
			out.violate("C40", "stored-record-presence", "step %d: record of %s exists=%v, reference (by %s) exists=%v", sn.step, omKey(i), exists, st.by, st.exists)
			poisoned[i] = true
		case exists:
			if ds := omDiffs(st.ent, got, lenient); len(ds) > 0 {
				rule := "stored-record-mismatch"
				if onlyNilPtr(ds) {
					rule = ruleNilPtr
				} else {
					poisoned[i] = true
				}
				if !reported[rule] {
					reported[rule] = true
					out.violate("C40", rule, "step %d: the record of %s after the Save by %s (version %d) decodes to a different entity: %s", sn.step, omKey(i), st.by, omVer(st.ent), omDiffText(ds))
				}
			} else {
				out.judged("stored-record")
			}
		}
	}
	// (a)/(b) what each Save call returned
	for _, sr := range saveList {
		i := sr.ent
		if !sr.done.Load() {
			out.notJudged("save-never-returned")
			continue
		}
		mismatch := errors.Is(sr.err, ErrVersionMismatch)
		if len(sr.execs) == 0 {
			switch {
			case sr.err == nil:
				out.violate("C40", "save-acknowledged-but-never-executed", "%s: Save of %s returned nil but the server never ran its script", sr.who, omKey(i))
			case mismatch:
				out.violate("C40", "mismatch-reported-but-never-executed", "%s: Save of %s returned ErrVersionMismatch but the server never ran its script", sr.who, omKey(i))
			case sr.faulty:
				out.notJudged("save-failed-before-execution")
			default:
				out.violate("C40", "save-unexpected-error", "%s: Save of %s failed with %v in a run without faults", sr.who, omKey(i), sr.err)
			}
			continue
		}
		if len(sr.execs) > 1 {
			out.probe("save-executed-more-than-once")
			out.notJudged("save-executed-more-than-once")
			continue
		}
		if poisoned[i] {
			continue
		}
		ex, epoch := sr.execs[0], sr.epochs[0]
		saved := !omIsNil(ex.Reply) && !ex.Reply.IsErr()
		st := states[i][epoch]
		if st.execs >= 2 {
			out.probe("contended-version")
		}
		switch {
		case sr.err == nil:
			if !saved {
				out.violate("C40", "save-acknowledged-but-refused", "%s: Save of %s (base %d) returned nil but the server refused it (stored state by %s)", sr.who, omKey(i), sr.base, st.by)
				continue
			}
			st.winners = append(st.winners, sr.who)
			if sr.post != sr.base+1 {
				out.violate("C40", "entity-version-not-advanced", "%s: Save of %s succeeded on base version %d but the entity's version field is %d afterwards, want %d", sr.who, omKey(i), sr.base, sr.post, sr.base+1)
				continue
			}
			out.judged("save-won")
			if sr.baseHow == "last" && sr.base > 0 {
				out.probe("chained-save-on-advanced-version")
			}
		case mismatch:
			if saved {
				out.violate("C40", "mismatch-reported-but-saved", "%s: Save of %s (base %d) returned ErrVersionMismatch but the server applied it", sr.who, omKey(i), sr.base)
				continue
			}
			if sr.err != ErrVersionMismatch {
				out.probe("mismatch-error-wrapped")
			}
			out.judged("save-lost")
			out.probe("version-mismatch-returned")
		case sr.faulty:
			out.notJudged("save-transport-error")
			if saved {
				out.probe("save-failed-but-applied")
			} else {
				out.probe("save-failed-and-refused")
			}
		default:
			out.violate("C40", "save-unexpected-error", "%s: Save of %s failed with %v in a run without faults (server reply %s)", sr.who, omKey(i), sr.err, ex.Reply.String())
		}
	}
	for i := range states {
		for _, st := range states[i] {
			if len(st.winners) > 1 {
				out.violate("C40", "two-saves-won-same-version", "%s: Saves %v all returned nil on the same stored version (state by %s)", omKey(i), st.winners, st.by)
			}
			if st.execs >= 2 {
				out.Nontrivial = true
			}
		}
	}
	// (c) reads
	for _, fr := range fetches {
		i := fr.ent
		if !fr.done.Load() || fr.rec.Hung {
			out.notJudged("fetch-never-returned")
			continue
		}
		if poisoned[i] {
			continue
		}
		a, b := fr.rec.StartStep, fr.rec.EndStep
		strict := !fr.cache || !p.Cache // a plain read, or FetchCache on a client without a cache
		overlaps := func(k int) bool {
			st := states[i][k]
			end := int(^uint(0) >> 1)
			if k+1 < len(states[i]) {
				end = states[i][k+1].step
			}
			return st.step <= b && end >= a
		}
		kind := "fetch"
		if fr.cache {
			kind = "fetch-cache"
		}
		if fr.err != nil {
			if IsRecordNotFound(fr.err) {
				ok := false
				for k, st := range states[i] {
					if !st.exists && (overlaps(k) || !strict && st.step <= b) {
						ok = true
					}
				}
				if (strict || fr.final) && !ok || fr.final && cur(i).exists {
					out.violate("C40", "fetch-lost-entity", "%s: %s of %s reported not-found (%v) while the entity existed during the whole call (steps %d-%d, latest state by %s)", fr.who, kind, omKey(i), fr.err, a, b, cur(i).by)
				} else {
					out.judged(kind + "-not-found")
				}
				continue
			}
			if faulty {
				out.notJudged("fetch-transport-error")
			} else {
				out.violate("C40", "fetch-unexpected-error", "%s: %s of %s failed with %v in a run without faults", fr.who, kind, omKey(i), fr.err)
			}
			continue
		}
		var matches []int
		for k, st := range states[i] {
			if st.exists && st.step <= b && len(omDiffs(st.ent, fr.got, lenient)) == 0 {
				matches = append(matches, k)
			}
		}
		if len(matches) == 0 {
			// explain against the state the entity claims to be (same tag), else the latest one in the window
			var ref *omState
			for _, st := range states[i] {
				if st.exists && omTag(st.ent) == omTag(fr.got) && omVer(st.ent) == omVer(fr.got) {
					ref = st
				}
			}
			if ref == nil {
				for k, st := range states[i] {
					if st.exists && overlaps(k) {
						ref = st
					}
				}
			}
			if ref == nil {
				out.violate("C40", "fetch-returned-unsaved-entity", "%s: %s of %s returned version %d tag %q, which was never stored (steps %d-%d)", fr.who, kind, omKey(i), omVer(fr.got), omTag(fr.got), a, b)
				continue
			}
			ds := omDiffs(ref.ent, fr.got, lenient)
			rule := "fetch-differs-from-saved"
			if onlyNilPtr(ds) {
				rule = ruleNilPtr
			} else if p.Alias && onlyBytes(ds) {
				// some caller edited the byte slices of an entity it had fetched, in place, and this read shows the edit
				rule = "fetched-entity-shares-memory-with-cache"
			}
			if !reported[rule] {
				reported[rule] = true
				out.violate("C40", rule, "%s: %s of %s returned an entity that differs from the one saved by %s (version %d): %s", fr.who, kind, omKey(i), ref.by, omVer(ref.ent), omDiffText(ds))
			}
			continue
		}
		fresh := false
		for _, k := range matches {
			fresh = fresh || overlaps(k)
		}
		latest := matches[len(matches)-1] == len(states[i])-1
		switch {
		case fr.final && !latest:
			out.violate("C40", "stale-read-at-rest", "%s: %s of %s returned the state by %s (version %d) after everything had been delivered; the latest state is %s", fr.who, kind, omKey(i), states[i][matches[0]].by, omVer(fr.got), cur(i).desc())
		case strict && !fresh:
			out.violate("C40", "stale-fetch", "%s: %s of %s (steps %d-%d) returned the state by %s (version %d), which was not current at any step of the call", fr.who, kind, omKey(i), a, b, states[i][matches[0]].by, omVer(fr.got))
		default:
			out.judged(kind + "-equal")
			if !fresh {
				out.probe("cached-read-older-than-current")
			}
			if states[i][matches[0]].by != "start" && !strings.HasPrefix(states[i][matches[0]].by, "init") {
				out.probe("read-saw-a-workload-save")
			}
		}
	}
	// reach
	cacheReads, cacheCalls := 0, 0
	for _, ex := range s.W.Log {
		if ex.InExec && ex.Conn != -1 {
			if n := strings.ToUpper(ex.Argv[0]); n == "HGETALL" || n == "JSON.GET" {
				cacheReads++
			}
		}
	}
	for _, fr := range fetches {
		if fr.cache && p.Cache && fr.done.Load() && fr.err == nil {
			cacheCalls++
		}
	}
	if cacheCalls > cacheReads {
		out.probe("cache-hit-served")
	}
	if x.faultsFired > 0 {
		out.probe("fault-fired")
	}
	for _, g := range s.Ghosts {
		if g.DoneStep > 0 && g.Name == "flush" {
			out.probe("script-flush-ghost")
		}
	}
	if s.Stats["s2c.partial"] > 0 {
		out.probe("reply-cut")
	}
}

// omSpinBudget: see rueidis.VerifCleanupSpinBudget. VERIF_OM_SPIN overrides it (development).
func omSpinBudget() int {
	if v, err := strconv.Atoi(os.Getenv("VERIF_OM_SPIN")); err == nil {
		return v
	}
	return 100000
}
