//go:build verif

package rueidisprob

// Shared by the three Bloom-filter scenarios (bloom: C35, cbloom: C36, sbloom: C37).
//
// What runs: the real Go code of rueidisprob (sizing, murmur3 index computation, argument building, result
// aggregation) on real rueidis clients, against verifsim/fakeredis, which executes the Lua scripts the client sends
// (EVALSHA / EVAL through lualite) and the bit / hash commands they call. Workload tasks (adders, queriers, removers,
// Reset / Delete in some plans) are interleaved by the seeded scheduler; replies are cut at seeded points; some plans
// inject connection faults and call deadlines, a SCRIPT FLUSH by another client (NOSCRIPT fallback), a small socket
// send buffer, a constant server clock offset.
//
// The oracles are the property statements against trivially simple reference models keyed by item name (set,
// multiset, timestamped set). They never compute a hash or an index: which bits or counters an item maps to is the
// business of the code under test.

import (
	"context"
	"encoding/json"
	"fmt"
	"github.com/redis/rueidis/internal/util"
	"math"
	"math/rand/v2"
	"sort"
	"strconv"
	"strings"
	"time"

	"github.com/redis/rueidis"

	"verifsim/fakeredis"
	"verifsim/sched"
)

type ProbCall struct {
	Op        string   `json:"op"` // add addm ex exm count reset delete | rm rmm min minm
	Items     []string `json:"items,omitempty"`
	Cl        int      `json:"cl,omitempty"`
	TimeoutMs int      `json:"timeout_ms,omitempty"`
	Force     bool     `json:"force,omitempty"` // cbloom: issue the removal even if this task has not added the items
}

type ProbGhost struct {
	MinStep int      `json:"min_step"`
	Argv    []string `json:"argv"`
}

type ProbFault struct {
	Kind   string `json:"kind"`
	AtStep int    `json:"at_step"`
	Pick   int    `json:"pick"`
	DurMs  int    `json:"dur_ms,omitempty"`
}

type ProbPlan struct {
	Scenario   string       `json:"scenario"`
	Variant    string       `json:"variant,omitempty"`
	Sim        SimSpec      `json:"sim"`
	N          uint64       `json:"n"`  // expected number of items
	FP         float64      `json:"fp"` // false-positive rate
	ReadOnly   bool         `json:"read_only,omitempty"`
	WindowUs   int64        `json:"window_us,omitempty"` // sliding filter: window in microseconds
	Clients    int          `json:"clients"`
	Multiplex  int          `json:"multiplex,omitempty"`
	SendBuf    int          `json:"send_buf,omitempty"`
	ClockOffMs int64        `json:"clock_off_ms,omitempty"`
	TickUs     []int64      `json:"tick_us,omitempty"`
	Tasks      [][]ProbCall `json:"tasks"`
	Ghosts     []ProbGhost  `json:"ghosts,omitempty"`
	Faults     []ProbFault  `json:"faults,omitempty"`
}

func loadProbPlan(b []byte) (any, error) {
	p := &ProbPlan{}
	return p, json.Unmarshal(b, p)
}

// ---- configurations ----

// probConfig draws (expected items, false-positive rate): typical pairs, and pairs from the edges of what the
// constructors accept (whether a pair is accepted is decided by calling the constructor, not here).
// heavy reports that the pair may need hundreds of hash functions per item: such plans are kept small.
func probConfig(r *rand.Rand, counting bool) (n uint64, fp float64, heavy bool) {
	switch x := r.IntN(100); {
	case x < 45: // typical
		return pick[uint64](r, 10, 100, 1000, 10_000, 100_000), pick(r, 0.1, 0.05, 0.01, 0.001, 1e-4, 1e-6), false
	case x < 65: // tiny rates
		fp = pick(r, 5e-324, 1e-300, 1e-100, 1e-30, 1e-15, 1e-15, 1e-12, 1e-12, 1e-9, 1e-9, 1e-9, 1e-9)
		return pick[uint64](r, 1, 2, 7, 1000, 1_000_000, 2_000_000), fp, fp < 1e-20
	case x < 83: // rates near one
		return pick[uint64](r, 1, 2, 3, 10, 1000, 1_000_000, 1_000_000_000, 4_000_000_000), pick(r, 0.5, 0.7, 0.71, 0.75, 0.9, 0.99, 0.999999, 1-1.0/(1<<53)), false
	case x < 95: // around the largest bitmaps (for the counting filter: the largest sizes a uint holds)
		if counting {
			return pick[uint64](r, 1<<40, 1e17, 4e17, 1e18, math.MaxUint64), pick(r, 0.5, 0.01, 1e-10, 1e-6), false
		}
		// rate 0.5 needs n/ln2 bits: 2977044471 items are the most that fit into 2^32 bits
		return pick[uint64](r, 2977044471, 2977044472, 2977044400, 1<<31, 600_000_000, 90_000_000), pick(r, 0.5, 0.5, 0.1, 0.01), false
	case x < 98:
		return pick[uint64](r, 1, 5, 50), pick(r, 0.3, 0.1, 0.01), false // tiny filters: everything collides
	default: // values a constructor should refuse
		return pick[uint64](r, 0, 1, 1000), pick(r, 1.0, 1.0, 0.5), false
	}
}

func probItems(seed uint64, n int) (added, never []string) {
	for i := 0; i < n; i++ {
		added = append(added, fmt.Sprintf("it%d-%x", i, seed&0xfffff))
	}
	for i := 0; i < 4; i++ {
		never = append(never, fmt.Sprintf("zz%d-%x", i, seed&0xfffff))
	}
	return
}

// probFaults adds connection faults to 35% of the plans (variant "nofault": none; variant "deadline": always, plus
// call deadlines).
//
// Call deadlines are NOT part of the registered plans: rueidisprob builds its index arguments as rueidis.BinaryString
// views of a pooled buffer and returns the buffer to the pool (which zeroes it) when the call returns; a call whose
// context ends while its command is still queued behind a blocked write therefore lets the command go out later with
// zeroed - or, once the sync.Pool hands the buffer to another call, overwritten - arguments. What the server then
// receives depends on sync.Pool (per-P caches, GC), which no seed controls, so such runs do not replay. Variant
// "deadline" exists to show exactly that (rule arguments-changed-after-return) and is not a registered part.
func probFaults(r *rand.Rand, p *ProbPlan) {
	deadlines := p.Variant == "deadline"
	if p.Variant == "nofault" || (!deadlines && r.IntN(100) >= 35) {
		return
	}
	// one fault per plan: a second one can hit the replacement connection during its HELLO handshake, and how fast the
	// caller waiting for that dead pipe gets on depends on a clean-up goroutine of rueidis that polls once per fake
	// millisecond under the simulator (seen in the determinism self-test: an idle tick more or less)
	p.Faults = append(p.Faults, ProbFault{Kind: pick(r, "reset", "eof", "reset-after-exec", "eof-mid-reply", "stall", "stall"),
		AtStep: r.IntN(120), Pick: r.IntN(4), DurMs: pick(r, 200, 2000, 30000)})
	if !deadlines {
		// no socket send-buffer limit either: with a writer goroutine blocked in Write, which of the queued callers a
		// connection reset fails in the same step is decided inside rueidis by the Go runtime (seen in the
		// determinism self-test), and the verif yield hooks do not cover that herd
		return
	}
	p.SendBuf = pick(r, 64, 256)
	p.Faults = append(p.Faults, ProbFault{Kind: "stall", AtStep: r.IntN(60), Pick: r.IntN(4), DurMs: pick(r, 1000, 3000)})
	for ti := range p.Tasks {
		for ci := range p.Tasks[ti] {
			if r.IntN(3) == 0 {
				p.Tasks[ti][ci].TimeoutMs = pick(r, 50, 500)
			}
		}
	}
}

func (p *ProbPlan) faulty() bool {
	if len(p.Faults) > 0 {
		return true
	}
	for _, t := range p.Tasks {
		for _, c := range t {
			if c.TimeoutMs > 0 {
				return true
			}
		}
	}
	return false
}

// ---- execution ----

type probRes struct {
	Err     string
	Bools   []bool
	Counts  []uint64
	N       uint64
	Skipped bool
}

// probCall is one executed call with what the plan asked for.
type probCall struct {
	task int
	c    ProbCall
	rec  *sched.CallRec
	res  *probRes
	ok   bool // returned, and without error
}

type probRun struct {
	p      *ProbPlan
	e      *simEnv
	out    *Outcome
	prop   string
	label  string
	bf     []BloomFilter         // bloom, sbloom: one filter object per client
	cbf    []CountingBloomFilter // cbloom
	k      uint                  // number of hash functions the filter chose (labels and workload sizing only)
	size   uint
	calls  []*probCall
	ledger []map[string]int // cbloom: per task, successful adds minus attempted removals
}

// startProb builds the simulation and the clients, and calls build (in a scheduled goroutine) to construct the filters.
// It returns nil when the run is over already (harness trouble, or the constructor refused the configuration).
func startProb(p *ProbPlan, out *Outcome, prop string, build func(pr *probRun, cl rueidis.Client) error) *probRun {
	// one run = one execution that depends on its seed alone: the package's buffer pool is process-wide state (a buffer
	// one run hands back twice would be met by later runs of the same process), so every run gets a pool of its own
	bytesPool = util.NewPool(func(capacity int) *bytesContainer {
		return &bytesContainer{s: make([]byte, 0, capacity)}
	})
	e := newSimEnv(out.Seed, p.Sim, out)
	s := e.sim
	pr := &probRun{p: p, e: e, out: out, prop: prop}
	out.Config = fmt.Sprintf("n=%d,fp=%g", p.N, p.FP)
	e.node.ClockOff = time.Duration(p.ClockOffMs) * time.Millisecond
	if p.SendBuf > 0 {
		s.OnAccept = func(_ *sched.Sim, l *sched.Link) { l.C.SetSendBuffer(p.SendBuf) }
	}
	var setupErr, cfgErr error
	rr := e.background("setup", func(ctx context.Context) {
		for i := 0; i < p.Clients; i++ {
			opt := e.option()
			// one multiplexed wire per client (the default of simEnv.option): with several wires every command draws its
			// wire from util.FastRand, and the verif seam hands out values from one shared counter, so two tasks woken by
			// the same delivery (two NOSCRIPT replies in one read) would draw in an order the Go runtime chooses
			if p.Multiplex > 0 {
				opt.PipelineMultiplex = p.Multiplex // replay of hand-written plans only; generated plans leave it at 0
			}
			opt.DisableCache = true
			// the default retry delay adds jitter from util.FastRand (one shared counter in the verif seam): two read-only
			// commands failed by the same connection loss would draw their jitter in runtime order. Same back-off, no jitter.
			opt.RetryDelay = func(attempts int, _ rueidis.Completed, _ error) time.Duration {
				return min(time.Second, time.Duration(1<<min(20, attempts))*time.Microsecond)
			}
			// small queues and buffers: the defaults (1024 slots, 0.5 MB buffers per connection) cost more to allocate
			// than a whole run; arguments of ~1000 indexes still span several writes
			opt.RingScaleEachConn = 7
			opt.ReadBufferEachConn = 65536
			opt.WriteBufferEachConn = 65536
			cl, err := rueidis.NewClient(opt)
			if err != nil {
				setupErr = err
				return
			}
			e.track(cl)
			if err := build(pr, cl); err != nil {
				cfgErr = err
				return
			}
		}
	})
	if rr.Reason != "done" || setupErr != nil {
		out.HarnessErr = fmt.Sprintf("setup failed: reason=%s err=%v", rr.Reason, setupErr)
		e.closeAll(nil)
		e.finish()
		return nil
	}
	if cfgErr != nil {
		// not an accepted configuration: outside the property
		out.Config += ",rejected"
		out.notJudged("configuration-rejected: " + cfgErr.Error())
		out.probe("configuration-rejected")
		e.closeAll(nil)
		e.finish()
		return nil
	}
	out.probe("configuration-accepted")
	// the plan's clock steps apply to the workload (set-up runs with the scheduler's small default steps)
	if len(p.TickUs) > 0 {
		s.Cfg.TickSizes = nil
		for _, us := range p.TickUs {
			s.Cfg.TickSizes = append(s.Cfg.TickSizes, time.Duration(us)*time.Microsecond)
		}
	}
	return pr
}

// setLabel records the sizing the filter chose. It is used for labels, probes and to keep the model's log small; no
// verdict depends on it.
func (pr *probRun) setLabel(size, k uint) {
	pr.size, pr.k = size, k
	p := pr.p
	pr.label = fmt.Sprintf("n=%d fp=%g size=%d hash_functions=%d", p.N, p.FP, size, k)
	pr.out.Config = fmt.Sprintf("n=%d,fp=%g,size=%d,k=%d,cl=%d,flt=%v", p.N, p.FP, size, k, p.Clients, p.faulty())
	if p.WindowUs > 0 {
		pr.out.Config += fmt.Sprintf(",w=%dus", p.WindowUs)
	}
	switch {
	case k == 0:
		pr.out.probe("zero-hash-functions")
	case k >= 300:
		pr.out.probe("hash-functions>=300")
	}
	if size > 1<<31 {
		pr.out.probe("bitmap-beyond-2^31-bits")
	}
}

func errStr(err error) string {
	if err == nil {
		return ""
	}
	return "error: " + err.Error()
}

// runBloomCall executes one call on a BloomFilter (plain or sliding).
func runBloomCall(ctx context.Context, f BloomFilter, c ProbCall) *probRes {
	res := &probRes{}
	switch c.Op {
	case "add":
		res.Err = errStr(f.Add(ctx, c.Items[0]))
	case "addm":
		res.Err = errStr(f.AddMulti(ctx, c.Items))
	case "ex":
		b, err := f.Exists(ctx, c.Items[0])
		res.Bools, res.Err = []bool{b}, errStr(err)
	case "exm":
		b, err := f.ExistsMulti(ctx, c.Items)
		res.Bools, res.Err = b, errStr(err)
	case "count":
		n, err := f.Count(ctx)
		res.N, res.Err = n, errStr(err)
	case "reset":
		res.Err = errStr(f.Reset(ctx))
	case "delete":
		res.Err = errStr(f.Delete(ctx))
	default:
		res.Err = "harness: unknown op " + c.Op
	}
	return res
}

// addTasks registers the plan's tasks, ghosts and faults; run executes one call.
func (pr *probRun) addTasks(run func(ctx context.Context, ti int, c ProbCall) *probRes) {
	p, e, s := pr.p, pr.e, pr.e.sim
	base := s.Step
	for ti, calls := range p.Tasks {
		var cs []sched.Call
		for _, c := range calls {
			c, ti := c, ti
			if c.Cl >= p.Clients {
				c.Cl = 0
			}
			cs = append(cs, sched.Call{Name: c.Op, Timeout: time.Duration(c.TimeoutMs) * time.Millisecond, Run: func(ctx context.Context, rec *sched.CallRec) (ret any) {
				rueidis.VerifNameGoroutine(sched.TaskID(ctx))
				defer func() {
					if r := recover(); r != nil {
						ret = &probRes{Err: fmt.Sprintf("panic: %v", r)}
					}
				}()
				return run(ctx, ti, c)
			}})
		}
		s.AddTask(fmt.Sprintf("task%d", ti), cs)
	}
	for _, g := range p.Ghosts {
		g := g
		s.Ghosts = append(s.Ghosts, &sched.GhostOp{Name: "cmd " + strings.Join(g.Argv, " "), MinStep: base + g.MinStep, Do: func(s *sched.Sim) { s.W.Ghost(e.addr, g.Argv...) }})
	}
	for _, f := range p.Faults {
		s.Faults = append(s.Faults, &sched.Fault{Kind: f.Kind, AtStep: base + f.AtStep, NeedInflight: true, Pick: f.Pick, Arg: f.Pick, Dur: time.Duration(f.DurMs) * time.Millisecond})
	}
}

// finishProb runs the workload to completion, closes the clients and collects the calls.
func (pr *probRun) finishProb() {
	e := pr.e
	e.runTasks()
	e.closeAll(nil)
	e.finish()
	for ti, t := range e.sim.Tasks {
		for _, rec := range t.Recs {
			pc := &probCall{task: ti, c: pr.p.Tasks[ti][rec.Index], rec: rec}
			if pc.c.Cl >= pr.p.Clients {
				pc.c.Cl = 0
			}
			if rec.Done && !rec.Hung {
				pc.res, _ = rec.Result.(*probRes)
			}
			if pc.res == nil {
				pc.res = &probRes{Err: "never returned"}
				pr.out.notJudged("call-never-returned")
			}
			if strings.HasPrefix(pc.res.Err, "panic: ") {
				pr.out.violate(pr.prop, "panic-in-library", "%s: task %d call %d (%s %v) panicked: %s", pr.label, ti, rec.Index, pc.c.Op, pc.c.Items, pc.res.Err)
			}
			pc.ok = rec.Done && !rec.Hung && pc.res.Err == "" && !pc.res.Skipped
			pr.calls = append(pr.calls, pc)
		}
	}
	pr.checkArguments()
	// NOSCRIPT for a script the server had already run: the ghost's SCRIPT FLUSH made the client fall back to EVAL
	ran := map[string]bool{}
	for _, ex := range e.sim.W.Log {
		if len(ex.Argv) > 1 && strings.HasPrefix(strings.ToUpper(ex.Argv[0]), "EVALSHA") {
			sha := strings.ToLower(ex.Argv[1])
			if ex.ScriptRuns == 1 {
				ran[sha] = true
			} else if ran[sha] && ex.Reply.IsErr() && strings.HasPrefix(ex.Reply.S, "NOSCRIPT") {
				pr.out.probe("noscript-after-script-flush")
				break
			}
		}
	}
}

// checkArguments looks at the index arguments of every script call and HMGET the server received: the client builds
// them as decimal numbers. Anything else means that the argument memory changed between the call and the write: in
// variant "deadline" because the call had returned (rule arguments-changed-after-return, see probFaults), elsewhere
// while the call was still under way (rule arguments-changed-before-write).
func (pr *probRun) checkArguments() {
	for _, ex := range pr.e.sim.W.Log {
		if len(ex.Argv) < 3 {
			continue
		}
		var args []string
		switch name := strings.ToUpper(ex.Argv[0]); {
		case strings.HasPrefix(name, "EVAL"):
			nk, err := strconv.Atoi(ex.Argv[2])
			if err != nil || 3+nk > len(ex.Argv) {
				continue
			}
			args = ex.Argv[3+nk:]
		case name == "HMGET":
			args = ex.Argv[2:]
		default:
			continue
		}
		for _, a := range args {
			if strings.HasPrefix(a, "{") {
				continue // a key name passed as an argument (the sliding filter's Reset declares 4 of its 5 keys)
			}
			if _, err := strconv.ParseUint(a, 10, 64); err != nil {
				pr.out.probe("server-received-non-numeric-index")
				msg := fmt.Sprintf("%s: the server received %s (command %d of its log, connection c%d) with index argument %q; arguments %.120q", pr.label, ex.Argv[0], ex.Seq, ex.Conn, a, args)
				if pr.p.Variant == "deadline" {
					pr.out.violate(pr.prop, "arguments-changed-after-return", "%s", msg)
				} else {
					// no call of these plans ends before its command is written: the argument memory was handed to
					// somebody else while the call that built it was still under way
					pr.out.violate(pr.prop, "arguments-changed-before-write", "%s", msg)
				}
				return
			}
		}
	}
}

func (pc *probCall) where() string {
	return fmt.Sprintf("task %d call %d (%s %v)", pc.task, pc.rec.Index, pc.c.Op, pc.c.Items)
}

func (pc *probCall) isAdd() bool     { return pc.c.Op == "add" || pc.c.Op == "addm" }
func (pc *probCall) isExists() bool  { return pc.c.Op == "ex" || pc.c.Op == "exm" }
func (pc *probCall) isRemove() bool  { return pc.c.Op == "rm" || pc.c.Op == "rmm" }
func (pc *probCall) isMin() bool     { return pc.c.Op == "min" || pc.c.Op == "minm" }
func (pc *probCall) isDestroy() bool { return pc.c.Op == "reset" || pc.c.Op == "delete" }

// before reports that a had returned before b was started (scheduler steps: a's return was observed in a step
// strictly before the one that started b).
func before(a, b *probCall) bool {
	return a.rec.Done && !a.rec.Hung && a.rec.EndStep >= 0 && a.rec.EndStep < b.rec.StartStep
}

// clearOfDestroy reports that no Reset / Delete can have taken effect between the effect of add (which lies inside
// the add call) and the end of query: every such call either succeeded and had returned before add started, or was
// started after query had returned. A Reset / Delete that failed or never returned may take effect at any later time
// (the command may still be on its way), so only the second case clears it.
func (pr *probRun) clearOfDestroy(add, query *probCall) bool {
	for _, d := range pr.calls {
		if !d.isDestroy() || d.res.Skipped {
			continue
		}
		if d.ok && before(d, add) {
			continue
		}
		if before(query, d) {
			continue
		}
		return false
	}
	return true
}

func count(items []string, x string) int {
	n := 0
	for _, y := range items {
		if y == x {
			n++
		}
	}
	return n
}

// serverError reports that an error text is an error reply of the server (as opposed to a transport or context error).
func isTransportish(err string) bool {
	for _, s := range []string{"context", "closed", "EOF", "reset", "broken pipe", "timeout", "deadline", "never returned"} {
		if strings.Contains(err, s) {
			return true
		}
	}
	return false
}

func sortedKeys[V any](m map[string]V) []string {
	ks := make([]string, 0, len(m))
	for k := range m {
		ks = append(ks, k)
	}
	sort.Strings(ks)
	return ks
}

var _ = fakeredis.NewWorld
