//go:build verif

package rueidisprob

// C36: counting Bloom filters track multiplicities without false negatives.
//
// Reference model: a multiset of item names. Every task keeps a ledger (successful adds of an item by this task minus
// removals of it this task has attempted) and issues a planned removal only when the ledger covers it, so in the
// judged plans every removal that reaches the server is paired with its own earlier successful add: "only previously
// added items are removed" holds at every instant, whatever the interleaving and whatever faults do.
//
// For a query Q about item x let L = (occurrences of x in Add/AddMulti calls that had returned nil before Q was
// started) - (occurrences of x in Remove/RemoveMulti calls that were started before Q returned, whether they
// succeeded or not). L is a lower bound of x's net multiplicity throughout Q. Rules:
//
//   false-negative      L > 0 and Exists / ExistsMulti reports x absent (answers per key, in order)
//   min-count-too-low   ItemMinCount / ItemMinCountMulti reports less than L
//   counter-negative    some HINCRBY executed by the model left a counter of the filter's hash below zero (the model's
//                       command log is replayed; its final state is cross-checked with the model's dataset)
//   removal-changed-state   (both variants; the point of variant "impossible", which also removes items that were never
//                       added and items more often than they were added, where the presence rules are NOT applied
//                       because such a removal may legitimately hit counters of other items when all of its own
//                       counters happen to be positive) for every execution of the removal script, the change of the
//                       filter's hash must be exactly the sum of the decrements of SOME of the items in the call, with
//                       every counter still >= 0 afterwards: an item whose removal would drive one of its counters
//                       negative therefore contributes nothing, partially or otherwise. The items of a call are the
//                       consecutive groups of ARGV the client sent (group size = the hash-function count it sent).
//
// Not demanded (the property does not): that a possible removal takes effect; anything about Count; anything about
// Delete (not used here).

import (
	"context"
	"crypto/sha1"
	"encoding/hex"
	"fmt"
	"strconv"
	"strings"
	"testing"

	"github.com/redis/rueidis"

	"verifsim/fakeredis"
)

func init() {
	registerScenario(&scenario{name: "cbloom", gen: genCBloom, load: loadProbPlan, exec: execCBloom})
}

func genCBloom(seed uint64, tier, variant string) any {
	r := planRand(seed, 0xC36)
	p := &ProbPlan{Scenario: "cbloom", Variant: variant, Clients: 1 + r.IntN(2)}
	var heavy bool
	p.N, p.FP, heavy = probConfig(r, true)
	if variant == "impossible" && r.IntN(2) == 0 {
		// tiny filters: many shared counters, so that refused and accepted removals touch the same fields
		p.N, p.FP, heavy = pick[uint64](r, 1, 2, 3, 5), pick(r, 0.3, 0.1, 0.01), false
	}
	p.Sim = SimSpec{CutProb: pick(r, 0.0, 0.3, 0.8), MaxSteps: 8000, TickWeight: pick(r, 0.05, 0.3)}
	nitems := 3 + r.IntN(5)
	added, never := probItems(seed, nitems)
	ntasks, maxCalls, maxMulti := 2+r.IntN(4), 7, 4
	if heavy {
		ntasks, maxCalls, maxMulti = 2, 3, 2
	}
	item := func() string { return added[r.IntN(len(added))] }
	for ti := 0; ti < ntasks; ti++ {
		ledger := map[string]int{}
		var owned []string // items with a positive planned ledger, with repetition
		var calls []ProbCall
		takeOwned := func() (string, bool) {
			if len(owned) == 0 {
				return "", false
			}
			i := r.IntN(len(owned))
			x := owned[i]
			owned = append(owned[:i], owned[i+1:]...)
			ledger[x]--
			return x, true
		}
		for ci, n := 0, 3+r.IntN(maxCalls); ci < n; ci++ {
			c := ProbCall{Op: pick(r, "add", "add", "addm", "addm", "rm", "rm", "rmm", "ex", "ex", "exm", "min", "minm"), Cl: r.IntN(p.Clients)}
			if ci == 0 {
				c.Op = pick(r, "add", "addm")
			}
			switch c.Op {
			case "add":
				c.Items = []string{item()}
			case "addm":
				for i, m := 0, 1+r.IntN(maxMulti); i < m; i++ {
					c.Items = append(c.Items, item())
				}
			case "rm", "rmm":
				m := 1
				if c.Op == "rmm" {
					m = 1 + r.IntN(maxMulti)
				}
				if variant == "impossible" && r.IntN(2) == 0 {
					c.Force = true
					for i := 0; i < m; i++ {
						// never-added items, items of other tasks, and (through repetition) items beyond their multiplicity
						c.Items = append(c.Items, pick(r, never[r.IntN(len(never))], item(), item()))
					}
					break
				}
				for i := 0; i < m; i++ {
					if x, ok := takeOwned(); ok {
						c.Items = append(c.Items, x)
					}
				}
				if len(c.Items) == 0 {
					c.Op, c.Items = "ex", []string{item()}
				}
			case "ex", "min":
				c.Items = []string{item()}
			case "exm", "minm":
				for i, m := 0, 1+r.IntN(maxMulti+1); i < m; i++ {
					if r.IntN(4) == 0 {
						c.Items = append(c.Items, never[r.IntN(len(never))])
					} else {
						c.Items = append(c.Items, item())
					}
				}
			}
			if c.Op == "add" || c.Op == "addm" {
				for _, x := range c.Items {
					ledger[x]++
					owned = append(owned, x)
				}
			}
			calls = append(calls, c)
		}
		p.Tasks = append(p.Tasks, calls)
	}
	for i, n := 0, r.IntN(3); i < n; i++ {
		p.Ghosts = append(p.Ghosts, ProbGhost{MinStep: r.IntN(150), Argv: []string{"SCRIPT", "FLUSH"}})
	}
	probFaults(r, p)
	return p
}

func execCBloom(t *testing.T, plan any, out *Outcome) {
	p := plan.(*ProbPlan)
	var filterKey string
	pr := startProb(p, out, "C36", func(pr *probRun, cl rueidis.Client) error {
		f, err := NewCountingBloomFilter(cl, "cf", uint(p.N), p.FP)
		if err != nil {
			return err
		}
		pr.cbf = append(pr.cbf, f)
		cf := f.(*countingBloomFilter)
		filterKey = cf.name
		pr.setLabel(cf.size, cf.hashIterations)
		return nil
	})
	if pr == nil {
		return
	}
	pr.ledger = make([]map[string]int, len(p.Tasks))
	for i := range pr.ledger {
		pr.ledger[i] = map[string]int{}
	}
	pr.addTasks(func(ctx context.Context, ti int, c ProbCall) *probRes {
		return pr.runCountingCall(ctx, ti, c)
	})
	pr.finishProb()
	if p.Variant != "impossible" {
		pr.checkMultiset()
	}
	pr.checkCounterLog(filterKey)
}

// runCountingCall executes one call of task ti. The ledger of a task is only touched by that task's goroutine.
func (pr *probRun) runCountingCall(ctx context.Context, ti int, c ProbCall) *probRes {
	f := pr.cbf[c.Cl]
	res := &probRes{}
	led := pr.ledger[ti]
	switch c.Op {
	case "add", "addm":
		var err error
		if c.Op == "add" {
			err = f.Add(ctx, c.Items[0])
		} else {
			err = f.AddMulti(ctx, c.Items)
		}
		if res.Err = errStr(err); err == nil {
			for _, x := range c.Items {
				led[x]++
			}
		}
	case "rm", "rmm":
		if pr.k == 0 {
			// a filter without hash functions sends the removal script a zero loop step: Lua 5.1 never leaves that
			// loop (the model would report its step budget, a real server would be busy until SCRIPT KILL)
			res.Skipped = true
			return res
		}
		if !c.Force {
			need := map[string]int{}
			for _, x := range c.Items {
				need[x]++
			}
			for x, n := range need {
				if led[x] < n {
					res.Skipped = true // its add failed (or was minimised away): not a previously added item
					return res
				}
			}
			for x, n := range need {
				led[x] -= n
			}
		}
		if c.Op == "rm" {
			res.Err = errStr(f.Remove(ctx, c.Items[0]))
		} else {
			res.Err = errStr(f.RemoveMulti(ctx, c.Items))
		}
	case "ex":
		b, err := f.Exists(ctx, c.Items[0])
		res.Bools, res.Err = []bool{b}, errStr(err)
	case "exm":
		b, err := f.ExistsMulti(ctx, c.Items)
		res.Bools, res.Err = b, errStr(err)
	case "min":
		n, err := f.ItemMinCount(ctx, c.Items[0])
		res.Counts, res.Err = []uint64{n}, errStr(err)
	case "minm":
		n, err := f.ItemMinCountMulti(ctx, c.Items)
		res.Counts, res.Err = n, errStr(err)
	default:
		res.Err = "harness: unknown op " + c.Op
	}
	return res
}

// lowerBound is L of the header comment for item x and query q.
func (pr *probRun) lowerBound(x string, q *probCall) (l int, lastAdd *probCall) {
	for _, a := range pr.calls {
		switch {
		case a.isAdd() && a.ok && before(a, q):
			if n := count(a.c.Items, x); n > 0 {
				l += n
				lastAdd = a
			}
		case a.isRemove() && !a.res.Skipped && !before(q, a):
			// started before q returned (or concurrently): may have taken effect already, whatever it returned
			l -= count(a.c.Items, x)
		}
	}
	return
}

func (pr *probRun) checkMultiset() {
	out := pr.out
	rule := "false-negative"
	if pr.k == 0 {
		rule = "false-negative-no-hash-functions"
	}
	for _, q := range pr.calls {
		if !(q.isExists() || q.isMin()) || q.res.Skipped {
			continue
		}
		ls := make([]int, len(q.c.Items))
		adds := make([]*probCall, len(q.c.Items))
		any := false
		for i, x := range q.c.Items {
			ls[i], adds[i] = pr.lowerBound(x, q)
			if ls[i] > 0 {
				any = true
			}
		}
		if !any {
			if q.ok {
				out.notJudged("query-without-settled-multiplicity")
			}
			continue
		}
		if !q.ok {
			if pr.p.faulty() || isTransportish(q.res.Err) {
				out.notJudged("query-failed-under-faults")
				continue
			}
			out.violate("C36", rule+"-error", "%s: %s failed with %q although no fault, deadline or cancellation was planned: items with a positive net multiplicity (%v) are not reported present", pr.label, q.where(), q.res.Err, ls)
			continue
		}
		got := len(q.res.Bools)
		if q.isMin() {
			got = len(q.res.Counts)
		}
		if got != len(q.c.Items) {
			out.violate("C36", "answers-not-per-key", "%s: %s returned %d answers for %d keys", pr.label, q.where(), got, len(q.c.Items))
			continue
		}
		for i, x := range q.c.Items {
			if ls[i] <= 0 {
				continue
			}
			out.Nontrivial = true
			if ls[i] > 1 {
				out.probe("multiplicity>1")
			}
			if adds[i].task != q.task {
				out.probe("add-and-query-by-different-tasks")
			}
			if q.isExists() {
				out.judged("exists-with-positive-multiplicity")
				if !q.res.Bools[i] {
					out.violate("C36", rule, "%s: %s answered %v: position %d (%q) is reported absent although at least %d more adds than removals of it were complete (last add: %s, returned nil at step %d; query started at step %d, ended at step %d)",
						pr.label, q.where(), q.res.Bools, i, x, ls[i], adds[i].where(), adds[i].rec.EndStep, q.rec.StartStep, q.rec.EndStep)
				}
			} else {
				out.judged("min-count-with-positive-multiplicity")
				if q.res.Counts[i] < uint64(ls[i]) {
					out.violate("C36", "min-count-too-low", "%s: %s answered %v: position %d (%q) is below its net multiplicity, which was at least %d throughout the call (last add: %s, returned nil at step %d; query started at step %d, ended at step %d)",
						pr.label, q.where(), q.res.Counts, i, x, ls[i], adds[i].where(), adds[i].rec.EndStep, q.rec.StartStep, q.rec.EndStep)
				}
			}
		}
	}
}

// checkCounterLog replays every command the model executed on the filter's hash.
func (pr *probRun) checkCounterLog(filterKey string) {
	out := pr.out
	w := pr.e.sim.W
	sum := sha1.Sum([]byte(countingBloomFilterRemoveMultiScript))
	removeSha := hex.EncodeToString(sum[:])
	state := map[string]int64{}
	negative := false
	apply := func(ex *fakeredis.Exec, delta map[string]int64) {
		if len(ex.Argv) < 2 || ex.Argv[1] != filterKey || ex.Reply.IsErr() {
			return
		}
		switch strings.ToUpper(ex.Argv[0]) {
		case "HINCRBY":
			d, _ := strconv.ParseInt(ex.Argv[3], 10, 64)
			state[ex.Argv[2]] += d
			if delta != nil {
				delta[ex.Argv[2]] += d
			}
			if state[ex.Argv[2]] < 0 && !negative {
				negative = true
				out.violate("C36", "counter-negative", "%s: %q (command %d of the model's log) left counter %q of %s at %d", pr.label, strings.Join(ex.Argv, " "), ex.Seq, ex.Argv[2], filterKey, state[ex.Argv[2]])
			}
		case "DEL", "UNLINK":
			for k := range state {
				delete(state, k)
			}
		case "HGET", "HMGET", "EXISTS":
		default:
			if out.HarnessErr == "" {
				out.HarnessErr = fmt.Sprintf("unexpected command on the filter's hash: %q", ex.Argv)
			}
		}
	}
	for _, ex := range w.Log {
		if len(ex.Sub) == 0 {
			apply(ex, nil)
			continue
		}
		name := strings.ToUpper(ex.Argv[0])
		isRemove := ex.ScriptRuns == 1 && len(ex.Argv) > 3 && ((name == "EVALSHA" && strings.EqualFold(ex.Argv[1], removeSha)) || (name == "EVAL" && ex.Argv[1] == countingBloomFilterRemoveMultiScript))
		if !isRemove {
			for _, sub := range ex.Sub {
				apply(sub, nil)
			}
			continue
		}
		// the items of this removal, as the client sent them
		nk, _ := strconv.Atoi(ex.Argv[2])
		argv := ex.Argv[3+nk:]
		k, err := strconv.Atoi(argv[len(argv)-1])
		idx := argv[:len(argv)-1]
		groupable := err == nil && k > 0 && len(idx)%k == 0 && len(idx)/k <= 12
		pre := map[string]int64{}
		for _, f := range idx {
			pre[f] = state[f]
		}
		delta := map[string]int64{}
		for _, sub := range ex.Sub {
			apply(sub, delta)
		}
		if !groupable {
			out.notJudged("removal-arguments-not-groupable")
			continue
		}
		var groups [][]string
		for i := 0; i < len(idx); i += k {
			groups = append(groups, idx[i:i+k])
		}
		out.judged("removal-script-execution")
		impossible := 0
		for _, g := range groups {
			for _, f := range g {
				if pre[f] < int64(count(g, f)) {
					impossible++
					break
				}
			}
		}
		if impossible > 0 {
			out.probe("removal-that-would-go-negative")
			out.Nontrivial = true
			if impossible < len(groups) {
				out.probe("removal-call-mixes-possible-and-impossible")
			}
		}
		if !explainable(groups, pre, delta) {
			var ds []string
			for _, f := range sortedKeys(delta) {
				ds = append(ds, fmt.Sprintf("%s:%+d(was %d)", f, delta[f], pre[f]))
			}
			var ps []string
			for _, f := range sortedKeys(pre) {
				ps = append(ps, fmt.Sprintf("%s=%d", f, pre[f]))
			}
			out.violate("C36", "removal-changed-state", "%s: removal script (command %d of the model's log) for items with counter indexes %v, counters before %v, changed the hash by %v: that is not the sum of the complete decrements of any subset of these items that keeps every counter >= 0, so an item whose removal would go negative did change something (or an item was removed partially)",
				pr.label, ex.Seq, groups, ps, ds)
		}
	}
	// the replay must agree with the model's dataset (a disagreement is the harness's fault, not a verdict)
	final := pr.e.node.DBs.HashOf(filterKey)
	for _, f := range sortedKeys(final) {
		if v, _ := strconv.ParseInt(final[f], 10, 64); v != state[f] && out.HarnessErr == "" {
			out.HarnessErr = fmt.Sprintf("replay of the command log disagrees with the dataset: field %s is %s, replay says %d", f, final[f], state[f])
		}
		if v, _ := strconv.ParseInt(final[f], 10, 64); v < 0 && !negative {
			negative = true
			out.violate("C36", "counter-negative", "%s: counter %q of %s is %s at the end of the run", pr.label, f, filterKey, final[f])
		}
	}
	for f, v := range state {
		if _, ok := final[f]; !ok && v != 0 && out.HarnessErr == "" {
			out.HarnessErr = fmt.Sprintf("replay of the command log disagrees with the dataset: field %s missing, replay says %d", f, v)
		}
	}
}

// explainable reports whether delta is minus the sum of the index multisets of some subset of groups, with
// pre+delta >= 0 everywhere.
func explainable(groups [][]string, pre, delta map[string]int64) bool {
	for f, d := range delta {
		if pre[f]+d < 0 {
			return false
		}
	}
	for mask := 0; mask < 1<<len(groups); mask++ {
		want := map[string]int64{}
		for i, g := range groups {
			if mask&(1<<i) != 0 {
				for _, f := range g {
					want[f]--
				}
			}
		}
		ok := true
		for f, d := range want {
			if delta[f] != d {
				ok = false
				break
			}
		}
		for f, d := range delta {
			if d != 0 && want[f] != d {
				ok = false
				break
			}
		}
		if ok {
			return true
		}
	}
	return false
}
