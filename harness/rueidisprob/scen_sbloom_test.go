//go:build verif

package rueidisprob

// C37: sliding Bloom filters keep items for at least half a window.
//
// Reference model: item name -> the calls that added it, with their fake start and end times. Rule:
//
//   expired-early   an Exists / ExistsMulti call that was STARTED after an Add / AddMulti of the item had RETURNED nil and
//                   that RETURNED before (start of that add) + window/2 - 1 ms of fake time reports the item present
//                   (answers per key, in order), absent a Reset / Delete that can have taken effect in between.
//
// The add took effect at some instant t inside the add call, the query was evaluated at some instant u inside the
// query call; the property promises presence while u < t + window/2. start(add) <= t and u <= end(query), so
// end(query) < start(add) + window/2 implies u < t + window/2: the rule is sound whatever the server-side instants
// were (it only gives up the part of the half window that the add call itself consumed). Time is the fake clock of
// the run; the model's TIME and key expiry read the same clock plus a constant per-run offset. window/2 is half of the
// Duration given to the constructor, not a value taken from the implementation. The last millisecond before the
// boundary is not judged: one millisecond is the resolution of a Redis server's clock and of the PX option, so no
// implementation on Redis can promise more (the model itself keeps nanoseconds, which is kinder than a real server).
//
// Schedules move the clock in steps that are fractions of the window, so rotations happen between and inside calls,
// adds race with rotations, and queries land shortly before the half window ends.

import (
	"context"
	"strings"
	"testing"
	"time"

	"github.com/redis/rueidis"
)

func init() {
	registerScenario(&scenario{name: "sbloom", gen: genSBloom, load: loadProbPlan, exec: execSBloom})
}

func genSBloom(seed uint64, tier, variant string) any {
	r := planRand(seed, 0xC37)
	p := &ProbPlan{Scenario: "sbloom", Variant: variant, Clients: 1 + r.IntN(2), ReadOnly: r.IntN(3) == 0}
	var heavy bool
	p.N, p.FP, heavy = probConfig(r, false)
	// accepted windows start at one second; odd numbers of milli- and microseconds included
	p.WindowUs = pick[int64](r, 1_000_000, 1_000_000, 1_001_000, 1_000_999, 1_500_000, 1_500_000, 1_999_000, 1_999_000, 2_000_000, 2_500_000, 2_999_999, 3_000_000, 3_333_333, 10_000_000, 10_500_000, 60_000_000, 90_700_000, 3_600_000_000)
	if r.IntN(40) == 0 {
		p.WindowUs = 999_999 // refused
	}
	w := p.WindowUs
	// clock steps between a hundredth and a third of the window (plus a few tiny ones), so that the delay between an add
	// and the queries about it spreads over the whole half window and one to three rotations fall into it
	p.TickUs = []int64{w / 100, w / 30, w / 16, w / 12, w / 10, w / 8, w / 7, w / 6, w / 5, w / 4, w/4 + 1000, w / 3, w/2 - 1500, 1000, 100}
	p.ClockOffMs = pick[int64](r, 0, 0, 12_345, -86_400_000, 3_600_000_123)
	p.Sim = SimSpec{CutProb: pick(r, 0.0, 0.3, 0.8), MaxSteps: 10000, TickWeight: pick(r, 0.3, 0.6, 1.0)}
	destructive := r.IntN(100) < 20
	ops := []string{"add", "add", "addm", "ex", "ex", "ex", "ex", "exm", "exm"}
	if destructive {
		ops = append(ops, "reset", "delete")
	}
	genBloomTasks(r, p, seed, heavy, destructive, ops)
	if r.IntN(2) == 0 && !heavy {
		// a watcher: adds one item and keeps asking about it while the clock moves on (its queries also trigger rotations)
		x := p.Tasks[0][0].Items
		if len(x) == 0 {
			x = []string{"watched"}
		}
		x = x[:1]
		calls := []ProbCall{{Op: "add", Items: x, Cl: r.IntN(p.Clients)}}
		for i, n := 0, 4+r.IntN(6); i < n; i++ {
			calls = append(calls, ProbCall{Op: "ex", Items: x, Cl: r.IntN(p.Clients)})
		}
		p.Tasks = append(p.Tasks, calls)
	}
	for i, n := 0, r.IntN(3); i < n; i++ {
		p.Ghosts = append(p.Ghosts, ProbGhost{MinStep: r.IntN(150), Argv: []string{"SCRIPT", "FLUSH"}})
	}
	probFaults(r, p)
	return p
}

func execSBloom(t *testing.T, plan any, out *Outcome) {
	p := plan.(*ProbPlan)
	window := time.Duration(p.WindowUs) * time.Microsecond
	var filterKey string
	pr := startProb(p, out, "C37", func(pr *probRun, cl rueidis.Client) error {
		f, err := NewSlidingBloomFilter(cl, "sf", uint(p.N), p.FP, window, WithReadOnlyExists(p.ReadOnly))
		if err != nil {
			return err
		}
		pr.bf = append(pr.bf, f)
		sf := f.(*slidingBloomFilter)
		filterKey = sf.name
		pr.setLabel(sf.size, sf.hashIterations)
		return nil
	})
	if pr == nil {
		return
	}
	pr.label += " window=" + window.String()
	pr.addTasks(func(ctx context.Context, ti int, c ProbCall) *probRes {
		return runBloomCall(ctx, pr.bf[c.Cl], c)
	})
	pr.finishProb()

	// rotations the model executed (for probes only)
	var rotations []time.Time
	for _, ex := range pr.e.sim.W.Log {
		for _, sub := range ex.Sub {
			if len(sub.Argv) == 3 && strings.EqualFold(sub.Argv[0], "RENAME") && sub.Argv[2] == filterKey && !sub.Reply.IsErr() {
				rotations = append(rotations, sub.At)
			}
		}
	}
	if len(rotations) > 0 {
		out.probe("rotated")
	}
	if len(rotations) > 2 {
		out.probe("rotated>2")
	}
	half := window / 2
	pr.checkPresence("C37", "expired-early", func(a, q *probCall) bool {
		if !q.rec.Done || q.rec.Hung {
			return false
		}
		if !q.rec.EndAt.Before(a.rec.StartAt.Add(half - time.Millisecond)) {
			if q.rec.EndAt.Before(a.rec.StartAt.Add(half)) {
				out.notJudged("query-within-1ms-of-the-half-window")
			}
			return false
		}
		for _, rt := range rotations {
			if !rt.Before(a.rec.EndAt) && !rt.After(q.rec.StartAt) {
				out.probe("judged-across-a-rotation")
				break
			}
		}
		if q.rec.EndAt.Sub(a.rec.StartAt) > half*3/4 {
			out.probe("judged-in-last-quarter-of-half-window")
		}
		return true
	})
	// evidence that the filter does forget: an item added once and reported absent later
	for _, q := range pr.calls {
		if q.isExists() && q.ok && len(q.res.Bools) == len(q.c.Items) {
			for i, x := range q.c.Items {
				if !q.res.Bools[i] {
					for _, a := range pr.calls {
						if a.isAdd() && a.ok && count(a.c.Items, x) > 0 && before(a, q) {
							out.probe("added-item-reported-absent-after-its-window")
						}
					}
				}
			}
		}
	}
}
