//go:build verif

package rueidisprob

// C35: Bloom filters never report a false negative.
//
// Reference model: the set of item names whose Add / AddMulti returned a nil error. Rules (all from the property text):
//
//   false-negative   an Exists / ExistsMulti call that was STARTED after an Add / AddMulti of the item had RETURNED nil,
//                    with no Reset / Delete that can have taken effect in between (see clearOfDestroy), reports the
//                    item present; ExistsMulti answers per input key, in input order (one answer per key, the answer
//                    at position i is judged for key i);
//   count-decreased  of two Count calls where the first had returned before the second was started, with no Reset /
//                    Delete that can have taken effect from the start of the first to the end of the second, the
//                    second does not report less than the first.
//
// Not judged (preconditions): calls that returned an error in plans with faults or deadlines (an error is never a wrong
// answer); answers about items that were never added successfully (false positives are allowed); configurations the
// constructor refuses.

import (
	"context"
	"fmt"
	"math/rand/v2"
	"testing"

	"github.com/redis/rueidis"
)

func init() {
	registerScenario(&scenario{name: "bloom", gen: genBloom, load: loadProbPlan, exec: execBloom})
}

func genBloomTasks(r *rand.Rand, p *ProbPlan, seed uint64, heavy, destructive bool, ops []string) {
	nitems := 4 + r.IntN(6)
	added, never := probItems(seed, nitems)
	ntasks, maxCalls, maxMulti := 2+r.IntN(4), 6, 4
	if heavy {
		ntasks, maxCalls, maxMulti = 2, 2, 2
	}
	for ti := 0; ti < ntasks; ti++ {
		var calls []ProbCall
		var mine []string // items this task has asked to add so far
		item := func() string {
			if len(mine) > 0 && r.IntN(2) == 0 {
				return mine[r.IntN(len(mine))] // half of the queries are about items this very task added earlier
			}
			return added[r.IntN(len(added))]
		}
		for ci, n := 0, 2+r.IntN(maxCalls); ci < n; ci++ {
			c := ProbCall{Op: ops[r.IntN(len(ops))], Cl: r.IntN(p.Clients)}
			if ci == 0 && r.IntN(3) > 0 {
				c.Op = pick(r, "add", "addm")
			}
			switch c.Op {
			case "add":
				c.Items = []string{added[r.IntN(len(added))]}
				mine = append(mine, c.Items...)
			case "ex":
				c.Items = []string{item()}
			case "addm":
				for i, m := 0, 1+r.IntN(maxMulti); i < m; i++ {
					c.Items = append(c.Items, added[r.IntN(len(added))])
				}
				mine = append(mine, c.Items...)
			case "exm":
				// a mix of items that may have been added and items that never are, at seeded positions
				for i, m := 0, 1+r.IntN(maxMulti+1); i < m; i++ {
					if r.IntN(3) == 0 {
						c.Items = append(c.Items, never[r.IntN(len(never))])
					} else {
						c.Items = append(c.Items, item())
					}
				}
			case "reset", "delete":
				mine = nil
			}
			calls = append(calls, c)
		}
		p.Tasks = append(p.Tasks, calls)
	}
}

func genBloom(seed uint64, tier, variant string) any {
	r := planRand(seed, 0xC35)
	p := &ProbPlan{Scenario: "bloom", Variant: variant, Clients: 1 + r.IntN(2), ReadOnly: r.IntN(3) == 0}
	var heavy bool
	p.N, p.FP, heavy = probConfig(r, false)
	p.Sim = SimSpec{CutProb: pick(r, 0.0, 0.3, 0.8), MaxSteps: 8000, TickWeight: pick(r, 0.05, 0.3)}
	destructive := r.IntN(100) < 30
	ops := []string{"add", "add", "addm", "addm", "ex", "ex", "ex", "exm", "exm", "count", "count"}
	if destructive {
		ops = append(ops, "reset", "delete")
	}
	genBloomTasks(r, p, seed, heavy, destructive, ops)
	for i, n := 0, r.IntN(3); i < n; i++ {
		p.Ghosts = append(p.Ghosts, ProbGhost{MinStep: r.IntN(150), Argv: []string{"SCRIPT", "FLUSH"}})
	}
	probFaults(r, p)
	return p
}

func execBloom(t *testing.T, plan any, out *Outcome) {
	p := plan.(*ProbPlan)
	pr := startProb(p, out, "C35", func(pr *probRun, cl rueidis.Client) error {
		f, err := NewBloomFilter(cl, "bf", uint(p.N), p.FP, WithEnableReadOperation(p.ReadOnly))
		if err != nil {
			return err
		}
		pr.bf = append(pr.bf, f)
		bf := f.(*bloomFilter)
		pr.setLabel(bf.size, bf.hashIterations)
		return nil
	})
	if pr == nil {
		return
	}
	pr.addTasks(func(ctx context.Context, ti int, c ProbCall) *probRes {
		return runBloomCall(ctx, pr.bf[c.Cl], c)
	})
	pr.finishProb()
	pr.checkPresence("C35", "false-negative", nil)
	pr.checkCount()
}

// checkPresence judges every Exists / ExistsMulti answer about an item whose successful add preceded the query.
// inTime, when set, is an additional precondition on the (add, query) pair (the sliding filter's half window).
func (pr *probRun) checkPresence(prop, rule string, inTime func(add, query *probCall) bool) {
	out := pr.out
	if pr.k == 0 {
		// same verdict, separate rule name: a filter that uses no hash function at all answers "absent" to everything
		rule = "false-negative-no-hash-functions"
	}
	for _, q := range pr.calls {
		if !q.isExists() || q.res.Skipped {
			continue
		}
		// which positions must be reported present?
		must := make([]*probCall, len(q.c.Items))
		any := false
		for i, x := range q.c.Items {
			for _, a := range pr.calls {
				if !a.isAdd() || !a.ok || count(a.c.Items, x) == 0 || !before(a, q) {
					continue
				}
				if inTime != nil && !inTime(a, q) {
					continue
				}
				if !pr.clearOfDestroy(a, q) {
					out.probe("reset-or-delete-near-query")
					continue
				}
				must[i], any = a, true
				break
			}
		}
		if !any {
			if q.ok {
				out.notJudged("query-without-settled-add")
			}
			continue
		}
		if !q.ok {
			if pr.p.faulty() || isTransportish(q.res.Err) {
				out.notJudged("query-failed-under-faults")
				continue
			}
			out.violate(prop, rule+"-error", "%s: %s failed with %q although no fault, deadline or cancellation was planned: the items added before it are not reported present", pr.label, q.where(), q.res.Err)
			continue
		}
		if len(q.res.Bools) != len(q.c.Items) {
			out.violate(prop, "answers-not-per-key", "%s: %s returned %d answers for %d keys", pr.label, q.where(), len(q.res.Bools), len(q.c.Items))
			continue
		}
		mixed := false
		for i, x := range q.c.Items {
			a := must[i]
			if a == nil {
				if !q.res.Bools[i] {
					mixed = true
				}
				continue
			}
			out.judged("answer-after-settled-add")
			out.Nontrivial = true
			if a.task != q.task {
				out.probe("add-and-query-by-different-tasks")
			}
			if a.c.Cl != q.c.Cl {
				out.probe("add-and-query-by-different-clients")
			}
			if !q.res.Bools[i] {
				out.violate(prop, rule, "%s: %s answered %v: position %d (%q) is reported absent, but %s had returned nil at step %d (fake %v) before the query started at step %d (fake %v), and no Reset/Delete lies between",
					pr.label, q.where(), q.res.Bools, i, x, a.where(), a.rec.EndStep, a.rec.EndAt.Sub(pr.e.sim.Start), q.rec.StartStep, q.rec.StartAt.Sub(pr.e.sim.Start))
			}
		}
		if mixed && len(q.c.Items) > 1 {
			out.probe("multi-answer-mixes-present-and-absent")
		}
	}
}

// checkCount: Count never decreases except through Reset or Delete.
func (pr *probRun) checkCount() {
	out := pr.out
	var cs []*probCall
	for _, c := range pr.calls {
		if c.c.Op == "count" && c.ok {
			cs = append(cs, c)
		}
	}
	for _, c1 := range cs {
		for _, c2 := range cs {
			if !before(c1, c2) {
				continue
			}
			if !pr.clearOfDestroy(c1, c2) {
				continue
			}
			out.judged("count-pair")
			if c2.res.N > 0 {
				out.probe("count-positive")
			}
			if c2.res.N < c1.res.N {
				out.violate("C35", "count-decreased", "%s: %s returned %d, later %s returned %d, with no Reset/Delete between the start of the first and the end of the second",
					pr.label, c1.where(), c1.res.N, c2.where(), c2.res.N)
			}
		}
	}
}

var _ = fmt.Sprintf
