//go:build verif

package rueidislock

// C34: distributed locks are mutually exclusive and notice loss.
//
// Real code: rueidislock (NewLocker, WithContext/TryWithContext/ForceWithContext, the per-key monitors, the gates and the
// three Lua scripts, which the model executes through lualite) on real rueidis clients. 1-3 Lockers, each with its own
// client and connection, 2-5 tasks running sessions "acquire - hold - release" on one or two lock names.
//
// Attribution: lock values come from util.RandomBytes; the harness replaces that seam by a per-task counter, so every
// value names the task and the attempt that drew it, and draws by different goroutines in one step cannot race.
//
// Oracle (see checks.py for the wording that goes into the evidence): a mirror of the lock keys is kept from the
// model's execution log (and compared with the model's dataset after every step; a difference is a harness error).
// For a holder H (a call that returned a context) "owns" is the number of keys whose value is H's value. "lost" is set
// when a key carrying H's value is removed or overwritten by anything but a script that presented H's value itself
// (ghost DEL/SET/FLUSHALL, expiry, a forced takeover, an extension that arrived after its own deadline).
//
//	R1 two-live-holders       two holders of one name have live contexts at a quiescent point and neither is "lost"
//	                          (names on which ForceWithContext is used are not judged)
//	R2 success-without-majority / released-while-live / gave-up-keys-while-live / keys-taken-while-live
//	                          a live holder that is not "lost" owns fewer than KeyMajority keys (the four names tell how
//	                          it got there: never had them; its release deleted them first; a monitor deleted them after a
//	                          failed extension without anybody asking for a release; another Locker's script took them)
//	R3 loss-not-noticed       a live holder owns fewer than KeyMajority keys for longer than
//	                          KeyValidity + ExtendInterval + (KeyValidity/2 + 1 s) of fake time
//	R4 waiter-*               the run ends idle (only time could pass) with a WithContext call still waiting although its
//	                          context was never cancelled, nobody holds the name and a majority of its keys is free;
//	                          sub-rules by cause: waiter-asleep-after-own-failure, waiter-not-woken-by-same-locker-release-
//	                          under-noloop, waiter-stranded-behind-failed-attempt (consequence of the two), waiter-missed-wakeup
//
// Variants: "" (main), "force" (ForceWithContext mixed in), "trynext" (default TryNextAfter, clean plans) are parts of
// the check. "optout" (default tracking, no fake time), "maj1" (KeyMajority 1) and "giveup" (directed at
// gave-up-keys-while-live) are exploratory only: lock.go's selects and counters make their runs depend on the Go
// runtime (see checks.py, assumptions), so they are not reproducible run by run.

import (
	"context"
	"encoding/json"
	"errors"
	"fmt"
	"runtime"
	"sort"
	"strconv"
	"strings"
	"sync"
	"testing"
	"time"

	"github.com/redis/rueidis"
	"github.com/redis/rueidis/internal/util"

	"verifsim/fakeredis"
	"verifsim/resp"
	"verifsim/sched"
)

// LockOp is one session of a task: acquire, hold, release.
type LockOp struct {
	Kind       string `json:"kind"` // with | try | force
	Locker     int    `json:"locker"`
	Name       string `json:"name"`
	TimeoutMs  int    `json:"timeout_ms,omitempty"` // deadline of the context handed to the call (it also ends the lock)
	Cancelable bool   `json:"cancelable,omitempty"` // the scheduler may cancel that context while the call is waiting
	HoldMs     int    `json:"hold_ms,omitempty"`    // fake time the holder keeps the lock before it may release (0: until the scheduler starts the release)
}

type LockGhost struct {
	MinStep int    `json:"min_step"`
	Kind    string `json:"kind"` // del | lapse | steal | flush
	Name    string `json:"name,omitempty"`
	Idx     []int  `json:"idx,omitempty"`
}

type LockFault struct {
	Kind   string `json:"kind"`
	AtStep int    `json:"at_step"`
	Pick   int    `json:"pick"`
	DurMs  int    `json:"dur_ms,omitempty"`
}

type LockPlan struct {
	Scenario   string      `json:"scenario"`
	Variant    string      `json:"variant,omitempty"`
	Sim        SimSpec     `json:"sim"`
	Timeless   bool        `json:"timeless,omitempty"` // validity far beyond the run and (almost) no ticks while anything can run
	NoLoop     bool        `json:"noloop"`
	SetPX      bool        `json:"setpx,omitempty"`
	Majority   int         `json:"majority"`
	ValidityMs int         `json:"validity_ms"`
	IntervalMs int         `json:"interval_ms,omitempty"` // 0 = default (half the validity)
	TryNextMs  int         `json:"try_next_ms,omitempty"` // 0 = default (20 ms)
	Lockers    int         `json:"lockers"`
	Names      []string    `json:"names"`
	Tasks      [][]LockOp  `json:"tasks"`
	Ghosts     []LockGhost `json:"ghosts,omitempty"`
	Faults     []LockFault `json:"faults,omitempty"`
}

const lockPrefix = "vlk"

func init() {
	registerScenario(&scenario{name: "lock", gen: genLock, load: func(b []byte) (any, error) {
		p := &LockPlan{}
		return p, json.Unmarshal(b, p)
	}, exec: execLock})
}

func genLock(seed uint64, tier, variant string) any {
	r := planRand(seed, 0xC34)
	p := &LockPlan{Scenario: "lock", Variant: variant}
	p.Timeless = variant == "optout"
	p.NoLoop = !p.Timeless
	p.SetPX = r.IntN(3) == 0
	// KeyMajority 1 is excluded: with a single key the monitor goroutine of a refused key reads the failure counter
	// while try() is still about to increment it (lock.go: acquire() starts the monitor before its caller counts the
	// failure), so whether the gate gets a spurious token and a second w-- is decided by the Go runtime, not by the seed
	p.Majority = pick(r, 2, 2, 2, 3)
	if variant == "maj1" {
		p.Majority = 1 // exploratory only (not registered): runs are not reproducible, see above
	}
	if p.Timeless {
		p.ValidityMs = 3_600_000
		p.TryNextMs = 3_600_000
		p.Sim = SimSpec{CutProb: pick(r, 0.0, 0.3), MaxSteps: 6000, TickWeight: 1e-7}
	} else {
		p.ValidityMs = pick(r, 1000, 2000, 5000)
		p.IntervalMs = pick(r, 0, 0, p.ValidityMs/4)
		// TryNextAfter (default 20 ms) is far above any reply latency the scheduler produces, except in variant
		// "trynext": an attempt that fails on its own time-outs leaves waiters asleep (finding of this check)
		p.TryNextMs = 3_600_000
		if variant == "trynext" {
			p.TryNextMs = pick(r, 0, 0, 200)
		}
		p.Sim = SimSpec{CutProb: pick(r, 0.0, 0.3), MaxSteps: 8000, TickWeight: pick(r, 0.2, 0.6)}
	}
	v := p.ValidityMs
	total := 2*p.Majority - 1
	p.Lockers = pick(r, 1, 2, 2, 3, 3)
	p.Names = []string{"a"}
	if r.IntN(4) == 0 {
		p.Names = []string{"a", "b"}
	}
	if seed%2 == 1 {
		// lock names may contain the separator of the key layout (<prefix>:<index>:<name>)
		for i, n := range p.Names {
			p.Names[i] = n + ":order:42"
		}
	}
	ntasks := p.Lockers + r.IntN(3)
	if ntasks < 2 {
		ntasks = 2
	}
	for ti := 0; ti < ntasks; ti++ {
		var ops []LockOp
		for k, n := 0, 1+r.IntN(3); k < n; k++ {
			op := LockOp{Kind: pick(r, "with", "with", "with", "try", "try"), Locker: ti % p.Lockers, Name: pick(r, p.Names...)}
			if r.IntN(5) == 0 {
				op.Locker = r.IntN(p.Lockers)
			}
			if variant == "force" && r.IntN(3) == 0 {
				op.Kind = "force"
			}
			if !p.Timeless {
				op.HoldMs = pick(r, 0, v/5, v/5, v, v, 3*v, 8*v)
				if op.Kind != "with" && r.IntN(5) == 0 {
					// a deadline on the caller's context also ends the lock. Not on WithContext (a deadline that expires
					// while a wake-up is pending makes its select a coin toss of the Go runtime), and never on a multiple
					// of the extension interval (the monitors' select would see the timer and the context together)
					op.TimeoutMs = pick(r, v/2, 2*v, 6*v) + 3
				}
			}
			// Cancelable is never generated: a cancellation that lands while the waiter is inside an attempt and a
			// wake-up token is pending makes WithContext's select a coin toss of the Go runtime (directed plans may set
			// it; the scheduler then cancels only while nothing else can run)
			ops = append(ops, op)
		}
		p.Tasks = append(p.Tasks, ops)
	}
	if variant == "giveup" {
		// directed at the window in monitoring(): holders whose context ends a few milliseconds after an extension timer
		// (the extension then fails fast on a broken connection instead of being retried) plus connection faults that
		// strike while traffic is in flight, which for an idle holder means: while it extends
		step := p.ValidityMs / 2
		if p.IntervalMs > 0 {
			step = p.IntervalMs
		}
		for ti := range p.Tasks {
			for oi := range p.Tasks[ti] {
				op := &p.Tasks[ti][oi]
				op.Kind, op.TimeoutMs, op.HoldMs = "try", step*(1+r.IntN(3))+3, 8*v
			}
		}
		for i, n := 0, 2+r.IntN(3); i < n; i++ {
			p.Faults = append(p.Faults, LockFault{Kind: pick(r, "reset", "eof", "reset-after-exec"), AtStep: 20 + r.IntN(300), Pick: r.IntN(8)})
		}
		return p
	}
	if variant == "fresh" {
		// directed: another client deletes a name's keys in the step after a Locker's script has set them, while the
		// reply is still on its way - the invalidation then travels right behind the reply of the acquisition
		// the clock only moves when nothing else can: whatever a notification sets in motion has then run its course, and
		// a holder that is still live below its majority is waiting for a timer (rule loss-not-noticed-when-idle)
		p.Sim.TickWeight = 1e-7
		p.Sim.CutProb = pick(r, 0.0, 0.0, 0.3) // mostly whole deliveries: the reply and the invalidation arrive in one read
		for i, n := 0, 1+r.IntN(5); i < n; i++ {
			g := LockGhost{MinStep: r.IntN(150), Kind: "del-fresh", Name: pick(r, p.Names...)}
			if r.IntN(4) == 0 {
				g.Idx = []int{0} // marker: delete every key of that attempt, not only the one just set
			}
			p.Ghosts = append(p.Ghosts, g)
		}
		for ti := range p.Tasks {
			for oi := range p.Tasks[ti] {
				if op := &p.Tasks[ti][oi]; op.HoldMs < 3*v {
					op.HoldMs = pick(r, 3*v, 8*v) // holders stay long enough for a missed loss to show
				}
			}
		}
		return p
	}
	if r.IntN(2) == 0 || variant == "trynext" || variant == "maj1" {
		return p // clean plan: no ghosts, no faults; every rule is strict
	}
	subset := func() []int {
		var idx []int
		for i := 0; i < total; i++ {
			if r.IntN(2) == 0 {
				idx = append(idx, i)
			}
		}
		if len(idx) == 0 {
			idx = []int{r.IntN(total)}
		}
		return idx
	}
	for i, n := 0, r.IntN(4); i < n; i++ {
		g := LockGhost{MinStep: r.IntN(600), Name: pick(r, p.Names...)}
		if p.Timeless {
			g.Kind = pick(r, "del", "del", "del", "steal", "flush")
		} else {
			g.Kind = pick(r, "del", "del", "del", "lapse", "lapse", "steal", "flush")
		}
		if g.Kind != "flush" {
			g.Idx = subset()
		}
		p.Ghosts = append(p.Ghosts, g)
		if p.Timeless && g.Kind == "steal" {
			// nothing expires in a timeless plan: the foreign client gives the keys back
			p.Ghosts = append(p.Ghosts, LockGhost{MinStep: g.MinStep + r.IntN(200), Kind: "del", Name: g.Name, Idx: g.Idx})
		}
	}
	for i, n := 0, r.IntN(3); i < n; i++ {
		f := LockFault{AtStep: r.IntN(500), Pick: r.IntN(8)}
		if p.Timeless {
			f.Kind = pick(r, "reset", "eof")
		} else {
			f.Kind = pick(r, "reset", "eof", "reset-after-exec", "stall", "stall", "node-restart")
			switch f.Kind {
			case "stall":
				f.DurMs = pick(r, v/3, 2*v, 5*v)
			case "node-restart":
				f.DurMs = pick(r, 100, v, 3*v)
			}
		}
		p.Faults = append(p.Faults, f)
	}
	return p
}

// ---- run-time state shared between the task goroutines and the scheduler ----

type lockAttempt struct {
	val     string
	sess    *lockSess
	lost    bool // a key carrying val was removed or overwritten by something that did not present val
	lostWhy string
	step    int    // scheduler step in which the value was drawn
	reached bool   // a script presenting val was executed by the model
	refused string // an acquire script presenting val found the key held by this other value ("" = never refused)
	setOK   int    // acquire scripts presenting val that set their key
	taken   int    // keys carrying val that another Locker's script overwrote although nobody forces this name
}

type lockSess struct {
	id, task, idx int
	op            LockOp
	state         int // 0 not started, 1 acquiring, 2 acquired, 3 failed
	lockCtx       context.Context
	cancel        context.CancelFunc
	srcCancel     context.CancelFunc
	err           error
	att           *lockAttempt
	lastAtt       *lockAttempt // the latest attempt of this session, successful or not
	tries         int
	startStep     int
	cancelled     bool // the scheduler cancelled the caller's context
	seen          bool // the scheduler has seen the successful return
	retStep       int
	retAt         time.Time
	doneStep      int // step after which the lock context was first seen done (-1: live)
	releaseStep   int // step in which the task started its release (-1: not yet)
	released      bool
	notOwning     bool
	notOwningAt   time.Time
	sibling       bool // another call of the same Locker on the same name was acquiring while this one was acquiring or holding
	actEnd        int  // last step in which this call was seen acquiring (waiting, trying, or an acquire script of it ran)
	maxOwned      int
	flagged       map[string]bool
}

type lockTaskState struct {
	id    int
	cur   *lockSess
	draws int
	last  *lockAttempt
}

type mirrorEnt struct {
	val string
	exp time.Time
}

type lockMon struct {
	mu          sync.Mutex
	e           *simEnv
	p           *LockPlan
	out         *Outcome
	total       int
	validity    time.Duration
	interval    time.Duration
	bound       time.Duration
	tasks       []*lockTaskState
	sess        []*lockSess
	byGoid      map[uint64]*lockTaskState
	attempts    map[string]*lockAttempt
	mirror      map[string]mirrorEnt
	logIdx      int
	forced      map[string]bool // names on which the plan uses ForceWithContext
	unknownDraw bool
	harnessErr  string
	pairFlag    map[string]bool
	hist        []string // readable history, kept with -verif.tape
	freshStep   map[string]int    // per name: step in which a Locker's script last set one of its keys
	freshVal    map[string]string // ... and the value it wrote
	freshDone   map[int]bool      // del-fresh ghosts already applied (index into the plan's ghosts)
	freshKeys   map[string][]string // ... and the keys set in that step
}

func (m *lockMon) note(format string, a ...any) {
	if *flagTape {
		m.hist = append(m.hist, fmt.Sprintf("HIST step %d %v: ", m.e.sim.Step, m.e.sim.Elapsed())+fmt.Sprintf(format, a...))
	}
}

func lockGoid() uint64 {
	var buf [64]byte
	n := runtime.Stack(buf[:], false)
	var id uint64
	for _, c := range buf[10:n] { // "goroutine 123 ["
		if c < '0' || c > '9' {
			break
		}
		id = id*10 + uint64(c-'0')
	}
	return id
}

func lockMix(a, b uint64) uint64 {
	x := a*0x9e3779b97f4a7c15 ^ b*0xbf58476d1ce4e5b9
	x ^= x >> 30
	x *= 0xbf58476d1ce4e5b9
	x ^= x >> 27
	x *= 0x94d049bb133111eb
	x ^= x >> 31
	return x
}

// draw is the util.RandomBytes seam: the value names the drawing task and its attempt counter.
func (m *lockMon) draw() []byte {
	g := lockGoid()
	m.mu.Lock()
	defer m.mu.Unlock()
	ts := m.byGoid[g]
	if ts == nil {
		m.unknownDraw = true
		return nil
	}
	ts.draws++
	val := fmt.Sprintf("T%02dN%04d.%014x", ts.id, ts.draws, lockMix(m.e.seed, uint64(ts.id)<<32|uint64(ts.draws))&0xffffffffffffff)
	a := &lockAttempt{val: val, sess: ts.cur, step: m.e.sim.Step}
	m.attempts[val] = a
	ts.last = a
	if ts.cur != nil {
		ts.cur.tries++
		ts.cur.lastAtt = a
	}
	return []byte(val)
}

func (m *lockMon) keyOf(name string, i int) string { return keyname(lockPrefix, name, int32(i)) }

// parseKey splits "<prefix>:<i>:<name>".
func (m *lockMon) parseKey(k string) (name string, idx int, ok bool) {
	if !strings.HasPrefix(k, lockPrefix+":") {
		return "", 0, false
	}
	parts := strings.SplitN(k[len(lockPrefix)+1:], ":", 2)
	if len(parts) != 2 {
		return "", 0, false
	}
	i, err := strconv.Atoi(parts[0])
	if err != nil {
		return "", 0, false
	}
	return parts[1], i, true
}

func (m *lockMon) anyFaultFired(s *sched.Sim) bool {
	for _, f := range s.Faults {
		if f.FiredStep > 0 {
			return true
		}
	}
	return false
}

func (m *lockMon) lose(val, why string) {
	if a := m.attempts[val]; a != nil && !a.lost {
		a.lost = true
		a.lostWhy = why
	}
}

func (m *lockMon) purge(now time.Time) {
	for k, en := range m.mirror {
		if !en.exp.IsZero() && !now.Before(en.exp) {
			delete(m.mirror, k)
			m.lose(en.val, "expired")
			if a := m.attempts[en.val]; a != nil && a.sess != nil && a.sess.state == 2 && a.sess.att == a {
				m.out.probe("holder-key-expired")
			}
		}
	}
}

func isOK(v resp.Value) bool { return v.T == '+' && v.S == "OK" }

// apply replays one command of the model's log on the mirror. scriptVal is ARGV[1] of the enclosing script ("" outside scripts).
func (m *lockMon) apply(argv []string, reply resp.Value, at time.Time, scriptVal string, inScript bool) {
	name := strings.ToUpper(argv[0])
	switch name {
	case "GET":
		return
	case "SET":
		if len(argv) < 3 {
			return
		}
		if _, _, ok := m.parseKey(argv[1]); !ok {
			return
		}
		if !isOK(reply) {
			return
		}
		var exp time.Time
		for i := 3; i < len(argv); i++ {
			switch strings.ToUpper(argv[i]) {
			case "PX":
				ms, _ := strconv.ParseInt(argv[i+1], 10, 64)
				exp = at.Add(time.Duration(ms) * time.Millisecond)
				i++
			case "PXAT":
				ms, _ := strconv.ParseInt(argv[i+1], 10, 64)
				exp = time.UnixMilli(ms)
				i++
			case "NX":
			default:
				m.harnessErr = fmt.Sprintf("mirror: SET option %q not handled (%q)", argv[i], argv)
			}
		}
		if old, ok := m.mirror[argv[1]]; ok && old.val != argv[2] {
			name, _, _ := m.parseKey(argv[1])
			if inScript && !m.forced[name] {
				// a Locker's script replaced a value that was still valid, on a name nobody forces: that is no excuse for
				// the holder it was taken from; the rules below see a live holder below its majority
				if a := m.attempts[old.val]; a != nil {
					a.taken++
				}
				m.out.probe("key-taken-by-a-locker-without-force")
			} else {
				m.lose(old.val, "overwritten")
				m.out.probe("key-overwritten")
			}
		}
		m.mirror[argv[1]] = mirrorEnt{val: argv[2], exp: exp}
		if nm, _, ok := m.parseKey(argv[1]); ok && inScript {
			if m.freshStep == nil {
				m.freshStep, m.freshVal, m.freshKeys = map[string]int{}, map[string]string{}, map[string][]string{}
			}
			if m.freshStep[nm] != m.e.sim.Step {
				m.freshKeys[nm] = nil
			}
			m.freshStep[nm], m.freshVal[nm] = m.e.sim.Step, argv[2]
			m.freshKeys[nm] = append(m.freshKeys[nm], argv[1])
		}
	case "DEL":
		n := int64(0)
		for _, k := range argv[1:] {
			if _, _, ok := m.parseKey(k); !ok {
				continue
			}
			if old, ok := m.mirror[k]; ok {
				n++
				delete(m.mirror, k)
				if inScript && scriptVal != old.val {
					// a Locker's script deleted a value it did not present: no excuse for the holder it belonged to
					if a := m.attempts[old.val]; a != nil {
						a.taken++
					}
					m.out.probe("key-taken-by-a-locker-without-force")
				} else if !inScript {
					m.lose(old.val, "deleted by another client")
					if a := m.attempts[old.val]; a != nil && a.sess != nil && a.sess.state == 2 && a.sess.att == a && a.sess.doneStep < 0 {
						m.out.probe("ghost-del-of-live-holder-key")
					}
				}
			}
		}
		if len(argv) == 2 && reply.T == ':' && reply.I != n {
			if _, _, ok := m.parseKey(argv[1]); ok {
				m.harnessErr = fmt.Sprintf("mirror: DEL %q answered %d, mirror says %d", argv[1], reply.I, n)
			}
		}
	case "PEXPIREAT", "PEXPIRE":
		if _, _, ok := m.parseKey(argv[1]); !ok {
			return
		}
		if reply.T != ':' || reply.I != 1 {
			return
		}
		old, ok := m.mirror[argv[1]]
		if !ok {
			m.harnessErr = fmt.Sprintf("mirror: %s %q succeeded on a key the mirror does not have", name, argv[1])
			return
		}
		ms, _ := strconv.ParseInt(argv[2], 10, 64)
		exp := time.UnixMilli(ms)
		if name == "PEXPIRE" {
			exp = at.Add(time.Duration(ms) * time.Millisecond)
		}
		if !exp.After(at) {
			delete(m.mirror, argv[1])
			m.lose(old.val, "expiry set in the past")
			return
		}
		if !(inScript && scriptVal == old.val) {
			// a foreign client changed the expiry: whatever happens to the key afterwards is not the holder's doing
			m.lose(old.val, "expiry changed by another client")
		} else {
			m.out.probe("extension-executed")
		}
		old.exp = exp
		m.mirror[argv[1]] = old
	case "FLUSHALL", "FLUSHDB":
		for k, en := range m.mirror {
			delete(m.mirror, k)
			m.lose(en.val, "flushed")
		}
	default:
		for _, a := range argv[1:] {
			if _, _, ok := m.parseKey(a); ok {
				m.harnessErr = fmt.Sprintf("mirror: command %q touches a lock key and is not handled", argv)
			}
		}
	}
}

func (m *lockMon) applyLog() {
	log := m.e.sim.W.Log
	for ; m.logIdx < len(log); m.logIdx++ {
		ex := log[m.logIdx]
		if ex.Queued {
			continue
		}
		m.purge(ex.At)
		up := strings.ToUpper(ex.Argv[0])
		if up == "EVAL" || up == "EVALSHA" {
			if ex.ScriptRuns == 0 {
				if ex.Reply.IsErr() && strings.HasPrefix(ex.Reply.S, "NOSCRIPT") {
					m.out.probe("noscript-fallback")
				}
				continue
			}
			if len(ex.Argv) < 5 || ex.Argv[2] != "1" {
				m.harnessErr = fmt.Sprintf("unexpected script call %q", ex.Argv)
				continue
			}
			val := ex.Argv[4]
			if *flagTape {
				var subs []string
				for _, sub := range ex.Sub {
					subs = append(subs, sub.Argv[0]+"->"+sub.Reply.String())
				}
				m.note("c%d script key=%s val=%s arg=%s: %s => %s", ex.Conn, ex.Argv[3], val, ex.Argv[5], strings.Join(subs, " "), ex.Reply.String())
			}
			att := m.attempts[val]
			if att != nil {
				att.reached = true
			}
			if len(ex.Sub) > 0 && strings.ToUpper(ex.Sub[0].Argv[0]) == "SET" && !ex.Sub[0].Reply.IsErr() {
				if att != nil && att.sess != nil {
					att.sess.actEnd = m.e.sim.Step // an acquire script of that call reached the server
				}
				if isOK(ex.Sub[0].Reply) {
					if att != nil {
						att.setOK++
					}
				} else {
					m.out.probe("acquire-refused-key-held")
					if att != nil {
						att.refused = m.mirror[ex.Argv[3]].val
						if att.refused == "" {
							att.refused = "?"
						}
					}
				}
			}
			for _, sub := range ex.Sub {
				m.apply(sub.Argv, sub.Reply, ex.At, val, true)
			}
			continue
		}
		if ex.Conn < 0 {
			m.note("ghost %q => %s", ex.Argv, ex.Reply.String())
		}
		m.apply(ex.Argv, ex.Reply, ex.At, "", false)
	}
}

// validate compares the mirror with the model's dataset (harness self-check).
func (m *lockMon) validate(now time.Time) {
	ds := m.e.node.DBs
	for _, name := range m.p.Names {
		for i := 0; i < m.total; i++ {
			k := m.keyOf(name, i)
			en, ok := m.mirror[k]
			if ok {
				v, has := ds.Lookup(k)
				if !has || v != en.val || !ds.ExpireAt(k).Equal(en.exp) {
					m.harnessErr = fmt.Sprintf("mirror diverged at %s: mirror (%q, %v) model (%q, %v, present=%v)", k, en.val, en.exp, v, ds.ExpireAt(k), has)
				}
				continue
			}
			if ds.Has(k) {
				if exp := ds.ExpireAt(k); exp.IsZero() || now.Before(exp) {
					v, _ := ds.Lookup(k)
					m.harnessErr = fmt.Sprintf("mirror diverged at %s: mirror has nothing, model has %q until %v", k, v, exp)
				}
			}
		}
	}
}

func (m *lockMon) owns(h *lockSess) int {
	n := 0
	for i := 0; i < m.total; i++ {
		if en, ok := m.mirror[m.keyOf(h.op.Name, i)]; ok && en.val == h.att.val {
			n++
		}
	}
	return n
}

func (m *lockMon) flag(h *lockSess, rule, format string, a ...any) {
	if h.flagged[rule] {
		return
	}
	h.flagged[rule] = true
	m.out.violate("C34", rule, format, a...)
}

func (m *lockMon) describe(h *lockSess) string {
	return fmt.Sprintf("task %d session %d (%s %q on locker %d, value %s, returned at step %d)", h.task, h.idx, h.op.Kind, h.op.Name, h.op.Locker, h.att.val, h.retStep)
}

func (m *lockMon) onStep(s *sched.Sim) error {
	m.mu.Lock()
	defer m.mu.Unlock()
	now := time.Now()
	m.applyLog()
	m.purge(now)
	m.validate(now)
	if m.unknownDraw && m.harnessErr == "" {
		m.harnessErr = "a lock value was drawn by a goroutine that is not a workload task"
	}
	if m.harnessErr != "" {
		if m.out.HarnessErr == "" {
			m.out.HarnessErr = m.harnessErr
		}
		return errors.New(m.harnessErr)
	}
	// sample the holders
	for _, h := range m.sess {
		if h.state != 2 {
			continue
		}
		if !h.seen {
			h.seen = true
			h.retStep, h.retAt = s.Step, now
			m.note("RETURN %s tries=%d owns=%d", m.describe(h), h.tries, m.owns(h))
			m.out.judged("holders")
			if h.tries > 1 {
				m.out.probe("waiter-acquired-after-waiting")
			}
			if h.att.lost {
				m.out.probe("holder-had-lost-a-key-before-returning")
			}
		}
		if h.doneStep < 0 && h.lockCtx.Err() != nil {
			h.doneStep = s.Step
			if h.notOwning && h.releaseStep < 0 {
				// how much of the allowance did the holder need to notice the loss?
				switch d := now.Sub(h.notOwningAt); {
				case d <= m.bound/10:
					m.out.probe("loss-noticed-within-10%-of-the-bound")
				case d <= m.bound/2:
					m.out.probe("loss-noticed-within-50%-of-the-bound")
				default:
					m.out.probe("loss-noticed-within-100%-of-the-bound")
				}
			}
			below := time.Duration(0)
			if h.notOwning {
				below = now.Sub(h.notOwningAt)
			}
			m.note("CTXDONE %s releaseStep=%d lost=%v(%s) owns=%d below-majority-for=%v bound=%v", m.describe(h), h.releaseStep, h.att.lost, h.att.lostWhy, m.owns(h), below, m.bound)
			if h.releaseStep < 0 {
				m.out.probe("lock-context-ended-before-release")
				if h.att.lost {
					m.out.probe("loss-noticed")
				}
			}
		}
	}
	// holders that have lost a key: is another call of the same Locker on the same name under way?
	for _, h := range m.sess {
		if h.state == 1 {
			h.actEnd = s.Step
		}
	}
	for _, h := range m.sess {
		if h.state == 2 && h.doneStep < 0 && h.att != nil && h.att.lost && !h.sibling {
			for _, h2 := range m.sess {
				if h2 == h || h2.state == 0 || h2.op.Locker != h.op.Locker || h2.op.Name != h.op.Name {
					continue
				}
				// acquiring (each call empties a key's channel before trying the key), or holding (its monitors listen on
				// the same channels; one notification wakes one listener) during this call's lifetime
				if h2.actEnd >= h.startStep || (h2.state == 2 && (h2.doneStep < 0 || h2.doneStep >= h.startStep)) {
					h.sibling = true
				}
			}
		}
	}
	// judge
	for _, name := range m.p.Names {
		var live []*lockSess
		for _, h := range m.sess {
			if h.state == 2 && h.op.Name == name && h.doneStep < 0 {
				live = append(live, h)
			}
		}
		var sound []*lockSess
		for _, h := range live {
			own := m.owns(h)
			if own > h.maxOwned {
				h.maxOwned = own
			}
			if !h.att.lost {
				sound = append(sound, h)
			}
			if own >= m.p.Majority {
				h.notOwning = false
				continue
			}
			if !h.att.lost {
				if h.att.taken > 0 {
					m.flag(h, "keys-taken-while-live", "%s: %d of its keys were overwritten by another Locker's script although nobody uses ForceWithContext on this name; it is down to %d of %d keys (majority %d) at step %d and its lock context is still live",
						m.describe(h), h.att.taken, own, m.total, m.p.Majority, s.Step)
				} else if h.maxOwned >= m.p.Majority && h.releaseStep < 0 {
					m.flag(h, "gave-up-keys-while-live", "%s: nobody asked it to release, yet its own delete script has brought it down to %d of %d keys (majority %d) at step %d while its lock context is still live (a monitor whose extension failed deletes its key before the context is cancelled); nothing else ever touched its keys",
						m.describe(h), own, m.total, m.p.Majority, s.Step)
				} else if h.maxOwned >= m.p.Majority {
					m.flag(h, "released-while-live", "%s: its own release script has brought it down to %d of %d keys (majority %d) at step %d while its lock context is still live and nothing else ever touched its keys",
						m.describe(h), own, m.total, m.p.Majority, s.Step)
				} else {
					m.flag(h, "success-without-majority", "%s: the call returned a live lock context although the model never showed more than %d of %d keys with its value (majority %d) and nothing else ever touched its keys",
						m.describe(h), h.maxOwned, m.total, m.p.Majority)
				}
				continue
			}
			if !h.notOwning {
				h.notOwning, h.notOwningAt = true, now
				if h.retAt.Before(now) || h.retStep < s.Step {
					m.out.probe("live-holder-below-majority")
				}
				continue
			}
			// "promptly", without a clock: the invalidation of a key another client deleted or overwrote reaches the holder's
			// connection, wakes the key's monitor, whose extension then fails. When nothing but the clock can make progress
			// any more (every push delivered, every goroutine asleep) that chain has run its course and the lock context
			// must be done; a holder that is still live can only find out when its next extension timer fires. Judged in
			// runs without connection faults (a lost connection loses pushes; then only the timer is left).
			if s.IdleFor() > 0 && h.releaseStep < 0 && h.retStep < s.Step && !m.anyFaultFired(s) &&
				(h.att.lostWhy == "deleted by another client" || h.att.lostWhy == "overwritten" || h.att.lostWhy == "flushed") {
				rule, why := "loss-not-noticed-when-idle", "the invalidation did not cancel it"
				if h.sibling {
					// the notification channels are per Locker, name and key index, shared by every call of that Locker on
					// the name; each call empties the channel of a key before it tries the key (also when it only passes the
					// key by after an earlier refusal) and thereby takes away the notification meant for the holder's monitor
					rule, why = "loss-not-noticed-when-idle-sibling-call", "another call of the same Locker on this name was acquiring or holding and took the notification from the shared channel"
				}
				m.flag(h, rule, "%s: owns %d of %d keys (majority %d; first loss: %s) and its lock context is still live at step %d although nothing but the clock can make progress (idle for %v of fake time): %s, only its next extension timer can",
					m.describe(h), own, m.total, m.p.Majority, h.att.lostWhy, s.Step, s.IdleFor(), why)
			} else if s.IdleFor() > 0 && h.releaseStep < 0 {
				m.out.notJudged("idle-live-holder-below-majority:" + h.att.lostWhy)
			}
			if now.Sub(h.notOwningAt) > m.bound {
				rule, why := "loss-not-noticed", ""
				for _, l := range s.Links {
					if l.StallS2C.After(h.notOwningAt) || l.StallC2S.After(h.notOwningAt) {
						// a monitor whose extension failed runs the delete script with context.Background() BEFORE it counts
						// itself out and cancels; on a connection that has gone silent that script waits for as long as the
						// silence lasts (same ordering as known finding gave-up-keys-while-live)
						rule, why = "loss-not-noticed-behind-stalled-connection", fmt.Sprintf("; connection %d was stalled during that time", l.ID)
					}
				}
				m.flag(h, rule, "%s: owns %d of %d keys (majority %d) since %v of fake time (first loss: %s), longer than validity %v + interval %v + slack, and its lock context is still live at step %d%s",
					m.describe(h), own, m.total, m.p.Majority, now.Sub(h.notOwningAt), h.att.lostWhy, m.validity, m.interval, s.Step, why)
			}
		}
		if len(live) >= 2 {
			m.out.probe("two-live-contexts-one-stale")
		}
		if m.forced[name] {
			continue
		}
		if len(sound) >= 2 {
			a, b := sound[0], sound[1]
			key := fmt.Sprintf("%d/%d", a.id, b.id)
			if !m.pairFlag[key] {
				m.pairFlag[key] = true
				m.out.violate("C34", "two-live-holders", "name %q at step %d: %s (owns %d) and %s (owns %d) both have live lock contexts; no ForceWithContext on this name, no key of either was ever expired, deleted or overwritten by anyone else",
					name, s.Step, m.describe(a), m.owns(a), m.describe(b), m.owns(b))
			}
		}
	}
	return nil
}

// ---- execution ----

func execLock(t *testing.T, plan any, out *Outcome) {
	p := plan.(*LockPlan)
	e := newSimEnv(out.Seed, p.Sim, out)
	s := e.sim
	// (variant fresh delivers the reply of an acquisition and the invalidation behind it in ONE read: whether the
	// acquiring goroutine or the connection's reader gets to the key's notification channel first is then up to the Go
	// runtime - with GOMAXPROCS 1, which the part is run with, the reader finishes its read first. Either order must be
	// handled by the code under test, so the oracle does not depend on it; only replay hashes may)
	s.Cfg.S2CFrameWise = p.Variant != "fresh"
	s.Cfg.GroupResume = true
	s.W.ScriptReadsTrack = true
	rueidis.VerifYieldFullIdentity(true)
	out.Config = fmt.Sprintf("var=%s,maj=%d,val=%d,int=%d,try=%d,noloop=%v,setpx=%v,lockers=%d,tasks=%d,ghosts=%d,faults=%d", p.Variant, p.Majority, p.ValidityMs, p.IntervalMs, p.TryNextMs, p.NoLoop, p.SetPX, p.Lockers, len(p.Tasks), len(p.Ghosts), len(p.Faults))

	m := &lockMon{e: e, p: p, out: out, total: 2*p.Majority - 1, byGoid: map[uint64]*lockTaskState{}, attempts: map[string]*lockAttempt{},
		mirror: map[string]mirrorEnt{}, forced: map[string]bool{}, pairFlag: map[string]bool{}}
	m.validity = time.Duration(p.ValidityMs) * time.Millisecond
	m.interval = time.Duration(p.IntervalMs) * time.Millisecond
	if m.interval <= 0 {
		m.interval = m.validity / 2
	}
	m.bound = m.validity + m.interval + m.validity/2 + time.Second
	util.VerifRandomBytes = m.draw

	lockers := make([]Locker, p.Lockers)
	var setupErr error
	rr := e.background("setup", func(ctx context.Context) {
		for i := range lockers {
			opt := e.option()
			opt.RetryDelay = func(attempts int, _ rueidis.Completed, _ error) time.Duration {
				if attempts > 8 {
					attempts = 8
				}
				return time.Duration(attempts) * 50 * time.Millisecond
			}
			lk, err := NewLocker(LockerOption{
				ClientOption:   opt,
				KeyPrefix:      lockPrefix,
				KeyValidity:    m.validity,
				ExtendInterval: time.Duration(p.IntervalMs) * time.Millisecond,
				TryNextAfter:   time.Duration(p.TryNextMs) * time.Millisecond,
				KeyMajority:    int32(p.Majority),
				NoLoopTracking: p.NoLoop,
				FallbackSETPX:  p.SetPX,
				ClientBuilder: func(o rueidis.ClientOption) (rueidis.Client, error) {
					cl, err := rueidis.NewClient(o)
					if err == nil {
						e.track(cl)
					}
					return cl, err
				},
			})
			if err != nil {
				setupErr = err
				return
			}
			lockers[i] = lk
		}
	})
	if rr.Reason != "done" || setupErr != nil {
		out.HarnessErr = fmt.Sprintf("setup failed: reason=%s err=%v", rr.Reason, setupErr)
		e.finish()
		return
	}
	base := s.Step

	for ti, ops := range p.Tasks {
		ts := &lockTaskState{id: ti}
		m.tasks = append(m.tasks, ts)
		var calls []sched.Call
		for oi, op := range ops {
			op := op
			if op.Locker < 0 || op.Locker >= len(lockers) {
				op.Locker = 0
			}
			if op.Kind == "force" {
				m.forced[op.Name] = true
			}
			h := &lockSess{id: len(m.sess), task: ti, idx: oi, op: op, doneStep: -1, releaseStep: -1, flagged: map[string]bool{}}
			m.sess = append(m.sess, h)
			lk := lockers[op.Locker]
			calls = append(calls, sched.Call{Name: "acquire-" + op.Kind, Run: func(ctx context.Context, rec *sched.CallRec) any {
				rueidis.VerifNameGoroutine(sched.TaskID(ctx))
				m.mu.Lock()
				m.byGoid[lockGoid()] = ts
				ts.cur = h
				h.state = 1
				h.startStep = rec.StartStep
				src := ctx
				switch {
				case op.TimeoutMs > 0:
					src, h.srcCancel = context.WithTimeout(ctx, time.Duration(op.TimeoutMs)*time.Millisecond)
				case op.Cancelable:
					src, h.srcCancel = context.WithCancel(ctx)
				}
				m.mu.Unlock()
				var lctx context.Context
				var cancel context.CancelFunc
				var err error
				switch op.Kind {
				case "with":
					lctx, cancel, err = lk.WithContext(src, op.Name)
				case "try":
					lctx, cancel, err = lk.TryWithContext(src, op.Name)
				default:
					lctx, cancel, err = lk.ForceWithContext(src, op.Name)
				}
				m.mu.Lock()
				if err == nil {
					h.lockCtx, h.cancel, h.att = lctx, cancel, ts.last
					h.state = 2
				} else {
					h.err = err
					h.state = 3
				}
				ts.cur = nil
				m.mu.Unlock()
				if err != nil && h.srcCancel != nil {
					h.srcCancel()
				}
				return nil
			}})
			calls = append(calls, sched.Call{Name: "hold", Run: func(ctx context.Context, rec *sched.CallRec) any {
				if h.state != 2 || op.HoldMs <= 0 {
					return nil
				}
				tm := time.NewTimer(time.Duration(op.HoldMs) * time.Millisecond)
				select {
				case <-h.lockCtx.Done():
				case <-tm.C:
				}
				tm.Stop()
				return nil
			}})
			calls = append(calls, sched.Call{Name: "release", Run: func(ctx context.Context, rec *sched.CallRec) any {
				if h.state != 2 {
					return nil
				}
				m.mu.Lock()
				h.releaseStep = rec.StartStep
				m.mu.Unlock()
				h.cancel()
				if h.srcCancel != nil {
					h.srcCancel()
				}
				m.mu.Lock()
				h.released = true
				m.mu.Unlock()
				return nil
			}})
		}
		s.AddTask(fmt.Sprintf("task%d", ti), calls)
	}

	// The scheduler may cancel the context of a waiting call, but only while nothing else can run: the waiter then
	// sleeps in its select with no wake-up pending. (A cancellation that lands while a wake-up token is pending makes
	// WithContext's select a coin toss of the Go runtime, which no seed controls.)
	s.UserEvents = func(s *sched.Sim) []sched.Event {
		// del-fresh: enabled in the step after a script set a key of the name, while its reply is still undelivered
		m.mu.Lock()
		var fresh []sched.Event
		for gi, g := range p.Ghosts {
			gi, g := gi, g
			if g.Kind != "del-fresh" || m.freshDone[gi] || s.Step < base+g.MinStep || m.freshStep[g.Name] != s.Step-1 {
				continue
			}
			pending := false
			for _, l := range s.Links {
				if !l.Dead && len(l.S.Out) > 0 {
					pending = true
				}
			}
			if !pending {
				continue
			}
			val := m.freshVal[g.Name]
			fresh = append(fresh, sched.Event{Kind: "ghost", Key: fmt.Sprintf("g%d:del-fresh", gi), Weight: 6, Do: func() {
				m.mu.Lock()
				if m.freshDone == nil {
					m.freshDone = map[int]bool{}
				}
				m.freshDone[gi] = true
				var keys []string
				if len(g.Idx) > 0 {
					// every key that carries the value, the older ones too (their monitors are running and notice)
					for i := 0; i < m.total; i++ {
						if k := m.keyOf(g.Name, i); m.mirror[k].val == val {
							keys = append(keys, k)
						}
					}
				} else {
					keys = append(keys, m.freshKeys[g.Name]...) // only the keys that were set a step ago
				}
				m.mu.Unlock()
				for _, k := range keys {
					s.W.Ghost(e.addr, "DEL", k)
				}
				s.Stats["ghost.del-fresh-keys"] += len(keys)
			}})
			break
		}
		m.mu.Unlock()
		if len(fresh) > 0 {
			return fresh
		}
		if s.ParkedCount() > 0 || len(s.Net.PendingDials()) > 0 {
			return nil
		}
		for _, l := range s.Links {
			if !l.Dead && (l.C.PendingWritten() > 0 || len(l.S.Out) > 0) {
				return nil
			}
		}
		m.mu.Lock()
		defer m.mu.Unlock()
		var evs []sched.Event
		for _, h := range m.sess {
			h := h
			if h.state == 1 && h.op.Cancelable && !h.cancelled && h.srcCancel != nil && s.Step >= h.startStep+6 {
				evs = append(evs, sched.Event{Kind: "lcancel", Key: fmt.Sprintf("s%d", h.id), Weight: 2, Do: func() {
					m.mu.Lock()
					h.cancelled = true
					m.mu.Unlock()
					h.srcCancel()
				}})
			}
		}
		return evs
	}

	foreign := 0
	for _, g := range p.Ghosts {
		g := g
		var keys []string
		for _, i := range g.Idx {
			if i >= 0 && i < m.total {
				keys = append(keys, m.keyOf(g.Name, i))
			}
		}
		if g.Kind == "del-fresh" {
			continue // applied through UserEvents below, when a key has just been set
		}
		s.Ghosts = append(s.Ghosts, &sched.GhostOp{Name: g.Kind + " " + strings.Join(keys, ","), MinStep: base + g.MinStep, Do: func(s *sched.Sim) {
			switch g.Kind {
			case "del":
				for _, k := range keys {
					s.W.Ghost(e.addr, "DEL", k)
				}
			case "lapse":
				for _, k := range keys {
					s.W.Ghost(e.addr, "PEXPIRE", k, "1")
				}
			case "steal":
				for _, k := range keys {
					foreign++
					if p.Timeless {
						s.W.Ghost(e.addr, "SET", k, fmt.Sprintf("foreign-%d", foreign))
					} else {
						s.W.Ghost(e.addr, "SET", k, fmt.Sprintf("foreign-%d", foreign), "PX", strconv.Itoa(p.ValidityMs))
					}
				}
			case "flush":
				s.W.Ghost(e.addr, "FLUSHALL")
			}
		}})
	}
	for _, f := range p.Faults {
		s.Faults = append(s.Faults, &sched.Fault{Kind: f.Kind, AtStep: base + f.AtStep, NeedInflight: f.Kind != "stall" && f.Kind != "node-restart", Pick: f.Pick, Dur: time.Duration(f.DurMs) * time.Millisecond})
	}

	s.OnStep = m.onStep
	e.runTasks()
	s.OnStep = nil
	if out.HarnessErr == "" {
		m.final()
	}
	e.closeAll(func() {
		for _, lk := range lockers {
			lk.Close()
		}
		e.clients = nil
	})
	e.finish()
	util.VerifRandomBytes = nil
	if *flagTape {
		for _, h := range m.sess {
			m.hist = append(m.hist, fmt.Sprintf("HIST session %d task %d/%d %+v state=%d tries=%d err=%v start=%d ret=%d done=%d release=%d released=%v cancelled=%v", h.id, h.task, h.idx, h.op, h.state, h.tries, h.err, h.startStep, h.retStep, h.doneStep, h.releaseStep, h.released, h.cancelled))
		}
		out.Tape = append(out.Tape, m.hist...)
	}
}

// final judges the calls that never returned and fills in the reach counters.
func (m *lockMon) final() {
	m.mu.Lock()
	defer m.mu.Unlock()
	out := m.out
	s := m.e.sim
	now := time.Now()
	m.applyLog()
	m.purge(now)
	for _, f := range s.Faults {
		if f.FiredStep > 0 {
			out.probe("fault-fired:" + f.Kind)
		}
	}
	holders, contended := 0, false
	for _, h := range m.sess {
		if h.state == 2 {
			holders++
		}
		if h.tries > 1 || (h.state == 3 && errors.Is(h.err, ErrNotLocked)) {
			contended = true
		}
	}
	if out.Probes["acquire-refused-key-held"] > 0 {
		contended = true
	}
	out.Nontrivial = holders > 0 && contended
	if m.bound > 10*time.Minute {
		out.notJudged("loss-notice-bound-beyond-the-run(timeless plan)")
	}
	idleEnd := strings.HasSuffix(out.Reason, "stuck")
	type stuckWaiter struct {
		h     *lockSess
		free  int
		class string
	}
	var stuck []stuckWaiter
	for ti, t := range s.Tasks {
		for _, rec := range t.Recs {
			if !rec.Hung {
				continue
			}
			h := m.sessOf(ti, rec.Index/3)
			phase := rec.Index % 3
			if phase != 0 {
				out.notJudged([]string{"", "hold-call-still-running", "release-call-still-running"}[phase])
				continue
			}
			if h.op.Kind != "with" {
				out.notJudged("try-or-force-call-still-running")
				continue
			}
			if h.cancelled || h.op.TimeoutMs > 0 {
				out.notJudged("waiter-with-ended-context-still-running")
				continue
			}
			if !idleEnd {
				out.notJudged("waiter-still-running-when-steps-ran-out")
				continue
			}
			blocked := false
			for _, o := range m.sess {
				if o != h && o.op.Name == h.op.Name && o.state == 2 && !o.released {
					blocked = true
				}
			}
			if blocked {
				out.notJudged("waiter-behind-unreleased-holder")
				continue
			}
			free := 0
			for i := 0; i < m.total; i++ {
				if _, ok := m.mirror[m.keyOf(h.op.Name, i)]; !ok {
					free++
				}
			}
			if free < m.p.Majority {
				out.notJudged("waiter-behind-orphan-keys")
				continue
			}
			if h.lastAtt == nil {
				out.notJudged("waiter-never-tried")
				continue
			}
			out.judged("waiters")
			stuck = append(stuck, stuckWaiter{h: h, free: free})
		}
	}
	// Classify the waiters that sleep although the lock is free.
	//   own-failure: the waiter's last attempt was not refused by anybody (its own time-outs, errors): nothing will wake it.
	//   noloop:      its last attempt was refused by a value that a FAILED attempt of the same Locker had set; under NOLOOP
	//                the deletion of that value is neither pushed to the connection nor signalled to the gate.
	//   stranded:    consequence of one of the two (the wake-up went to a waiter of the same gate that then failed that way).
	//   missed:      none of the above.
	ownFail := func(x *lockAttempt) bool { return x != nil && x.sess != nil && x.sess.att != x && x.refused == "" }
	for i := range stuck {
		w := &stuck[i]
		la := w.h.lastAtt
		b := m.attempts[la.refused]
		switch {
		case la.refused == "":
			w.class = "own-failure"
		case m.p.NoLoop && b != nil && b.sess != nil && b.sess.att != b && b.sess.op.Locker == w.h.op.Locker:
			w.class = "noloop"
		}
	}
	for i := range stuck {
		w := &stuck[i]
		if w.class != "" {
			continue
		}
		la := w.h.lastAtt
		w.class = "missed"
		if ownFail(m.attempts[la.refused]) {
			w.class = "stranded"
		}
		for _, x := range m.attempts {
			if x != la && x.sess != nil && x.sess.op.Name == w.h.op.Name && x.step >= la.step && ownFail(x) {
				w.class = "stranded"
			}
		}
		for _, o := range stuck {
			if o.h != w.h && o.h.op.Name == w.h.op.Name && (o.class == "own-failure" || o.class == "noloop") {
				w.class = "stranded"
			}
		}
	}
	for _, w := range stuck {
		h := w.h
		la := h.lastAtt
		by := "a foreign client"
		if b := m.attempts[la.refused]; b != nil && b.sess != nil {
			kind := "an attempt that failed"
			if b.sess.att == b {
				kind = "the lock"
			}
			by = fmt.Sprintf("%s of task %d session %d on locker %d", kind, b.sess.task, b.sess.idx, b.sess.op.Locker)
		}
		refusedBy := fmt.Sprintf("its last attempt (%s) was refused because a key carried %s (%s), which has been removed since", la.val, la.refused, by)
		var rule, why string
		switch w.class {
		case "own-failure":
			rule = "waiter-asleep-after-own-failure"
			why = fmt.Sprintf("its last attempt (%s) was not refused by anybody: it set %d key(s) and gave up on its own (acquire time-outs or errors; reached the server: %v), after which nothing wakes it", la.val, la.setOK, la.reached)
		case "noloop":
			rule = "waiter-not-woken-by-same-locker-release-under-noloop"
			why = refusedBy + "; that deletion went through the waiter's own connection, which NOLOOP excludes from the invalidation, and a failed attempt does not signal the gate"
		case "stranded":
			rule = "waiter-stranded-behind-failed-attempt"
			why = refusedBy + "; the wake-up went to another attempt on this name that then ended without becoming a holder and without waking anybody"
		default:
			rule = "waiter-missed-wakeup"
			why = refusedBy
		}
		out.violate("C34", rule, "task %d session %d: WithContext(%q) on locker %d started at step %d is still waiting at the end of the run (reason %s, %d steps, %v of fake time, nothing left to run but the clock) after %d attempts; %s; its context was never cancelled, nobody holds %q and %d of its %d keys are free (majority %d)",
			h.task, h.idx, h.op.Name, h.op.Locker, h.startStep, out.Reason, s.Step, s.Elapsed(), h.tries, why, h.op.Name, w.free, m.total, m.p.Majority)
	}
	for _, h := range m.sess {
		if h.op.Kind == "with" && h.state == 2 {
			out.judged("waiters")
		}
		if h.state == 2 && h.att.lost {
			out.notJudged("strict-rules:holder-lost-a-key-to-" + strings.ReplaceAll(h.att.lostWhy, " ", "-"))
		}
		if h.state == 0 {
			out.notJudged("session-never-started")
		}
	}
	var names []string
	for n := range m.forced {
		names = append(names, n)
	}
	sort.Strings(names)
	for range names {
		out.notJudged("exclusion:name-with-force")
	}
}

func (m *lockMon) sessOf(task, idx int) *lockSess {
	for _, h := range m.sess {
		if h.task == task && h.idx == idx {
			return h
		}
	}
	return nil
}

var _ = fakeredis.NewWorld
