//go:build verif

package rueidiscompat

// C41: go-redis adapter pipelines keep order and wrap transactions exactly.
//
// echo mode: every method of CoreCmdable is callable on a Pipeline / TxPipeline with arguments generated from the
// plan (reflection over the parameter types). The model answers every user command with an error that names the
// command's global sequence number, so a result is attributable to exactly one command on the wire whatever its
// reply type would have been. Oracle: each queued method adds exactly one command and one Cmder; Exec returns the
// Cmders in queue order, Cmder i carries the reply of the i-th command of the batch, the batch is contiguous on one
// connection (MULTI first and EXEC last for transactions, element i of EXEC for Cmder i), the returned error is the
// first Cmder error, Discard leaves nothing on the wire.
//
// real mode (variant "real"): typed commands against the real model, WATCH sessions raced by ghost writers.

import (
	"context"
	"runtime"
	"encoding/json"
	"fmt"
	"math/rand/v2"
	"reflect"
	"sort"
	"strconv"
	"strings"
	"testing"
	"time"

	"github.com/redis/rueidis"

	"verifsim/fakeredis"
	"verifsim/resp"
	"verifsim/sched"
)

type CompatOp struct {
	M    string   `json:"m"`
	Salt uint64   `json:"salt,omitempty"`
	A    []string `json:"a,omitempty"` // real mode: explicit arguments
}

type CompatCall struct {
	Kind      string     `json:"kind"` // pipe | tx | watch
	Ops       []CompatOp `json:"ops"`
	DiscardAt int        `json:"discard_at"` // -1 = never; k = Discard() after k ops were queued, then go on
	Watch     []string   `json:"watch,omitempty"`
	TimeoutMs int        `json:"timeout_ms,omitempty"`
}

type CompatGhost struct {
	MinStep int      `json:"min_step"`
	Argv    []string `json:"argv"`
}

type CompatFault struct {
	Kind   string `json:"kind"`
	AtStep int    `json:"at_step"`
	Pick   int    `json:"pick"`
}

type CompatPlan struct {
	Scenario  string        `json:"scenario"`
	Mode      string        `json:"mode"`
	Sim       SimSpec       `json:"sim"`
	Multiplex int           `json:"multiplex"`
	PoolSize  int           `json:"pool_size"`
	Tasks     [][]CompatCall `json:"tasks"`
	Ghosts    []CompatGhost `json:"ghosts,omitempty"`
	Faults    []CompatFault `json:"faults,omitempty"`
}

func init() {
	registerScenario(&scenario{name: "compat", gen: genCompat, load: func(b []byte) (any, error) {
		p := &CompatPlan{}
		return p, json.Unmarshal(b, p)
	}, exec: execCompat})
}

var coreMethods = func() []string {
	t := reflect.TypeOf((*CoreCmdable)(nil)).Elem()
	skip := map[string]bool{"Pipeline": true, "Pipelined": true, "TxPipeline": true, "TxPipelined": true}
	var names []string
	for i := 0; i < t.NumMethod(); i++ {
		m := t.Method(i)
		if skip[m.Name] {
			continue
		}
		ok := true
		for j := 0; j < m.Type.NumIn(); j++ {
			if !genSupported(m.Type.In(j), 0) {
				ok = false
			}
		}
		if ok {
			names = append(names, m.Name)
		}
	}
	sort.Strings(names)
	return names
}()

var ctxType = reflect.TypeOf((*context.Context)(nil)).Elem()
var timeType = reflect.TypeOf(time.Time{})
var durType = reflect.TypeOf(time.Duration(0))

func genSupported(t reflect.Type, depth int) bool {
	if depth > 4 {
		return false
	}
	if t == ctxType || t == timeType || t == durType {
		return true
	}
	switch t.Kind() {
	case reflect.String, reflect.Bool, reflect.Int, reflect.Int8, reflect.Int16, reflect.Int32, reflect.Int64,
		reflect.Uint, reflect.Uint8, reflect.Uint16, reflect.Uint32, reflect.Uint64, reflect.Float32, reflect.Float64:
		return true
	case reflect.Interface:
		return t.NumMethod() == 0
	case reflect.Slice, reflect.Array, reflect.Ptr:
		return genSupported(t.Elem(), depth+1)
	case reflect.Map:
		return genSupported(t.Key(), depth+1) && genSupported(t.Elem(), depth+1)
	case reflect.Struct:
		for i := 0; i < t.NumField(); i++ {
			if t.Field(i).IsExported() && !genSupported(t.Field(i).Type, depth+1) {
				return false
			}
		}
		return true
	}
	return false
}

var genStrings = []string{"", "", "k1", "k2", "a", "b", "x y", "10", "0", "1", "v", "ASC", "m", "km", "NX", "BEFORE", "*", "-", "+", "$", "id-0", "0-1"}

func genValue(t reflect.Type, r *rand.Rand, ctx context.Context, depth int) reflect.Value {
	switch {
	case t == ctxType:
		return reflect.ValueOf(ctx)
	case t == timeType:
		return reflect.ValueOf(time.Unix(1_700_000_000+int64(r.IntN(1000)), 0))
	case t == durType:
		return reflect.ValueOf(time.Duration(r.IntN(5)) * time.Second)
	}
	v := reflect.New(t).Elem()
	switch t.Kind() {
	case reflect.String:
		v.SetString(genStrings[r.IntN(len(genStrings))])
	case reflect.Bool:
		v.SetBool(r.IntN(2) == 0)
	case reflect.Int, reflect.Int8, reflect.Int16, reflect.Int32, reflect.Int64:
		v.SetInt(int64(r.IntN(8)))
	case reflect.Uint, reflect.Uint8, reflect.Uint16, reflect.Uint32, reflect.Uint64:
		v.SetUint(uint64(r.IntN(8)))
	case reflect.Float32, reflect.Float64:
		v.SetFloat(float64(r.IntN(40)) / 4)
	case reflect.Interface:
		switch r.IntN(3) {
		case 0:
			v.Set(reflect.ValueOf(genStrings[r.IntN(len(genStrings))]))
		case 1:
			v.Set(reflect.ValueOf(r.IntN(100)))
		default:
			v.Set(reflect.ValueOf(float64(r.IntN(40)) / 4))
		}
	case reflect.Slice:
		n := 1 + r.IntN(2)
		s := reflect.MakeSlice(t, 0, n)
		for i := 0; i < n; i++ {
			s = reflect.Append(s, genValue(t.Elem(), r, ctx, depth+1))
		}
		v.Set(s)
	case reflect.Array:
		for i := 0; i < t.Len(); i++ {
			v.Index(i).Set(genValue(t.Elem(), r, ctx, depth+1))
		}
	case reflect.Ptr:
		p := reflect.New(t.Elem())
		p.Elem().Set(genValue(t.Elem(), r, ctx, depth+1))
		v.Set(p)
	case reflect.Map:
		m := reflect.MakeMap(t)
		m.SetMapIndex(genValue(t.Key(), r, ctx, depth+1), genValue(t.Elem(), r, ctx, depth+1)) // one entry: no iteration order
		v.Set(m)
	case reflect.Struct:
		for i := 0; i < t.NumField(); i++ {
			if t.Field(i).IsExported() {
				v.Field(i).Set(genValue(t.Field(i).Type, r, ctx, depth+1))
			}
		}
	}
	return v
}

// callGenerated invokes method name on p with arguments drawn from salt. It reports ok=false when the adapter
// rejected the generated arguments by panicking (validation panics are part of its documented behaviour).
func callGenerated(p any, name string, salt uint64, ctx context.Context) (ret Cmder, ok bool, panicMsg string) {
	m := reflect.ValueOf(p).MethodByName(name)
	if !m.IsValid() {
		return nil, false, "no such method"
	}
	r := rand.New(rand.NewPCG(salt, 0xC41))
	mt := m.Type()
	var args []reflect.Value
	n := mt.NumIn()
	for i := 0; i < n; i++ {
		if mt.IsVariadic() && i == n-1 {
			for k, cnt := 0, 1+r.IntN(2); k < cnt; k++ {
				args = append(args, genValue(mt.In(i).Elem(), r, ctx, 0))
			}
			break
		}
		args = append(args, genValue(mt.In(i), r, ctx, 0))
	}
	defer func() {
		if rec := recover(); rec != nil {
			ret, ok, panicMsg = nil, false, fmt.Sprint(rec)
			if _, isRuntime := rec.(runtime.Error); isRuntime {
				// not a validation panic of the adapter but a crash (nil dereference, index out of range)
				panicMsg = "CRASH " + panicMsg + " args=" + renderArgs(args)
			}
		}
	}()
	outs := m.Call(args)
	if len(outs) == 1 {
		if c, isCmder := outs[0].Interface().(Cmder); isCmder {
			return c, true, ""
		}
	}
	return nil, false, "not a Cmder"
}

func renderArgs(args []reflect.Value) string {
	var sb strings.Builder
	for i, a := range args {
		if i == 0 {
			continue // the context
		}
		v := a
		for v.Kind() == reflect.Ptr && !v.IsNil() {
			v = v.Elem()
		}
		fmt.Fprintf(&sb, "%+v ", v.Interface())
	}
	return sb.String()
}

func genCompat(seed uint64, tier, variant string) any {
	r := planRand(seed, 0xC41)
	p := &CompatPlan{Scenario: "compat", Mode: "echo", Multiplex: pick(r, 0, 0, 1), PoolSize: pick(r, 1, 2, 4)}
	if variant == "real" {
		p.Mode = "real"
	}
	p.Sim = SimSpec{CutProb: pick(r, 0.0, 0.3, 0.8), MaxSteps: 6000, TickWeight: pick(r, 0.05, 0.3)}
	keys := []string{"k1", "k2", "k3"}
	ntasks := 1 + r.IntN(4)
	for ti := 0; ti < ntasks; ti++ {
		var calls []CompatCall
		for ci, n := 0, 1+r.IntN(3); ci < n; ci++ {
			c := CompatCall{Kind: pick(r, "pipe", "tx", "tx"), DiscardAt: -1}
			nops := 1 + r.IntN(6)
			if p.Mode == "real" {
				if r.IntN(3) == 0 {
					c.Kind = "watch"
					c.Watch = []string{pick(r, keys...)}
					if r.IntN(3) == 0 {
						c.Watch = append(c.Watch, pick(r, keys...))
					}
				}
				for i := 0; i < nops; i++ {
					k := pick(r, keys...)
					switch r.IntN(8) {
					case 7:
						c.Ops = append(c.Ops, CompatOp{M: "HScan", A: []string{"h" + k}})
					case 0:
						c.Ops = append(c.Ops, CompatOp{M: "Set", A: []string{k, fmt.Sprintf("t%d.c%d.o%d", ti, ci, i)}})
					case 1:
						c.Ops = append(c.Ops, CompatOp{M: "Get", A: []string{k}})
					case 2:
						c.Ops = append(c.Ops, CompatOp{M: "Incr", A: []string{"n" + k}})
					case 3:
						c.Ops = append(c.Ops, CompatOp{M: "HSet", A: []string{"h" + k, pick(r, "f1", "f2"), fmt.Sprintf("t%d.c%d.o%d", ti, ci, i)}})
					case 4:
						c.Ops = append(c.Ops, CompatOp{M: "HGetAll", A: []string{"h" + k}})
					case 5:
						c.Ops = append(c.Ops, CompatOp{M: "RPush", A: []string{"l" + k, fmt.Sprintf("t%d.c%d.o%d", ti, ci, i)}})
					default:
						c.Ops = append(c.Ops, CompatOp{M: "LRange", A: []string{"l" + k}})
					}
				}
			} else {
				for i := 0; i < nops; i++ {
					c.Ops = append(c.Ops, CompatOp{M: coreMethods[r.IntN(len(coreMethods))], Salt: r.Uint64()})
				}
			}
			if r.IntN(5) == 0 {
				c.DiscardAt = r.IntN(len(c.Ops) + 1)
			}
			if r.IntN(8) == 0 {
				c.TimeoutMs = pick(r, 50, 1000)
			}
			calls = append(calls, c)
		}
		p.Tasks = append(p.Tasks, calls)
	}
	if p.Mode == "real" {
		for i, n := 0, r.IntN(6); i < n; i++ {
			k := pick(r, keys...)
			p.Ghosts = append(p.Ghosts, CompatGhost{MinStep: r.IntN(60), Argv: pick(r, []string{"SET", k, fmt.Sprintf("g%d", i)}, []string{"DEL", k}, []string{"INCR", "n" + k})})
		}
	}
	if r.IntN(4) == 0 {
		p.Faults = append(p.Faults, CompatFault{Kind: pick(r, "reset", "eof", "stall"), AtStep: r.IntN(60), Pick: r.IntN(4)})
	}
	return p
}

type compatResult struct {
	Kind     string
	Queued   []string // method names that were queued (after the last Discard)
	Marker   string
	Errs     []string // Err() of each returned Cmder ("" = nil)
	Vals     []string // real mode: rendered value of each Cmder
	ExecErr  string
	NilRets  bool
	Panic    string
	Skipped  int
	Discards int
	WatchErr string
	Shape    string // queue-shape invariant violations
	Crash    string // runtime errors while queuing
}

func renderCmder(c Cmder) string {
	switch v := c.(type) {
	case *StringCmd: // StatusCmd is an alias of StringCmd
		return "string:" + v.Val()
	case *IntCmd:
		return "int:" + strconv.FormatInt(v.Val(), 10)
	case *StringSliceCmd:
		return "slice:" + strings.Join(v.Val(), ",")
	case *StringStringMapCmd:
		var ks []string
		for k, x := range v.Val() {
			ks = append(ks, k+"="+x)
		}
		sort.Strings(ks)
		return "map:" + strings.Join(ks, ",")
	case *ScanCmd:
		keys, cursor := v.Val()
		return fmt.Sprintf("scan:%d:%s", cursor, strings.Join(keys, ","))
	case *Cmd:
		return fmt.Sprintf("cmd:%v", v.Val())
	}
	return fmt.Sprintf("%T", c)
}

func runCompatCall(ctx context.Context, cl rueidis.Client, mode string, c CompatCall, marker string) (res *compatResult) {
	res = &compatResult{Kind: c.Kind, Marker: marker}
	ad := NewAdapter(cl)
	body := func(pl Pipeliner) {
		lenOf := func() (int, int) {
			switch x := pl.(type) {
			case *Pipeline:
				return x.Len(), len(x.rets)
			case *TxPipeline:
				return x.Len(), len(x.rets)
			}
			return -1, -1
		}
		queue := func(name string, f func() (Cmder, bool, string)) {
			l0, r0 := lenOf()
			cm, ok, pm := f()
			l1, r1 := lenOf()
			if !ok {
				res.Skipped++
				if strings.HasPrefix(pm, "CRASH ") {
					res.Crash += fmt.Sprintf("%s: %s; ", name, pm)
				}
				if l1 != l0 || r1 != r0 {
					// a rejected call must not leave half of itself in the queue
					res.Shape += fmt.Sprintf("%s panicked (%s) but left len %d->%d rets %d->%d; ", name, pm, l0, l1, r0, r1)
				}
				return
			}
			_ = cm
			if l1 != l0+1 || r1 != r0+1 {
				res.Shape += fmt.Sprintf("%s queued %d command(s) and %d result(s); ", name, l1-l0, r1-r0)
			}
			res.Queued = append(res.Queued, name)
		}
		queue("Do", func() (Cmder, bool, string) { return pl.Do(ctx, "ECHO", marker), true, "" })
		for i, op := range c.Ops {
			if c.DiscardAt == i {
				pl.Discard()
				res.Discards++
				res.Queued = nil
				queue("Do", func() (Cmder, bool, string) { return pl.Do(ctx, "ECHO", marker), true, "" })
			}
			op := op
			if mode == "real" {
				queue(op.M, func() (Cmder, bool, string) {
					switch op.M {
					case "Set":
						return pl.Set(ctx, op.A[0], op.A[1], 0), true, ""
					case "Get":
						return pl.Get(ctx, op.A[0]), true, ""
					case "Incr":
						return pl.Incr(ctx, op.A[0]), true, ""
					case "HSet":
						return pl.HSet(ctx, op.A[0], op.A[1], op.A[2]), true, ""
					case "HGetAll":
						return pl.HGetAll(ctx, op.A[0]), true, ""
					case "RPush":
						return pl.RPush(ctx, op.A[0], op.A[1]), true, ""
					case "LRange":
						return pl.LRange(ctx, op.A[0], 0, -1), true, ""
					case "HScan":
						return pl.HScan(ctx, op.A[0], 0, "", 0), true, ""
					}
					return nil, false, "unknown real op"
				})
			} else {
				queue(op.M, func() (Cmder, bool, string) { return callGenerated(pl, op.M, op.Salt, ctx) })
			}
		}
		if c.DiscardAt == len(c.Ops) {
			pl.Discard()
			res.Discards++
			res.Queued = nil
		}
		rets, err := pl.Exec(ctx)
		if err != nil {
			res.ExecErr = err.Error()
			if err == TxFailedErr {
				res.ExecErr = "TxFailedErr"
			}
		}
		res.NilRets = rets == nil
		for _, cm := range rets {
			if e := cm.Err(); e != nil {
				res.Errs = append(res.Errs, e.Error())
			} else {
				res.Errs = append(res.Errs, "")
			}
			res.Vals = append(res.Vals, renderCmder(cm))
		}
	}
	defer func() {
		if rec := recover(); rec != nil {
			res.Panic = fmt.Sprint(rec)
		}
	}()
	switch c.Kind {
	case "pipe":
		body(ad.Pipeline())
	case "tx":
		body(ad.TxPipeline())
	case "watch":
		err := ad.Watch(ctx, func(tx Tx) error {
			body(tx.TxPipeline())
			return nil
		}, c.Watch...)
		if err != nil {
			res.WatchErr = err.Error()
		}
	}
	return res
}

func execCompat(t *testing.T, plan any, out *Outcome) {
	p := plan.(*CompatPlan)
	e := newSimEnv(out.Seed, p.Sim, out)
	s := e.sim
	out.Config = fmt.Sprintf("mode=%s,mx=%d,pool=%d,flt=%d", p.Mode, p.Multiplex, p.PoolSize, len(p.Faults))
	// echo mode: every user command is answered with an attributable error; transactions are emulated here
	type txState struct {
		userSeen bool
		on     bool
		queued []int
	}
	txs := map[*fakeredis.SrvConn]*txState{}
	if p.Mode == "echo" {
		s.W.Intercept = func(sc *fakeredis.SrvConn, argv []string) (resp.Value, bool) {
			name := strings.ToUpper(argv[0])
			st := txs[sc]
			if st == nil {
				st = &txState{}
				txs[sc] = st
			}
			if !st.userSeen {
				// connection set-up commands of rueidis itself go to the model; every batch of the workload starts
				// with its ECHO marker, after which everything on this connection is the workload's
				switch name {
				case "HELLO", "AUTH", "CLIENT", "PING", "SELECT", "READONLY":
					return resp.Value{}, false
				}
				st.userSeen = true
			}
			seq := s.W.Seq()
			switch {
			case name == "MULTI":
				st.on, st.queued = true, nil
				return resp.Simple("OK"), true
			case name == "EXEC" && st.on:
				var els []resp.Value
				for _, q := range st.queued {
					els = append(els, resp.Err(fmt.Sprintf("VSEQ %d", q)))
				}
				st.on, st.queued = false, nil
				return resp.Arr(els...), true
			case st.on:
				st.queued = append(st.queued, seq)
				return resp.Simple("QUEUED"), true
			}
			return resp.Err(fmt.Sprintf("VSEQ %d", seq)), true
		}
	}
	var setupErr error
	rr := e.background("setup", func(ctx context.Context) {
		opt := e.option()
		if p.Multiplex > 0 {
			opt.PipelineMultiplex = p.Multiplex
		}
		opt.BlockingPoolSize = p.PoolSize
		opt.DisableCache = true
		cl, err := rueidis.NewClient(opt)
		if err != nil {
			setupErr = err
			return
		}
		e.track(cl)
	})
	if rr.Reason != "done" || setupErr != nil {
		out.HarnessErr = fmt.Sprintf("setup failed: reason=%s err=%v", rr.Reason, setupErr)
		e.finish()
		return
	}
	base := s.Step
	for ti, calls := range p.Tasks {
		var cs []sched.Call
		for ci, c := range calls {
			c := c
			marker := fmt.Sprintf("mk.t%d.c%d", ti, ci)
			cs = append(cs, sched.Call{Name: c.Kind, Timeout: time.Duration(c.TimeoutMs) * time.Millisecond, Run: func(ctx context.Context, rec *sched.CallRec) any {
				rueidis.VerifNameGoroutine(sched.TaskID(ctx))
				return runCompatCall(ctx, e.clients[0], p.Mode, c, marker)
			}})
		}
		s.AddTask(fmt.Sprintf("task%d", ti), cs)
	}
	for _, g := range p.Ghosts {
		g := g
		s.Ghosts = append(s.Ghosts, &sched.GhostOp{Name: "cmd " + strings.Join(g.Argv, " "), MinStep: base + g.MinStep, Do: func(s *sched.Sim) { s.W.Ghost(e.addr, g.Argv...) }})
	}
	for _, f := range p.Faults {
		s.Faults = append(s.Faults, &sched.Fault{Kind: f.Kind, AtStep: base + f.AtStep, NeedInflight: true, Pick: f.Pick, Dur: 30 * time.Second})
	}
	e.runTasks()
	e.closeAll(nil)
	e.finish()
	checkCompat(e, p)
}

// connCmds returns, per connection, the user commands the server executed in order.
func userCmdsByConn(w *fakeredis.World) map[int][]*fakeredis.Exec {
	m := map[int][]*fakeredis.Exec{}
	for _, ex := range w.Log {
		if ex.InExec {
			continue // the model logs queued commands a second time when EXEC runs them: not on the wire
		}
		m[ex.Conn] = append(m[ex.Conn], ex)
	}
	return m
}

func checkCompat(e *simEnv, p *CompatPlan) {
	out := e.out
	byConn := userCmdsByConn(e.sim.W)
	faulty := len(p.Faults) > 0
	for ti, t := range e.sim.Tasks {
		for _, rec := range t.Recs {
			c := p.Tasks[ti][rec.Index]
			where := fmt.Sprintf("task %d call %d (%s)", ti, rec.Index, c.Kind)
			if rec.Hung || !rec.Done {
				out.violate("C41", "call-never-returned", "%s never returned", where)
				continue
			}
			res := rec.Result.(*compatResult)
			if res.Panic != "" {
				out.violate("C41", "panic-in-library", "%s panicked: %s (queued %v)", where, res.Panic, res.Queued)
				continue
			}
			if res.Crash != "" {
				// index-out-of-range / type-assertion panics on arguments no go-redis program would pass (odd key/value
				// lists, wrongly typed variadics): argument validation is outside the property
				out.probe("queue-time-runtime-panic")
			}
			if res.Shape != "" {
				out.violate("C41", "queue-shape", "%s: %s", where, res.Shape)
				continue
			}
			if res.Skipped > 0 {
				out.probe("generated-args-rejected")
			}
			if res.WatchErr != "" {
				out.notJudged("watch-failed")
				continue
			}
			// locate the batch on the wire
			var conn int = -1
			var pos []int
			for cid, cmds := range byConn {
				for i, ex := range cmds {
					if len(ex.Argv) == 2 && strings.EqualFold(ex.Argv[0], "ECHO") && ex.Argv[1] == res.Marker {
						conn = cid
						pos = append(pos, i)
					}
				}
			}
			n := len(res.Queued)
			if n == 0 {
				// everything was discarded
				out.judged("discarded-all")
				if !res.NilRets || res.ExecErr != "" {
					out.violate("C41", "discard-ignored", "%s: Exec after Discard returned %d results, err %q", where, len(res.Errs), res.ExecErr)
				}
				if len(pos) > 0 {
					out.violate("C41", "discard-ignored", "%s: discarded commands reached the server", where)
				}
				continue
			}
			if res.Discards > 0 {
				out.probe("discard-then-requeue")
			}
			if len(res.Errs) != n {
				out.violate("C41", "result-count", "%s: %d commands queued, Exec returned %d results", where, n, len(res.Errs))
				continue
			}
			ctxEnded := c.TimeoutMs > 0
			if len(pos) == 0 {
				// nothing reached the server: only acceptable when the call's context ended or a fault hit
				if ctxEnded || faulty || res.ExecErr != "" {
					// Exec reported a failure (its own context, a connection another caller's deadline closed, a dial
					// time-out): nothing was claimed to have run
					out.notJudged("batch-not-sent")
					continue
				}
				out.violate("C41", "batch-lost", "%s: Exec reported success but no command of the batch reached the server, results %v", where, res.Errs)
				continue
			}
			if len(pos) > 1 && !faulty {
				out.violate("C41", "batch-sent-twice", "%s: marker seen %d times", where, len(pos))
				continue
			}
			cmds := byConn[conn]
			start := pos[len(pos)-1]
			// the wire: [MULTI] marker op... [EXEC], contiguous on this connection
			first, last := start, start+n-1
			if c.Kind != "pipe" {
				first, last = start-1, start+n
			}
			complete := last < len(cmds)
			if !complete {
				if ctxEnded || faulty {
					out.notJudged("batch-cut-short")
					continue
				}
				out.violate("C41", "batch-incomplete", "%s: only %d of %d commands reached the server", where, len(cmds)-first, last-first+1)
				continue
			}
			if c.Kind != "pipe" {
				if first < 0 || !strings.EqualFold(cmds[first].Argv[0], "MULTI") || !strings.EqualFold(cmds[last].Argv[0], "EXEC") {
					out.violate("C41", "tx-not-wrapped", "%s: commands around the batch on c%d are %q ... %q", where, conn, argv0(cmds, first), argv0(cmds, last))
					continue
				}
				for i := start; i < last; i++ {
					if up := strings.ToUpper(cmds[i].Argv[0]); up == "MULTI" || up == "EXEC" {
						out.violate("C41", "tx-not-contiguous", "%s: %s inside the block at offset %d", where, up, i-start)
					}
				}
			}
			if p.Mode == "echo" {
				judgedOne := false
				for i := 0; i < n; i++ {
					want := fmt.Sprintf("VSEQ %d", cmds[start+i].Seq)
					got := res.Errs[i]
					if got == want {
						judgedOne = true
						continue
					}
					if (ctxEnded || faulty) && !strings.HasPrefix(got, "VSEQ") {
						continue // transport or context error instead of a reply
					}
					out.violate("C41", "result-of-another-command", "%s: result %d (%s) is %q, the server answered its command (%q) with %q", where, i, res.Queued[i], got, strings.Join(cmds[start+i].Argv, " "), want)
					break
				}
				if judgedOne {
					out.judged("echo-batch")
					out.Nontrivial = true
					if c.Kind != "pipe" {
						out.probe("tx-batch")
					}
					if res.ExecErr != res.Errs[0] && !(ctxEnded || faulty) {
						out.violate("C41", "first-error", "%s: Exec returned %q, first command's error is %q", where, res.ExecErr, res.Errs[0])
					}
				}
				continue
			}
			checkCompatReal(e, p, where, c, res, cmds, start, last, ctxEnded || faulty)
		}
	}
}

func argv0(cmds []*fakeredis.Exec, i int) string {
	if i < 0 || i >= len(cmds) {
		return "<none>"
	}
	return cmds[i].Argv[0]
}

// renderReply renders a model reply the way renderCmder renders the Cmder that should hold it.
func renderReply(method string, v resp.Value) (string, string) {
	if v.IsErr() {
		return "", v.S
	}
	switch method {
	case "Do":
		return "cmd:" + v.S, ""
	case "Set":
		return "string:" + v.S, ""
	case "Get":
		if (v.T == '_' || v.Null) {
			return "string:", "redis nil message"
		}
		return "string:" + v.S, ""
	case "Incr", "HSet", "RPush":
		return "int:" + strconv.FormatInt(v.I, 10), ""
	case "LRange":
		var xs []string
		for _, el := range v.A {
			xs = append(xs, el.S)
		}
		return "slice:" + strings.Join(xs, ","), ""
	case "HGetAll":
		var ks []string
		for i := 0; i+1 < len(v.A); i += 2 {
			ks = append(ks, v.A[i].S+"="+v.A[i+1].S)
		}
		sort.Strings(ks)
		return "map:" + strings.Join(ks, ","), ""
	case "HScan":
		// (a result type whose decoder writes its error only on failure: a committed transaction must still clear
		// the "not executed" placeholder)
		var xs []string
		if len(v.A) == 2 {
			for _, el := range v.A[1].A {
				xs = append(xs, el.S)
			}
			return "scan:" + v.A[0].S + ":" + strings.Join(xs, ","), ""
		}
	}
	return "?", ""
}

func checkCompatReal(e *simEnv, p *CompatPlan, where string, c CompatCall, res *compatResult, cmds []*fakeredis.Exec, start, last int, lenient bool) {
	out := e.out
	n := len(res.Queued)
	var replies []resp.Value
	if c.Kind == "pipe" {
		for i := 0; i < n; i++ {
			replies = append(replies, cmds[start+i].Reply)
		}
	} else {
		ex := cmds[last].Reply
		if (ex.T == '_' || ex.Null) {
			out.probe("watch-aborted")
			out.judged("tx-aborted")
			out.Nontrivial = true
			if res.ExecErr != "TxFailedErr" && !lenient {
				out.violate("C41", "tx-abort-not-reported", "%s: EXEC answered nil (WATCH aborted) but Exec returned %q", where, res.ExecErr)
			}
			return
		}
		if ex.IsErr() || len(ex.A) != n {
			if lenient {
				out.notJudged("exec-failed")
				return
			}
			out.violate("C41", "harness", "%s: EXEC answered %v for %d queued", where, ex, n)
			return
		}
		replies = ex.A
		if res.ExecErr == "TxFailedErr" {
			out.violate("C41", "tx-abort-misreported", "%s: EXEC succeeded but Exec returned TxFailedErr", where)
			return
		}
	}
	ok := true
	firstErr := ""
	for i := 0; i < n; i++ {
		if _, wantErr := renderReply(res.Queued[i], replies[i]); wantErr != "" {
			firstErr = wantErr
			break
		}
	}
	if lenient && res.ExecErr != "" && res.ExecErr != firstErr {
		// the server ran the batch but the call ended first (its deadline, an injected fault): Exec reported that
		out.notJudged("exec-failed-loudly")
		return
	}
	firstErr = ""
	for i := 0; i < n; i++ {
		wantVal, wantErr := renderReply(res.Queued[i], replies[i])
		if firstErr == "" {
			firstErr = wantErr
		}
		gotErr := res.Errs[i]
		if lenient && gotErr != "" && gotErr != wantErr {
			ok = false
			continue
		}
		if gotErr != wantErr || (wantErr == "" && res.Vals[i] != wantVal) {
			out.violate("C41", "result-of-another-command", "%s: result %d (%s) is %q err %q, the server answered its command with %q err %q", where, i, res.Queued[i], res.Vals[i], gotErr, wantVal, wantErr)
			ok = false
			break
		}
	}
	if ok {
		out.judged("real-batch")
		out.Nontrivial = true
		if c.Kind == "watch" {
			out.probe("watch-committed")
		}
		if res.ExecErr != firstErr && !lenient {
			out.violate("C41", "first-error", "%s: Exec returned %q, first failed command's error is %q", where, res.ExecErr, firstErr)
		}
	}
}
