//go:build verif

package rueidis

import (
	"context"
	"crypto/tls"
	"encoding/json"
	"errors"
	"fmt"
	"net"
	"sort"
	"strings"
	"sync"
	"sync/atomic"
	"time"

	"github.com/redis/rueidis/internal/cmds"

	"verifsim/fakeredis"
	"verifsim/resp"
	"verifsim/sched"
)

// ---- plan types shared by the Engine A scenarios ----

type CmdSpec struct {
	Argv []string `json:"argv"`
	Keys int      `json:"keys,omitempty"` // number of key arguments following the command name
	Flag string   `json:"flag,omitempty"` // "", "ro", "block", "retry"
}

type CallSpec struct {
	Kind        string    `json:"kind"`
	Cmds        []CmdSpec `json:"cmds,omitempty"`
	TTLMs       int       `json:"ttl_ms,omitempty"`
	TTLs        []int     `json:"ttls_ms,omitempty"` // per-command TTLs for batched cache reads
	Static      bool      `json:"static_ttl,omitempty"`
	TimeoutMs   int       `json:"timeout_ms,omitempty"`
	Cancel      bool      `json:"cancel,omitempty"`
	CancelAfter int       `json:"cancel_after,omitempty"`
	Client      int       `json:"client,omitempty"`
	N           int       `json:"n,omitempty"`
	S           string    `json:"s,omitempty"`
}

type GhostSpec struct {
	Kind    string   `json:"kind"`
	Node    int      `json:"node,omitempty"`
	Argv    []string `json:"argv,omitempty"`
	MinStep int      `json:"min_step,omitempty"`
	DurMs   int      `json:"dur_ms,omitempty"`
	DurUs   int      `json:"dur_us,omitempty"` // added to DurMs (tick ghosts): time that is not a whole number of milliseconds
}

type FaultSpec struct {
	Kind         string `json:"kind"`
	AtStep       int    `json:"at_step"`
	NeedInflight bool   `json:"need_inflight,omitempty"`
	Pick         int    `json:"pick,omitempty"`
	DurMs        int    `json:"dur_ms,omitempty"`
	Arg          int    `json:"arg,omitempty"`
}

type OptSpec struct {
	Queue            string   `json:"queue,omitempty"` // "ring" | "flow"
	RingScale        int      `json:"ring_scale,omitempty"`
	Multiplex        int      `json:"multiplex,omitempty"` // PipelineMultiplex (-1 => single)
	ReadBuf          int      `json:"read_buf,omitempty"`
	WriteBuf         int      `json:"write_buf,omitempty"`
	AlwaysPipelining bool     `json:"always_pipelining,omitempty"`
	NoAutoPipelining bool     `json:"no_auto_pipelining,omitempty"`
	MaxFlushDelayUs  int      `json:"max_flush_delay_us,omitempty"`
	RESP2            bool     `json:"resp2,omitempty"`
	DisableCache     bool     `json:"disable_cache,omitempty"`
	CacheSize        int      `json:"cache_size,omitempty"`
	Tracking         []string `json:"tracking,omitempty"`
	DisableRetry     bool     `json:"disable_retry,omitempty"`
	RetryDelaysMs    []int    `json:"retry_delays_ms,omitempty"`
	ConnLifetimeMs   int      `json:"conn_lifetime_ms,omitempty"`
	KeepAliveMs      int      `json:"keepalive_ms,omitempty"`
	WriteTimeoutMs   int      `json:"write_timeout_ms,omitempty"`
	DialTimeoutMs    int      `json:"dial_timeout_ms,omitempty"`
	PoolSize         int      `json:"pool_size,omitempty"`
	PoolCleanupMs    int      `json:"pool_cleanup_ms,omitempty"`
	PoolMinSize      int      `json:"pool_min_size,omitempty"`
	BlockingPipeline int      `json:"blocking_pipeline,omitempty"`
	SimpleCache      bool     `json:"simple_cache,omitempty"`
	OnInvalidations  bool     `json:"on_invalidations,omitempty"`
	Procs            int      `json:"procs,omitempty"`
	Username         string   `json:"username,omitempty"`
	Password         string   `json:"password,omitempty"`
	DynAuth          bool     `json:"dyn_auth,omitempty"` // credentials through AuthCredentialsFn
	StaticDecoy      bool     `json:"static_decoy,omitempty"` // with DynAuth: static Username/Password are configured as well (and must not be used)
	ClientName       string   `json:"client_name,omitempty"`
	SelectDB         int      `json:"select_db,omitempty"`
	NoTouch          bool     `json:"no_touch,omitempty"`
	NoEvict          bool     `json:"no_evict,omitempty"`
	SetInfo          []string `json:"set_info,omitempty"` // nil = library default; ["-"] = disabled; [name, ver]
	ReplicaAZInfo    bool     `json:"replica_az_info,omitempty"` // EnableReplicaAZInfo
	AZFromInfo       bool     `json:"az_from_info,omitempty"`
}

type SchedSpec struct {
	CutProb    float64 `json:"cut_prob,omitempty"`
	C2SCutProb float64 `json:"c2s_cut_prob,omitempty"`
	MaxSteps   int     `json:"max_steps,omitempty"`
	TickWeight float64 `json:"tick_weight,omitempty"`
}

type SrvSpec struct {
	Version string `json:"version,omitempty"`
	NoHello bool   `json:"no_hello,omitempty"`
	Loading int    `json:"loading,omitempty"`
}

// Plan is the serialisable description of one run: configuration, workload, environment actions and faults.
// Together with the seed (which drives the schedule) it determines the execution.
type Plan struct {
	Scenario string         `json:"scenario"`
	Opt      OptSpec        `json:"opt"`
	Srv      SrvSpec        `json:"srv"`
	Sched    SchedSpec      `json:"sched"`
	Tasks    [][]CallSpec   `json:"tasks"`
	Ghosts   []GhostSpec    `json:"ghosts,omitempty"`
	Faults   []FaultSpec    `json:"faults,omitempty"`
	X        map[string]any `json:"x,omitempty"`
}

func jsonUnmarshal(b []byte, v any) error { return json.Unmarshal(b, v) }

func loadPlan(b []byte) (any, error) {
	p := &Plan{}
	if err := json.Unmarshal(b, p); err != nil {
		return nil, err
	}
	return p, nil
}

func (p *Plan) label() string {
	o := p.Opt
	return fmt.Sprintf("q=%s,rs=%d,mx=%d,rb=%d,wb=%d,ap=%v,r2=%v,lt=%d,retry=%v,flt=%d", o.Queue, o.RingScale, o.Multiplex, o.ReadBuf, o.WriteBuf, o.AlwaysPipelining, o.RESP2, o.ConnLifetimeMs, !o.DisableRetry, len(p.Faults))
}

// ---- building a simulation from a plan ----

type env struct {
	sim      *sched.Sim
	plan     *Plan
	out      *Outcome
	addr     string
	clients  []Client
	mu       sync.Mutex
	invLog   []invEvent // OnInvalidations callback log
	delayLog []delayEvent
	mainHash string // event-log hash at the end of the workload phase (runHooks.hashMainPhase)
}

type fakeredisSrvConn = fakeredis.SrvConn
type fakeredisPush = fakeredis.Push

type invEvent struct {
	Goid uint64 // the goroutine that ran the callback: one reader goroutine per connection
	Step int
	Seq  int // model sequence number when the callback ran
	Keys []string // nil = flush / disconnect
	Nil  bool
}

type delayEvent struct {
	Step     int
	Attempts int
	Cmd      []string
	Err      string
	Delay    time.Duration
}

func newEnv(seed uint64, p *Plan, out *Outcome) *env {
	cfg := sched.Config{CutProb: p.Sched.CutProb, C2SCutProb: p.Sched.C2SCutProb, MaxSteps: p.Sched.MaxSteps, KeepTape: *flagTape}
	cfg.W = sched.DefaultWeights
	if p.Sched.TickWeight > 0 {
		cfg.W.Tick = p.Sched.TickWeight
	}
	s := sched.New(seed, cfg)
	s.Identify = identifyGoroutine
	randState.seed = seed
	randState.ctr.Store(0)
	randState.on.Store(true)
	switch p.Opt.Queue {
	case "flow":
		queueTypeFromEnv = queueTypeFlowBuffer
	default:
		queueTypeFromEnv = ""
	}
	e := &env{sim: s, plan: p, out: out, addr: "10.0.0.1:6379"}
	name := func(w *muxwire) string {
		for ci, cl := range e.clients {
			for _, m := range muxOf(cl) {
				for i := range m.muxwires {
					if &m.muxwires[i] == w {
						return fmt.Sprintf("cl%d/%s#%d", ci, m.dst, i)
					}
				}
			}
		}
		return "wire-new"
	}
	muxwireName.Store(&name)
	out.Config = p.label()
	muxRegReset(0)
	richIdent.Store(false)
	identNoCmd.Store(false)
	rwLockSeam.Store(false)
	spinSettle.on.Store(false)
	curSim.Store(s)
	return e
}

func (e *env) clientOption() ClientOption {
	o := e.plan.Opt
	opt := ClientOption{
		InitAddress:       []string{e.addr},
		ForceSingleClient: true,
		DialCtxFn: func(ctx context.Context, dst string, _ *net.Dialer, _ *tls.Config) (net.Conn, error) {
			return e.sim.Net.DialContext(ctx, dst, sched.TaskID(ctx))
		},
		RingScaleEachConn:     o.RingScale,
		PipelineMultiplex:     o.Multiplex,
		ReadBufferEachConn:    o.ReadBuf,
		WriteBufferEachConn:   o.WriteBuf,
		AlwaysPipelining:      o.AlwaysPipelining,
		DisableAutoPipelining: o.NoAutoPipelining,
		MaxFlushDelay:         time.Duration(o.MaxFlushDelayUs) * time.Microsecond,
		AlwaysRESP2:           o.RESP2,
		DisableCache:          o.DisableCache || o.RESP2,
		CacheSizeEachConn:     o.CacheSize,
		ClientTrackingOptions: o.Tracking,
		DisableRetry:          o.DisableRetry,
		ConnLifetime:          time.Duration(o.ConnLifetimeMs) * time.Millisecond,
		ConnWriteTimeout:      time.Duration(o.WriteTimeoutMs) * time.Millisecond,
		BlockingPoolSize:      o.PoolSize,
		BlockingPoolCleanup:   time.Duration(o.PoolCleanupMs) * time.Millisecond,
		BlockingPoolMinSize:   o.PoolMinSize,
		BlockingPipeline:      o.BlockingPipeline,
	}
	if opt.PipelineMultiplex == 0 {
		opt.PipelineMultiplex = -1
	}
	opt.ClientName, opt.SelectDB, opt.ClientNoTouch, opt.ClientNoEvict = o.ClientName, o.SelectDB, o.NoTouch, o.NoEvict
	opt.EnableReplicaAZInfo, opt.AZFromInfo = o.ReplicaAZInfo, o.AZFromInfo
	if o.DynAuth {
		user, pass := o.Username, o.Password
		opt.AuthCredentialsFn = func(AuthCredentialsContext) (AuthCredentials, error) {
			return AuthCredentials{Username: user, Password: pass}, nil
		}
		if o.StaticDecoy {
			opt.Username, opt.Password = "decoy", "decoy-pw"
		}
	} else {
		opt.Username, opt.Password = o.Username, o.Password
	}
	switch {
	case len(o.SetInfo) == 1 && o.SetInfo[0] == "-":
		opt.ClientSetInfo = DisableClientSetInfo
	case len(o.SetInfo) == 2:
		opt.ClientSetInfo = o.SetInfo
	}
	opt.Dialer.KeepAlive = time.Duration(o.KeepAliveMs) * time.Millisecond
	opt.Dialer.Timeout = time.Duration(o.DialTimeoutMs) * time.Millisecond
	if len(o.RetryDelaysMs) > 0 {
		delays := o.RetryDelaysMs
		opt.RetryDelay = func(attempts int, cmd Completed, err error) time.Duration {
			d := time.Duration(delays[(attempts-1)%len(delays)]) * time.Millisecond
			e.mu.Lock()
			e.delayLog = append(e.delayLog, delayEvent{Step: e.sim.Step, Attempts: attempts, Cmd: append([]string(nil), cmd.Commands()...), Err: fmt.Sprint(err), Delay: d})
			e.mu.Unlock()
			return d
		}
	}
	if o.SimpleCache {
		opt.NewCacheStoreFn = func(CacheStoreOption) CacheStore {
			return NewSimpleCacheAdapter(&mapCache{m: map[string]RedisMessage{}})
		}
	}
	if o.OnInvalidations {
		opt.OnInvalidations = func(msgs []RedisMessage) {
			ev := invEvent{Goid: curGoid(), Step: e.sim.Step, Seq: e.sim.W.Seq()}
			if msgs == nil {
				ev.Nil = true
			}
			for _, m := range msgs {
				ev.Keys = append(ev.Keys, m.string())
			}
			e.mu.Lock()
			e.invLog = append(e.invLog, ev)
			e.mu.Unlock()
		}
	}
	return opt
}

// mapCache is a trivial SimpleCache for NewSimpleCacheAdapter.
type mapCache struct {
	mu sync.Mutex
	m  map[string]RedisMessage
}

func (c *mapCache) Get(key string) RedisMessage {
	c.mu.Lock()
	defer c.mu.Unlock()
	return c.m[key]
}
func (c *mapCache) Set(key string, val RedisMessage) {
	c.mu.Lock()
	defer c.mu.Unlock()
	c.m[key] = val
}
func (c *mapCache) Del(key string) {
	c.mu.Lock()
	defer c.mu.Unlock()
	delete(c.m, key)
}
func (c *mapCache) Flush() {
	c.mu.Lock()
	defer c.mu.Unlock()
	c.m = map[string]RedisMessage{}
}

// background runs fn in a goroutine tagged with name and drives the simulation until it returns.
func (e *env) background(name string, fn func(ctx context.Context)) sched.RunResult {
	var done atomic.Bool
	go func() {
		nameGoroutine(name)
		fn(sched.WithTask(context.Background(), name))
		done.Store(true)
	}()
	return e.sim.Run(func() bool { return done.Load() })
}

// ---- command construction ----

func buildCmd(b Builder, c CmdSpec) Completed {
	a := b.Arbitrary(c.Argv[0])
	if c.Keys > 0 {
		a = a.Keys(c.Argv[1 : 1+c.Keys]...)
		a = a.Args(c.Argv[1+c.Keys:]...)
	} else {
		a = a.Args(c.Argv[1:]...)
	}
	var out Completed
	switch c.Flag {
	case "ro":
		out = a.ReadOnly()
	case "block":
		out = a.Blocking()
	case "retry":
		out = a.Build().ToRetryable()
	default:
		out = a.Build()
	}
	return out
}

func buildSub(b Builder, argv []string) Completed {
	switch strings.ToUpper(argv[0]) {
	case "SUBSCRIBE":
		return b.Subscribe().Channel(argv[1:]...).Build()
	case "PSUBSCRIBE":
		return b.Psubscribe().Pattern(argv[1:]...).Build()
	case "SSUBSCRIBE":
		return b.Ssubscribe().Channel(argv[1:]...).Build()
	case "UNSUBSCRIBE":
		return b.Unsubscribe().Channel(argv[1:]...).Build()
	case "PUNSUBSCRIBE":
		return b.Punsubscribe().Pattern(argv[1:]...).Build()
	case "SUNSUBSCRIBE":
		return b.Sunsubscribe().Channel(argv[1:]...).Build()
	}
	panic("buildSub: " + argv[0])
}

// ---- results ----

// Res is the harness view of one RedisResult.
type Res struct {
	Err      string     `json:"err,omitempty"`     // non-Redis error text ("" if none)
	ErrKind  string     `json:"errkind,omitempty"` // "ctx-deadline" "ctx-canceled" "closing" "net" "other"
	V        resp.Value `json:"-"`
	Text     string     `json:"v,omitempty"`
	CacheHit bool       `json:"hit,omitempty"`
	PXAT     int64      `json:"pxat,omitempty"`
	PTTL     int64      `json:"pttl,omitempty"`
}

func errKind(err error) string {
	switch {
	case err == nil:
		return ""
	case errors.Is(err, context.DeadlineExceeded):
		return "ctx-deadline"
	case errors.Is(err, context.Canceled):
		return "ctx-canceled"
	case errors.Is(err, ErrClosing):
		return "closing"
	case errors.Is(err, ErrDoCacheAborted):
		return "cache-aborted"
	}
	var ne net.Error
	if errors.As(err, &ne) || strings.Contains(err.Error(), "EOF") || strings.Contains(err.Error(), "closed") || strings.Contains(err.Error(), "reset") || strings.Contains(err.Error(), "refused") || strings.Contains(err.Error(), "broken pipe") {
		return "net"
	}
	return "other"
}

func toRes(r RedisResult) Res {
	if err := r.NonRedisError(); err != nil {
		return Res{Err: err.Error(), ErrKind: errKind(err)}
	}
	out := Res{V: msgToVal(&r.val)}
	out.Text = out.V.String()
	if r.IsCacheHit() {
		out.CacheHit = true
	}
	out.PXAT = r.CachePXAT()
	out.PTTL = r.CachePTTL()
	return out
}

func msgToVal(m *RedisMessage) resp.Value {
	switch m.typ {
	case 0:
		return resp.Value{T: 0}
	case '_':
		return resp.Nil()
	case ':':
		return resp.Int(m.intlen)
	case '#':
		return resp.Value{T: '#', I: m.intlen}
	case '*', '%', '~', '>':
		v := resp.Value{T: m.typ}
		for i := range m.values() {
			v.A = append(v.A, msgToVal(&m.values()[i]))
		}
		return v
	default:
		return resp.Value{T: m.typ, S: strings.Clone(m.string())}
	}
}

// normalize maps a model reply to what a correct client must present for the protocol in use.
func normalize(v resp.Value, proto int) resp.Value {
	out := resp.Value{T: v.T, S: v.S, I: v.I}
	switch v.T {
	case '$':
		if v.Null {
			return resp.Nil()
		}
	case '*':
		if v.Null {
			return resp.Nil()
		}
	}
	if proto < 3 {
		switch v.T {
		case '%', '~', '>':
			out.T = '*'
		case '#':
			out.T = ':'
		case ',', '(':
			out.T = '$'
		case '=':
			out.T = '$'
			if len(out.S) >= 4 {
				out.S = out.S[4:]
			}
		case '!':
			out.T = '-'
		}
	}
	for _, e := range v.A {
		out.A = append(out.A, normalize(e, proto))
	}
	return out
}

func valEqual(a, b resp.Value) bool {
	if a.T != b.T || a.S != b.S || a.I != b.I || len(a.A) != len(b.A) {
		return false
	}
	for i := range a.A {
		if !valEqual(a.A[i], b.A[i]) {
			return false
		}
	}
	return true
}

func argvKey(a []string) string { return strings.Join(a, "\x00") }

func sortedStatKeys(m map[string]int) []string {
	ks := make([]string, 0, len(m))
	for k := range m {
		ks = append(ks, k)
	}
	sort.Strings(ks)
	return ks
}

var _ = cmds.NoSlot
