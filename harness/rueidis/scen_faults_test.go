//go:build verif

package rueidis

import (
	"context"
	"fmt"
	"math/rand/v2"
	"strconv"
	"strings"
	"testing"
	"time"

	"verifsim/sched"
)

func init() {
	registerScenario(&scenario{name: "breakage", gen: genBreakage, load: loadPlan, exec: execBreakage})
}

var linkFaultKinds = []string{"eof", "reset", "reset-after-exec", "eof-mid-reply", "werr", "stall", "node-restart"}

// genFaultWorkload draws a small mixed workload (used by the fault scenarios).
func genFaultWorkload(r *rand.Rand, p *Plan, ntasks, maxCalls int, withCtx bool) {
	nkeys := 3
	resp2 := p.Opt.RESP2
	for ti := 0; ti < ntasks; ti++ {
		ncalls := 1 + r.IntN(maxCalls)
		var calls []CallSpec
		for ci := 0; ci < ncalls; ci++ {
			uid := func(k int) string { return fmt.Sprintf("t%d.c%d.k%d", ti, ci, k) }
			var c CallSpec
			x := r.IntN(100)
			switch {
			case x < 30:
				c = CallSpec{Kind: "do", Cmds: []CmdSpec{{Argv: []string{"VTAG", uid(0), randShape(r, 0, resp2)}, Flag: pick(r, "", "ro")}}}
			case x < 45:
				c = CallSpec{Kind: "do", Cmds: []CmdSpec{{Argv: []string{"VWTAG", "w" + strconv.Itoa(r.IntN(nkeys)), uid(0)}, Keys: 1}}}
			case x < 65:
				c = CallSpec{Kind: "multi"}
				for k, n := 0, 2+r.IntN(4); k < n; k++ {
					c.Cmds = append(c.Cmds, CmdSpec{Argv: []string{"VTAG", uid(k), randShape(r, 0, resp2)}})
				}
			case x < 77 && !resp2:
				j := r.IntN(nkeys)
				c = CallSpec{Kind: "cache", TTLMs: 60_000, Cmds: []CmdSpec{{Argv: []string{"VKTAG", "ck" + strconv.Itoa(j), "K" + strconv.Itoa(j), "[sb{si}]"}, Keys: 1, Flag: "ro"}}}
			case x < 83 && !resp2:
				c = CallSpec{Kind: "mcache", TTLMs: 60_000}
				for k, n := 0, 1+r.IntN(3); k < n; k++ {
					j := r.IntN(nkeys)
					c.Cmds = append(c.Cmds, CmdSpec{Argv: []string{"VKTAG", "ck" + strconv.Itoa(j), "K" + strconv.Itoa(j), "[sb{si}]"}, Keys: 1, Flag: "ro"})
				}
			case x < 90 && !resp2:
				c = CallSpec{Kind: "recv", Cmds: []CmdSpec{{Argv: []string{"SUBSCRIBE", "ch" + strconv.Itoa(r.IntN(2))}}}, TimeoutMs: 500 + r.IntN(3000)}
			case x < 96:
				c = CallSpec{Kind: "do", Cmds: []CmdSpec{{Argv: []string{"BLPOP", "bl" + strconv.Itoa(r.IntN(2)), pick(r, "0.2", "1", "3")}, Keys: 1, Flag: "block"}}}
			case x < 98 && !resp2:
				// an unsubscribe command: its confirmation arrives as a push, followed by the reply to the PING the client
				// appends - a connection lost between the two leaves a call the reader has already taken off the queue
				c = CallSpec{Kind: "unsub", Cmds: []CmdSpec{{Argv: []string{pick(r, "UNSUBSCRIBE", "UNSUBSCRIBE", "PUNSUBSCRIBE", "SUNSUBSCRIBE"), "ch" + strconv.Itoa(r.IntN(2))}}}}
			default:
				c = CallSpec{Kind: "do", Cmds: []CmdSpec{{Argv: []string{"ECHO", uid(0)}}}}
			}
			if withCtx && c.Kind != "recv" {
				switch y := r.IntN(100); {
				case y < 10:
					c.Cancel = true
					c.CancelAfter = r.IntN(8)
				case y < 20:
					c.TimeoutMs = 50 + r.IntN(3000)
				}
			}
			calls = append(calls, c)
		}
		p.Tasks = append(p.Tasks, calls)
	}
}

func genBreakage(seed uint64, tier, variant string) any {
	enum := strings.HasPrefix(variant, "enum:")
	base := seed
	boundary := 0
	if enum {
		base, boundary = seed>>8, int(seed&255)
	}
	r := planRand(base, 0xC04)
	p := &Plan{Scenario: "breakage", Opt: genOpt(r), X: map[string]any{}}
	p.Opt.DisableRetry = r.IntN(2) == 0
	p.Opt.KeepAliveMs = pick(r, 1000, 1000, 3600_000)
	p.Opt.WriteTimeoutMs = pick(r, 2000, 10_000)
	p.Opt.DialTimeoutMs = 2000
	p.Opt.RetryDelaysMs = []int{1, 5, 20, 100}
	p.Sched = SchedSpec{CutProb: pick(r, 0.0, 0.4), C2SCutProb: pick(r, 0.0, 0.3), MaxSteps: 6000}
	if enum {
		genFaultWorkload(r, p, 2+r.IntN(3), 3, false)
		p.X["sched_seed"] = base
		kind := strings.TrimPrefix(variant, "enum:")
		if kind == "close" {
			p.X["close_at"] = boundary
		} else {
			p.Faults = []FaultSpec{{Kind: kind, AtStep: boundary, Pick: r.IntN(4), DurMs: 30_000, Arg: r.IntN(1000)}}
		}
		return p
	}
	genFaultWorkload(r, p, 2+r.IntN(6), 5, r.IntN(2) == 0)
	nf := 1 + r.IntN(3)
	for i := 0; i < nf; i++ {
		f := FaultSpec{Kind: pick(r, linkFaultKinds...), AtStep: r.IntN(160), NeedInflight: r.IntN(2) == 0, Pick: r.IntN(4), DurMs: pick(r, 500, 5000, 30_000, 90_000), Arg: r.IntN(1000)}
		if f.Kind == "node-restart" {
			f.DurMs = pick(r, 100, 1500)
		}
		p.Faults = append(p.Faults, f)
	}
	if r.IntN(4) == 0 {
		p.X["close_at"] = r.IntN(200)
	}
	for i, ng := 0, r.IntN(5); i < ng; i++ {
		switch r.IntN(3) {
		case 0:
			p.Ghosts = append(p.Ghosts, GhostSpec{Kind: "cmd", Argv: []string{"PUBLISH", "ch" + strconv.Itoa(r.IntN(2)), "m" + strconv.Itoa(i)}, MinStep: r.IntN(150)})
		case 1:
			p.Ghosts = append(p.Ghosts, GhostSpec{Kind: "cmd", Argv: []string{"SET", "ck" + strconv.Itoa(r.IntN(3)), "g" + strconv.Itoa(i)}, MinStep: r.IntN(150)})
		default:
			p.Ghosts = append(p.Ghosts, GhostSpec{Kind: "cmd", Argv: []string{"RPUSH", "bl" + strconv.Itoa(r.IntN(2)), "e" + strconv.Itoa(i)}, MinStep: r.IntN(150)})
		}
	}
	return p
}

func planInt(p *Plan, key string) (int, bool) {
	switch v := p.X[key].(type) {
	case float64:
		return int(v), true
	case int:
		return v, true
	}
	return 0, false
}

func execBreakage(t *testing.T, plan any, out *Outcome) {
	p := plan.(*Plan)
	closeAt, hasClose := planInt(p, "close_at")
	closeStart, closeEnd := -1, -1
	staleDead := false // at Close, the mux's shared dead wire carried the error of an earlier failed dial (known finding)
	noteDead := func(e *env) {
		for _, m := range muxOf(e.clients[0]) {
			if err := m.dead.Error(); err != nil && err != ErrClosing {
				staleDead = true
			}
		}
	}
	var probeRecs []*sched.CallRec
	var probeSpecs []CallSpec
	e := standardRun(t, out.Seed, p, out, runHooks{
		afterSetup: func(e *env) {
			if !hasClose {
				return
			}
			base := e.sim.Step
			closing := false
			e.sim.UserEvents = func(s *sched.Sim) []sched.Event {
				if closing || s.Step < base+closeAt {
					return nil
				}
				return []sched.Event{{Kind: "user", Key: "client.Close", Weight: 50, Do: func() {
					closing = true
					closeStart = s.Step
					noteDead(e)
					go func() {
						nameGoroutine("closer-task")
						e.clients[0].Close()
						closeEnd = s.Step
					}()
				}}}
			}
		},
		afterMain: func(e *env) {
			// heal, then fresh calls must be served (by a fresh connection if needed)
			s := e.sim
			s.Heal()
			s.UserEvents = nil
			if hasClose && closeStart < 0 {
				// the run ended before the planned Close: do it now, in the background
				closeStart = s.Step
				noteDead(e)
				e.background("closer-task", func(ctx context.Context) { e.clients[0].Close() })
				closeEnd = s.Step
			}
			if hasClose && closeEnd < 0 {
				// Close is still in progress: let it finish before judging "after Close"
				s.Cfg.MaxSteps = s.Step + 2000
				if rr := s.Run(func() bool { return closeEnd >= 0 }); rr.Reason != "done" {
					out.violate("C04", "close-never-returned", "Close() did not return within the drain bound after all faults were healed (%s)", rr.Reason)
					return
				}
			}
			var calls []sched.Call
			// An idle connection that died silently is only noticed when it is used, so the first calls may each
			// burn one dead connection (at most the multiplexed wires, respectively the pooled connections);
			// the last call of each kind must be served.
			for i := 0; i < 12; i++ {
				spec := CallSpec{Kind: "do", Cmds: []CmdSpec{{Argv: []string{"VTAG", fmt.Sprintf("probe.%d", i), "[sb]"}}}}
				if i%2 == 1 {
					spec = CallSpec{Kind: "do", Cmds: []CmdSpec{{Argv: []string{"BLPOP", "nokey", "0.1"}, Keys: 1, Flag: "block"}}}
				}
				probeSpecs = append(probeSpecs, spec)
				calls = append(calls, sched.Call{Name: "probe", Run: func(ctx context.Context, rec *sched.CallRec) any {
					nameGoroutine(sched.TaskID(ctx))
					return e.execCall(e.clients[0], spec, ctx, rec)
				}})
			}
			pt := s.AddTask("probe", calls)
			s.Cfg.MaxSteps = s.Step + 3000
			s.Cfg.DrainBound = 3 * time.Minute
			rr := s.Run(func() bool { return pt.Remaining() == 0 && pt.Running() == nil })
			if rr.Reason != "done" {
				out.Reason += "+probe:" + rr.Reason
			}
			probeRecs = pt.Recs
		},
	})
	if out.HarnessErr != "" {
		return
	}
	afterCloseRule := "call-after-close"
	if hasClose {
		noteDead(e) // a dial that was in flight at Close may have failed afterwards
		if staleDead {
			afterCloseRule = "call-after-close-stale-dial-error"
		}
	}
	checkCommon(e)
	checkRepliesOwnInOrder(e, "C04", false)
	// probes after heal
	for i, rec := range probeRecs {
		res, _ := rec.Result.(*CallResult)
		if !rec.Done || res == nil {
			out.violate("C04", "call-never-returned", "probe call %d issued after all faults were healed never returned", i)
			continue
		}
		if hasClose {
			if len(res.Res) == 1 && res.Res[0].ErrKind != "closing" {
				out.violate("C04", afterCloseRule, "call issued after Close returned %q / %s instead of ErrClosing", res.Res[0].Err, res.Res[0].Text)
			} else {
				out.judged("err-closing-after-close")
			}
			continue
		}
		if len(res.Res) == 1 && res.Res[0].Err != "" {
			if i >= len(probeRecs)-2 {
				out.violate("C04", "no-recovery", "probe call %d %q, the last of six issued after all faults were healed, still failed: %s", i, probeSpecs[i].Cmds[0].Argv, res.Res[0].Err)
			} else {
				out.notJudged("early-probe-failed-on-dead-idle-connection")
			}
		} else {
			out.judged("probe-served-after-heal")
		}
	}
	if hasClose {
		out.probe("client-closed-during-run")
		// calls started after Close returned must fail with ErrClosing and send nothing
		e.eachCall(func(task int, spec CallSpec, rec *sched.CallRec, res *CallResult) {
			if closeEnd < 0 || rec.StartStep <= closeEnd || res == nil {
				return
			}
			ownCtx := spec.TimeoutMs > 0 || rec.CancelStep >= 0
			for i, r := range res.Res {
				if ownCtx && (r.ErrKind == "ctx-deadline" || r.ErrKind == "ctx-canceled") {
					continue // the call's own context error takes precedence
				}
				if r.ErrKind != "closing" {
					out.violate("C04", afterCloseRule, "task %d call %d cmd %d started after Close returned got %q/%s instead of ErrClosing", task, rec.Index, i, r.Err, truncStr(r.Text, 80))
				}
			}
			if spec.Kind == "recv" && res.ErrK != "closing" && !(ownCtx && (res.ErrK == "ctx-deadline" || res.ErrK == "ctx-canceled")) {
				out.violate("C04", afterCloseRule, "task %d call %d Receive started after Close returned %q instead of ErrClosing", task, rec.Index, res.Err)
			}
		})
		for _, ex := range e.sim.W.Log {
			if uid, ok := uidOf(ex.Argv); ok && closeEnd >= 0 && ex.Step > closeEnd+1 && (strings.HasPrefix(uid, "probe.")) {
				out.violate("C04", "sent-after-close", "command %q reached the server after Close returned", truncArgv(ex.Argv))
			}
		}
	}
	fired := 0
	for _, f := range e.sim.Faults {
		if f.FiredStep > 0 {
			fired++
		}
	}
	if fired > 0 {
		out.probe("fault-fired")
	}
	pendingAtFault := false
	for _, f := range e.sim.Faults {
		if f.FiredStep == 0 {
			continue
		}
		e.eachCall(func(task int, spec CallSpec, rec *sched.CallRec, res *CallResult) {
			if rec.StartStep < f.FiredStep && (rec.EndStep < 0 || rec.EndStep >= f.FiredStep) {
				pendingAtFault = true
			}
		})
	}
	if pendingAtFault {
		out.probe("fault-with-call-in-flight")
	}
	out.Nontrivial = pendingAtFault || (hasClose && closeStart >= 0)
}
