//go:build verif

package rueidis

import (
	"context"
	"fmt"
	"math/rand/v2"
	"strconv"
	"strings"
	"testing"
	"time"

	"verifsim/sched"
)

func init() {
	registerScenario(&scenario{name: "breakage", gen: genBreakage, load: loadPlan, exec: execBreakage})
}

var linkFaultKinds = []string{"eof", "reset", "reset-after-exec", "eof-mid-reply", "werr", "stall", "node-restart"}

// genFaultWorkload draws a small mixed workload (used by the fault scenarios).
func genFaultWorkload(r *rand.Rand, p *Plan, ntasks, maxCalls int, withCtx bool) {
	nkeys := 3
	resp2 := p.Opt.RESP2
	for ti := 0; ti < ntasks; ti++ {
		ncalls := 1 + r.IntN(maxCalls)
		var calls []CallSpec
		for ci := 0; ci < ncalls; ci++ {
			uid := func(k int) string { return fmt.Sprintf("t%d.c%d.k%d", ti, ci, k) }
			var c CallSpec
			x := r.IntN(100)
			switch {
			case x < 30:
				c = CallSpec{Kind: "do", Cmds: []CmdSpec{{Argv: []string{"VTAG", uid(0), randShape(r, 0, resp2)}, Flag: pick(r, "", "ro")}}}
			case x < 45:
				c = CallSpec{Kind: "do", Cmds: []CmdSpec{{Argv: []string{"VWTAG", "w" + strconv.Itoa(r.IntN(nkeys)), uid(0)}, Keys: 1}}}
			case x < 65:
				c = CallSpec{Kind: "multi"}
				for k, n := 0, 2+r.IntN(4); k < n; k++ {
					c.Cmds = append(c.Cmds, CmdSpec{Argv: []string{"VTAG", uid(k), randShape(r, 0, resp2)}})
				}
			case x < 77 && !resp2:
				j := r.IntN(nkeys)
				c = CallSpec{Kind: "cache", TTLMs: 60_000, Cmds: []CmdSpec{{Argv: []string{"VKTAG", "ck" + strconv.Itoa(j), "K" + strconv.Itoa(j), "[sb{si}]"}, Keys: 1, Flag: "ro"}}}
			case x < 83 && !resp2:
				c = CallSpec{Kind: "mcache", TTLMs: 60_000}
				for k, n := 0, 1+r.IntN(3); k < n; k++ {
					j := r.IntN(nkeys)
					c.Cmds = append(c.Cmds, CmdSpec{Argv: []string{"VKTAG", "ck" + strconv.Itoa(j), "K" + strconv.Itoa(j), "[sb{si}]"}, Keys: 1, Flag: "ro"})
				}
			case x < 90 && !resp2:
				c = CallSpec{Kind: "recv", Cmds: []CmdSpec{{Argv: []string{"SUBSCRIBE", "ch" + strconv.Itoa(r.IntN(2))}}}, TimeoutMs: 500 + r.IntN(3000)}
			case x < 93 && !resp2 && p.Scenario == "breakage":
				// a blocking pop that the server answers with nil (nobody pushes to that list), then a dedicated
				// connection - the pool hands out the one the pop just gave back - that waits in Receive for a long time:
				// when that connection goes silent only the keep-alive ping can find out
				c = CallSpec{Kind: "blrecv", Cmds: []CmdSpec{{Argv: []string{"BLPOP", "never" + strconv.Itoa(r.IntN(2)), "0.2"}, Keys: 1, Flag: "block"}, {Argv: []string{"SUBSCRIBE", "blr." + uid(1)}}}, TimeoutMs: 40_000}
			case x < 96:
				c = CallSpec{Kind: "do", Cmds: []CmdSpec{{Argv: []string{"BLPOP", "bl" + strconv.Itoa(r.IntN(2)), pick(r, "0.2", "1", "3")}, Keys: 1, Flag: "block"}}}
			case x < 98 && !resp2:
				// an unsubscribe command: its confirmation arrives as a push, followed by the reply to the PING the client
				// appends - a connection lost between the two leaves a call the reader has already taken off the queue
				c = CallSpec{Kind: "unsub", Cmds: []CmdSpec{{Argv: []string{pick(r, "UNSUBSCRIBE", "UNSUBSCRIBE", "PUNSUBSCRIBE", "SUNSUBSCRIBE"), "ch" + strconv.Itoa(r.IntN(2))}}}}
			default:
				c = CallSpec{Kind: "do", Cmds: []CmdSpec{{Argv: []string{"ECHO", uid(0)}}}}
			}
			if withCtx && c.Kind != "recv" && c.Kind != "blrecv" {
				switch y := r.IntN(100); {
				case y < 10:
					c.Cancel = true
					c.CancelAfter = r.IntN(8)
				case y < 20:
					c.TimeoutMs = 50 + r.IntN(3000)
				}
			}
			calls = append(calls, c)
		}
		p.Tasks = append(p.Tasks, calls)
	}
}

func genBreakage(seed uint64, tier, variant string) any {
	enum := strings.HasPrefix(variant, "enum:")
	base := seed
	boundary := 0
	if enum {
		base, boundary = seed>>8, int(seed&255)
	}
	r := planRand(base, 0xC04)
	p := &Plan{Scenario: "breakage", Opt: genOpt(r), X: map[string]any{}}
	p.Opt.DisableRetry = r.IntN(2) == 0
	p.Opt.KeepAliveMs = pick(r, 1000, 1000, 3600_000)
	p.Opt.WriteTimeoutMs = pick(r, 2000, 10_000)
	p.Opt.DialTimeoutMs = 2000
	p.Opt.RetryDelaysMs = []int{1, 5, 20, 100}
	p.Sched = SchedSpec{CutProb: pick(r, 0.0, 0.4), C2SCutProb: pick(r, 0.0, 0.3), MaxSteps: 6000}
	if enum {
		genFaultWorkload(r, p, 2+r.IntN(3), 3, false)
		p.X["sched_seed"] = base
		kind := strings.TrimPrefix(variant, "enum:")
		if kind == "close" {
			p.X["close_at"] = boundary
		} else {
			p.Faults = []FaultSpec{{Kind: kind, AtStep: boundary, Pick: r.IntN(4), DurMs: 30_000, Arg: r.IntN(1000)}}
		}
		return p
	}
	genFaultWorkload(r, p, 2+r.IntN(6), 5, r.IntN(2) == 0)
	nf := 1 + r.IntN(3)
	for i := 0; i < nf; i++ {
		f := FaultSpec{Kind: pick(r, linkFaultKinds...), AtStep: r.IntN(160), NeedInflight: r.IntN(2) == 0, Pick: r.IntN(4), DurMs: pick(r, 500, 5000, 30_000, 90_000), Arg: r.IntN(1000)}
		if f.Kind == "node-restart" {
			f.DurMs = pick(r, 100, 1500)
		}
		p.Faults = append(p.Faults, f)
	}
	if r.IntN(4) == 0 {
		p.X["close_at"] = r.IntN(200)
	}
	nbl := 0
	for _, calls := range p.Tasks {
		for _, c := range calls {
			if c.Kind == "blrecv" {
				nbl++
			}
		}
	}
	if nbl > 0 {
		// the keep-alive traffic of a Receive that waits for tens of seconds costs steps; and in half of these plans the
		// connection of the first such Receive goes silent for a minute once its subscription is confirmed
		p.Sched.MaxSteps += 1500 * nbl
		p.X["silence_blrecv"] = r.IntN(2) == 0
	}
	for i, ng := 0, r.IntN(5); i < ng; i++ {
		switch r.IntN(3) {
		case 0:
			p.Ghosts = append(p.Ghosts, GhostSpec{Kind: "cmd", Argv: []string{"PUBLISH", "ch" + strconv.Itoa(r.IntN(2)), "m" + strconv.Itoa(i)}, MinStep: r.IntN(150)})
		case 1:
			p.Ghosts = append(p.Ghosts, GhostSpec{Kind: "cmd", Argv: []string{"SET", "ck" + strconv.Itoa(r.IntN(3)), "g" + strconv.Itoa(i)}, MinStep: r.IntN(150)})
		default:
			p.Ghosts = append(p.Ghosts, GhostSpec{Kind: "cmd", Argv: []string{"RPUSH", "bl" + strconv.Itoa(r.IntN(2)), "e" + strconv.Itoa(i)}, MinStep: r.IntN(150)})
		}
	}
	return p
}

func planInt(p *Plan, key string) (int, bool) {
	switch v := p.X[key].(type) {
	case float64:
		return int(v), true
	case int:
		return v, true
	}
	return 0, false
}

func execBreakage(t *testing.T, plan any, out *Outcome) {
	p := plan.(*Plan)
	closeAt, hasClose := planInt(p, "close_at")
	closeStart, closeEnd := -1, -1
	staleDead := false // at Close, the mux's shared dead wire carried the error of an earlier failed dial (known finding)
	noteDead := func(e *env) {
		for _, m := range muxOf(e.clients[0]) {
			if err := m.dead.Error(); err != nil && err != ErrClosing {
				staleDead = true
			}
		}
	}
	var probeRecs []*sched.CallRec
	var probeSpecs []CallSpec
	e := standardRun(t, out.Seed, p, out, runHooks{
		extraCall: func(e *env, cl Client, cs CallSpec, ctx context.Context, rec *sched.CallRec) *CallResult {
			if cs.Kind != "blrecv" {
				return nil
			}
			r := &CallResult{Kind: cs.Kind}
			r.Res = []Res{toRes(cl.Do(ctx, buildCmd(cl.B(), cs.Cmds[0])))}
			dc, release := cl.Dedicate()
			err := dc.Receive(ctx, buildSub(dc.B(), cs.Cmds[1].Argv), func(PubSubMessage) {})
			release()
			if err != nil {
				r.Err, r.ErrK = err.Error(), errKind(err)
			}
			return r
		},
		afterSetup: func(e *env) {
			if sil, _ := p.X["silence_blrecv"].(bool); sil && !hasClose {
				done := false
				e.sim.UserEvents = func(s *sched.Sim) []sched.Event {
					if done {
						return nil
					}
					for _, l := range s.Links {
						if l.Dead || len(l.S.Cmds) == 0 {
							continue
						}
						last := l.S.Cmds[len(l.S.Cmds)-1]
						if len(last.Argv) == 2 && last.Argv[0] == "SUBSCRIBE" && strings.HasPrefix(last.Argv[1], "blr.") && len(l.S.Out) == 0 {
							l := l
							return []sched.Event{{Kind: "user", Key: fmt.Sprintf("silence c%d", l.ID), Weight: 3, Do: func() {
								done = true
								until := time.Now().Add(60 * time.Second)
								l.StallS2C, l.StallC2S = until, until
								s.Faults = append(s.Faults, &sched.Fault{Kind: "stall", Fired: true, FiredStep: s.Step, FiredAt: time.Now(), Target: fmt.Sprintf("c%d", l.ID), Dur: 60 * time.Second, Note: "directed at a dedicated Receive"})
								s.Stats["fault.silenced-dedicated-receive"]++
							}}}
						}
					}
					return nil
				}
			}
			if !hasClose {
				return
			}
			base := e.sim.Step
			closing := false
			e.sim.UserEvents = func(s *sched.Sim) []sched.Event {
				if closing || s.Step < base+closeAt {
					return nil
				}
				return []sched.Event{{Kind: "user", Key: "client.Close", Weight: 50, Do: func() {
					closing = true
					closeStart = s.Step
					noteDead(e)
					go func() {
						nameGoroutine("closer-task")
						e.clients[0].Close()
						closeEnd = s.Step
					}()
				}}}
			}
		},
		afterMain: func(e *env) {
			// heal, then fresh calls must be served (by a fresh connection if needed)
			s := e.sim
			s.Heal()
			s.UserEvents = nil
			if hasClose && closeStart < 0 {
				// the run ended before the planned Close: do it now, in the background
				closeStart = s.Step
				noteDead(e)
				e.background("closer-task", func(ctx context.Context) { e.clients[0].Close() })
				closeEnd = s.Step
			}
			if hasClose && closeEnd < 0 {
				// Close is still in progress: let it finish before judging "after Close"
				s.Cfg.MaxSteps = s.Step + 2000
				if rr := s.Run(func() bool { return closeEnd >= 0 }); rr.Reason != "done" {
					out.violate("C04", "close-never-returned", "Close() did not return within the drain bound after all faults were healed (%s)", rr.Reason)
					return
				}
			}
			var calls []sched.Call
			// An idle connection that died silently is only noticed when it is used, so the first calls may each
			// burn one dead connection (at most the multiplexed wires, respectively the pooled connections);
			// the last call of each kind must be served.
			for i := 0; i < 12; i++ {
				spec := CallSpec{Kind: "do", Cmds: []CmdSpec{{Argv: []string{"VTAG", fmt.Sprintf("probe.%d", i), "[sb]"}}}}
				if i%2 == 1 {
					spec = CallSpec{Kind: "do", Cmds: []CmdSpec{{Argv: []string{"BLPOP", "nokey", "0.1"}, Keys: 1, Flag: "block"}}}
				}
				probeSpecs = append(probeSpecs, spec)
				calls = append(calls, sched.Call{Name: "probe", Run: func(ctx context.Context, rec *sched.CallRec) any {
					nameGoroutine(sched.TaskID(ctx))
					return e.execCall(e.clients[0], spec, ctx, rec)
				}})
			}
			pt := s.AddTask("probe", calls)
			s.Cfg.MaxSteps = s.Step + 3000
			s.Cfg.DrainBound = 3 * time.Minute
			rr := s.Run(func() bool { return pt.Remaining() == 0 && pt.Running() == nil })
			if rr.Reason != "done" {
				out.Reason += "+probe:" + rr.Reason
			}
			probeRecs = pt.Recs
		},
	})
	if out.HarnessErr != "" {
		return
	}
	afterCloseRule := "call-after-close"
	if hasClose {
		noteDead(e) // a dial that was in flight at Close may have failed afterwards
		if staleDead {
			afterCloseRule = "call-after-close-stale-dial-error"
		}
	}
	checkCommon(e)
	checkRepliesOwnInOrder(e, "C04", false)
	// probes after heal
	for i, rec := range probeRecs {
		res, _ := rec.Result.(*CallResult)
		if !rec.Done || res == nil {
			out.violate("C04", "call-never-returned", "probe call %d issued after all faults were healed never returned", i)
			continue
		}
		if hasClose {
			if len(res.Res) == 1 && res.Res[0].ErrKind != "closing" {
				out.violate("C04", afterCloseRule, "call issued after Close returned %q / %s instead of ErrClosing", res.Res[0].Err, res.Res[0].Text)
			} else {
				out.judged("err-closing-after-close")
			}
			continue
		}
		if len(res.Res) == 1 && res.Res[0].Err != "" {
			if i >= len(probeRecs)-2 {
				out.violate("C04", "no-recovery", "probe call %d %q, the last of six issued after all faults were healed, still failed: %s", i, probeSpecs[i].Cmds[0].Argv, res.Res[0].Err)
			} else {
				out.notJudged("early-probe-failed-on-dead-idle-connection")
			}
		} else {
			out.judged("probe-served-after-heal")
		}
	}
	if hasClose {
		out.probe("client-closed-during-run")
		// calls started after Close returned must fail with ErrClosing and send nothing
		e.eachCall(func(task int, spec CallSpec, rec *sched.CallRec, res *CallResult) {
			if closeEnd < 0 || rec.StartStep <= closeEnd || res == nil {
				return
			}
			ownCtx := spec.TimeoutMs > 0 || rec.CancelStep >= 0
			for i, r := range res.Res {
				if ownCtx && (r.ErrKind == "ctx-deadline" || r.ErrKind == "ctx-canceled") {
					continue // the call's own context error takes precedence
				}
				if r.ErrKind != "closing" {
					out.violate("C04", afterCloseRule, "task %d call %d cmd %d started after Close returned got %q/%s instead of ErrClosing", task, rec.Index, i, r.Err, truncStr(r.Text, 80))
				}
			}
			if spec.Kind == "recv" && res.ErrK != "closing" && !(ownCtx && (res.ErrK == "ctx-deadline" || res.ErrK == "ctx-canceled")) {
				out.violate("C04", afterCloseRule, "task %d call %d Receive started after Close returned %q instead of ErrClosing", task, rec.Index, res.Err)
			}
		})
		for _, ex := range e.sim.W.Log {
			if uid, ok := uidOf(ex.Argv); ok && closeEnd >= 0 && ex.Step > closeEnd+1 && (strings.HasPrefix(uid, "probe.")) {
				out.violate("C04", "sent-after-close", "command %q reached the server after Close returned", truncArgv(ex.Argv))
			}
		}
	}
	// a peer that goes silent: the keep-alive ping must end the connection, and with it a Receive that waits on it,
	// within KeepAlive + ConnWriteTimeout (+ slack) of fake time - judged for the dedicated Receive of "blrecv" calls,
	// which has a deadline far beyond that
	if ka := time.Duration(p.Opt.KeepAliveMs) * time.Millisecond; ka <= time.Second && !hasClose {
		bound := ka + time.Duration(p.Opt.WriteTimeoutMs)*time.Millisecond + 5*time.Second
		e.eachCall(func(task int, spec CallSpec, rec *sched.CallRec, res *CallResult) {
			if spec.Kind != "blrecv" {
				return
			}
			conn, subAt := -1, time.Time{}
			for _, ex := range e.sim.W.Log {
				if ex.Conn >= 0 && len(ex.Argv) == 2 && ex.Argv[0] == "SUBSCRIBE" && ex.Argv[1] == spec.Cmds[1].Argv[1] {
					conn, subAt = ex.Conn, ex.At
				}
			}
			if conn < 0 {
				return
			}
			end := rec.EndAt
			if !rec.Done {
				end = e.sim.Start.Add(e.sim.Elapsed())
			}
			l := e.sim.LinkOf(conn)
			if l == nil {
				return
			}
			for _, f := range e.sim.Faults {
				if f.Kind != "stall" || f.FiredStep == 0 || f.Target != fmt.Sprintf("c%d", conn) || f.FiredAt.Before(subAt) || !f.FiredAt.Before(end) {
					continue
				}
				// how long nothing reached the client on that connection around the moment the stall began (a later,
				// shorter stall on the same connection ends an earlier one, so the planned duration says nothing)
				from, to := subAt, end
				for _, d := range l.DeliveryLog {
					if !d.At.After(f.FiredAt) && d.At.After(from) {
						from = d.At
					}
					if d.At.After(f.FiredAt) && d.At.Before(to) {
						to = d.At
					}
				}
				if !l.EndedAt.IsZero() && l.EndedAt.After(f.FiredAt) && l.EndedAt.Before(to) {
					to = l.EndedAt
				}
				silent := to.Sub(from)
				ownDeadline := res == nil || res.ErrK == "ctx-deadline" || res.ErrK == ""
				switch {
				case silent > bound && ownDeadline:
					out.violate("C04", "silent-peer-not-detected", "task %d call %d: Receive on dedicated connection %d (after a blocking pop answered with nil on it) was still waiting after the connection had been silent for %v (keep-alive %v, write timeout %d ms): it ended with %q", task, rec.Index, conn, silent, ka, p.Opt.WriteTimeoutMs, func() string {
						if res == nil {
							return "no return"
						}
						return res.ErrK + " " + res.Err
					}())
				case !ownDeadline:
					// the Receive was ended with an error (the keep-alive ping failed) before its own deadline
					out.judged("silent-peer-detected-by-keep-alive")
					out.probe("silent-peer-detected-by-keep-alive")
				default:
					out.notJudged("receive-ended-before-the-silence-was-long-enough")
				}
			}
		})
	}
	fired := 0
	for _, f := range e.sim.Faults {
		if f.FiredStep > 0 {
			fired++
		}
	}
	if fired > 0 {
		out.probe("fault-fired")
	}
	pendingAtFault := false
	for _, f := range e.sim.Faults {
		if f.FiredStep == 0 {
			continue
		}
		e.eachCall(func(task int, spec CallSpec, rec *sched.CallRec, res *CallResult) {
			if rec.StartStep < f.FiredStep && (rec.EndStep < 0 || rec.EndStep >= f.FiredStep) {
				pendingAtFault = true
			}
		})
	}
	if pendingAtFault {
		out.probe("fault-with-call-in-flight")
	}
	out.Nontrivial = pendingAtFault || (hasClose && closeStart >= 0)
}
