//go:build verif

package rueidis

import (
	"fmt"
	"strconv"
	"strings"
	"testing"
	"time"

	"verifsim/sched"
)

func init() {
	registerScenario(&scenario{name: "at-most-once", gen: genAtMostOnce, load: loadPlan, exec: execAtMostOnce})
}

func genAtMostOnce(seed uint64, tier, variant string) any {
	enum := strings.HasPrefix(variant, "enum:")
	base, boundary := seed, 0
	if enum {
		base, boundary = seed>>8, int(seed&255)
	}
	r := planRand(base, 0xC03)
	p := &Plan{Scenario: "at-most-once", Opt: genOpt(r), X: map[string]any{}}
	p.Opt.RESP2 = false
	p.Opt.DisableRetry = r.IntN(5) == 0
	p.Opt.RetryDelaysMs = pick(r, []int{0}, []int{1, 2, 4}, []int{10, 100})
	p.Opt.KeepAliveMs = pick(r, 1000, 3600_000)
	p.Opt.WriteTimeoutMs = pick(r, 2000, 10_000)
	p.Opt.DialTimeoutMs = 2000
	lifetime := variant == "lifetime" || (!enum && variant == "" && r.IntN(3) == 0)
	if lifetime {
		p.Opt.ConnLifetimeMs = pick(r, 1000, 3000)
	}
	p.Sched = SchedSpec{CutProb: pick(r, 0.0, 0.4), C2SCutProb: pick(r, 0.0, 0.4), MaxSteps: 6000, TickWeight: pick(r, 0.4, 1.5)}
	ntasks := 2 + r.IntN(4)
	for ti := 0; ti < ntasks; ti++ {
		var calls []CallSpec
		for ci, n := 0, 1+r.IntN(4); ci < n; ci++ {
			uid := func(k int) string { return fmt.Sprintf("t%d.c%d.k%d", ti, ci, k) }
			wr := func(k int) CmdSpec {
				return CmdSpec{Argv: []string{"VWTAG", "w" + strconv.Itoa(r.IntN(3)), uid(k)}, Keys: 1}
			}
			rd := func(k int) CmdSpec {
				return CmdSpec{Argv: []string{"VTAG", uid(k), "[sb]"}, Flag: "ro"}
			}
			var c CallSpec
			switch x := r.IntN(10); {
			case x < 4:
				c = CallSpec{Kind: "do", Cmds: []CmdSpec{wr(0)}}
			case x < 7:
				// batch mixing writes and reads in any order
				c = CallSpec{Kind: "multi"}
				for k, m := 0, 2+r.IntN(4); k < m; k++ {
					if r.IntN(2) == 0 {
						c.Cmds = append(c.Cmds, wr(k))
					} else {
						c.Cmds = append(c.Cmds, rd(k))
					}
				}
			case x < 9:
				// MULTI ... EXEC block with writes
				c = CallSpec{Kind: "multi", Cmds: []CmdSpec{{Argv: []string{"MULTI"}}}}
				for k, m := 1, 2+r.IntN(3); k < m; k++ {
					c.Cmds = append(c.Cmds, wr(k))
				}
				c.Cmds = append(c.Cmds, CmdSpec{Argv: []string{"EXEC"}})
			default:
				c = CallSpec{Kind: "do", Cmds: []CmdSpec{rd(0)}}
			}
			if r.IntN(8) == 0 {
				c.TimeoutMs = 100 + r.IntN(3000)
			}
			calls = append(calls, c)
		}
		p.Tasks = append(p.Tasks, calls)
	}
	if enum {
		p.X["sched_seed"] = base
		kind := strings.TrimPrefix(variant, "enum:")
		p.Faults = []FaultSpec{{Kind: kind, AtStep: boundary, Pick: r.IntN(4), DurMs: pick(r, 1500, 5000), Arg: r.IntN(1000)}}
		return p
	}
	nf := r.IntN(4)
	for i := 0; i < nf; i++ {
		f := FaultSpec{Kind: pick(r, "eof", "reset", "reset-after-exec", "eof-mid-reply", "werr", "slow", "stall", "node-restart"), AtStep: r.IntN(150), NeedInflight: r.IntN(3) != 0, Pick: r.IntN(4), DurMs: pick(r, 500, 1500, 2500, 8000), Arg: r.IntN(1000)}
		if f.Kind == "node-restart" {
			f.DurMs = pick(r, 100, 1500)
		}
		p.Faults = append(p.Faults, f)
	}
	if lifetime {
		// a slow server around the moment the connection lifetime ends
		p.Faults = append(p.Faults, FaultSpec{Kind: "slow", AtStep: r.IntN(120), NeedInflight: true, Pick: r.IntN(4), DurMs: pick(r, 1200, 2000, 4000)})
	}
	if variant == "lifetime" && r.IntN(4) == 0 {
		// one caller, no pipelining: every request takes the synchronous path, where a connection closed by the lifetime
		// timer under a request in flight surfaces as an ordinary transport error - nothing is sent again there
		p.Tasks = p.Tasks[:1]
		for len(p.Tasks[0]) < 6 {
			ci := len(p.Tasks[0])
			p.Tasks[0] = append(p.Tasks[0], CallSpec{Kind: "do", Cmds: []CmdSpec{{Argv: []string{"VWTAG", "w" + strconv.Itoa(r.IntN(3)), fmt.Sprintf("t0.c%d.k0", ci)}, Keys: 1}}})
		}
		p.Opt.AlwaysPipelining, p.Opt.KeepAliveMs = false, 3600_000
		p.Opt.ConnLifetimeMs = pick(r, 60, 150, 400, 1000)
		p.X["sync_only"] = true
		for i, n := 0, 2+r.IntN(5); i < n; i++ {
			p.Faults = append(p.Faults, FaultSpec{Kind: "slow", AtStep: r.IntN(200), NeedInflight: true, Pick: r.IntN(4), DurMs: pick(r, 1100, 1500, 2500)})
		}
	} else if variant == "lifetime" && r.IntN(2) == 0 {
		// directed at the recovery of a batch that was cut in the middle: short lifetimes, replies delivered in pieces,
		// several slow episodes, mostly the pipelined path (where the client keeps the replies it has read)
		p.Opt.ConnLifetimeMs = pick(r, 60, 150, 400, 1000)
		p.Opt.AlwaysPipelining = r.IntN(4) != 0
		p.Sched.CutProb = pick(r, 0.3, 0.7, 1.0)
		for i, n := 0, 1+r.IntN(6); i < n; i++ {
			p.Faults = append(p.Faults, FaultSpec{Kind: "slow", AtStep: r.IntN(250), NeedInflight: true, Pick: r.IntN(4), DurMs: pick(r, 1100, 1500, 2500)})
		}
	}
	return p
}

func execAtMostOnce(t *testing.T, plan any, out *Outcome) {
	p := plan.(*Plan)
	e := standardRun(t, out.Seed, p, out, runHooks{})
	if out.HarnessErr != "" {
		return
	}
	checkCommon(e)
	checkRepliesOwnInOrder(e, "C01", false)
	checkAtMostOnce(e, "C03")
}

// checkAtMostOnce: a command that is neither read-only nor marked retryable is executed at most once
// (plus once per redirect reply the model sent for it).
func checkAtMostOnce(e *env, prop string) {
	out := e.out
	type info struct {
		execs     int
		redirects int
		steps     []int
		conns     []int
		answered  []bool // per execution: the client had read the whole reply frame from the connection
	}
	seen := map[string]*info{}
	frameEnd := map[[2]int]int{}
	for _, l := range e.sim.Links {
		off := 0
		for _, f := range l.S.OutLog {
			off += f.Bytes
			if !f.Push {
				frameEnd[[2]int{l.ID, f.ConnSeq}] = off
			}
		}
	}
	for _, ex := range e.sim.W.Log {
		if ex.Queued || ex.Conn < 0 || len(ex.Argv) < 3 || ex.Argv[0] != "VWTAG" {
			continue
		}
		uid := ex.Argv[2]
		in := seen[uid]
		if in == nil {
			in = &info{}
			seen[uid] = in
		}
		if ex.Reply.T == '-' && (strings.HasPrefix(ex.Reply.S, "MOVED") || strings.HasPrefix(ex.Reply.S, "ASK") || strings.HasPrefix(ex.Reply.S, "REDIRECT")) {
			in.redirects++
			continue
		}
		if ex.Reply.IsErr() {
			continue // not executed (LOADING, READONLY, ...)
		}
		in.execs++
		in.steps = append(in.steps, ex.Step)
		in.conns = append(in.conns, ex.Conn)
		answered := false
		if l := e.sim.LinkOf(ex.Conn); l != nil {
			nread, _, _, _, _ := l.C.Stats()
			if end, ok := frameEnd[[2]int{ex.Conn, ex.ConnSeq}]; ok && end <= nread {
				answered = true
			}
		}
		in.answered = append(in.answered, answered)
	}
	writes := 0
	e.eachCall(func(task int, spec CallSpec, rec *sched.CallRec, res *CallResult) {
		for _, c := range spec.Cmds {
			if c.Argv[0] != "VWTAG" {
				continue
			}
			writes++
			in := seen[c.Argv[2]]
			if in == nil {
				continue
			}
			if in.execs > 1 {
				// Known finding (DESIGN.md): once a connection has reached ConnLifetime, every call still outstanding
				// on it when it ends (the client closes it after a one second grace period, or it breaks first) fails
				// with the internal "connection is expired" error, which the clients answer by re-sending - including
				// writes the server already executed but had not answered yet. Recognised by: ConnLifetime set and the
				// first execution happened on a connection that ended at or after its lifetime.
				rule := "executed-twice"
				how := "after a transport failure or client-side retry"
				if lt := e.plan.Opt.ConnLifetimeMs; lt > 0 {
					for _, cid := range in.conns {
						if l := e.sim.LinkOf(cid); l != nil && !l.EndedAt.IsZero() && l.EndedAt.Sub(l.AcceptedAt) >= time.Duration(lt)*time.Millisecond {
							rule = "executed-twice-after-lifetime-expiry"
							how = fmt.Sprintf("after connection %d ended %v after it was opened (ConnLifetime %d ms) with %d reply bytes outstanding", l.ID, l.EndedAt.Sub(l.AcceptedAt), lt, l.UndeliveredAtEnd)
							break
						}
					}
					// not covered by the known finding: the client had already read the reply of an earlier execution
					// (judged where the client can tell: single commands, and batches on the pipelined path - the
					// synchronous path overwrites every result of a batch that fails midway)
					// "again" = on a connection opened after the client had closed the one that carried the answer (a command
					// written first and delivered late - bytes written before a close still reach the server - is the
					// original, not a re-send)
					if spec.Kind == "do" || e.plan.Opt.AlwaysPipelining {
						for i, a := range in.answered {
							la := e.sim.LinkOf(in.conns[i])
							if !a || la == nil || la.C.ClientClosedStep() < 0 {
								continue
							}
							for j := range in.conns {
								if lb := e.sim.LinkOf(in.conns[j]); j != i && lb != nil && lb.AcceptStep > la.C.ClientClosedStep() {
									rule = "answered-write-executed-again"
									how = fmt.Sprintf("although the client had read the reply of the execution on connection %d before it closed that connection (step %d) and opened connection %d (step %d)", la.ID, la.C.ClientClosedStep(), lb.ID, lb.AcceptStep)
								}
							}
						}
					}
				}
				if so, _ := e.plan.X["sync_only"].(bool); so && rule == "executed-twice-after-lifetime-expiry" {
					// not the known finding: that one lives on the pipelined path (the background reader marks outstanding
					// calls with the internal "expired" error); a single caller without pipelining never gets there
					rule = "executed-twice-after-lifetime-expiry-on-the-synchronous-path"
				}
				out.violate(prop, rule, "non-retryable write %q of task %d call %d (%s of %d commands) was executed %d times by the server (steps %v, connections %v) %s; redirect replies sent: %d", c.Argv, task, rec.Index, spec.Kind, len(spec.Cmds), in.execs, in.steps, in.conns, how, in.redirects)
			} else {
				out.judged("write-executed-at-most-once")
			}
		}
	})
	fired := 0
	for _, f := range e.sim.Faults {
		if f.FiredStep > 0 {
			fired++
		}
	}
	if fired > 0 {
		out.probe("fault-fired")
	}
	if e.sim.Stats["fault.exec_unanswered_bytes"] > 0 {
		out.probe("executed-but-unanswered")
	}
	if e.sim.Stats["fault.lost_request_bytes"] > 0 {
		out.probe("request-lost")
	}
	if e.plan.Opt.ConnLifetimeMs > 0 {
		out.probe("conn-lifetime-configured")
	}
	out.Nontrivial = writes > 0 && (fired > 0 || e.plan.Opt.ConnLifetimeMs > 0)
}
