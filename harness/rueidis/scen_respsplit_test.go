//go:build verif

package rueidis

import (
	"bytes"
	"context"
	"fmt"
	"strconv"
	"strings"
	"testing"

	"verifsim/fakeredis"
	"verifsim/resp"
	"verifsim/sched"
)

func init() {
	registerScenario(&scenario{name: "resp-split", gen: genRespSplit, load: loadPlan, exec: execRespSplit})
}

// deepShape draws deeper and wider value trees than the pipeline scenario.
func deepShape(r interface{ IntN(int) int }, depth, maxDepth int) string {
	leaves := "sbinItfdgvSaeB"
	if depth >= maxDepth || r.IntN(3) != 0 {
		if depth == 0 {
			return string(leaves[r.IntN(len(leaves))])
		}
		return string(leaves[r.IntN(len(leaves)-2)])
	}
	n := r.IntN(5)
	open, close := "[", "]"
	switch r.IntN(5) {
	case 1:
		open, close = "{", "}"
		n &^= 1
	case 2:
		open, close = "<", ">"
	case 3:
		open, close = "A[", "]"
	}
	var sb strings.Builder
	sb.WriteString(open)
	for i := 0; i < n; i++ {
		sb.WriteString(deepShape(r, depth+1, maxDepth))
	}
	sb.WriteString(close)
	return sb.String()
}

func genRespSplit(seed uint64, tier, variant string) any {
	r := planRand(seed, 0xC12)
	p := &Plan{Scenario: "resp-split", Opt: genOpt(r)}
	p.Opt.ReadBuf = pick(r, 32, 33, 64, 100, 512, 4096, 0)
	p.Opt.KeepAliveMs = 3600_000
	p.Opt.WriteTimeoutMs = 600_000
	p.Opt.PoolSize = 2
	// every delivery is cut; sometimes byte by byte
	p.Sched = SchedSpec{CutProb: pick(r, 0.6, 0.9, 1.0), MaxSteps: 20000, TickWeight: 0.02}
	p.X = map[string]any{"bytewise": r.IntN(4) == 0}
	ntasks := 1 + r.IntN(3)
	for ti := 0; ti < ntasks; ti++ {
		var calls []CallSpec
		for ci, n := 0, 2+r.IntN(6); ci < n; ci++ {
			uid := fmt.Sprintf("t%d.c%d.k0", ti, ci)
			pad := pick(r, 0, 0, 5, 31, 64, 500, 5000)
			shape := deepShape(r, 0, 2+r.IntN(5))
			argv := []string{"VTAG", uid, shape, strconv.Itoa(pad)}
			switch x := r.IntN(10); {
			case x < 3:
				// streaming read of a scalar reply
				sh := string("sbidgvSn e"[r.IntN(10)])
				if sh == " " {
					sh = "B"
				}
				if p.Opt.RESP2 && (sh == "S") {
					sh = "b"
				}
				calls = append(calls, CallSpec{Kind: "stream", Cmds: []CmdSpec{{Argv: []string{"VTAG", uid, sh, strconv.Itoa(pick(r, 0, 10, 200, 70000))}}}})
			case x < 5:
				c := CallSpec{Kind: "multi"}
				for k := 0; k < 2+r.IntN(3); k++ {
					c.Cmds = append(c.Cmds, CmdSpec{Argv: []string{"VTAG", fmt.Sprintf("t%d.c%d.k%d", ti, ci, k), deepShape(r, 0, 3), strconv.Itoa(pick(r, 0, 7, 100))}})
				}
				calls = append(calls, c)
			default:
				calls = append(calls, CallSpec{Kind: "do", Cmds: []CmdSpec{{Argv: argv}}})
			}
		}
		p.Tasks = append(p.Tasks, calls)
	}
	if r.IntN(10) == 0 {
		// one very wide aggregate or very large string: decoders that size buffers from declared lengths treat these
		// differently from small ones
		p.X["bytewise"] = false
		n := pick(r, 20000, 26214, 26215, 30000, 70000)
		shape := pick(r, "[r%di]", "<r%ds>", "{r%dsr%di}", "[r%d[ii]]", "A[r%di]")
		wide := ""
		if strings.HasPrefix(shape, "{") {
			// r repeats one element, so a map of n pairs is 2n elements (a map shape must have an even count)
			n = pick(r, 13107, 13108, 20000)
			wide = fmt.Sprintf(shape, n, n)
		} else {
			wide = fmt.Sprintf(shape, n)
		}
		call := CallSpec{Kind: "do", Cmds: []CmdSpec{{Argv: []string{"VTAG", "wide.k0", wide, "0"}}}}
		if r.IntN(3) == 0 {
			sh := pick(r, "b", "v", "B", "S")
			if p.Opt.RESP2 {
				sh = "b"
			}
			call = CallSpec{Kind: pick(r, "do", "stream"), Cmds: []CmdSpec{{Argv: []string{"VTAG", "wide.k0", sh, strconv.Itoa(pick(r, 1<<20-20, 1<<20+50, 2500000))}}}}
		}
		ti := r.IntN(len(p.Tasks))
		at := r.IntN(len(p.Tasks[ti]) + 1)
		p.Tasks[ti] = append(p.Tasks[ti][:at], append([]CallSpec{call}, p.Tasks[ti][at:]...)...)
	}
	return p
}

type capWriter struct{ bytes.Buffer }

func execRespSplit(t *testing.T, plan any, out *Outcome) {
	p := plan.(*Plan)
	bytewise, _ := p.X["bytewise"].(bool)
	proto := 3
	if p.Opt.RESP2 {
		proto = 2
	}
	e := standardRun(t, out.Seed, p, out, runHooks{
		beforeClient: func(e *env) {
			if bytewise {
				e.sim.Cfg.CutProb = 1.0
				e.sim.ByteWise = true
			}
		},
		extraCall: func(e *env, cl Client, cs CallSpec, ctx context.Context, rec *sched.CallRec) *CallResult {
			if cs.Kind != "stream" {
				return nil
			}
			r := &CallResult{Kind: "stream"}
			s := cl.DoStream(ctx, buildCmd(cl.B(), cs.Cmds[0]))
			var w capWriter
			n := 0
			for s.HasNext() {
				if _, err := s.WriteTo(&w); err != nil {
					r.Err = err.Error()
					if re, ok := err.(*RedisError); ok {
						r.Err = "REDIS:" + re.Error()
					}
					break
				}
				n++
			}
			if e := s.Error(); e != nil && r.Err == "" && e.Error() != "EOF" {
				r.Err = e.Error()
			}
			r.Notes = []string{w.String(), strconv.Itoa(n)}
			return r
		},
	})
	if out.HarnessErr != "" {
		return
	}
	checkCommon(e)
	checkRepliesOwnInOrder(e, "C12", true)
	// streaming: the writer received exactly the payload a normal read would have returned
	e.eachCall(func(task int, spec CallSpec, rec *sched.CallRec, res *CallResult) {
		if spec.Kind != "stream" || res == nil {
			return
		}
		exp, _ := expectedReply(spec.Cmds[0].Argv)
		want := normalize(exp, proto)
		got := res.Notes[0]
		switch want.T {
		case '_':
			if !strings.Contains(res.Err, "nil") {
				out.violate("C12", "stream-nil", "task %d call %d: nil reply must surface as the Nil error, got err=%q bytes=%d", task, rec.Index, res.Err, len(got))
			}
		case '-', '!':
			if !strings.HasPrefix(res.Err, "REDIS:") {
				out.violate("C12", "stream-error", "task %d call %d: error reply must surface as a RedisError, got err=%q", task, rec.Index, res.Err)
			}
		case ':':
			if got != strconv.FormatInt(want.I, 10) || res.Err != "" {
				out.violate("C12", "stream-payload", "task %d call %d: integer reply %d streamed as %q err=%q", task, rec.Index, want.I, truncStr(got, 60), res.Err)
			}
		default:
			if got != want.S || res.Err != "" {
				out.violate("C12", "stream-payload", "task %d call %d %q: streamed %d bytes, expected %d bytes (first difference at %d) err=%q", task, rec.Index, truncArgv(spec.Cmds[0].Argv), len(got), len(want.S), firstDiff(got, want.S), res.Err)
			}
		}
		out.judged("stream-compared")
		out.probe("streaming-read")
	})
	out.Nontrivial = e.sim.Stats["s2c.partial"] > 0
	_ = fakeredis.BuildShape
	_ = resp.Nil
}
