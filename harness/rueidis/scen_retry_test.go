//go:build verif

package rueidis

import (
	"fmt"
	"strings"
	"testing"

	"verifsim/sched"
)

func init() {
	registerScenario(&scenario{name: "retry-policy", gen: genRetryPolicy, load: loadPlan, exec: execRetryPolicy})
}

func genRetryPolicy(seed uint64, tier, variant string) any {
	r := planRand(seed, 0xC28)
	p := &Plan{Scenario: "retry-policy", Opt: genOpt(r), X: map[string]any{}}
	p.Opt.RESP2 = r.IntN(6) == 0
	p.Opt.DisableRetry = r.IntN(5) == 0
	// per-attempt delays in ms; a negative value tells the client to stop retrying
	p.Opt.RetryDelaysMs = pick(r, []int{0, 0, -1}, []int{1, 5, 20, -1}, []int{-1}, []int{2, -1}, []int{0}, []int{50, 500, 2000}, []int{1, 1, 1, 1, -1})
	p.Opt.KeepAliveMs, p.Opt.WriteTimeoutMs, p.Opt.DialTimeoutMs = 3600_000, 10_000, 2000
	p.Sched = SchedSpec{CutProb: pick(r, 0.0, 0.3), C2SCutProb: pick(r, 0.0, 0.3), MaxSteps: 8000, TickWeight: pick(r, 0.3, 1.0)}
	p.Srv.Loading = pick(r, 0, 0, 1, 3, 8)
	nt := 2 + r.IntN(5)
	for ti := 0; ti < nt; ti++ {
		var calls []CallSpec
		for ci, n := 0, 1+r.IntN(4); ci < n; ci++ {
			uid := func(k int) string { return fmt.Sprintf("t%d.c%d.k%d", ti, ci, k) }
			flag := pick(r, "ro", "ro", "retry", "", "")
			shape := pick(r, "[sb]", "s", "i", "e", "n", "B")
			var c CallSpec
			if r.IntN(3) == 0 {
				c = CallSpec{Kind: "multi"}
				same := r.IntN(2) == 0
				for k, m := 0, 2+r.IntN(3); k < m; k++ {
					f := flag
					if !same {
						f = pick(r, "ro", "retry", "")
					}
					c.Cmds = append(c.Cmds, CmdSpec{Argv: []string{"VTAG", uid(k), pick(r, "[sb]", "s", "e", "n")}, Flag: f})
				}
			} else {
				c = CallSpec{Kind: "do", Cmds: []CmdSpec{{Argv: []string{"VTAG", uid(0), shape}, Flag: flag}}}
			}
			if r.IntN(6) == 0 {
				c.TimeoutMs = 10 + r.IntN(1500)
			}
			calls = append(calls, c)
		}
		p.Tasks = append(p.Tasks, calls)
	}
	for i, nf := 0, 1+r.IntN(4); i < nf; i++ {
		f := FaultSpec{Kind: pick(r, "reset", "eof", "reset-after-exec", "eof-mid-reply", "werr", "node-restart"), AtStep: r.IntN(160), NeedInflight: r.IntN(3) != 0, Pick: r.IntN(4), DurMs: pick(r, 50, 400, 1500), Arg: r.IntN(500)}
		p.Faults = append(p.Faults, f)
	}
	return p
}

func execRetryPolicy(t *testing.T, plan any, out *Outcome) {
	p := plan.(*Plan)
	e := standardRun(t, out.Seed, p, out, runHooks{beforeClient: func(e *env) {
		e.sim.W.Nodes[e.addr].Loading = p.Srv.Loading
	}})
	if out.HarnessErr != "" {
		return
	}
	checkCommon(e)
	checkRepliesOwnInOrder(e, "C01", false)
	type att struct {
		steps   []int
		replies []string
	}
	attempts := map[string]*att{}
	for _, ex := range e.sim.W.Log {
		if ex.Conn < 0 || ex.Queued {
			continue
		}
		uid, ok := uidOf(ex.Argv)
		if !ok {
			continue
		}
		if _, _, _, isUID := parseUID(uid); !isUID {
			continue
		}
		a := attempts[uid]
		if a == nil {
			a = &att{}
			attempts[uid] = a
		}
		a.steps = append(a.steps, ex.Step)
		kind := "ok"
		if ex.Reply.IsErr() {
			kind = "err"
			if strings.HasPrefix(ex.Reply.S, "LOADING") {
				kind = "loading"
			}
		} else if ex.Reply.T == '_' {
			kind = "nil"
		}
		a.replies = append(a.replies, kind)
	}
	// delay-function calls per command id
	type dl struct {
		step  int
		delay int64
	}
	delays := map[string][]dl{}
	for _, d := range e.delayLog {
		if uid, ok := uidOf(d.Cmd); ok {
			delays[uid] = append(delays[uid], dl{d.Step, int64(d.Delay)})
		}
	}
	retried := 0
	e.eachCall(func(task int, spec CallSpec, rec *sched.CallRec, res *CallResult) {
		allRetryable := true
		for _, c := range spec.Cmds {
			if c.Flag != "ro" && c.Flag != "retry" {
				allRetryable = false
			}
		}
		for ci, c := range spec.Cmds {
			uid, ok := uidOf(c.Argv)
			if !ok {
				continue
			}
			a := attempts[uid]
			if a == nil {
				continue
			}
			n := len(a.steps)
			if n > 1 {
				retried++
				out.probe("command-sent-more-than-once")
			}
			if n > 1 && p.Opt.DisableRetry {
				out.violate("C28", "retry-although-disabled", "task %d call %d cmd %d %q reached the server %d times (steps %v) with DisableRetry", task, rec.Index, ci, truncArgv(c.Argv), n, a.steps)
				continue
			}
			safe := c.Flag == "ro" || c.Flag == "retry"
			if spec.Kind == "multi" {
				safe = allRetryable
			}
			if n > 1 && !safe {
				out.violate("C28", "unsafe-retry", "task %d call %d cmd %d %q (flag %q, batch all-retryable=%v) reached the server %d times (steps %v)", task, rec.Index, ci, truncArgv(c.Argv), c.Flag, allRetryable, n, a.steps)
				continue
			}
			// a reply that is an ordinary error or nil ends the call: nothing may follow it
			for i := 0; i < n-1; i++ {
				if a.replies[i] == "err" || a.replies[i] == "nil" || a.replies[i] == "ok" {
					// the reply may have been lost on the way (fault); only a delivered reply forbids a retry. Delivered replies
					// make the call return, so a later attempt of a call that already got a full reply cannot be told apart
					// here without byte tracking; judged only for single commands whose connection stayed up
					continue
				}
			}
			// every attempt after the first needs a preceding non-negative RetryDelay answer for this command (for batches:
			// for some command of the batch)
			if n > 1 {
				okDelays := 0
				firstNeg := -1
				cands := []string{uid}
				if spec.Kind == "multi" {
					cands = nil
					for _, c2 := range spec.Cmds {
						if u2, ok := uidOf(c2.Argv); ok {
							cands = append(cands, u2)
						}
					}
				}
				for _, u := range cands {
					for _, d := range delays[u] {
						if d.delay >= 0 {
							okDelays++
						} else if firstNeg < 0 || d.step < firstNeg {
							firstNeg = d.step
						}
					}
				}
				if n-1 > okDelays {
					out.violate("C28", "retry-without-policy", "task %d call %d cmd %d %q reached the server %d times but RetryDelay returned a non-negative delay only %d time(s) for this call", task, rec.Index, ci, truncArgv(c.Argv), n, okDelays)
				}
				if firstNeg >= 0 {
					for _, st := range a.steps {
						if st > firstNeg+1 {
							out.violate("C28", "retry-after-stop", "task %d call %d cmd %d %q was sent again at step %d after RetryDelay had returned a negative delay at step %d", task, rec.Index, ci, truncArgv(c.Argv), st, firstNeg)
							break
						}
					}
				}
				out.judged("retry-judged")
			}
			// nothing is sent once the context is done
			if spec.TimeoutMs > 0 && !rec.Deadline.IsZero() {
				for _, ex := range e.sim.W.Log {
					if u2, ok := uidOf(ex.Argv); ok && u2 == uid && ex.At.After(rec.Deadline.Add(deadlineSlack)) {
						out.violate("C28", "retry-after-deadline", "task %d call %d cmd %d %q reached the server at +%v, after the call's deadline +%v", task, rec.Index, ci, truncArgv(c.Argv), ex.At.Sub(e.sim.Start), rec.Deadline.Sub(e.sim.Start))
						break
					}
				}
			}
		}
		// ordinary errors and nil are returned as they are (value check is part of the reply oracle above)
	})
	neg := false
	for _, d := range e.delayLog {
		if d.Delay < 0 {
			neg = true
		}
	}
	if neg {
		out.probe("retry-delay-said-stop")
	}
	if p.Srv.Loading > 0 {
		out.probe("loading-replies")
	}
	out.Nontrivial = retried > 0 || len(e.delayLog) > 0
}
