//go:build verif

package rueidis

// helpers-single: the multi-key helpers (C31) on a single-node client. The standalone and sentinel clients take the
// same code path for them (helper.go switches on the client type), so this covers the non-cluster half of the property.
// MSet / MSetNX / JsonMSet build their command by ranging over a Go map: these runs log request lengths instead of
// request bytes and yield identities without command text (see identNoCmd).

import (
	"fmt"
	"strconv"
	"testing"

	"verifsim/sched"
)

func init() {
	registerScenario(&scenario{name: "helpers-single", gen: genHelpersSingle, load: loadPlan, exec: execHelpersSingle})
}

func genHelpersSingle(seed uint64, tier, variant string) any {
	r := planRand(seed, 0xC31)
	p := &Plan{Scenario: "helpers-single", Opt: genOpt(r), X: map[string]any{}}
	p.Opt.RESP2 = false
	p.Opt.MaxFlushDelayUs = 0
	p.Opt.DisableCache = r.IntN(4) == 0
	p.Opt.KeepAliveMs, p.Opt.WriteTimeoutMs, p.Opt.DialTimeoutMs = 3600_000, 10_000, 2000
	p.Sched = SchedSpec{CutProb: pick(r, 0.0, 0.3, 0.6), MaxSteps: 8000, TickWeight: 0.3}
	var preload [][]string
	static := []string{}
	for i := 0; i < 8; i++ {
		k := "{h}s" + strconv.Itoa(i)
		static = append(static, k)
		if r.IntN(4) != 0 {
			preload = append(preload, []string{"SET", k, "v:" + k})
		}
	}
	for i := 0; i < 4; i++ {
		k := "{h}j" + strconv.Itoa(i)
		if r.IntN(4) != 0 {
			preload = append(preload, []string{"JSON.SET", k, "$", fmt.Sprintf(`{"k":%q,"n":%d}`, k, i)})
		}
	}
	for i := 0; i < 2; i++ {
		k := "{h}nx" + strconv.Itoa(i)
		preload = append(preload, []string{"SET", k, "old:" + k})
	}
	nt := 2 + r.IntN(4)
	for ti := 0; ti < nt; ti++ {
		var calls []CallSpec
		for ci, n := 0, 2+r.IntN(5); ci < n; ci++ {
			uid := func(k int) string { return fmt.Sprintf("t%d.c%d.k%d", ti, ci, k) }
			kind := pick(r, "mget", "mget", "mgetcache", "mgetcache", "mdel", "mset", "mset", "msetnx", "jmset", "jmget", "jmgetcache")
			c := CallSpec{Kind: kind, S: uid(0), TTLMs: 60_000}
			var a []string
			switch kind {
			case "mget", "mgetcache":
				for k, m := 0, 1+r.IntN(10); k < m; k++ {
					a = append(a, static[r.IntN(len(static))])
				}
			case "jmget", "jmgetcache":
				for k, m := 0, 1+r.IntN(6); k < m; k++ {
					a = append(a, "{h}j"+strconv.Itoa(r.IntN(4)))
				}
			case "mdel":
				for k, m := 0, 1+r.IntN(6); k < m; k++ {
					key := "{h}d." + uid(k)
					a = append(a, key)
					if r.IntN(3) != 0 {
						preload = append(preload, []string{"SET", key, "v:" + key})
					}
				}
				if r.IntN(3) == 0 {
					a = append(a, a[0])
				}
			default:
				seen := map[string]bool{}
				for k, m := 0, 1+r.IntN(6); k < m; k++ {
					key := "{h}h." + uid(k)
					if kind == "msetnx" && r.IntN(4) == 0 {
						key = "{h}nx" + strconv.Itoa(r.IntN(2))
					}
					if seen[key] {
						continue
					}
					seen[key] = true
					val := "v:" + key + ":" + uid(k)
					if kind == "jmset" {
						val = fmt.Sprintf(`{"k":%q,"u":%q}`, key, uid(k))
					}
					a = append(a, key, val)
				}
			}
			c.Cmds = []CmdSpec{{Argv: a}}
			calls = append(calls, c)
		}
		p.Tasks = append(p.Tasks, calls)
	}
	pl := make([]any, 0, len(preload))
	for _, x := range preload {
		y := make([]any, len(x))
		for i, s := range x {
			y[i] = s
		}
		pl = append(pl, y)
	}
	p.X["preload"] = pl
	return p
}

func execHelpersSingle(t *testing.T, plan any, out *Outcome) {
	p := plan.(*Plan)
	var preload [][]string
	if raw, ok := p.X["preload"].([]any); ok {
		for _, x := range raw {
			var argv []string
			for _, s := range x.([]any) {
				argv = append(argv, s.(string))
			}
			preload = append(preload, argv)
		}
	}
	e := standardRun(t, out.Seed, p, out, runHooks{
		beforeClient: func(e *env) {
			e.sim.Cfg.NoPayloadHash = true
			identNoCmd.Store(true)
			for _, argv := range preload {
				e.sim.W.Ghost(e.addr, argv...)
			}
		},
		extraCall: clusterHelperCall,
	})
	if out.HarnessErr != "" {
		return
	}
	checkCommon(e)
	ce := &clusterEnv{env: e, cp: &ClusterPlan{Cl: ClSpec{Stable: true, FaultFree: true, Preload: preload}}, single: e.sim.W.Nodes[e.addr]}
	judged := 0
	e.eachCall(func(task int, spec CallSpec, rec *sched.CallRec, res *CallResult) {
		if !rec.Done || rec.Hung || res == nil {
			out.violate("C31", "call-never-returned", "task %d call %d (%s) never returned", task, rec.Index, spec.Kind)
			return
		}
		judged++
		ce.judgeHelper(task, spec, rec, res, true)
	})
	out.probe("single-node-helpers")
	out.Nontrivial = judged > 0
}

var _ = sched.TaskID
