//go:build verif

package rueidis

import (
	"context"
	"fmt"
	"strconv"
	"testing"
	"time"

	"verifsim/sched"
)

func init() {
	registerScenario(&scenario{name: "pool-system", gen: genPoolSystem, load: loadPlan, exec: execPoolSystem})
}

func genPoolSystem(seed uint64, tier, variant string) any {
	r := planRand(seed, 0xC242)
	p := &Plan{Scenario: "pool-system", Opt: genOpt(r), X: map[string]any{}}
	p.Opt.RESP2 = false
	p.Opt.Multiplex = -1
	p.Opt.PoolSize = pick(r, 1, 1, 2, 3)
	p.Opt.PoolCleanupMs = pick(r, 0, 0, 200)
	p.Opt.KeepAliveMs, p.Opt.WriteTimeoutMs, p.Opt.DialTimeoutMs = 3600_000, 10_000, 2000
	p.Opt.DisableRetry = r.IntN(2) == 0
	p.Opt.NoAutoPipelining = r.IntN(5) == 0
	p.Sched = SchedSpec{CutProb: pick(r, 0.0, 0.4), MaxSteps: 8000, TickWeight: 0.3}
	nt := 2 + r.IntN(5)
	for ti := 0; ti < nt; ti++ {
		var calls []CallSpec
		for ci, n := 0, 1+r.IntN(4); ci < n; ci++ {
			uid := func(k int) string { return fmt.Sprintf("t%d.c%d.k%d", ti, ci, k) }
			var c CallSpec
			switch x := r.IntN(100); {
			case x < 30:
				c = CallSpec{Kind: "do", Cmds: []CmdSpec{{Argv: []string{"BLPOP", "bl" + strconv.Itoa(r.IntN(2)), pick(r, "0.05", "0.3", "2")}, Keys: 1, Flag: "block"}}}
			case x < 50:
				c = CallSpec{Kind: "stream", Cmds: []CmdSpec{{Argv: []string{"VTAG", uid(0), pick(r, "s", "b", "i", "n", "e"), strconv.Itoa(pick(r, 0, 50, 3000))}}}}
			case x < 75:
				c = CallSpec{Kind: "mstream"}
				for k, m := 0, 2+r.IntN(3); k < m; k++ {
					c.Cmds = append(c.Cmds, CmdSpec{Argv: []string{"VTAG", uid(k), pick(r, "s", "b", "i"), strconv.Itoa(pick(r, 0, 50, 3000))}})
				}
			case x < 90:
				c = CallSpec{Kind: "dedicated"}
				for k, m := 0, 1+r.IntN(3); k < m; k++ {
					c.Cmds = append(c.Cmds, CmdSpec{Argv: []string{"VTAG", uid(k), "[sb]"}})
				}
			default:
				c = CallSpec{Kind: "do", Cmds: []CmdSpec{{Argv: []string{"VTAG", uid(0), "[sb]"}}}}
			}
			switch y := r.IntN(100); {
			case y < 12:
				c.TimeoutMs = 20 + r.IntN(800)
			case y < 20 && c.Kind == "do":
				c.Cancel, c.CancelAfter = true, r.IntN(8)
			}
			calls = append(calls, c)
		}
		p.Tasks = append(p.Tasks, calls)
	}
	for i, ng := 0, r.IntN(4); i < ng; i++ {
		p.Ghosts = append(p.Ghosts, GhostSpec{Kind: "cmd", Argv: []string{"RPUSH", "bl" + strconv.Itoa(r.IntN(2)), "e" + strconv.Itoa(i)}, MinStep: r.IntN(120)})
	}
	if variant != "nofault" {
		for i, nf := 0, r.IntN(3); i < nf; i++ {
			p.Faults = append(p.Faults, FaultSpec{Kind: pick(r, "eof-mid-reply", "reset", "eof", "reset-after-exec", "werr"), AtStep: r.IntN(140), NeedInflight: true, Pick: r.IntN(5), Arg: r.IntN(4000)})
		}
	}
	return p
}

func poolsOf(cl Client) []*pool {
	var out []*pool
	for _, m := range muxOf(cl) {
		out = append(out, m.dpool, m.spool)
	}
	return out
}

func execPoolSystem(t *testing.T, plan any, out *Outcome) {
	p := plan.(*Plan)
	maxOpen := 0
	var probes []*sched.CallRec
	var probeKinds []string
	leak := ""
	e := standardRun(t, out.Seed, p, out, runHooks{
		beforeClient: func(e *env) {
			e.sim.OnStep = func(s *sched.Sim) error {
				open := 0
				for _, l := range s.Links {
					if !l.C.ClientClosed() {
						open++
					}
				}
				if open > maxOpen {
					maxOpen = open
				}
				return nil
			}
		},
		afterMain: func(e *env) {
			s := e.sim
			s.Heal()
			// after healing every path through the pools must still be usable: as many sequential calls of each kind as
			// there are slots plus one
			n := 2*p.Opt.PoolSize + 2
			var calls []sched.Call
			for i := 0; i < n; i++ {
				var spec CallSpec
				switch i % 3 {
				case 0:
					spec = CallSpec{Kind: "do", Cmds: []CmdSpec{{Argv: []string{"BLPOP", "nokey", "0.05"}, Keys: 1, Flag: "block"}}}
				case 1:
					spec = CallSpec{Kind: "mstream", Cmds: []CmdSpec{{Argv: []string{"VTAG", fmt.Sprintf("probe.%d.0", i), "s"}}, {Argv: []string{"VTAG", fmt.Sprintf("probe.%d.1", i), "b"}}}}
				default:
					spec = CallSpec{Kind: "dedicated", Cmds: []CmdSpec{{Argv: []string{"VTAG", fmt.Sprintf("probe.%d.0", i), "[sb]"}}}}
				}
				probeKinds = append(probeKinds, spec.Kind)
				calls = append(calls, sched.Call{Name: "probe", Timeout: 20 * time.Second, Run: func(ctx context.Context, rec *sched.CallRec) any {
					nameGoroutine(sched.TaskID(ctx))
					return e.execCall(e.clients[0], spec, ctx, rec)
				}})
			}
			// repeat the whole round: a dead idle connection may be burnt per slot in the first round
			calls = append(calls, calls...)
			probeKinds = append(probeKinds, probeKinds...)
			pt := s.AddTask("probe", calls)
			s.Cfg.MaxSteps = s.Step + 6000
			s.Cfg.DrainBound = 3 * time.Minute
			s.Run(func() bool { return pt.Remaining() == 0 && pt.Running() == nil })
			probes = pt.Recs
			if pt.Running() != nil {
				pt.Running().Hung = true
			}
			// nobody is using the client now: every slot must be idle or free
			time.Sleep(2 * time.Second)
			for pi, pl := range poolsOf(e.clients[0]) {
				if pl.size != len(pl.list) {
					name := []string{"blocking pool", "streaming pool"}[pi%2]
					leak = fmt.Sprintf("%s: %d connection slot(s) are accounted as in use although no call is running (size=%d, idle=%d, BlockingPoolSize=%d)", name, pl.size-len(pl.list), pl.size, len(pl.list), pl.cap)
				}
			}
		},
	})
	if out.HarnessErr != "" {
		return
	}
	checkCommon(e)
	checkRepliesOwnInOrder(e, "C01", false)
	bound := 1 + 2*p.Opt.PoolSize // one pipelining wire + the two pools
	if p.Opt.RESP2 {
		bound++
	}
	if maxOpen > bound {
		out.violate("C24", "too-many-connections", "%d connections were open at once; one pipelining wire and two pools of BlockingPoolSize=%d allow %d", maxOpen, p.Opt.PoolSize, bound)
	}
	if leak != "" {
		out.violate("C24", "slot-leaked", "%s", leak)
	}
	half := len(probes) / 2
	for i, rec := range probes {
		res, _ := rec.Result.(*CallResult)
		if !rec.Done || rec.Hung || res == nil {
			out.violate("C24", "pool-exhausted-forever", "after all faults were healed and all calls had returned, probe call %d (%s) could not get a connection (never returned)", i, probeKinds[i])
			break
		}
		if i >= half {
			bad := res.Err != "" && res.ErrK != ""
			for _, r := range res.Res {
				if r.ErrKind == "ctx-deadline" || r.ErrKind == "net" || r.ErrKind == "closing" {
					bad = true
				}
			}
			if bad {
				out.violate("C24", "pool-unusable", "second-round probe call %d (%s) failed: %v %v", i, probeKinds[i], res.Err, res.Res)
				break
			}
		}
	}
	fired := 0
	for _, f := range e.sim.Faults {
		if f.FiredStep > 0 {
			fired++
		}
	}
	if fired > 0 {
		out.probe("fault-fired")
	}
	out.probe("pool-probes-ran")
	out.Nontrivial = len(p.Tasks) > p.Opt.PoolSize
}
