//go:build verif

package rueidis

import (
	"fmt"
	"strings"
	"time"

	"verifsim/sched"
)

// judgeFrontEndRetries applies the attempt-log rules of C03 and C28 to a run of any client front-end (sentinel,
// standalone): the retry loops of those front-ends are their own code on top of the shared pipe/mux layer.
//
// From the model's log, per command id: "arrivals" = times a node received it, "executions" = arrivals that were not
// answered with an error. C03: a command that is neither read-only nor marked retryable is executed at most once.
// C28: a command is sent again after a non-redirect answer only if it is read-only or retryable (for a batch: all of
// them) and never with DisableRetry. Redirect answers (REDIRECT, MOVED, ASK) prove that nothing ran and are not retries.
func judgeFrontEndRetries(e *env, frontEnd string) {
	out := e.out
	type arr struct {
		redirect bool
		isErr    bool
		node     string
		step     int
	}
	arrivals := map[string][]arr{}
	for _, ex := range e.sim.W.Log {
		if ex.Conn < 0 || ex.InExec {
			continue
		}
		uid, ok := uidOf(ex.Argv)
		if !ok {
			continue
		}
		if _, _, _, isUID := parseUID(uid); !isUID {
			continue
		}
		a := arr{isErr: ex.Reply.IsErr(), node: ex.Node, step: ex.Step}
		if ex.Reply.IsErr() {
			f := strings.Fields(ex.Reply.S)
			a.redirect = len(f) > 0 && (f[0] == "MOVED" || f[0] == "ASK" || f[0] == "REDIRECT")
		}
		arrivals[uid] = append(arrivals[uid], a)
	}
	e.eachCall(func(task int, spec CallSpec, rec *sched.CallRec, res *CallResult) {
		switch spec.Kind {
		case "do", "multi":
		default:
			return
		}
		allRetryable := true
		batchRedirected := false
		for _, c := range spec.Cmds {
			if c.Flag != "ro" && c.Flag != "retry" {
				allRetryable = false
			}
			if uid, ok := uidOf(c.Argv); ok {
				for _, a := range arrivals[uid] {
					if a.redirect {
						// a batch is sent on as a whole when one of its members is answered with a redirect: the members
						// that had been served are sent again by that, which is not a retry
						batchRedirected = spec.Kind == "multi"
					}
				}
			}
		}
		for ci, c := range spec.Cmds {
			uid, ok := uidOf(c.Argv)
			if !ok {
				continue
			}
			as := arrivals[uid]
			executions, resends := 0, 0
			for i, a := range as {
				if !a.isErr {
					executions++
				}
				if i > 0 && !as[i-1].redirect {
					resends++
				}
			}
			retryable := c.Flag == "ro" || c.Flag == "retry"
			if !retryable {
				if executions > 1 {
					out.violate("C03", "executed-twice", "%s client: task %d call %d cmd %d %q, neither read-only nor retryable, was executed %d times (arrivals at steps %v)", frontEnd, task, rec.Index, ci, truncArgv(c.Argv), executions, stepsOf(as, func(a arr) int { return a.step }))
				} else if len(as) > 0 {
					out.judged("C03:write-at-most-once")
				}
			}
			if resends > 0 && batchRedirected {
				out.notJudged("C28:re-sent-with-a-redirected-batch")
			} else if resends > 0 {
				out.probe("front-end-re-sent-a-command")
				safe := retryable
				if spec.Kind == "multi" {
					safe = allRetryable
				}
				switch {
				case e.plan.Opt.DisableRetry:
					out.violate("C28", "retry-although-disabled", "%s client: task %d call %d cmd %d %q was sent again %d time(s) after a non-redirect answer with DisableRetry", frontEnd, task, rec.Index, ci, truncArgv(c.Argv), resends)
				case !safe:
					out.violate("C28", "unsafe-retry", "%s client: task %d call %d cmd %d %q (flag %q, batch all-retryable=%v) was sent again %d time(s) after a non-redirect answer", frontEnd, task, rec.Index, ci, truncArgv(c.Argv), c.Flag, allRetryable, resends)
				default:
					out.judged("C28:retry-was-safe")
				}
			}
		}
	})
}

func stepsOf[T any](xs []T, f func(T) int) []int {
	out := make([]int, 0, len(xs))
	for _, x := range xs {
		out = append(out, f(x))
	}
	return out
}

// judgeLifetimeRecovery is the C03 oracle for plans with ConnLifetime (any front-end). A connection that reaches its
// lifetime is closed by the client; calls still outstanding on it fail internally with errConnExpired and the front-end
// sends them again. That re-send executes an unanswered write a second time - the known finding of C03 (DESIGN.md
// 15.4) - and is reported under its rule (executed-twice-after-lifetime-expiry). What the known finding does not cover:
// a write whose reply the client had already read from the connection is executed again. That is only judged with
// AlwaysPipelining: on the synchronous path a batch that fails midway loses all its replies (pipe.syncDoMulti
// overwrites every result with the error), so there the client cannot tell answered commands from outstanding ones.
func judgeLifetimeRecovery(e *env, frontEnd string) {
	out := e.out
	lt := time.Duration(e.plan.Opt.ConnLifetimeMs) * time.Millisecond
	type execAt struct {
		conn, step int
		answered   bool // the whole reply frame had been read by the client from the connection
		expired    bool // the connection ended at or after its lifetime
		closedStep int  // step in which the client closed that connection (-1: it did not)
		acceptStep int  // step in which that connection was opened
	}
	frameEnd := map[[2]int]int{}
	for _, l := range e.sim.Links {
		off := 0
		for _, f := range l.S.OutLog {
			off += f.Bytes
			if !f.Push {
				frameEnd[[2]int{l.ID, f.ConnSeq}] = off
			}
		}
	}
	execs := map[string][]execAt{}
	for _, ex := range e.sim.W.Log {
		if ex.Conn < 0 || ex.Queued || len(ex.Argv) < 3 || ex.Argv[0] != "VWTAG" || ex.Reply.IsErr() {
			continue
		}
		l := e.sim.LinkOf(ex.Conn)
		if l == nil {
			continue
		}
		x := execAt{conn: ex.Conn, step: ex.Step, closedStep: l.C.ClientClosedStep(), acceptStep: l.AcceptStep}
		nread, _, _, _, _ := l.C.Stats()
		if end, ok := frameEnd[[2]int{ex.Conn, ex.ConnSeq}]; ok && end <= nread {
			x.answered = true
		}
		x.expired = lt > 0 && !l.EndedAt.IsZero() && l.EndedAt.Sub(l.AcceptedAt) >= lt
		execs[ex.Argv[2]] = append(execs[ex.Argv[2]], x)
	}
	e.eachCall(func(task int, spec CallSpec, rec *sched.CallRec, res *CallResult) {
		if spec.Kind != "do" && spec.Kind != "multi" {
			return
		}
		for ci, c := range spec.Cmds {
			if c.Argv[0] != "VWTAG" || len(c.Argv) < 3 || c.Flag == "retry" {
				continue
			}
			xs := execs[c.Argv[2]]
			if len(xs) < 2 {
				if len(xs) == 1 {
					out.judged("C03:write-at-most-once")
				}
				continue
			}
			rule, how := "executed-twice", "after a transport failure or client-side retry"
			for i, x := range xs {
				if x.expired {
					rule, how = "executed-twice-after-lifetime-expiry", fmt.Sprintf("after connection %d ended at or after ConnLifetime (%v) with the reply outstanding", x.conn, lt)
				}
				if x.answered && x.closedStep >= 0 && (e.plan.Opt.AlwaysPipelining || spec.Kind == "do") {
					// sent again AFTER the answer had been read: the other execution arrived on a connection that was
					// opened after the client had closed this one (a command that was written first and delivered late -
					// bytes written before a close still reach the server - is the original, not a re-send)
					for j, y := range xs {
						if j != i && y.acceptStep > x.closedStep {
							rule, how = "answered-write-executed-again", fmt.Sprintf("although the client had read the reply of the execution on connection %d before it closed that connection (step %d) and opened connection %d (step %d)", x.conn, x.closedStep, y.conn, y.acceptStep)
						}
					}
					if rule == "answered-write-executed-again" {
						break
					}
				}
			}
			out.violate("C03", rule, "%s client: task %d call %d cmd %d %q (%s of %d commands), neither read-only nor retryable, was executed %d times (%+v) %s", frontEnd, task, rec.Index, ci, truncArgv(c.Argv), spec.Kind, len(spec.Cmds), len(xs), xs, how)
		}
	})
	out.probe("conn-lifetime-configured")
	expired := 0
	for _, l := range e.sim.Links {
		if lt > 0 && !l.EndedAt.IsZero() && l.EndedAt.Sub(l.AcceptedAt) >= lt {
			expired++
		}
	}
	if expired > 0 {
		out.probe("connection-reached-its-lifetime")
	}
}
