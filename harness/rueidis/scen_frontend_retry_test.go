//go:build verif

package rueidis

import (
	"strings"

	"verifsim/sched"
)

// judgeFrontEndRetries applies the attempt-log rules of C03 and C28 to a run of any client front-end (sentinel,
// standalone): the retry loops of those front-ends are their own code on top of the shared pipe/mux layer.
//
// From the model's log, per command id: "arrivals" = times a node received it, "executions" = arrivals that were not
// answered with an error. C03: a command that is neither read-only nor marked retryable is executed at most once.
// C28: a command is sent again after a non-redirect answer only if it is read-only or retryable (for a batch: all of
// them) and never with DisableRetry. Redirect answers (REDIRECT, MOVED, ASK) prove that nothing ran and are not retries.
func judgeFrontEndRetries(e *env, frontEnd string) {
	out := e.out
	type arr struct {
		redirect bool
		isErr    bool
		node     string
		step     int
	}
	arrivals := map[string][]arr{}
	for _, ex := range e.sim.W.Log {
		if ex.Conn < 0 || ex.InExec {
			continue
		}
		uid, ok := uidOf(ex.Argv)
		if !ok {
			continue
		}
		if _, _, _, isUID := parseUID(uid); !isUID {
			continue
		}
		a := arr{isErr: ex.Reply.IsErr(), node: ex.Node, step: ex.Step}
		if ex.Reply.IsErr() {
			f := strings.Fields(ex.Reply.S)
			a.redirect = len(f) > 0 && (f[0] == "MOVED" || f[0] == "ASK" || f[0] == "REDIRECT")
		}
		arrivals[uid] = append(arrivals[uid], a)
	}
	e.eachCall(func(task int, spec CallSpec, rec *sched.CallRec, res *CallResult) {
		switch spec.Kind {
		case "do", "multi":
		default:
			return
		}
		allRetryable := true
		for _, c := range spec.Cmds {
			if c.Flag != "ro" && c.Flag != "retry" {
				allRetryable = false
			}
		}
		for ci, c := range spec.Cmds {
			uid, ok := uidOf(c.Argv)
			if !ok {
				continue
			}
			as := arrivals[uid]
			executions, resends := 0, 0
			for i, a := range as {
				if !a.isErr {
					executions++
				}
				if i > 0 && !as[i-1].redirect {
					resends++
				}
			}
			retryable := c.Flag == "ro" || c.Flag == "retry"
			if !retryable {
				if executions > 1 {
					out.violate("C03", "executed-twice", "%s client: task %d call %d cmd %d %q, neither read-only nor retryable, was executed %d times (arrivals at steps %v)", frontEnd, task, rec.Index, ci, truncArgv(c.Argv), executions, stepsOf(as, func(a arr) int { return a.step }))
				} else if len(as) > 0 {
					out.judged("C03:write-at-most-once")
				}
			}
			if resends > 0 {
				out.probe("front-end-re-sent-a-command")
				safe := retryable
				if spec.Kind == "multi" {
					safe = allRetryable
				}
				switch {
				case e.plan.Opt.DisableRetry:
					out.violate("C28", "retry-although-disabled", "%s client: task %d call %d cmd %d %q was sent again %d time(s) after a non-redirect answer with DisableRetry", frontEnd, task, rec.Index, ci, truncArgv(c.Argv), resends)
				case !safe:
					out.violate("C28", "unsafe-retry", "%s client: task %d call %d cmd %d %q (flag %q, batch all-retryable=%v) was sent again %d time(s) after a non-redirect answer", frontEnd, task, rec.Index, ci, truncArgv(c.Argv), c.Flag, allRetryable, resends)
				default:
					out.judged("C28:retry-was-safe")
				}
			}
		}
	})
}

func stepsOf[T any](xs []T, f func(T) int) []int {
	out := make([]int, 0, len(xs))
	for _, x := range xs {
		out = append(out, f(x))
	}
	return out
}
