//go:build verif

package rueidis

import (
	"fmt"
	"strconv"
	"testing"

	"verifsim/sched"
)

// standalone-redirect: a standalone client with Standalone.EnableRedirect (CLIENT CAPA redirect). Its primary is
// demoted in favour of its replica while the workload runs: writes are then answered with -REDIRECT and the client
// replaces its primary connection. Connection faults strike before and after that switch. Oracle: the attempt-log
// rules of C03 / C28 (judgeFrontEndRetries) - in particular DisableRetry also holds for the client that was built for
// the redirect target.

func init() {
	registerScenario(&scenario{name: "standalone-redirect", gen: genSARedirect, load: loadPlan, exec: execSARedirect})
}

const (
	sarA = "10.3.0.1:6379"
	sarB = "10.3.0.2:6379"
)

func genSARedirect(seed uint64, tier, variant string) any {
	r := planRand(seed, 0xC28D)
	p := &Plan{Scenario: "standalone-redirect", X: map[string]any{}}
	p.Opt = OptSpec{
		Queue: pick(r, "ring", "ring", "flow"), Multiplex: -1, Procs: 16,
		AlwaysPipelining: r.IntN(3) == 0,
		DisableRetry:     r.IntN(2) == 0,
		RetryDelaysMs:    pick(r, []int{0, 0, -1}, []int{1, 5, -1}),
		DisableCache:     r.IntN(2) == 0,
		KeepAliveMs:      3600_000, WriteTimeoutMs: 10_000, DialTimeoutMs: 2000,
		PoolSize: 1,
	}
	p.Sched = SchedSpec{CutProb: pick(r, 0.0, 0.3), MaxSteps: 6000, TickWeight: pick(r, 0.2, 0.5)}
	nt := 2 + r.IntN(3)
	for ti := 0; ti < nt; ti++ {
		var calls []CallSpec
		for ci, n := 0, 3+r.IntN(6); ci < n; ci++ {
			uid := func(k int) string { return fmt.Sprintf("t%d.c%d.k%d", ti, ci, k) }
			rd := func(k int) CmdSpec { return CmdSpec{Argv: []string{"VTAG", uid(k), "s"}, Flag: "ro"} }
			wr := func(k int) CmdSpec {
				return CmdSpec{Argv: []string{"VWTAG", "w" + strconv.Itoa(r.IntN(3)), uid(k)}, Keys: 1}
			}
			var c CallSpec
			switch x := r.IntN(10); {
			case x < 4:
				c = CallSpec{Kind: "do", Cmds: []CmdSpec{rd(0)}}
			case x < 6:
				c = CallSpec{Kind: "do", Cmds: []CmdSpec{wr(0)}}
			case x < 8:
				c = CallSpec{Kind: "multi"}
				for k, m := 0, 2+r.IntN(3); k < m; k++ {
					c.Cmds = append(c.Cmds, rd(k))
				}
			case x < 9 && !p.Opt.DisableCache:
				c = CallSpec{Kind: "cache", TTLMs: 60_000, Cmds: []CmdSpec{{Argv: []string{"VKTAG", "ck" + strconv.Itoa(r.IntN(2)), uid(0), "s"}, Keys: 1, Flag: "ro"}}}
			default:
				c = CallSpec{Kind: "multi", Cmds: []CmdSpec{rd(0), wr(1)}}
			}
			calls = append(calls, c)
		}
		p.Tasks = append(p.Tasks, calls)
	}
	p.Ghosts = append(p.Ghosts, GhostSpec{Kind: "failover", MinStep: 5 + r.IntN(60)})
	for i, n := 0, 1+r.IntN(4); i < n; i++ {
		p.Faults = append(p.Faults, FaultSpec{Kind: pick(r, "reset", "eof", "reset-after-exec"), AtStep: r.IntN(250), NeedInflight: true, Pick: r.IntN(4)})
	}
	return p
}

func execSARedirect(t *testing.T, plan any, out *Outcome) {
	p := plan.(*Plan)
	e := standardRun(t, out.Seed, p, out, runHooks{
		noDefaultNode: true,
		beforeClient: func(e *env) {
			muxRegReset(16)
			richIdent.Store(true)
			e.sim.W.AddNode(sarA)
			e.sim.W.AddReplica(sarB, sarA)
		},
		newClient: func(e *env, i int) (Client, error) {
			opt := e.clientOption()
			opt.ForceSingleClient = false
			opt.InitAddress = []string{sarA}
			opt.Standalone.EnableRedirect = true
			return NewClient(opt)
		},
		ghost: func(e *env, g GhostSpec) func(*sched.Sim) {
			if g.Kind != "failover" {
				return nil
			}
			return func(s *sched.Sim) {
				s.W.Promote(sarB)
				s.W.Demote(sarA, sarB)
				s.Stats["env.failover"]++
			}
		},
	})
	if out.HarnessErr != "" {
		return
	}
	out.Config = fmt.Sprintf("q=%s,ap=%v,retry=%v,flt=%d", p.Opt.Queue, p.Opt.AlwaysPipelining, !p.Opt.DisableRetry, len(p.Faults))
	checkCommon(e)
	judgeFrontEndRetries(e, "standalone with EnableRedirect")
	redirects, onB := 0, 0
	for _, ex := range e.sim.W.Log {
		if ex.Conn < 0 {
			continue
		}
		if ex.Reply.IsErr() && len(ex.Reply.S) > 8 && ex.Reply.S[:8] == "REDIRECT" {
			redirects++
		}
		if _, ok := uidOf(ex.Argv); ok && ex.Node == sarB {
			onB++
		}
	}
	if redirects > 0 {
		out.probe("redirect-reply-sent")
	}
	if onB > 0 {
		out.probe("traffic-on-redirect-target")
	}
	fired := 0
	for _, f := range e.sim.Faults {
		if f.FiredStep > 0 {
			fired++
		}
	}
	if fired > 0 {
		out.probe("fault-fired")
	}
	out.Nontrivial = onB > 0
}
