//go:build verif

package rueidis

// Cluster front-end scenarios (clusterClient): C19 routing/redirects/topology parsing, C20 batches and transactions,
// C21 replica routing (cluster part), C31 multi-key helpers on a cluster, and the cluster clauses of C03/C28.
//
// The model is verifsim/fakeredis.Cluster: every node answers CLUSTER SLOTS / CLUSTER SHARDS from its own (possibly
// frozen, stale) view and redirects with MOVED / ASK / TRYAGAIN / CLUSTERDOWN exactly as Redis 7.2 does. All nodes
// share one host and differ by port, so that the client's fallback for endpoint-less entries (host of the answering
// node + listed port) is always a real address.
//
// Determinism (DESIGN.md 3.2): keyed commands only (slot-less commands are routed by Go map order); at most four
// nodes, or PreferInitAddressRefresh (the refresh candidates then come from the ordered InitAddress list, shuffled by
// the per-run seeded math/rand source); replica choices are pure functions supplied by the plan, or the seeded
// util.FastRand seam in "same value within a scheduler step" mode.

import (
	"context"
	"encoding/json"
	"fmt"
	"math/rand/v2"
	"sort"
	"strconv"
	"strings"
	"sync"
	"testing"
	"time"

	"verifsim/fakeredis"
	"verifsim/resp"
	"verifsim/sched"
)

type ClShard struct {
	Master   string   `json:"master"`
	Replicas []string `json:"replicas,omitempty"`
	Ranges   [][2]int `json:"ranges"`
}

type ClNodeOpt struct {
	Endpoint string `json:"endpoint,omitempty"` // "", "empty", "null", "?"
	Health   string `json:"health,omitempty"`   // "", "fail", "loading", arbitrary
	Version  string `json:"version,omitempty"`
}

type ClSpec struct {
	Shards     []ClShard            `json:"shards"`
	Init       []string             `json:"init"`
	PreferInit bool                 `json:"prefer_init,omitempty"`
	RefreshMs  int                  `json:"refresh_ms,omitempty"`
	MaxMoved   int                  `json:"max_moved,omitempty"`
	ToReplicas string               `json:"to_replicas,omitempty"` // "", "ro", "marker"
	ReplicaOnly bool                `json:"replica_only,omitempty"`
	Selector   string               `json:"selector,omitempty"` // "", "rs:<mode>", "rn:<mode>"; mode: 0 | last | mod | oob | neg
	Nodes      map[string]ClNodeOpt `json:"nodes,omitempty"`
	Stable     bool                 `json:"stable,omitempty"`    // no topology change, all views consistent
	FaultFree  bool                 `json:"fault_free,omitempty"` // no connection faults
	Preload    [][]string           `json:"preload,omitempty"`   // ghost commands executed at the key's owner before the client exists
	// Cancel: batches are abandoned (cancelled at a seeded step) while their commands are still queued behind a
	// bounded socket send buffer; the caller goes on building new commands at once (C33)
	MapOrder bool `json:"map_order,omitempty"` // the plan has helper calls that send a batch in Go map order
	Cancel  bool `json:"cancel,omitempty"`
	SendBuf int  `json:"send_buf,omitempty"`
}

type ClusterPlan struct {
	Plan
	Cl ClSpec `json:"cl"`
}

func init() {
	registerScenario(&scenario{name: "cluster", gen: genCluster, load: func(b []byte) (any, error) {
		p := &ClusterPlan{}
		return p, json.Unmarshal(b, p)
	}, exec: execCluster})
}

// ---- slot vocabulary ----

var (
	slotTagOnce sync.Once
	slotTag     [16384]string
)

// tagForSlot returns a short hash tag whose CRC16 slot is slot.
func tagForSlot(slot int) string {
	slotTagOnce.Do(func() {
		left := 16384
		for i := 0; left > 0; i++ {
			t := "x" + strconv.Itoa(i)
			s := fakeredis.KeySlot(t)
			if slotTag[s] == "" {
				slotTag[s] = t
				left--
			}
		}
	})
	return slotTag[slot]
}

func clAddr(i int) string { return fmt.Sprintf("10.0.0.1:%d", 7001+i) }

// ---- plan generation ----

func genCluster(seed uint64, tier, variant string) any {
	r := planRand(seed, 0xC19)
	p := &ClusterPlan{}
	p.Scenario = "cluster"
	p.Opt = genOpt(r)
	p.Opt.RESP2 = false
	p.Opt.KeepAliveMs, p.Opt.WriteTimeoutMs, p.Opt.DialTimeoutMs = 3600_000, 10_000, 2000
	p.Opt.Multiplex = pick(r, -1, -1, 1)
	p.Opt.PoolSize = 2
	// determinism (each found by the self-test, see DESIGN.md 15.2): no MaxFlushDelay (the writer's decision to wait reads
	// a counter other goroutines change while the pipe switches to its background writer); queues of at least 16 slots
	// (a full queue makes the clean-up loop of a dead pipe, its writer and the putters contend for slot locks)
	p.Opt.MaxFlushDelayUs = 0
	if p.Opt.RingScale < 4 {
		p.Opt.RingScale = 4
	}
	p.X = map[string]any{}
	cl := &p.Cl
	mode := variant
	if mode == "" {
		mode = pick(r, "stable", "stable", "change", "change", "faults")
	}
	askpair := mode == "askpair"
	if askpair {
		mode = "change"
	}
	gapfill := mode == "gapfill"
	if gapfill {
		mode = "change"
	}
	cl.Stable = mode == "stable" || mode == "replicas" || mode == "helpers" || mode == "helpers2" || mode == "cancel" || mode == "dedicated" || mode == "lifetime"
	cl.MapOrder = mode == "helpers2"
	cl.FaultFree = mode != "faults" && mode != "lifetime"
	cl.Cancel = mode == "cancel"
	// topology: 2-4 shards, 0-2 replicas each
	nsh := 2 + r.IntN(3)
	total := 0
	for i := 0; i < nsh; i++ {
		sh := ClShard{Master: clAddr(total)}
		total++
		nrep := pick(r, 0, 0, 1, 1, 2)
		if mode == "replicas" {
			nrep = 1 + r.IntN(2)
		}
		for j := 0; j < nrep; j++ {
			sh.Replicas = append(sh.Replicas, clAddr(total))
			total++
		}
		cl.Shards = append(cl.Shards, sh)
	}
	// slot ranges: random cut points (edges and single-slot ranges included); optionally a gap nobody serves and a
	// second range for the first shard
	ncuts := nsh - 1
	extra := r.IntN(3) // extra pieces distributed round robin
	cuts := map[int]bool{}
	for len(cuts) < ncuts+extra {
		c := pick(r, 1+r.IntN(16383), 1+r.IntN(16383), 1, 16383, 8192)
		cuts[c] = true
	}
	var cs []int
	for c := range cuts {
		cs = append(cs, c)
	}
	sort.Ints(cs)
	start := 0
	piece := 0
	gap := r.IntN(4) == 0 || gapfill
	gapSlot := -1
	for i := 0; i <= len(cs); i++ {
		end := 16383
		if i < len(cs) {
			end = cs[i] - 1
		}
		if gap && piece == 1 && end-start >= 2 {
			// leave [start, start] unserved
			gapSlot = start
			start++
			gap = false
		}
		sh := &cl.Shards[piece%nsh]
		sh.Ranges = append(sh.Ranges, [2]int{start, end})
		start = end + 1
		piece++
	}
	// node presentation
	cl.Nodes = map[string]ClNodeOpt{}
	ver := pick(r, "7.2.4", "7.2.4", "8.0.0", "6.2.7")
	for _, sh := range cl.Shards {
		for _, a := range append([]string{sh.Master}, sh.Replicas...) {
			o := ClNodeOpt{Version: ver}
			if cl.Stable && a != sh.Master && r.IntN(5) == 0 {
				o.Endpoint = pick(r, "?", "empty", "null")
			}
			if cl.Stable && a != sh.Master && r.IntN(6) == 0 {
				o.Health = pick(r, "fail", "loading")
			}
			// a primary that is listed and named in redirects without a host ("MOVED 3999 :7004"): the client must use
			// the endpoint of the node that answered (defect repaired, see DESIGN.md 15.4)
			if a == sh.Master && r.IntN(6) == 0 {
				o.Endpoint = pick(r, "empty", "null")
			}
			cl.Nodes[a] = o
		}
	}
	// one whole shard may be unlisted (master with unknown endpoint): its slots must stay unmapped
	if cl.Stable && nsh >= 3 && r.IntN(6) == 0 {
		m := cl.Shards[nsh-1].Master
		o := cl.Nodes[m]
		o.Endpoint = "?"
		cl.Nodes[m] = o
	}
	// client options
	if total > 4 || r.IntN(3) == 0 {
		cl.PreferInit = true
	}
	ninit := 1 + r.IntN(minInt(3, total))
	perm := r.Perm(total)
	for i := 0; i < ninit; i++ {
		a := clAddr(perm[i])
		if cl.Nodes[a].Endpoint == "?" {
			continue
		}
		cl.Init = append(cl.Init, a)
	}
	if len(cl.Init) == 0 {
		cl.Init = []string{cl.Shards[0].Master}
	}
	if !cl.PreferInit && total > 4 {
		cl.PreferInit = true
	}
	if r.IntN(3) == 0 {
		cl.RefreshMs = pick(r, 200, 1000, 5000)
	}
	if mode == "change" || mode == "faults" {
		cl.MaxMoved = pick(r, 0, 0, 1, 2, 3)
	}
	switch pick(r, 0, 0, 1, 2, 3) {
	case 1:
		cl.ToReplicas = "ro"
	case 2:
		cl.ToReplicas = "marker"
	case 3:
		cl.ReplicaOnly = true
	}
	if mode == "replicas" {
		switch r.IntN(4) {
		case 0:
			cl.ToReplicas, cl.ReplicaOnly = "ro", false
		case 1:
			cl.ToReplicas, cl.ReplicaOnly = "marker", false
		case 2:
			cl.ToReplicas, cl.ReplicaOnly = "", true
		default:
			cl.ToReplicas, cl.ReplicaOnly = "ro", false
		}
	}
	if cl.ToReplicas != "" {
		cl.Selector = pick(r, "", "rs:0", "rs:last", "rs:mod", "rs:oob", "rs:neg", "rn:0", "rn:last", "rn:mod", "rn:oob", "rn:neg", "rn:alt", "rn:alt")
	}
	p.Opt.DisableRetry = r.IntN(6) == 0
	if r.IntN(2) == 0 {
		p.Opt.RetryDelaysMs = pick(r, []int{0, 0, -1}, []int{1, 5, 20, -1}, []int{-1}, []int{2, -1}, []int{0}, []int{50, 500}, []int{1, 1, 1, 1, -1})
	}
	p.Sched = SchedSpec{CutProb: pick(r, 0.0, 0.3, 0.6), MaxSteps: 12000, TickWeight: pick(r, 0.2, 0.5)}

	// keys: a vocabulary of hash tags placed on interesting slots (range edges, middles) of mapped shards
	type kslot struct {
		slot  int
		shard int
	}
	var ks []kslot
	for si, sh := range cl.Shards {
		if cl.Nodes[sh.Master].Endpoint == "?" {
			continue
		}
		for _, rg := range sh.Ranges {
			cands := []int{rg[0], rg[1], (rg[0] + rg[1]) / 2, rg[0] + r.IntN(rg[1]-rg[0]+1)}
			for _, s := range cands {
				ks = append(ks, kslot{s, si})
			}
		}
	}
	r.Shuffle(len(ks), func(i, j int) { ks[i], ks[j] = ks[j], ks[i] })
	if len(ks) > 8 {
		ks = ks[:8]
	}
	keyOf := func(i int, suffix string) string {
		k := ks[i%len(ks)]
		return "{" + tagForSlot(k.slot) + "}" + suffix
	}
	marker := func(key string, on bool) string {
		if on {
			return key + "R!"
		}
		return key
	}
	// preload some static keys for the helpers
	var static []string
	for i := 0; i < len(ks); i++ {
		for j := 0; j < 2; j++ {
			k := keyOf(i, "s"+strconv.Itoa(j))
			if r.IntN(4) != 0 {
				cl.Preload = append(cl.Preload, []string{"SET", k, "v:" + k})
			}
			static = append(static, k)
		}
	}
	if mode == "helpers2" {
		for i := 0; i < len(ks); i++ {
			for j := 0; j < 3; j++ {
				k := keyOf(i, "j"+strconv.Itoa(j))
				if r.IntN(4) != 0 {
					cl.Preload = append(cl.Preload, []string{"JSON.SET", k, "$", fmt.Sprintf(`{"k":%q,"n":%d}`, k, j)})
				}
			}
			for j := 0; j < 2; j++ {
				k := keyOf(i, "nx"+strconv.Itoa(j))
				cl.Preload = append(cl.Preload, []string{"SET", k, "old:" + k})
			}
		}
	}
	nt := 2 + r.IntN(5)
	for ti := 0; ti < nt; ti++ {
		var calls []CallSpec
		for ci, n := 0, 2+r.IntN(5); ci < n; ci++ {
			uid := func(k int) string { return fmt.Sprintf("t%d.c%d.k%d", ti, ci, k) }
			rd := func(k int) CmdSpec {
				key := marker(keyOf(r.IntN(len(ks)), "k"+strconv.Itoa(r.IntN(3))), r.IntN(2) == 0)
				return CmdSpec{Argv: []string{"VKTAG", key, uid(k), pick(r, "s", "[sb]", "i", "{si}", "n")}, Keys: 1, Flag: "ro"}
			}
			wr := func(k int) CmdSpec {
				key := marker(keyOf(r.IntN(len(ks)), "w"+strconv.Itoa(r.IntN(3))), r.IntN(3) == 0)
				return CmdSpec{Argv: []string{"VWTAG", key, uid(k)}, Keys: 1, Flag: pick(r, "", "", "retry")}
			}
			var c CallSpec
			x := r.IntN(100)
			if mode == "helpers" || mode == "helpers2" {
				x = 80 + r.IntN(20)
			}
			if mode == "helpers2" && r.IntN(3) != 0 {
				// helpers whose batch is built by ranging over a Go map, and the JSON helpers
				n := 1 + r.IntN(6)
				kind := pick(r, "mset", "mset", "msetnx", "jmset", "jmget", "jmgetcache")
				c = CallSpec{Kind: kind, S: uid(0), TTLMs: 60_000}
				var kv []string
				switch kind {
				case "jmget", "jmgetcache":
					for k := 0; k < n; k++ {
						key := keyOf(r.IntN(len(ks)), "j"+strconv.Itoa(r.IntN(3)))
						kv = append(kv, key)
					}
				default:
					seen := map[string]bool{}
					for k := 0; k < n; k++ {
						key := keyOf(r.IntN(len(ks)), "h."+uid(k))
						if kind == "msetnx" && r.IntN(3) == 0 {
							key = keyOf(r.IntN(len(ks)), "nx"+strconv.Itoa(r.IntN(2))) // preloaded: NX must refuse it
						}
						if seen[key] {
							continue
						}
						seen[key] = true
						val := "v:" + key + ":" + uid(k)
						if kind == "jmset" {
							val = fmt.Sprintf(`{"k":%q,"u":%q}`, key, uid(k))
						}
						kv = append(kv, key, val)
					}
				}
				c.Cmds = []CmdSpec{{Argv: kv}}
				calls = append(calls, c)
				continue
			}
			if mode == "cancel" {
				x = pick(r, 10, 30, 45, 50, 55) // single commands and batches only
			}
			if (mode == "dedicated" && r.IntN(2) == 0) || (mode == "stable" && r.IntN(12) == 0) {
				// a dedicated session on one slot, then use of the retained handle after its release
				ki := r.IntN(len(ks))
				c = CallSpec{Kind: "dedic", S: pick(r, "cancel", "fn")}
				for k, m := 0, 1+r.IntN(4); k < m; k++ {
					key := keyOf(ki, "d"+strconv.Itoa(r.IntN(3)))
					if r.IntN(2) == 0 {
						c.Cmds = append(c.Cmds, CmdSpec{Argv: []string{"VWTAG", key, uid(k)}, Keys: 1})
					} else {
						c.Cmds = append(c.Cmds, CmdSpec{Argv: []string{"VKTAG", key, uid(k), "s"}, Keys: 1, Flag: "ro"})
					}
				}
				// the commands issued through the retained handle after release (must never reach a server)
				c.Cmds = append(c.Cmds, CmdSpec{Argv: []string{"VWTAG", keyOf(ki, "d0"), uid(90)}, Keys: 1}, CmdSpec{Argv: []string{"VKTAG", keyOf(ki, "d1"), uid(91), "s"}, Keys: 1, Flag: "ro"})
				c.N = len(c.Cmds) - 2
				calls = append(calls, c)
				continue
			}
			switch {
			case x < 25:
				c = CallSpec{Kind: "do", Cmds: []CmdSpec{rd(0)}}
			case x < 40:
				c = CallSpec{Kind: "do", Cmds: []CmdSpec{wr(0)}}
			case x < 60:
				c = CallSpec{Kind: "multi"}
				for k, m := 0, 2+r.IntN(7); k < m; k++ {
					if r.IntN(3) == 0 {
						c.Cmds = append(c.Cmds, wr(k))
					} else {
						c.Cmds = append(c.Cmds, rd(k))
					}
				}
			case x < 68:
				// a transaction block in a single-slot batch (slot-less MULTI/EXEC must not be mixed with several slots).
				// Commands in front of the block use a key that exists (preloaded list), the block's commands mostly use
				// keys that do not exist yet: while the slot is migrating, the source node then serves the former and
				// answers ASK for the latter, so that only the block travels.
				ki := r.IntN(len(ks))
				exist := keyOf(ki, "x0")
				cl.Preload = append(cl.Preload, []string{"VWTAG", exist, "pre." + uid(0)})
				one := func(k int, write bool, fresh bool) CmdSpec {
					key := exist
					if fresh {
						key = keyOf(ki, "x"+pick(r, "1", "2", "f."+uid(k)))
					}
					if write {
						return CmdSpec{Argv: []string{"VWTAG", key, uid(k)}, Keys: 1}
					}
					return CmdSpec{Argv: []string{"VKTAG", key, uid(k), "s"}, Keys: 1, Flag: "ro"}
				}
				c = CallSpec{Kind: "multi"}
				k := 0
				for i, m := 0, r.IntN(3); i < m; i++ {
					c.Cmds = append(c.Cmds, one(k, r.IntN(2) == 0, false))
					k++
				}
				c.Cmds = append(c.Cmds, CmdSpec{Argv: []string{"MULTI"}})
				for i, m := 0, 1+r.IntN(3); i < m; i++ {
					c.Cmds = append(c.Cmds, one(k, r.IntN(2) == 0, r.IntN(4) != 0))
					k++
				}
				c.Cmds = append(c.Cmds, CmdSpec{Argv: []string{"EXEC"}})
				for i, m := 0, r.IntN(2); i < m; i++ {
					c.Cmds = append(c.Cmds, one(k, false, false))
					k++
				}
			case x < 74:
				c = CallSpec{Kind: "cache", TTLMs: 60_000, Cmds: []CmdSpec{rd(0)}}
			case x < 82:
				c = CallSpec{Kind: "mcache", TTLMs: 60_000}
				for k, m := 0, 1+r.IntN(6); k < m; k++ {
					c.Cmds = append(c.Cmds, rd(k))
				}
			case x < 88:
				c = CallSpec{Kind: "mget", S: uid(0)}
				var keys []string
				for k, m := 0, 1+r.IntN(10); k < m; k++ {
					keys = append(keys, static[r.IntN(len(static))])
				}
				c.Cmds = []CmdSpec{{Argv: keys}}
			case x < 93:
				c = CallSpec{Kind: "mgetcache", S: uid(0), TTLMs: 60_000}
				var keys []string
				for k, m := 0, 1+r.IntN(8); k < m; k++ {
					keys = append(keys, static[r.IntN(len(static))])
				}
				c.Cmds = []CmdSpec{{Argv: keys}}
			case x < 97:
				// keys owned by this call: deleted once, nobody else touches them
				c = CallSpec{Kind: "mdel", S: uid(0)}
				var keys []string
				for k, m := 0, 1+r.IntN(6); k < m; k++ {
					key := keyOf(r.IntN(len(ks)), "d."+uid(k))
					keys = append(keys, key)
					if r.IntN(3) != 0 {
						cl.Preload = append(cl.Preload, []string{"SET", key, "v:" + key})
					}
				}
				if r.IntN(3) == 0 {
					keys = append(keys, keys[0])
				}
				c.Cmds = []CmdSpec{{Argv: keys}}
			default:
				c = CallSpec{Kind: "mset1", S: uid(0)}
				key := keyOf(r.IntN(len(ks)), "m."+uid(0))
				c.Cmds = []CmdSpec{{Argv: []string{key, "v:" + key + ":" + uid(0)}}}
			}
			if mode == "replicas" && r.IntN(6) == 0 {
				// a streamed batch on one slot: eligible keyed reads, and in half of them a command without a key that is
				// not eligible (the whole batch must then go to the primary)
				key := marker(keyOf(r.IntN(len(ks)), "k"+strconv.Itoa(r.IntN(3))), true)
				c = CallSpec{Kind: "mstream"}
				c.Cmds = append(c.Cmds, CmdSpec{Argv: []string{"VKTAG", key, uid(0), "s"}, Keys: 1, Flag: "ro"})
				if r.IntN(2) == 0 {
					c.Cmds = append(c.Cmds, CmdSpec{Argv: []string{"VTAG", uid(1), "s"}})
				}
				if r.IntN(2) == 0 {
					c.Cmds = append(c.Cmds, CmdSpec{Argv: []string{"VKTAG", key, uid(2), "s"}, Keys: 1, Flag: "ro"})
				}
			}
			if cl.Cancel && (c.Kind == "multi" || c.Kind == "do") && r.IntN(2) == 0 {
				c.Cancel, c.CancelAfter = true, r.IntN(6)
			}
			if !cl.FaultFree && r.IntN(8) == 0 {
				// (deadlines only where faults are allowed anyway: a caller whose deadline ends during a dial it shares
				// with other callers makes their attempt fail too, an invisible fault for the redirect-chain rules)
				c.TimeoutMs = 200 + r.IntN(3000)
			}
			calls = append(calls, c)
		}
		p.Tasks = append(p.Tasks, calls)
	}
	if mode == "helpers2" && r.IntN(4) == 0 {
		p.Opt.DisableCache = true // the cached helpers must then behave like their plain counterparts
	}
	if askpair {
		// directed: batches of cached reads over two slots that migrate to the same shard again and again, one of the
		// migrations being cancelled while the other goes on - members that were sent on with ASKING together then meet
		// different fates on the target
		ka, kb := ks[0], ks[len(ks)/2]
		for kb.shard == ka.shard && len(ks) > 2 {
			kb = ks[r.IntN(len(ks))]
			if r.IntN(20) == 0 {
				break
			}
		}
		to := (ka.shard + 1) % nsh
		if to == kb.shard {
			to = (to + 1) % nsh
		}
		p.Tasks = nil
		for ti := 0; ti < 3; ti++ {
			var calls []CallSpec
			for ci := 0; ci < 6; ci++ {
				c := CallSpec{Kind: pick(r, "mcache", "mcache", "multi"), TTLMs: 60_000}
				for k, m := 0, 2+r.IntN(3); k < m; k++ {
					sl := pick(r, ka, kb)
					key := "{" + tagForSlot(sl.slot) + "}q" + strconv.Itoa(r.IntN(3))
					c.Cmds = append(c.Cmds, CmdSpec{Argv: []string{"VKTAG", key, fmt.Sprintf("t%d.c%d.k%d", ti, ci, k), pick(r, "s", "i")}, Keys: 1, Flag: "ro"})
				}
				calls = append(calls, c)
			}
			p.Tasks = append(p.Tasks, calls)
		}
		p.Ghosts = nil
		step := 5
		for cyc := 0; cyc < 5; cyc++ {
			p.Ghosts = append(p.Ghosts, GhostSpec{Kind: "migrate-start", MinStep: step, Argv: []string{strconv.Itoa(ka.slot), strconv.Itoa(to)}})
			p.Ghosts = append(p.Ghosts, GhostSpec{Kind: "migrate-start", MinStep: step, Argv: []string{strconv.Itoa(kb.slot), strconv.Itoa(to)}})
			step += 8 + r.IntN(25)
			first, second := ka, kb
			if r.IntN(2) == 0 {
				first, second = kb, ka
			}
			p.Ghosts = append(p.Ghosts, GhostSpec{Kind: "migrate-cancel", MinStep: step, Argv: []string{strconv.Itoa(first.slot)}})
			step += 8 + r.IntN(25)
			p.Ghosts = append(p.Ghosts, GhostSpec{Kind: "migrate-cancel", MinStep: step, Argv: []string{strconv.Itoa(second.slot)}})
			step += 3 + r.IntN(10)
		}
		cl.MaxMoved = pick(r, 0, 0, 3)
		cl.ToReplicas, cl.ReplicaOnly, cl.Selector = "", false, ""
	}
	if gapfill && gapSlot >= 0 {
		// directed: a slot nobody serves when the client starts is assigned to a shard afterwards and at once starts to
		// migrate on; the client learns of the slot only through the refresh it does when a batch finds no connection for
		// it, and the node it then asks answers ASK for the block's (new) keys: the whole block must travel
		cl.RefreshMs = 0
		a := r.IntN(nsh)
		b := (a + 1 + r.IntN(nsh-1)) % nsh
		p.Tasks = nil
		for ti := 0; ti < 3; ti++ {
			var calls []CallSpec
			for ci := 0; ci < 4; ci++ {
				uid := func(k int) string { return fmt.Sprintf("t%d.c%d.k%d", ti, ci, k) }
				key := func(k int) string { return "{" + tagForSlot(gapSlot) + "}g." + uid(k) }
				c := CallSpec{Kind: "multi"}
				if ci == 0 {
					// something on a served slot first, so that the assignment usually comes before the first use
					c.Cmds = append(c.Cmds, CmdSpec{Argv: []string{"VKTAG", keyOf(r.IntN(len(ks)), "k0"), uid(9), "s"}, Keys: 1, Flag: "ro"})
					calls = append(calls, c)
					continue
				}
				k := 0
				for i, m := 0, r.IntN(2); i < m; i++ {
					c.Cmds = append(c.Cmds, CmdSpec{Argv: []string{"VWTAG", key(k), uid(k)}, Keys: 1})
					k++
				}
				c.Cmds = append(c.Cmds, CmdSpec{Argv: []string{"MULTI"}})
				for i, m := 0, 1+r.IntN(3); i < m; i++ {
					c.Cmds = append(c.Cmds, CmdSpec{Argv: []string{"VWTAG", key(k), uid(k)}, Keys: 1})
					k++
				}
				c.Cmds = append(c.Cmds, CmdSpec{Argv: []string{"EXEC"}})
				calls = append(calls, c)
			}
			p.Tasks = append(p.Tasks, calls)
		}
		p.Ghosts = []GhostSpec{
			{Kind: "assign-slot", MinStep: 2 + r.IntN(8), Argv: []string{strconv.Itoa(gapSlot), strconv.Itoa(a)}},
			{Kind: "migrate-start", MinStep: 2, Argv: []string{strconv.Itoa(gapSlot), strconv.Itoa(b)}},
			{Kind: "migrate-finish", MinStep: 150 + r.IntN(100), Argv: []string{strconv.Itoa(gapSlot)}},
		}
		cl.MaxMoved = pick(r, 0, 0, 3)
		cl.ToReplicas, cl.ReplicaOnly, cl.Selector = "", false, ""
		p.X["gapfill"] = true
		return p
	}
	if cl.Cancel {
		cl.SendBuf = pick(r, 64, 256, 1024)
		p.Opt.WriteBuf = pick(r, 32, 64, 512)
		p.Opt.AlwaysPipelining = true
		p.Sched.C2SCutProb = 0.5
		p.Sched.MaxSteps = 20000
	}
	// environment
	if !cl.Stable {
		ng := 1 + r.IntN(5)
		for i := 0; i < ng; i++ {
			k := ks[r.IntN(len(ks))]
			to := r.IntN(nsh)
			g := GhostSpec{MinStep: r.IntN(120)}
			switch pick(r, "move", "move", "migrate", "migrate", "migrate-pair", "failover", "down", "freeze-move", "loading", "new-shard") {
			case "migrate-pair":
				// two slots migrate to the same shard at once and only one of the migrations is cancelled: members of one
				// batch that were sent on with ASKING then meet different fates on the target
				k2 := ks[r.IntN(len(ks))]
				p.Ghosts = append(p.Ghosts, GhostSpec{Kind: "migrate-start", MinStep: g.MinStep, Argv: []string{strconv.Itoa(k.slot), strconv.Itoa(to)}})
				p.Ghosts = append(p.Ghosts, GhostSpec{Kind: "migrate-start", MinStep: g.MinStep, Argv: []string{strconv.Itoa(k2.slot), strconv.Itoa(to)}})
				p.Ghosts = append(p.Ghosts, GhostSpec{Kind: pick(r, "migrate-cancel", "migrate-finish"), MinStep: g.MinStep + 5 + r.IntN(60), Argv: []string{strconv.Itoa(k.slot)}})
				p.Ghosts = append(p.Ghosts, GhostSpec{Kind: pick(r, "migrate-cancel", "migrate-finish"), MinStep: g.MinStep + 40 + r.IntN(80), Argv: []string{strconv.Itoa(k2.slot)}})
			case "new-shard":
				// (a fifth connection: the refresh candidates must then come from the ordered InitAddress list)
				if total >= 4 {
					cl.PreferInit = true
				}
				p.Ghosts = append(p.Ghosts, GhostSpec{Kind: "new-shard", MinStep: g.MinStep, Argv: []string{strconv.Itoa(k.slot)}})
				p.Ghosts = append(p.Ghosts, GhostSpec{Kind: pick(r, "migrate-finish", "migrate-cancel"), MinStep: g.MinStep + 30 + r.IntN(120), Argv: []string{strconv.Itoa(k.slot)}})
			case "move":
				g.Kind, g.Argv = "move-slot", []string{strconv.Itoa(k.slot), strconv.Itoa(to)}
				p.Ghosts = append(p.Ghosts, g)
			case "freeze-move":
				// a bystander keeps a stale view for a while: redirect chains
				p.Ghosts = append(p.Ghosts, GhostSpec{Kind: "freeze", MinStep: g.MinStep, Argv: []string{strconv.Itoa(r.IntN(total))}})
				g.Kind, g.Argv = "move-slot", []string{strconv.Itoa(k.slot), strconv.Itoa(to)}
				p.Ghosts = append(p.Ghosts, g)
				p.Ghosts = append(p.Ghosts, GhostSpec{Kind: "sync-all", MinStep: g.MinStep + 20 + r.IntN(60)})
			case "migrate":
				p.Ghosts = append(p.Ghosts, GhostSpec{Kind: "migrate-start", MinStep: g.MinStep, Argv: []string{strconv.Itoa(k.slot), strconv.Itoa(to)}})
				if r.IntN(2) == 0 {
					p.Ghosts = append(p.Ghosts, GhostSpec{Kind: "migrate-some", MinStep: g.MinStep + r.IntN(30), Argv: []string{strconv.Itoa(k.slot), strconv.Itoa(1 + r.IntN(3))}})
				}
				p.Ghosts = append(p.Ghosts, GhostSpec{Kind: pick(r, "migrate-finish", "migrate-finish", "migrate-cancel"), MinStep: g.MinStep + 10 + r.IntN(80), Argv: []string{strconv.Itoa(k.slot)}})
			case "failover":
				// ("down": the old primary is unreachable for a while and comes back as a replica; a primary that never
				// comes back makes DoMulti retry read-only commands against its dead address for ever - the batch retry
				// loop does not re-route - which no listed property covers; see DESIGN.md)
				how := pick(r, "down", "up")
				p.Ghosts = append(p.Ghosts, GhostSpec{Kind: "failover", MinStep: g.MinStep, Argv: []string{strconv.Itoa(r.IntN(nsh)), how}})
				if how == "down" {
					p.Ghosts = append(p.Ghosts, GhostSpec{Kind: "nodes-up", MinStep: g.MinStep + 10 + r.IntN(150)})
				}
			case "down":
				p.Ghosts = append(p.Ghosts, GhostSpec{Kind: "cluster-down", MinStep: g.MinStep, Argv: []string{"on"}})
				p.Ghosts = append(p.Ghosts, GhostSpec{Kind: "cluster-down", MinStep: g.MinStep + 5 + r.IntN(40), Argv: []string{"off"}})
			case "loading":
				p.Ghosts = append(p.Ghosts, GhostSpec{Kind: "loading", MinStep: g.MinStep, Argv: []string{strconv.Itoa(r.IntN(total)), strconv.Itoa(1 + r.IntN(4))}})
			}
		}
	}
	if mode == "lifetime" {
		// variant lifetime: an unchanging topology, connections that reach their ConnLifetime, and a server that answers
		// slowly around that moment (the client closes an expired connection after a grace period of one second; calls
		// outstanding longer than that are cut off and re-sent): the recovery paths after errConnExpired in cluster.go
		p.Opt.ConnLifetimeMs = pick(r, 60, 150, 400, 1000)
		p.Opt.AlwaysPipelining = r.IntN(4) != 0
		p.Sched.CutProb = pick(r, 0.3, 0.7, 1.0)
		for i, nf := 0, 2+r.IntN(6); i < nf; i++ {
			p.Faults = append(p.Faults, FaultSpec{Kind: "slow", AtStep: r.IntN(250), NeedInflight: true, Pick: r.IntN(8), DurMs: pick(r, 1100, 1500, 2500)})
		}
		return p
	}
	if !cl.FaultFree {
		for i, nf := 0, 1+r.IntN(3); i < nf; i++ {
			p.Faults = append(p.Faults, FaultSpec{Kind: pick(r, "reset", "eof", "reset-after-exec", "eof-mid-reply", "werr", "node-restart"), AtStep: r.IntN(200), NeedInflight: r.IntN(3) != 0, Pick: r.IntN(8), DurMs: pick(r, 50, 400, 1500), Arg: r.IntN(500)})
		}
	}
	return p
}

// ---- execution ----

type clusterEnv struct {
	*env
	cp      *ClusterPlan
	cluster *fakeredis.Cluster
	single  *fakeredis.Node // helpers-single scenario: no cluster, one node
	// expectations recorded at fixed points
	mapErrs []string
	// named[slot] = every (model sequence number, address) at which some node named address as the owner of slot to a
	// client: in an answer to CLUSTER SLOTS / CLUSTER SHARDS or in a MOVED reply. A superset of what the client knows.
	named    map[int][]namedOwner
	keySlots []int
	extra    map[string]int // shard index of nodes added at run time
	selMu    sync.Mutex
	selCnt   map[string]int
	selLog   []selCall
}

type namedOwner struct {
	seq  int
	addr string
}

type selCall struct {
	who    string
	step   int
	slot   uint16
	n      int
	result int
}

func (ce *clusterEnv) shardOf(addr string) int {
	if i, ok := ce.extra[addr]; ok {
		return i
	}
	for i, sh := range ce.cp.Cl.Shards {
		if sh.Master == addr {
			return i
		}
		for _, r := range sh.Replicas {
			if r == addr {
				return i
			}
		}
	}
	return -1
}

// clusterPredicate is the SendToReplicas predicate of the plan: a pure function of the command.
func clusterPredicate(kind string) func(Completed) bool {
	switch kind {
	case "ro":
		return func(c Completed) bool { return c.IsReadOnly() }
	case "marker":
		return func(c Completed) bool {
			a := c.Commands()
			return c.IsReadOnly() && len(a) > 1 && strings.HasSuffix(a[1], "R!")
		}
	}
	return nil
}

func specPredicate(kind string, c CmdSpec) bool {
	switch kind {
	case "ro":
		return c.Flag == "ro"
	case "marker":
		return c.Flag == "ro" && len(c.Argv) > 1 && strings.HasSuffix(c.Argv[1], "R!")
	}
	return false
}

func selectorIndex(mode string, slot uint16, n int) int {
	switch mode {
	case "0":
		return 0
	case "last":
		return n - 1
	case "mod":
		if n == 0 {
			return 0
		}
		return int(slot) % n
	case "oob":
		return n + int(slot)%3
	case "neg":
		return -1 - int(slot)%2
	}
	return 0
}

func (ce *clusterEnv) clientOption() ClientOption {
	opt := ce.env.clientOption()
	cl := ce.cp.Cl
	opt.ForceSingleClient = false
	opt.InitAddress = append([]string(nil), cl.Init...)
	opt.ClusterOption.MaxMovedRedirections = cl.MaxMoved
	opt.ClusterOption.PreferInitAddressRefresh = cl.PreferInit
	opt.ClusterOption.ShardsRefreshInterval = time.Duration(cl.RefreshMs) * time.Millisecond
	opt.ReplicaOnly = cl.ReplicaOnly
	if pr := clusterPredicate(cl.ToReplicas); pr != nil {
		opt.SendToReplicas = pr
		switch {
		case strings.HasPrefix(cl.Selector, "rs:"):
			mode := cl.Selector[3:]
			opt.ReplicaSelector = func(slot uint16, replicas []NodeInfo) int { return selectorIndex(mode, slot, len(replicas)) }
		case cl.Selector == "rn:alt":
			// the answer varies from call to call (per calling task, so that it stays a function of the schedule):
			// a valid replica, the primary, beyond the list, negative, ...
			opt.ReadNodeSelector = func(slot uint16, nodes []NodeInfo) int {
				who := "bg"
				if v, ok := goNames.Load(curGoid()); ok {
					who = v.(string)
				}
				ce.selMu.Lock()
				k := ce.selCnt[who]
				ce.selCnt[who] = k + 1
				res := []int{1, len(nodes), 0, -1, len(nodes) - 1, 1, 0, len(nodes) + 2}[(k+int(slot))%8]
				ce.selLog = append(ce.selLog, selCall{who: who, step: ce.sim.Step, slot: slot, n: len(nodes), result: res})
				ce.selMu.Unlock()
				return res
			}
		case strings.HasPrefix(cl.Selector, "rn:"):
			mode := cl.Selector[3:]
			opt.ReadNodeSelector = func(slot uint16, nodes []NodeInfo) int { return selectorIndex(mode, slot, len(nodes)) }
		}
	}
	return opt
}

func (ce *clusterEnv) build() {
	w := ce.sim.W
	c := fakeredis.NewCluster(w)
	ce.cluster = c
	for _, sh := range ce.cp.Cl.Shards {
		c.AddShard(sh.Master, sh.Replicas, sh.Ranges...)
	}
	for a, o := range ce.cp.Cl.Nodes {
		n := w.Nodes[a]
		if n == nil {
			continue
		}
		if o.Version != "" {
			n.Version = o.Version
		}
		no := c.NodeOpts(a)
		switch o.Endpoint {
		case "empty":
			no.EndpointOverride = fakeredis.EndpointEmpty
		case "null":
			no.EndpointOverride = fakeredis.EndpointNull
		case "?":
			no.EndpointOverride = "?"
		}
		no.Health = o.Health
	}
	ce.named, ce.extra, ce.selCnt = map[int][]namedOwner{}, map[string]int{}, map[string]int{}
	seen := map[int]bool{}
	for _, calls := range ce.cp.Tasks {
		for _, c := range calls {
			for _, cm := range c.Cmds {
				for _, a := range cm.Argv {
					if strings.HasPrefix(a, "{") {
						if sl := fakeredis.KeySlot(a); !seen[sl] {
							seen[sl] = true
							ce.keySlots = append(ce.keySlots, sl)
						}
					}
				}
			}
		}
	}
	sort.Ints(ce.keySlots)
	w.Intercept = func(sc *fakeredisSrvConn, argv []string) (resp.Value, bool) {
		if len(argv) == 2 && strings.ToUpper(argv[0]) == "CLUSTER" && sc.ID >= 0 {
			switch strings.ToUpper(argv[1]) {
			case "SLOTS", "SHARDS":
				// what this node is about to tell the client about the slots the plan uses
				for _, sl := range ce.keySlots {
					if o := c.OwnerSeenBy(sc.Node.Addr, sl); o != "" {
						ce.named[sl] = append(ce.named[sl], namedOwner{seq: w.Seq(), addr: o})
					}
				}
			}
		}
		return resp.Value{}, false
	}
	for _, argv := range ce.cp.Cl.Preload {
		if o := c.Owner(fakeredis.KeySlot(argv[1])); o != nil {
			w.Ghost(o.Addr, argv...)
		}
	}
}

// listed reports whether a node can be learnt by the client from a topology answer of this model.
func (ce *clusterEnv) listed(addr string, isMaster bool) bool {
	o := ce.cp.Cl.Nodes[addr]
	if o.Endpoint == "?" {
		return false
	}
	major := 7
	if v := o.Version; v != "" {
		major, _ = strconv.Atoi(strings.SplitN(v, ".", 2)[0])
	}
	if o.Health != "" {
		if major >= 8 {
			return false // CLUSTER SHARDS: only "online" nodes count
		}
		if !isMaster {
			return false // CLUSTER SLOTS of Redis 7 omits replicas that are not online
		}
	}
	return true
}

func (ce *clusterEnv) ghost(g GhostSpec) func(*sched.Sim) {
	c := ce.cluster
	num := func(i int) int { n, _ := strconv.Atoi(g.Argv[i]); return n }
	masterOfShard := func(i int) string {
		// the shard's current master in the live topology
		sh := ce.cp.Cl.Shards[i%len(ce.cp.Cl.Shards)]
		for _, m := range c.Masters() {
			if ce.shardOf(m) == ce.shardOf(sh.Master) {
				return m
			}
		}
		return sh.Master
	}
	switch g.Kind {
	case "move-slot":
		return func(s *sched.Sim) {
			to := masterOfShard(num(1))
			if o := c.Owner(num(0)); o != nil && o.Addr != to {
				if f, _ := c.Migrating(num(0)); f != "" {
					c.MigrateCancel(num(0))
				}
				c.MoveSlot(num(0), to)
			}
		}
	case "freeze":
		return func(s *sched.Sim) {
			// only primaries: a stale primary merely redirects; a stale replica would go on serving reads of slots whose
			// data the model has already moved to another shard's dataset (a limit of the shared-dataset model)
			ms := c.Masters()
			c.FreezeView(ms[num(0)%len(ms)])
		}
	case "sync-all":
		return func(s *sched.Sim) { c.SyncAll() }
	case "assign-slot":
		return func(s *sched.Sim) {
			if c.Owner(num(0)) == nil {
				c.SetSlotOwner(num(0), masterOfShard(num(1)))
			}
		}
	case "migrate-start":
		return func(s *sched.Sim) {
			to := masterOfShard(num(1))
			if o := c.Owner(num(0)); o != nil && o.Addr != to {
				if f, _ := c.Migrating(num(0)); f == "" {
					c.MigrateStart(num(0), to)
				}
			}
		}
	case "migrate-some":
		return func(s *sched.Sim) {
			if f, _ := c.Migrating(num(0)); f != "" {
				c.MigrateSomeKeys(num(0), num(1))
			}
		}
	case "migrate-finish":
		return func(s *sched.Sim) {
			if f, _ := c.Migrating(num(0)); f != "" {
				c.MigrateFinish(num(0))
			}
		}
	case "migrate-cancel":
		return func(s *sched.Sim) {
			if f, _ := c.Migrating(num(0)); f != "" {
				c.MigrateCancel(num(0))
			}
		}
	case "failover":
		return func(s *sched.Sim) {
			old := masterOfShard(num(0))
			reps := c.Replicas(old)
			if len(reps) == 0 {
				return
			}
			// slots under migration from/to this shard: settle them first (the model moves data with ownership)
			c.Failover(old, reps[0], g.Argv[1] == "down")
			if g.Argv[1] == "down" {
				for _, l := range s.Links {
					if !l.Dead && !l.SrvClosed && l.S.Node.Addr == old {
						s.BreakLink(l, "reset", false)
					}
				}
			}
		}
	case "new-shard":
		// a freshly added, still empty primary starts importing a slot: the ASK names a node no topology answer lists
		return func(s *sched.Sim) {
			addr := clAddr(20 + len(ce.extra))
			if s.W.Nodes[addr] != nil {
				return
			}
			n := c.AddShard(addr, nil)
			n.Version = s.W.Nodes[ce.cp.Cl.Shards[0].Master].Version
			ce.extra[addr] = len(ce.cp.Cl.Shards) + len(ce.extra)
			if o := c.Owner(num(0)); o != nil {
				if f, _ := c.Migrating(num(0)); f == "" {
					c.MigrateStart(num(0), addr)
				}
			}
		}
	case "nodes-up":
		return func(s *sched.Sim) { ce.nodesUp() }
	case "cluster-down":
		return func(s *sched.Sim) { c.SetClusterDown(g.Argv[0] == "on") }
	case "loading":
		return func(s *sched.Sim) {
			ms := c.Members()
			s.W.Nodes[ms[num(0)%len(ms)]].Loading = num(1)
		}
	}
	return nil
}

// nodesUp ends every outage of the model: nodes accept connections again, the cluster state is ok, views are in sync.
func (ce *clusterEnv) nodesUp() {
	c := ce.cluster
	for _, a := range c.Members() {
		if ce.sim.W.Nodes[a].Down {
			c.SetNodeDown(a, false)
			c.SetNodeFailed(a, false)
		}
		ce.sim.W.Nodes[a].Loading = 0
	}
	c.SetClusterDown(false)
	// open migrations end too (a multi-key read of a slot that stays half migrated is answered TRYAGAIN for ever)
	slots := append([]int(nil), ce.keySlots...)
	for _, g := range ce.cp.Ghosts {
		if strings.HasPrefix(g.Kind, "migrate") || g.Kind == "new-shard" {
			if n, err := strconv.Atoi(g.Argv[0]); err == nil {
				slots = append(slots, n)
			}
		}
	}
	for _, sl := range slots {
		if f, _ := c.Migrating(sl); f != "" {
			c.MigrateFinish(sl)
		}
	}
	c.SyncAll()
}

func execCluster(t *testing.T, plan any, out *Outcome) {
	cp := plan.(*ClusterPlan)
	var ce *clusterEnv
	randState.stepMode.Store(true)
	defer randState.stepMode.Store(false)
	e := standardRun(t, out.Seed, &cp.Plan, out, runHooks{
		noDefaultNode: true,
		hashMainPhase: true,
		beforeClient: func(e *env) {
			ce = &clusterEnv{env: e, cp: cp}
			muxRegReset(16)
			richIdent.Store(true)
			e.sim.SortLockers = true
			if cp.Cl.MapOrder {
				e.sim.Cfg.NoPayloadHash = true
				identNoCmd.Store(true)
			}
			if cp.Cl.SendBuf > 0 {
				sb := cp.Cl.SendBuf
				e.sim.OnAccept = func(s *sched.Sim, l *sched.Link) { l.C.SetSendBuffer(sb) }
			}
			enableSpinSettle(e.sim)
			e.sim.Cfg.TickEpsilon = time.Nanosecond // a scheduler tick never ends exactly on a client timer's instant
			ce.build()
		},
		newClient: func(e *env, i int) (Client, error) { return NewClient(ce.clientOption()) },
		afterSetup: func(e *env) { ce.checkMapping() },
		ghost:      func(e *env, g GhostSpec) func(*sched.Sim) { return ce.ghost(g) },
		onStuck:    func(e *env) { ce.nodesUp() },
		extraCall:  clusterHelperCall,
	})
	if out.HarnessErr != "" {
		return
	}
	_ = e
	out.Config = fmt.Sprintf("shards=%d,stable=%v,ff=%v,toRep=%s,ro=%v,sel=%s,mm=%d,pi=%v", len(cp.Cl.Shards), cp.Cl.Stable, cp.Cl.FaultFree, cp.Cl.ToReplicas, cp.Cl.ReplicaOnly, cp.Cl.Selector, cp.Cl.MaxMoved, cp.Cl.PreferInit)
	checkCommon(ce.env)
	ce.judge()
}

// checkMapping is the in-package part of C19: right after the client learnt the topology (stable plans: every node
// answers from the same view), every slot of a listed shard maps to that shard's primary and every other slot is unmapped.
func (ce *clusterEnv) checkMapping() {
	out := ce.out
	cc, ok := ce.clients[0].(*clusterClient)
	if !ok {
		out.HarnessErr = fmt.Sprintf("not a cluster client: %T", ce.clients[0])
		return
	}
	if !ce.cp.Cl.Stable {
		return
	}
	cc.mu.RLock()
	defer cc.mu.RUnlock()
	bad := 0
	for slot := 0; slot < 16384; slot++ {
		want := ""
		if o := ce.cluster.Owner(slot); o != nil && ce.listed(o.Addr, true) {
			want = o.Addr
		}
		if ce.cp.Cl.ReplicaOnly {
			// ReplicaOnly: writes slots point at a listed replica of the shard when it has one
			got := ""
			if c := cc.wslots[slot]; c != nil {
				got = c.Addr()
			}
			okAddr := false
			if want == "" {
				okAddr = got == ""
			} else {
				si := ce.shardOf(want)
				var reps []string
				for _, rp := range ce.cp.Cl.Shards[si].Replicas {
					if ce.listed(rp, false) {
						reps = append(reps, rp)
					}
				}
				if len(reps) == 0 {
					okAddr = got == want
				} else {
					for _, rp := range reps {
						if got == rp {
							okAddr = true
						}
					}
				}
			}
			if !okAddr && bad < 3 {
				bad++
				out.violate("C21", "replica-only-slot-table", "slot %d maps to %q; shard primary %q", slot, got, want)
			}
			continue
		}
		got := ""
		if c := cc.wslots[slot]; c != nil {
			got = c.Addr()
		}
		if got != want && bad < 3 {
			bad++
			out.violate("C19", "slot-table", "after the first refresh slot %d maps to %q, the topology lists %q as its primary (\"\" = not served / not listed)", slot, got, want)
		}
	}
	out.judged("slot-table-checked")
}

// ---- helper calls (C31) ----

func clusterHelperCall(e *env, cl Client, cs CallSpec, ctx context.Context, rec *sched.CallRec) *CallResult {
	r := &CallResult{Kind: cs.Kind}
	conv := func(m map[string]RedisMessage, err error) {
		if err != nil {
			r.Err, r.ErrK = err.Error(), errKind(err)
			return
		}
		r.KV = map[string]Res{}
		for k, v := range m {
			v := v
			r.KV[k] = Res{V: msgToVal(&v)}
		}
	}
	conve := func(m map[string]error) {
		r.KErr = map[string]string{}
		for k, err := range m {
			if err == nil {
				r.KErr[k] = ""
			} else if IsRedisNil(err) {
				r.KErr[k] = "nil"
			} else {
				r.KErr[k] = errKind(err) + ":" + err.Error()
			}
		}
	}
	switch cs.Kind {
	case "dedic":
		n := cs.N
		var dc DedicatedClient
		session := func(d DedicatedClient) {
			dc = d
			for _, c := range cs.Cmds[:n] {
				r.Res = append(r.Res, toRes(d.Do(ctx, buildCmd(d.B(), c))))
			}
		}
		if cs.S == "fn" {
			_ = cl.Dedicated(func(d DedicatedClient) error { session(d); return nil })
		} else {
			d, cancel := cl.Dedicate()
			session(d)
			cancel()
		}
		// use after release: Do and DoMulti through the retained handle
		r.Res = append(r.Res, toRes(dc.Do(ctx, buildCmd(dc.B(), cs.Cmds[n]))))
		for _, x := range dc.DoMulti(ctx, buildCmd(dc.B(), cs.Cmds[n+1])) {
			r.Res = append(r.Res, toRes(x))
		}
	case "mget":
		conv(MGet(cl, ctx, cs.Cmds[0].Argv))
	case "mgetcache":
		conv(MGetCache(cl, ctx, time.Duration(cs.TTLMs)*time.Millisecond, cs.Cmds[0].Argv))
	case "mdel":
		conve(MDel(cl, ctx, cs.Cmds[0].Argv))
	case "mset1":
		conve(MSet(cl, ctx, map[string]string{cs.Cmds[0].Argv[0]: cs.Cmds[0].Argv[1]}))
	case "mset", "msetnx", "jmset":
		kvs := map[string]string{}
		a := cs.Cmds[0].Argv
		for i := 0; i+1 < len(a); i += 2 {
			kvs[a[i]] = a[i+1]
		}
		switch cs.Kind {
		case "mset":
			conve(MSet(cl, ctx, kvs))
		case "msetnx":
			conve(MSetNX(cl, ctx, kvs))
		default:
			conve(JsonMSet(cl, ctx, kvs, "$"))
		}
	case "jmget":
		conv(JsonMGet(cl, ctx, cs.Cmds[0].Argv, "$"))
	case "jmgetcache":
		conv(JsonMGetCache(cl, ctx, time.Duration(cs.TTLMs)*time.Millisecond, cs.Cmds[0].Argv, "$"))
	default:
		return nil
	}
	return r
}

// ---- oracles ----

type clAttempt struct {
	ex       *fakeredis.Exec
	redirect string // "MOVED" | "ASK" | ""
	to       string
	retryErr bool // LOADING / TRYAGAIN / CLUSTERDOWN
}

func parseRedirect(v resp.Value) (kind, addr string) {
	if !v.IsErr() {
		return "", ""
	}
	f := strings.Fields(v.S)
	if len(f) == 3 && (f[0] == "MOVED" || f[0] == "ASK") {
		return f[0], f[2]
	}
	return "", ""
}

// resolveRedirect: a redirect without a host (":7004") names the endpoint of the node that answered, on that port.
func resolveRedirect(answeredBy, to string) string {
	if strings.HasPrefix(to, ":") {
		if i := strings.LastIndexByte(answeredBy, ':'); i > 0 {
			return answeredBy[:i] + to
		}
	}
	return to
}

func isRetryErr(v resp.Value) bool {
	return v.IsErr() && (strings.HasPrefix(v.S, "LOADING") || strings.HasPrefix(v.S, "TRYAGAIN") || strings.HasPrefix(v.S, "CLUSTERDOWN"))
}

func (ce *clusterEnv) judge() {
	out := ce.out
	cl := ce.cp.Cl
	s := ce.sim
	w := s.W
	anyFault := false
	for _, f := range s.Faults {
		if f.Fired {
			anyFault = true
		}
	}
	for _, g := range s.Ghosts {
		if g.Done && strings.HasPrefix(g.Name, "failover") && strings.HasSuffix(g.Name, "down") {
			anyFault = true // the old primary's connections were reset and its address refused dials for a while
		}
	}
	faultFree := cl.FaultFree && !anyFault
	lifetime := ce.plan.Opt.ConnLifetimeMs > 0
	if lifetime {
		judgeLifetimeRecovery(ce.env, "cluster")
	}
	// per connection command lists
	byConn := map[int][]*fakeredis.Exec{}
	for _, ex := range w.Log {
		if ex.Conn >= 0 && !ex.InExec {
			byConn[ex.Conn] = append(byConn[ex.Conn], ex)
		}
	}
	connIdx := map[*fakeredis.Exec]int{}
	for _, l := range byConn {
		for i, ex := range l {
			connIdx[ex] = i
		}
	}
	// arrivals per uid (an arrival = the command reached a node: executed, queued, or refused with a redirect/error)
	arrivals := map[string][]*clAttempt{}
	executed := map[string]int{}
	for _, ex := range w.Log {
		if ex.Conn < 0 {
			continue
		}
		uid, ok := uidOf(ex.Argv)
		if !ok {
			continue
		}
		if _, _, _, isUID := parseUID(uid); !isUID {
			continue
		}
		if ex.InExec {
			if !ex.Reply.IsErr() {
				executed[uid]++
			}
			continue
		}
		a := &clAttempt{ex: ex}
		a.redirect, a.to = parseRedirect(ex.Reply)
		a.to = resolveRedirect(ex.Node, a.to)
		a.retryErr = isRetryErr(ex.Reply)
		arrivals[uid] = append(arrivals[uid], a)
		if !ex.Queued && !ex.Reply.IsErr() {
			executed[uid]++
		}
	}
	for _, ex := range w.Log {
		if kind, addr := parseRedirect(ex.Reply); kind == "MOVED" {
			addr = resolveRedirect(ex.Node, addr)
			if f := strings.Fields(ex.Reply.S); len(f) == 3 {
				if sl, err := strconv.Atoi(f[1]); err == nil {
					ce.named[sl] = append(ce.named[sl], namedOwner{seq: ex.Seq, addr: addr})
				}
			}
		}
	}
	namedBefore := func(slot, seq int, node string) (known bool, any bool) {
		for _, no := range ce.named[slot] {
			if no.seq < seq {
				any = true
				if no.addr == node || (ce.shardOf(no.addr) >= 0 && ce.shardOf(no.addr) == ce.shardOf(node)) {
					return true, true
				}
			}
		}
		return false, any
	}
	// ---- C33: every command frame a node decoded is exactly an argv the plan built (or one of the client's own) ----
	if cl.Cancel {
		planned := map[string]bool{}
		for _, calls := range ce.cp.Tasks {
			for _, c := range calls {
				for _, cm := range c.Cmds {
					planned[argvKey(cm.Argv)] = true
				}
			}
		}
		for _, pe := range w.ProtoErrors {
			out.violate("C33", "malformed-or-emptied-frame", "%s", pe)
		}
		for _, ex := range w.Log {
			if ex.Conn < 0 || len(ex.Argv) == 0 {
				continue
			}
			switch strings.ToUpper(ex.Argv[0]) {
			case "VKTAG", "VWTAG":
				if !planned[argvKey(ex.Argv)] {
					out.violate("C33", "frame-nobody-built", "node %s decoded %q, which no task built", ex.Node, truncArgv(ex.Argv))
				}
			}
		}
		abandoned := 0
		for _, t := range s.Tasks {
			for _, rc := range t.Recs {
				if rc.CancelStep >= 0 {
					abandoned++
				}
			}
		}
		if abandoned > 0 {
			out.probe("call-abandoned-before-reply")
		}
		out.judged("frames-checked")
	}
	redirectsTotal := 0
	for _, k := range []string{"MOVED", "ASK"} {
		redirectsTotal += ce.cluster.Redirects[k]
	}
	if redirectsTotal > 0 {
		out.probe("redirect-replies-sent")
	}
	if ce.cluster.Redirects["ASK"] > 0 {
		out.probe("ask-redirect")
	}
	if ce.cluster.Redirects["TRYAGAIN"]+ce.cluster.Redirects["CLUSTERDOWN"] > 0 {
		out.probe("tryagain-or-clusterdown")
	}
	delaysByUID := map[string][]delayEvent{}
	for _, d := range ce.delayLog {
		if uid, ok := uidOf(d.Cmd); ok {
			delaysByUID[uid] = append(delaysByUID[uid], d)
		}
	}
	pred := cl.ToReplicas
	judgedCalls := 0
	ce.eachCall(func(task int, spec CallSpec, rec *sched.CallRec, res *CallResult) {
		if !rec.Done || rec.Hung || res == nil {
			prop := "C19"
			if spec.Kind == "multi" || spec.Kind == "mcache" {
				prop = "C20"
			}
			out.violate(prop, "call-never-returned", "task %d call %d (%s %v) started at step %d never returned (run ended: %s)", task, rec.Index, spec.Kind, truncArgv(firstArgv(spec)), rec.StartStep, out.Reason)
			return
		}
		ctxEnded := rec.CancelStep >= 0 || (spec.TimeoutMs > 0 && !rec.Deadline.IsZero() && !rec.EndAt.Before(rec.Deadline))
		switch spec.Kind {
		case "do", "multi", "cache", "mcache":
		case "dedic":
			ce.judgeDedicated(task, spec, rec, res, arrivals, faultFree && !ctxEnded)
			return
		case "mstream":
			// C21 for a streamed batch (one connection for the whole batch): a command a replica received belongs to a
			// batch for which SendToReplicas is true for EVERY command, the ones without a key included
			all := true
			for _, c := range spec.Cmds {
				all = all && specPredicate(pred, c)
			}
			for i, c := range spec.Cmds {
				uid, ok := uidOf(c.Argv)
				if !ok {
					continue
				}
				for _, a := range arrivals[uid] {
					if a.ex.Role != "slave" || failoverBefore(ce.sim, a.ex.Step) || cl.ReplicaOnly {
						continue
					}
					out.probe("streamed-batch-at-replica")
					if !all {
						out.violate("C21", "replica-without-opt-in", "task %d call %d cmd %d %q of a streamed batch reached replica %s although SendToReplicas(%s) is not true for every command of the batch", task, rec.Index, i, truncArgv(c.Argv), a.ex.Node, pred)
					} else {
						out.judged("streamed-batch-opted-in")
					}
				}
			}
			return
		default:
			ce.judgeHelper(task, spec, rec, res, faultFree && !ctxEnded)
			return
		}
		judgedCalls++
		prop := "C19"
		if spec.Kind == "multi" || spec.Kind == "mcache" {
			prop = "C20"
		}
		if len(res.Res) != len(spec.Cmds) {
			out.violate(prop, "result-count", "%stask %d call %d: %d results for %d commands", kindTag(spec.Kind), task, rec.Index, len(res.Res), len(spec.Cmds))
			return
		}
		// the redirect rules are C19's; for a member of a batch they are C20's as well ("however the batch is ... redirected")
		chainViolate := func(rule, format string, a ...any) {
			out.violate("C19", rule, format, a...)
			if prop == "C20" {
				out.violate("C20", rule, format, a...)
			}
		}
		// C28 bookkeeping for the whole call: RetryDelay answers by attempt number
		negSeen := false
		callRetryable := true
		for _, c := range spec.Cmds {
			if c.Flag != "ro" && c.Flag != "retry" && len(c.Argv) > 1 {
				callRetryable = false
			}
			if uid, ok := uidOf(c.Argv); ok {
				for _, d := range delaysByUID[uid] {
					if d.Delay < 0 {
						negSeen = true
					}
				}
			}
		}
		_ = callRetryable
		for i, r := range res.Res {
			c := spec.Cmds[i]
			argv := c.Argv
			uid, hasUID := uidOf(argv)
			tx, inTx := txPosition(spec.Cmds, i)
			att := arrivals[uid]
			// ---- value ----
			if r.Err != "" {
				if (r.ErrKind == "ctx-deadline" || r.ErrKind == "ctx-canceled") && (spec.TimeoutMs > 0 || rec.CancelStep >= 0) {
					out.judged("ctx-error")
				} else if (r.ErrKind == "ctx-deadline" || r.ErrKind == "ctx-canceled") && cl.Cancel {
					// another caller's cancellation ended a dial this call was sharing
					out.notJudged("context-error-of-a-shared-dial")
				} else if faultFree && !ctxEnded && cl.Stable {
					out.violate(prop, "unexpected-error", "task %d call %d cmd %d %q: error %q in a stable, fault-free plan", task, rec.Index, i, truncArgv(argv), r.Err)
				} else {
					out.notJudged("transport-error-under-faults-or-change")
				}
			} else {
				exp, known := expectedReply(argv)
				if inTx && !txOpened(spec.Cmds, res.Res, i) {
					// the server refused MULTI itself (LOADING, CLUSTERDOWN...): what follows is not a transaction
					out.notJudged("transaction-not-opened-by-server")
					known = false
					inTxJudge := false
					_ = inTxJudge
				} else if inTx {
					switch tx {
					case "queued":
						exp, known = resp.Simple("QUEUED"), true
					case "multi":
						exp, known = resp.OK(), true
					case "exec":
						arr := resp.Arr()
						known = true
						for j := i - 1; j >= 0 && strings.ToUpper(spec.Cmds[j].Argv[0]) != "MULTI"; j-- {
							v, ok := expectedReply(spec.Cmds[j].Argv)
							if !ok {
								known = false
								break
							}
							arr.A = append([]resp.Value{v}, arr.A...)
						}
						exp = arr
					}
				}
				switch {
				case !known:
					out.notJudged("reply-not-a-function-of-argv")
				case valEqual(normalize(exp, 3), r.V):
					out.judged("reply-matches")
				case r.V.T == '-' || r.V.T == '!' || (inTx && r.V.T == '_'):
					// an error reply: must be what the model last answered for this command (redirect limit reached, retry
					// policy said stop, non-retryable command). Judged below through the attempt chain.
					if cl.Stable && faultFree && !ctxEnded {
						out.violate(prop, "error-reply-in-stable-plan", "task %d call %d cmd %d %q: got %s in a stable, fault-free plan", task, rec.Index, i, truncArgv(argv), truncStr(r.V.String(), 200))
					} else {
						out.judged("error-reply-under-change")
					}
				default:
					dbg := ""
					if len(att) > 0 {
						lx := att[len(att)-1].ex
						dbg = "; attempts " + attemptNodes(att) + "; last connection carried " + connTail(byConn[lx.Conn], minInt(connIdx[lx]+3, len(byConn[lx.Conn])-1), 9)
					}
					out.violate(prop, "wrong-reply", "%stask %d call %d cmd %d %q: got %s want %s%s", kindTag(spec.Kind), task, rec.Index, i, truncArgv(argv), truncStr(r.V.String(), 300), truncStr(normalize(exp, 3).String(), 300), dbg)
				}
			}
			if !hasUID || len(att) == 0 {
				continue
			}
			// ---- C20/C19: an error reply handed to the caller of a cached read is one the cluster gave to THIS command ----
			if (spec.Kind == "cache" || spec.Kind == "mcache") && r.Err == "" && (r.V.T == '-' || r.V.T == '!') && faultFree && !ctxEnded {
				own := false
				anyErr := false
				for _, a := range att {
					if a.ex.Reply.IsErr() {
						anyErr = true
						if a.ex.Reply.S == r.V.S {
							own = true
						}
					}
				}
				// errors the server gave to the control commands wrapped around this very command (CLIENT CACHING, MULTI,
				// PTTL, EXEC): e.g. a node that answers MULTI with LOADING makes EXEC answer "ERR EXEC without MULTI"
				ctl := false
				for _, a := range att {
					l := byConn[a.ex.Conn]
					at := connIdx[a.ex]
					for j := maxInt(0, at-4); j <= at+1 && j < len(l); j++ {
						if _, isUID := uidOf(l[j].Argv); !isUID && l[j].Reply.IsErr() && l[j].Reply.S == r.V.S {
							ctl = true
						}
					}
				}
				switch {
				case own:
					out.judged("error-is-the-commands-own")
				case strings.HasPrefix(r.V.S, "EXECABORT") && !anyErr:
					out.judged("execabort-without-own-error") // the transaction around the cached read was refused for another reason
				case ctl && !strings.HasPrefix(r.V.S, "EXECABORT"):
					out.judged("error-of-the-wrapping-transaction")
				default:
					out.violate(prop, "error-of-another-command", "%stask %d call %d cmd %d %q returned %s, which the cluster never answered to this command (its own answers: %s)", kindTag(spec.Kind), task, rec.Index, i, truncArgv(argv), truncStr(r.V.String(), 160), attemptNodes(att))
				}
			}
			// ---- C19: first attempt in stable plans ----
			first := att[0]
			slot := fakeredis.KeySlot(argv[1])
			if cl.Stable && faultFree {
				owner := ""
				if o := ce.cluster.Owner(slot); o != nil {
					owner = o.Addr
				}
				node := first.ex.Node
				toRep := specPredicate(pred, c) && !inTx && !(spec.Kind == "multi" && hasSlotless(spec.Cmds))
				switch {
				case cl.ReplicaOnly:
					if ce.shardOf(node) != ce.shardOf(owner) {
						out.violate("C19", "first-attempt-wrong-shard", "task %d call %d cmd %d %q (slot %d, owner %s) was first sent to %s", task, rec.Index, i, truncArgv(argv), slot, owner, node)
					}
				case node == owner:
					out.judged("first-attempt-at-owner")
				case ce.shardOf(node) == ce.shardOf(owner) && toRep:
					out.judged("first-attempt-at-replica-of-owner")
				case ce.shardOf(node) == ce.shardOf(owner):
					// at a replica without opting in: C21 reports it below
				default:
					out.violate("C19", "first-attempt-wrong-node", "task %d call %d cmd %d %q (slot %d, owner %s) was first sent to %s", task, rec.Index, i, truncArgv(argv), slot, owner, node)
				}
				if len(att) > 1 && !cl.ReplicaOnly && !toRep {
					out.violate("C19", "resent-in-stable-plan", "task %d call %d cmd %d %q reached nodes %d times in a stable, fault-free plan: %s", task, rec.Index, i, truncArgv(argv), len(att), attemptNodes(att))
				}
			}
			// ---- C19: an attempt that does not follow a redirect goes to a node that some topology answer or MOVED reply
			// had named as the owner of the slot (or to a member of that node's shard); ASK never makes a node the owner
			for j, a := range att {
				if j > 0 {
					break // a batch retries a command at the node that answered last, whoever that is: only first attempts are judged
				}
				if known, any := namedBefore(slot, a.ex.Seq, a.ex.Node); any && !known {
					out.violate("C19", "sent-to-node-never-named-owner", "task %d call %d cmd %d %q (slot %d) was sent to %s, which no CLUSTER SLOTS/SHARDS answer and no MOVED reply had named as the owner of that slot until then (attempts: %s)", task, rec.Index, i, truncArgv(argv), slot, a.ex.Node, attemptNodes(att))
					break
				} else if any {
					out.judged("attempt-at-named-owner")
				}
			}
			// ---- C19: redirect chain ----
			followed := 0
			retrySends := 0
			for j := 0; j+1 < len(att); j++ {
				a, b := att[j], att[j+1]
				switch {
				case a.redirect != "":
					followed++
					if b.ex.Node != a.to {
						// a transport failure between the redirect and the re-send may legitimately change the route
						if faultFree && !intervening(att, j) {
							chainViolate("redirect-not-followed", "task %d call %d cmd %d %q: %s answered %s %s but the next attempt went to %s (%s)", task, rec.Index, i, truncArgv(argv), a.ex.Node, a.redirect, a.to, b.ex.Node, attemptNodes(att))
						}
					} else {
						out.judged("redirect-followed")
					}
					if a.redirect == "ASK" && b.ex.Node == a.to && faultFree {
						if !precededByAsking(byConn[b.ex.Conn], connIdx[b.ex]) {
							chainViolate("ask-without-asking", "task %d call %d cmd %d %q: sent to %s after ASK without ASKING in front of it on that connection; the connection carried %s", task, rec.Index, i, truncArgv(argv), b.ex.Node, connTail(byConn[b.ex.Conn], connIdx[b.ex], 7))
						} else {
							out.judged("asking-precedes")
						}
					}
				default:
					retrySends++
				}
			}
			if cl.MaxMoved > 0 && followed > cl.MaxMoved && faultFree {
				chainViolate("too-many-redirects", "task %d call %d cmd %d %q followed %d redirects with MaxMovedRedirections=%d: %s", task, rec.Index, i, truncArgv(argv), followed, cl.MaxMoved, attemptNodes(att))
			}
			last := att[len(att)-1]
			if last.redirect != "" && faultFree && !ctxEnded && r.Err == "" {
				// the client stopped at a redirect: allowed only when the limit is reached
				if cl.MaxMoved == 0 || (followed < cl.MaxMoved && (spec.Kind == "do" || spec.Kind == "cache")) {
					// (for batches the limit counts rounds of the whole call, not redirects of one command)
					if !inTx {
						chainViolate("redirect-returned-to-caller", "task %d call %d cmd %d %q: %s %s was not followed (followed so far %d, MaxMovedRedirections=%d), result %s", task, rec.Index, i, truncArgv(argv), last.redirect, last.to, followed, cl.MaxMoved, truncStr(r.V.String(), 120))
					}
				} else {
					out.probe("redirect-limit-reached")
				}
			}
			// final reply = what the model answered last (single commands outside transactions)
			if faultFree && !ctxEnded && !inTx && r.Err == "" && (spec.Kind == "do" || spec.Kind == "multi") && !last.ex.Queued {
				if want := normalize(last.ex.Reply, 3); !valEqual(want, r.V) {
					out.violate(prop, "not-the-final-reply", "task %d call %d cmd %d %q returned %s but the last node asked (%s) answered %s", task, rec.Index, i, truncArgv(argv), truncStr(r.V.String(), 200), last.ex.Node, truncStr(want.String(), 200))
				} else {
					out.judged("final-reply")
				}
			}
			// ---- C21 ----
			for _, a := range att {
				if a.ex.Role != "slave" {
					continue
				}
				if failoverBefore(ce.sim, a.ex.Step) {
					// after a failover the client may still believe that the demoted node is the primary
					out.notJudged("replica-role-after-failover")
					continue
				}
				out.probe("command-at-replica")
				if cl.ReplicaOnly {
					continue
				}
				if !specPredicate(pred, c) {
					out.violate("C21", "replica-without-opt-in", "task %d call %d cmd %d %q reached replica %s although SendToReplicas(%s) is false for it", task, rec.Index, i, truncArgv(argv), a.ex.Node, pred)
				} else if strings.HasSuffix(cl.Selector, ":oob") || strings.HasSuffix(cl.Selector, ":neg") {
					if cl.Stable {
						out.violate("C21", "selector-out-of-range-not-primary", "task %d call %d cmd %d %q reached replica %s although the node selector returned an index outside the candidates", task, rec.Index, i, truncArgv(argv), a.ex.Node)
					}
				}
			}
			if cl.Stable && faultFree && specPredicate(pred, c) && !inTx && !cl.ReplicaOnly && !(spec.Kind == "multi" && hasSlotless(spec.Cmds)) {
				// opted in: with a selector that stays in range and a shard that lists a replica the command must not go to the primary
				si := ce.shardOf(first.ex.Node)
				var reps []string
				if si >= 0 {
					for _, rp := range ce.cp.Cl.Shards[si].Replicas {
						if ce.listed(rp, false) {
							reps = append(reps, rp)
						}
					}
				}
				inRange := cl.Selector == "" || strings.HasPrefix(cl.Selector, "rs:") && (strings.HasSuffix(cl.Selector, ":0") || strings.HasSuffix(cl.Selector, ":last") || strings.HasSuffix(cl.Selector, ":mod"))
				if len(reps) > 0 && inRange {
					if first.ex.Role != "slave" {
						out.violate("C21", "opted-in-but-primary", "task %d call %d cmd %d %q was sent to primary %s although SendToReplicas is true and the replica selector returned a valid replica index (listed replicas %v)", task, rec.Index, i, truncArgv(argv), first.ex.Node, reps)
					} else {
						out.judged("opted-in-at-replica")
					}
				}
			}
			// ---- C20: a MULTI...EXEC block is executed at most once per call (fault-free) ----
			if inTx && tx == "queued" && faultFree && !ctxEnded {
				if executed[uid] > 1 {
					out.violate("C20", "transaction-executed-twice", "task %d call %d cmd %d %q inside a MULTI...EXEC block was executed %d times although no connection was lost (arrivals %s)", task, rec.Index, i, truncArgv(argv), executed[uid], attemptNodes(att))
				} else {
					out.judged("tx-member-executed-at-most-once")
				}
			}
			// ---- C03 (cluster clause): non-retryable writes execute at most once ----
			// (plans with ConnLifetime: judgeLifetimeRecovery below tells the known finding - a write still unanswered
			// when its connection expired is sent again - from a re-execution of a write the client had the answer to)
			if strings.ToUpper(argv[0]) == "VWTAG" && c.Flag == "" && !lifetime {
				if executed[uid] > 1 {
					out.violate("C03", "executed-twice", "task %d call %d cmd %d %q was executed %d times by the cluster (nodes %s)", task, rec.Index, i, truncArgv(argv), executed[uid], attemptNodes(att))
				} else {
					out.judged("write-at-most-once")
				}
			}
			// ---- C28 (cluster clause) ----
			if retrySends > 0 && !inTx && lifetime {
				out.notJudged("re-send-after-lifetime-expiry")
			} else if retrySends > 0 && !inTx {
				out.probe("command-re-sent-after-error")
				retryable := c.Flag == "ro" || c.Flag == "retry"
				switch {
				case ce.plan.Opt.DisableRetry:
					out.violate("C28", "retry-although-disabled", "task %d call %d cmd %d %q was re-sent %d time(s) after a retryable error with DisableRetry (nodes %s)", task, rec.Index, i, truncArgv(argv), retrySends, attemptNodes(att))
				case !retryable && !inTx:
					out.violate("C28", "unsafe-retry", "task %d call %d cmd %d %q (flag %q) was re-sent %d time(s) after an error (nodes %s)", task, rec.Index, i, truncArgv(argv), c.Flag, retrySends, attemptNodes(att))
				case len(ce.plan.Opt.RetryDelaysMs) > 0 && !inTx:
					// every re-send after an error needs its own non-negative RetryDelay answer for this command (the function
					// is consulted for every failing command of every round; a round that also had redirects is repeated
					// without waiting, so the attempt number passed to the function does not identify the round)
					nonNeg := 0
					for _, d := range delaysByUID[uid] {
						if d.Delay >= 0 {
							nonNeg++
						}
					}
					if retrySends > nonNeg {
						out.violate("C28", "retry-without-policy", "task %d call %d cmd %d %q was re-sent %d time(s) after errors but RetryDelay returned a non-negative delay for it only %d time(s) (negative answer seen in this call: %v; nodes %s)", task, rec.Index, i, truncArgv(argv), retrySends, nonNeg, negSeen, attemptNodes(att))
					}
					out.judged("retry-judged")
				}
			}
		}
		// ---- C21: a selector whose answer varies from call to call: command k goes where ITS answer says ----
		if cl.Selector == "rn:alt" && cl.Stable && faultFree && (spec.Kind == "do" || spec.Kind == "multi") && !hasSlotless(spec.Cmds) {
			var calls []selCall
			for _, sc := range ce.selLog {
				if sc.who == fmt.Sprintf("t%d", task) && sc.step >= rec.StartStep && (rec.EndStep < 0 || sc.step <= rec.EndStep) {
					calls = append(calls, sc)
				}
			}
			var elig []int
			for i, c := range spec.Cmds {
				if specPredicate(pred, c) {
					elig = append(elig, i)
				}
			}
			if len(calls) != len(elig) {
				out.notJudged("selector-consulted-another-number-of-times")
			} else {
				for k, i := range elig {
					uid, _ := uidOf(spec.Cmds[i].Argv)
					att := arrivals[uid]
					if len(att) == 0 {
						continue
					}
					sc := calls[k]
					wantReplica := sc.result >= 1 && sc.result < sc.n
					gotReplica := att[0].ex.Role == "slave"
					if wantReplica != gotReplica {
						out.violate("C21", "selector-answer-not-honoured", "task %d call %d cmd %d %q: the read-node selector returned %d of %d candidates for it (index 0 = primary, outside the list = primary) but it was sent to %s (role %s)", task, rec.Index, i, truncArgv(spec.Cmds[i].Argv), sc.result, sc.n, att[0].ex.Node, att[0].ex.Role)
					} else {
						out.judged("selector-answer-honoured")
					}
				}
			}
		}
		// ---- C20: transaction blocks arrive whole and contiguous ----
		if spec.Kind == "multi" && hasSlotless(spec.Cmds) {
			ce.judgeTx(task, spec, rec, arrivals, byConn, connIdx)
		}
	})
	// C11 (batched cache reads are positional) states for DoMultiCache / MGetCache / JsonMGetCache what C20 and C31 state
	// for batches and helpers in general: the positional rules of those calls are reported under C11 as well
	for _, v := range append([]Violation(nil), out.Violations...) {
		cached := strings.Contains(v.Detail, "(mcache ") || strings.Contains(v.Detail, " mgetcache") || strings.Contains(v.Detail, " jmgetcache") || strings.HasPrefix(v.Detail, "[mcache]")
		if cached && (v.Prop == "C20" || v.Prop == "C31") && (v.Rule == "wrong-reply" || v.Rule == "result-count" || v.Rule == "helper-key-set" || v.Rule == "helper-wrong-value" || v.Rule == "error-of-another-command") {
			out.violate("C11", v.Rule, "%s", v.Detail)
		}
	}
	out.Nontrivial = judgedCalls > 0 && len(w.Log) > 0
	if cl.Stable {
		out.probe("stable-topology")
	} else {
		out.probe("changing-topology")
	}
	if len(cl.Nodes) > 0 {
		for _, o := range cl.Nodes {
			if o.Endpoint != "" || o.Health != "" {
				out.probe("unlisted-or-endpointless-node")
				break
			}
		}
	}
}

func connTail(l []*fakeredis.Exec, i, n int) string {
	var sb strings.Builder
	for j := maxInt(0, i-n); j <= i && j < len(l); j++ {
		sb.WriteString(fmt.Sprintf("[%s => %s] ", truncStr(strings.Join(l[j].Argv, " "), 40), truncStr(l[j].Reply.String(), 30)))
	}
	return sb.String()
}

// txOpened reports whether the MULTI in front of command i of the batch was answered with OK.
func txOpened(cmds []CmdSpec, res []Res, i int) bool {
	for j := i; j >= 0; j-- {
		if len(cmds[j].Argv) == 1 && strings.ToUpper(cmds[j].Argv[0]) == "MULTI" {
			return res[j].Err == "" && res[j].V.T == '+' && res[j].V.S == "OK"
		}
	}
	return false
}

func failoverBefore(s *sched.Sim, step int) bool {
	for _, g := range s.Ghosts {
		if g.Done && g.DoneStep <= step && strings.HasPrefix(g.Name, "failover") {
			return true
		}
	}
	return false
}

// judgeDedicated (C25, cluster part): the session's commands travel on one connection; calls through the handle after
// its release fail with ErrDedicatedClientRecycled and never reach a server.
func (ce *clusterEnv) judgeDedicated(task int, spec CallSpec, rec *sched.CallRec, res *CallResult, arrivals map[string][]*clAttempt, strict bool) {
	out := ce.out
	n := spec.N
	if len(res.Res) != len(spec.Cmds) {
		out.violate("C25", "result-count", "task %d call %d dedicated session: %d results for %d commands", task, rec.Index, len(res.Res), len(spec.Cmds))
		return
	}
	conn := -1
	for i, c := range spec.Cmds[:n] {
		uid, _ := uidOf(c.Argv)
		for _, a := range arrivals[uid] {
			if a.redirect != "" {
				continue
			}
			if conn >= 0 && a.ex.Conn != conn && strict {
				out.violate("C25", "session-split", "task %d call %d: commands of one dedicated cluster session reached connections %d and %d", task, rec.Index, conn, a.ex.Conn)
			}
			conn = a.ex.Conn
		}
		if r := res.Res[i]; r.Err == "" && r.V.T != '-' && r.V.T != '!' {
			// (error replies, e.g. MOVED for a write a ReplicaOnly client sent to a replica, are the caller's to handle:
			// a dedicated client does not follow redirects)
			if exp, ok := expectedReply(c.Argv); ok && !valEqual(normalize(exp, 3), r.V) && strict {
				out.violate("C25", "wrong-reply", "task %d call %d cmd %d %q in a dedicated cluster session: got %s", task, rec.Index, i, truncArgv(c.Argv), truncStr(r.V.String(), 200))
			}
		}
	}
	for i := n; i < len(spec.Cmds); i++ {
		uid, _ := uidOf(spec.Cmds[i].Argv)
		r := res.Res[i]
		if len(arrivals[uid]) > 0 {
			out.violate("C25", "sent-after-release", "task %d call %d: %q, issued through a dedicated cluster client after its release, reached %s", task, rec.Index, truncArgv(spec.Cmds[i].Argv), attemptNodes(arrivals[uid]))
		}
		if !strings.Contains(r.Err, ErrDedicatedClientRecycled.Error()) {
			out.violate("C25", "use-after-release", "task %d call %d: %q through a released dedicated cluster client returned %q / %s instead of ErrDedicatedClientRecycled", task, rec.Index, truncArgv(spec.Cmds[i].Argv), r.Err, truncStr(r.V.String(), 80))
		} else {
			out.judged("use-after-release-refused")
		}
	}
	out.probe("dedicated-cluster-session")
}

func kindTag(kind string) string {
	if kind == "mcache" {
		return "[mcache] "
	}
	return ""
}

func hasSlotless(cmds []CmdSpec) bool {
	for _, c := range cmds {
		if len(c.Argv) == 1 {
			return true
		}
	}
	return false
}

func attemptNodes(att []*clAttempt) string {
	var sb strings.Builder
	for i, a := range att {
		if i > 0 {
			sb.WriteString(" -> ")
		}
		sb.WriteString(fmt.Sprintf("%s@step%d[%s]", a.ex.Node, a.ex.Step, truncStr(a.ex.Reply.String(), 40)))
	}
	return sb.String()
}

// intervening reports whether a non-redirect answer sits between attempt j and j+1 (never: attempts are consecutive);
// kept for clarity of the rule: a redirect must be followed by an attempt at the named node.
func intervening(att []*clAttempt, j int) bool { return false }

// precededByAsking walks back from command i of a connection over the commands of the same transaction block
// (queued commands and their MULTI) and reports whether ASKING stands in front.
func precededByAsking(l []*fakeredis.Exec, i int) bool {
	sameCall := func(a, b []string) bool {
		ua, ok1 := uidOf(a)
		ub, ok2 := uidOf(b)
		if !ok1 || !ok2 {
			return false
		}
		ta, ca, _, ok3 := parseUID(ua)
		tb, cb, _, ok4 := parseUID(ub)
		return ok3 && ok4 && ta == tb && ca == cb
	}
	j := i - 1
	for j >= 0 {
		name := strings.ToUpper(l[j].Argv[0])
		if name == "MULTI" || name == "PTTL" || sameCall(l[j].Argv, l[i].Argv) {
			j--
			continue
		}
		return name == "ASKING"
	}
	return false
}

// judgeTx: every arrival of a command of a MULTI...EXEC block happens inside a complete copy of the block on one
// connection: [ASKING] MULTI c1..cn EXEC with nothing else in between.
func (ce *clusterEnv) judgeTx(task int, spec CallSpec, rec *sched.CallRec, arrivals map[string][]*clAttempt, byConn map[int][]*fakeredis.Exec, connIdx map[*fakeredis.Exec]int) {
	out := ce.out
	// block = commands strictly between MULTI and EXEC
	var block []CmdSpec
	in := false
	for _, c := range spec.Cmds {
		switch {
		case len(c.Argv) == 1 && strings.ToUpper(c.Argv[0]) == "MULTI":
			in = true
		case len(c.Argv) == 1 && strings.ToUpper(c.Argv[0]) == "EXEC":
			in = false
		case in:
			block = append(block, c)
		}
	}
	if len(block) == 0 {
		return
	}
	for bi, c := range block {
		uid, _ := uidOf(c.Argv)
		for _, a := range arrivals[uid] {
			l := byConn[a.ex.Conn]
			i := connIdx[a.ex]
			// position of the block's MULTI on this connection
			start := i - bi - 1
			okBlock := start >= 0 && strings.ToUpper(l[start].Argv[0]) == "MULTI" && start+len(block)+1 < len(l)+0
			if okBlock {
				for k, bc := range block {
					if argvKey(l[start+1+k].Argv) != argvKey(bc.Argv) {
						okBlock = false
						break
					}
				}
			}
			if okBlock && strings.ToUpper(l[start+len(block)+1].Argv[0]) != "EXEC" {
				okBlock = false
			}
			if !okBlock {
				// the connection may have been cut in the middle of the block by a fault
				lk := ce.sim.LinkOf(a.ex.Conn)
				if lk != nil && (lk.Dead || lk.SrvClosed) && start >= 0 && start+len(block)+1 >= len(l) {
					out.notJudged("tx-block-cut-by-connection-loss")
					continue
				}
				var got []string
				for k := maxInt(0, start); k < len(l) && k <= start+len(block)+1; k++ {
					got = append(got, strings.Join(l[k].Argv, " "))
				}
				out.violate("C20", "transaction-not-contiguous", "task %d call %d: command %q of a MULTI...EXEC block arrived at %s (connection %d) outside a complete copy of the block; connection carried %q", task, rec.Index, truncArgv(c.Argv), a.ex.Node, a.ex.Conn, got)
				return
			}
			out.judged("tx-block-whole")
		}
	}
}

func maxInt(a, b int) int {
	if a > b {
		return a
	}
	return b
}

// ownerOf is the node that stores key k: the slot's primary in a cluster, the only node otherwise.
func (ce *clusterEnv) ownerOf(k string) *fakeredis.Node {
	if ce.cluster == nil {
		return ce.single
	}
	return ce.cluster.Owner(fakeredis.KeySlot(k))
}

func (ce *clusterEnv) judgeHelper(task int, spec CallSpec, rec *sched.CallRec, res *CallResult, strict bool) {
	out := ce.out
	keys := spec.Cmds[0].Argv
	uniq := map[string]bool{}
	switch spec.Kind {
	case "mget", "mgetcache", "jmget", "jmgetcache":
		isJSON := strings.HasPrefix(spec.Kind, "j")
		for _, k := range keys {
			uniq[k] = true
		}
		if res.Err != "" {
			if strict && ce.cp.Cl.Stable {
				out.violate("C31", "helper-error", "task %d call %d %s %v: error %q in a stable, fault-free plan", task, rec.Index, spec.Kind, keys, res.Err)
			} else {
				out.notJudged("helper-error-under-faults-or-change")
			}
			return
		}
		if len(res.KV) != len(uniq) {
			out.violate("C31", "helper-key-set", "task %d call %d %s %v: result has %d keys, input has %d distinct keys", task, rec.Index, spec.Kind, keys, len(res.KV), len(uniq))
			return
		}
		for k := range uniq {
			v, ok := res.KV[k]
			if !ok {
				out.violate("C31", "helper-key-set", "task %d call %d %s %v: key %q missing from the result", task, rec.Index, spec.Kind, keys, k)
				return
			}
			// static keys are never modified: the value is exactly the preloaded one (or nil when not preloaded)
			want := resp.Nil()
			if o := ce.ownerOf(k); o != nil {
				if isJSON {
					if jv := ce.sim.W.Ghost(o.Addr, "JSON.GET", k, "$"); jv.T == '$' && !jv.Null {
						want = resp.Bulk(jv.S)
					}
				} else if sv, ok := o.DBs.Lookup(k); ok {
					want = resp.Bulk(sv)
				}
			}
			if v.V.T == '-' || v.V.T == '!' {
				if strict && ce.cp.Cl.Stable {
					out.violate("C31", "helper-wrong-value", "task %d call %d %s: key %q -> %s, the model stores %s", task, rec.Index, spec.Kind, k, v.V.String(), want.String())
				} else {
					out.notJudged("helper-error-entry-under-change")
				}
				continue
			}
			if !ce.cp.Cl.Stable {
				// under topology change a static key may be stranded on a former owner (cancelled migration): nil is
				// then the owner's honest answer; the preloaded value is the only other possibility
				pre := resp.Nil()
				for _, pl := range ce.cp.Cl.Preload {
					if pl[1] == k {
						pre = resp.Bulk(pl[2])
					}
				}
				if v.V.T == '_' || valEqual(v.V, pre) {
					out.judged("helper-entry")
				} else {
					out.violate("C31", "helper-wrong-value", "task %d call %d %s: key %q -> %s, the only value ever stored under it is %s", task, rec.Index, spec.Kind, k, truncStr(v.V.String(), 120), pre.String())
				}
				continue
			}
			if !valEqual(v.V, want) {
				out.violate("C31", "helper-wrong-value", "task %d call %d %s: key %q -> %s, the model stores %s", task, rec.Index, spec.Kind, k, truncStr(v.V.String(), 120), want.String())
			} else {
				out.judged("helper-entry")
			}
		}
	case "mset", "msetnx", "jmset":
		kv := map[string]string{}
		for i := 0; i+1 < len(keys); i += 2 {
			kv[keys[i]] = keys[i+1]
		}
		if len(res.KErr) != len(kv) {
			out.violate("C31", "helper-key-set", "task %d call %d %s: result has %d keys, input has %d", task, rec.Index, spec.Kind, len(res.KErr), len(kv))
			return
		}
		for k, val := range kv {
			es, ok := res.KErr[k]
			if !ok {
				out.violate("C31", "helper-key-set", "task %d call %d %s: key %q missing from the result", task, rec.Index, spec.Kind, k)
				return
			}
			if !(strict && ce.cp.Cl.Stable) {
				out.notJudged("helper-effect-under-topology-change")
				continue
			}
			o := ce.ownerOf(k)
			if o == nil {
				continue
			}
			preexisting := strings.Contains(k, "}nx")
			if spec.Kind == "msetnx" && ce.cluster == nil {
				// one atomic MSETNX: with an existing key among them nothing is set and every entry carries
				// ErrMSetNXNotSet; otherwise everything is set
				anyOld := false
				for k2 := range kv {
					if strings.Contains(k2, "}nx") {
						anyOld = true
					}
				}
				sv, has := o.DBs.Lookup(k)
				switch {
				case anyOld && (!strings.Contains(es, ErrMSetNXNotSet.Error()) || (preexisting && sv != "old:"+k) || (!preexisting && has)):
					out.violate("C31", "helper-wrong-entry", "task %d call %d MSetNX with an existing key in the batch: key %q -> %q, model stores %q (present=%v); want ErrMSetNXNotSet and nothing set", task, rec.Index, k, es, sv, has)
				case !anyOld && (es != "" || !has || sv != val):
					out.violate("C31", "helper-effect", "task %d call %d MSetNX of fresh keys: key %q -> %q, model stores %q (present=%v), sent %q", task, rec.Index, k, es, sv, has, val)
				default:
					out.judged("helper-entry")
				}
				continue
			}
			switch {
			case spec.Kind == "msetnx" && preexisting:
				// SET NX on an existing key: that key's reply is nil, its old value stays
				if sv, _ := o.DBs.Lookup(k); es != "nil" || sv != "old:"+k {
					out.violate("C31", "helper-wrong-entry", "task %d call %d MSetNX: existing key %q -> %q (want the nil reply of its own SET NX), model stores %q", task, rec.Index, k, es, sv)
				} else {
					out.judged("helper-entry")
				}
			case es != "":
				out.violate("C31", "helper-error", "task %d call %d %s: key %q -> error %q in a stable, fault-free plan", task, rec.Index, spec.Kind, k, es)
			case spec.Kind == "jmset":
				jv := ce.sim.W.Ghost(o.Addr, "JSON.GET", k, "$.u")
				if !strings.Contains(jv.S, val[strings.Index(val, `"u":`)+4:len(val)-1]) {
					out.violate("C31", "helper-effect", "task %d call %d JsonMSet reported success for %q but the model stores %s (sent %s)", task, rec.Index, k, truncStr(jv.String(), 120), val)
				} else {
					out.judged("helper-entry")
				}
			default:
				if sv, has := o.DBs.Lookup(k); !has || sv != val {
					out.violate("C31", "helper-effect", "task %d call %d %s reported success for %q but the model stores %q (present=%v), sent %q", task, rec.Index, spec.Kind, k, sv, has, val)
				} else {
					out.judged("helper-entry")
				}
			}
		}
	case "mdel", "mset1":
		if spec.Kind == "mset1" {
			keys = keys[:1]
		}
		for _, k := range keys {
			uniq[k] = true
		}
		if len(res.KErr) != len(uniq) {
			out.violate("C31", "helper-key-set", "task %d call %d %s %v: result has %d keys, input has %d distinct keys", task, rec.Index, spec.Kind, keys, len(res.KErr), len(uniq))
			return
		}
		for k := range uniq {
			es, ok := res.KErr[k]
			if !ok {
				out.violate("C31", "helper-key-set", "task %d call %d %s %v: key %q missing from the result", task, rec.Index, spec.Kind, keys, k)
				return
			}
			if es != "" {
				if strict && ce.cp.Cl.Stable {
					out.violate("C31", "helper-error", "task %d call %d %s: key %q -> error %q in a stable, fault-free plan", task, rec.Index, spec.Kind, k, es)
				} else {
					out.notJudged("helper-error-entry-under-change")
				}
				continue
			}
			// success reported for k: the model must agree (these keys belong to this call alone)
			// (looked up on every node: under topology change a key may live on a former owner)
			sv, has := "", false
			for _, a := range ce.sim.W.NodeAddrs() {
				if v, ok := ce.sim.W.Nodes[a].DBs.Lookup(k); ok {
					sv, has = v, true
				}
			}
			if !ce.cp.Cl.Stable {
				// a key stranded on a former owner by a cancelled migration is not reached by the owner's DEL/SET
				out.notJudged("helper-effect-under-topology-change")
				continue
			}
			if spec.Kind == "mdel" && has {
				out.violate("C31", "helper-effect", "task %d call %d MDel reported success for %q but the model still stores %q", task, rec.Index, k, sv)
			} else if spec.Kind == "mset1" && (!has || sv != spec.Cmds[0].Argv[1]) {
				out.violate("C31", "helper-effect", "task %d call %d MSet reported success for %q but the model stores %q (present=%v)", task, rec.Index, k, sv, has)
			} else {
				out.judged("helper-entry")
			}
		}
	}
}

var _ = rand.Int
