//go:build verif

package rueidis

import (
	"bufio"
	"bytes"
	"fmt"
	"io"
	"runtime"
	"strconv"
	"testing"

	"verifsim/fakeredis"
	"verifsim/resp"
	"verifsim/sched"
)

// resp-garbage: a peer's reply stream corrupted at an arbitrary point (a fault), fed to the decoder through a reader
// that returns the bytes in seeded cuts.

func init() {
	registerScenario(&scenario{name: "resp-garbage", gen: genGarbage, load: loadGarbagePlan, exec: execGarbage})
}

type Mutation struct {
	Kind string `json:"kind"` // flip, set, trunc, len, type, insert
	Off  int    `json:"off"`  // offset (modulo stream length) or index of the length field
	Val  string `json:"val,omitempty"`
	N    int    `json:"n,omitempty"` // nest: levels; bigtail: payload bytes that really follow
}

type GarbagePlan struct {
	Scenario string     `json:"scenario"`
	Shapes   []string   `json:"shapes"`
	Pads     []int      `json:"pads"`
	Proto    int        `json:"proto"`
	Muts     []Mutation `json:"muts"`
	Cut      int        `json:"cut"`    // max bytes per Read (0 = all)
	Stream   bool       `json:"stream"` // decode through streamTo instead of readNextMessage
	BufSize  int        `json:"buf_size"`
}

func loadGarbagePlan(b []byte) (any, error) {
	p := &GarbagePlan{}
	if err := jsonUnmarshal(b, p); err != nil {
		return nil, err
	}
	return p, nil
}

var evilLens = []string{"-2", "-3", "-100", "-2147483648", "-9223372036854775808", "9223372036854775807", "9223372036854775808", "99999999999999999999",
	"2147483648", "4294967296", "1000000000", "100000000000", "1000000000000000", "536870912", "-0", "+5", "1e3", ""}

func genGarbage(seed uint64, tier, variant string) any {
	enum := variant == "enum"
	base := seed
	off := 0
	if enum {
		base, off = seed>>9, int(seed&511)
	}
	r := planRand(base, 0xC13)
	p := &GarbagePlan{Scenario: "resp-garbage", Proto: pick(r, 3, 3, 2), Cut: pick(r, 0, 1, 3, 7, 64), Stream: r.IntN(5) == 0, BufSize: pick(r, 32, 64, 4096)}
	n := 1 + r.IntN(3)
	if enum {
		n = 1
	}
	for i := 0; i < n; i++ {
		depth := 2 + r.IntN(3)
		if enum {
			depth = 2
		}
		p.Shapes = append(p.Shapes, deepShape(r, 0, depth))
		p.Pads = append(p.Pads, pick(r, 0, 0, 3, 40, 700))
	}
	if p.Stream {
		p.Shapes = []string{string("sbidgvSne"[r.IntN(9)])}
		p.Pads = p.Pads[:1]
	}
	if enum {
		kinds := []string{"flip", "set", "trunc", "type", "len", "insert"}
		k := kinds[int(base)%len(kinds)]
		p.Muts = []Mutation{{Kind: k, Off: off, Val: evilLens[(int(base)/len(kinds))%len(evilLens)]}}
		return p
	}
	for i, m := 0, 1+r.IntN(2); i < m; i++ {
		k := pick(r, "flip", "set", "trunc", "type", "len", "len", "len", "insert", "nest", "bigtail")
		p.Muts = append(p.Muts, Mutation{Kind: k, Off: r.IntN(1 << 16), Val: evilLens[r.IntN(len(evilLens))]})
		switch k {
		case "nest":
			// Off encodes (position, aggregate type); N levels of headers with a declared length
			// ("?" = the streamed form of an aggregate, which has its own decoder path)
			p.Muts[i].Val = pick(r, "1", "2", "?", "?", "100000000", "26214", "4294967296", evilLens[r.IntN(len(evilLens))])
			p.Muts[i].N = pick(r, 10, 500, 3000, 9999, 10001, 20000)
			if r.IntN(40) == 0 {
				p.Muts[i].Val, p.Muts[i].N = pick(r, "1", "?"), 6_000_000 // deep enough to exhaust a goroutine stack if the decoder recurses freely
			}
		case "bigtail":
			// a blob whose declared length is wrong or huge, followed by N bytes of real payload
			p.Muts[i].N = pick(r, 0, 100, 70_000, 1<<20+100, 3<<20)
			if r.IntN(2) == 0 {
				p.Muts[i].Val = pick(r, "100663296", "1073741824", "4611686018427387904", "9223372036854775807")
			}
		}
	}
	return p
}

// cutReader returns at most cut bytes per Read.
type cutReader struct {
	b   []byte
	cut int
}

func (c *cutReader) Read(p []byte) (int, error) {
	if len(c.b) == 0 {
		return 0, io.EOF
	}
	n := len(p)
	if c.cut > 0 && n > c.cut {
		n = c.cut
	}
	if n > len(c.b) {
		n = len(c.b)
	}
	copy(p, c.b[:n])
	c.b = c.b[n:]
	return n, nil
}

// lengthFields finds the decimal length fields of a RESP stream (after $ * % ~ > | = ! ;).
func lengthFields(b []byte) [][2]int {
	var out [][2]int
	for i := 0; i < len(b); i++ {
		switch b[i] {
		case '$', '*', '%', '~', '>', '|', '=', '!', ';':
			if i > 0 && b[i-1] != '\n' {
				continue
			}
			j := i + 1
			for j < len(b) && b[j] != '\r' {
				j++
			}
			if j < len(b) && j > i+1 && j-i < 24 {
				out = append(out, [2]int{i + 1, j})
			}
		}
	}
	return out
}

func mutate(b []byte, m Mutation) []byte {
	if len(b) == 0 {
		return b
	}
	off := m.Off % len(b)
	switch m.Kind {
	case "flip":
		c := append([]byte(nil), b...)
		c[off] ^= 1 << (uint(m.Off/len(b)) % 8)
		return c
	case "set":
		c := append([]byte(nil), b...)
		c[off] = "\r\n$*-:_#,%~>|.;?!=(0"[(m.Off/len(b))%20]
		return c
	case "trunc":
		return append([]byte(nil), b[:off]...)
	case "type":
		// replace a type byte at the start of some frame
		lf := lengthFields(b)
		if len(lf) == 0 {
			return b
		}
		f := lf[m.Off%len(lf)]
		c := append([]byte(nil), b...)
		c[f[0]-1] = "$*%~>|=!;:+-_#,("[(m.Off/len(lf))%16]
		return c
	case "len":
		lf := lengthFields(b)
		if len(lf) == 0 {
			return b
		}
		f := lf[m.Off%len(lf)]
		c := append([]byte(nil), b[:f[0]]...)
		c = append(c, m.Val...)
		c = append(c, b[f[1]:]...)
		return c
	case "nest":
		hdr := string("*%~>|*"[(m.Off/len(b))%6]) + m.Val + "\r\n"
		c := append([]byte(nil), b[:off]...)
		c = append(c, bytes.Repeat([]byte(hdr), m.N)...)
		c = append(c, b[off:]...)
		return c
	case "bigtail":
		c := append([]byte(nil), b...)
		c = append(c, string("$=!"[m.Off%3])+m.Val+"\r\n"...)
		c = append(c, bytes.Repeat([]byte{'x'}, m.N)...)
		return c
	case "insert":
		c := append([]byte(nil), b[:off]...)
		c = append(c, "*"+m.Val+"\r\n"...)
		c = append(c, b[off:]...)
		return c
	}
	return b
}

type discard struct{ n int64 }

func (d *discard) Write(p []byte) (int, error) { d.n += int64(len(p)); return len(p), nil }

func execGarbage(t *testing.T, plan any, out *Outcome) {
	p := plan.(*GarbagePlan)
	var stream []byte
	for i, sh := range p.Shapes {
		uid := "g" + strconv.Itoa(i)
		if p.Pads[i] > 0 {
			uid = fakeredis.PadUID(uid, p.Pads[i])
		}
		v, ok := fakeredis.BuildShape(uid, sh)
		if !ok {
			out.HarnessErr = "bad shape " + sh
			return
		}
		stream = resp.Encode(stream, v, p.Proto)
	}
	orig := len(stream)
	for _, m := range p.Muts {
		stream = mutate(stream, m)
	}
	out.Config = fmt.Sprintf("proto=%d,stream=%v,cut=%d,muts=%d", p.Proto, p.Stream, p.Cut, len(p.Muts))
	var ms0, ms1 runtime.MemStats
	runtime.ReadMemStats(&ms0)
	panicked := ""
	decoded := 0
	func() {
		defer func() {
			if r := recover(); r != nil {
				panicked = fmt.Sprint(r)
			}
		}()
		rd := bufio.NewReaderSize(&cutReader{b: stream, cut: p.Cut}, p.BufSize)
		for i := 0; i < 64; i++ {
			var err error
			if p.Stream {
				_, err, _ = streamTo(rd, &discard{})
			} else {
				_, err = readNextMessage(rd)
			}
			if err != nil && err != Nil {
				if _, isRedisErr := err.(*RedisError); !isRedisErr {
					break
				}
			}
			decoded++
		}
	}()
	runtime.ReadMemStats(&ms1)
	alloc := ms1.TotalAlloc - ms0.TotalAlloc
	limit := uint64(64*len(stream)) + 16<<20
	if panicked != "" {
		out.violate("C13", "decoder-panic", "decoding %d received bytes (a %d-byte well-formed stream after %v) panicked: %s; input %q", len(stream), orig, p.Muts, panicked, truncStr(string(stream), 120))
	}
	if alloc > limit {
		out.violate("C13", "decoder-allocation", "decoding %d received bytes allocated %d bytes (limit 64x received + 16 MiB = %d) after %v; input %q", len(stream), alloc, limit, p.Muts, truncStr(string(stream), 120))
	}
	out.judged("streams-decoded")
	if decoded > 0 {
		out.probe("some-frame-decoded-before-the-error")
	}
	for _, m := range p.Muts {
		out.probe("mutation-" + m.Kind)
	}
	h := fmt.Sprintf("%x", stream)
	if len(h) > 64 {
		h = h[:64]
	}
	out.LogHash = fmt.Sprintf("%d-%s-%d-%v", len(stream), h, p.Cut, p.Stream)
	out.Nontrivial = len(p.Muts) > 0 && !bytes.Equal(stream, nil)
	out.Steps = 1
}

// garbage-system: the same corruption applied to the reply stream of a live connection of a real client.
func init() {
	registerScenario(&scenario{name: "garbage-system", gen: genGarbageSystem, load: loadPlan, exec: execGarbageSystem})
}

func genGarbageSystem(seed uint64, tier, variant string) any {
	r := planRand(seed, 0xC132)
	p := &Plan{Scenario: "garbage-system", Opt: genOpt(r), X: map[string]any{}}
	p.Opt.DisableRetry = r.IntN(2) == 0
	p.Opt.RetryDelaysMs = []int{1, 5, -1}
	p.Opt.KeepAliveMs, p.Opt.WriteTimeoutMs, p.Opt.DialTimeoutMs = 1000, 2000, 2000
	p.Sched = SchedSpec{CutProb: pick(r, 0.0, 0.5), MaxSteps: 6000}
	genFaultWorkload(r, p, 2+r.IntN(4), 4, false)
	for i, n := 0, 1+r.IntN(3); i < n; i++ {
		p.Faults = append(p.Faults, FaultSpec{Kind: "corrupt", AtStep: r.IntN(120), Arg: r.IntN(1 << 20)})
	}
	p.X["mutseed"] = int(seed % 1000003)
	return p
}

func execGarbageSystem(t *testing.T, plan any, out *Outcome) {
	p := plan.(*Plan)
	e := standardRun(t, out.Seed, p, out, runHooks{beforeClient: func(e *env) {
		e.sim.Corrupt = func(b []byte, arg int) []byte {
			kinds := []string{"flip", "set", "trunc", "type", "len", "len", "insert"}
			return mutate(b, Mutation{Kind: kinds[arg%len(kinds)], Off: arg / 7, Val: evilLens[(arg/49)%len(evilLens)]})
		}
	}})
	if out.HarnessErr != "" {
		return
	}
	checkCommon(e)
	e.eachCall(func(task int, spec CallSpec, rec *sched.CallRec, res *CallResult) {
		blocking := false
		for _, c := range spec.Cmds {
			if c.Flag == "block" {
				blocking = true
			}
		}
		if res == nil && blocking {
			// a frame whose declared length never arrives is indistinguishable from a server that does not answer; blocking
			// commands have no time-out by design
			out.notJudged("blocking-call-waiting-for-the-rest-of-a-frame")
			return
		}
		if res == nil {
			out.violate("C13", "call-hung-after-garbage", "task %d call %d (%s %q) never returned after the peer sent a damaged reply stream", task, rec.Index, spec.Kind, truncArgv(firstArgv(spec)))
		}
	})
	if e.sim.Stats["fault.corrupted_streams"] > 0 {
		out.probe("stream-corrupted-in-flight")
		out.Nontrivial = true
	}
}
