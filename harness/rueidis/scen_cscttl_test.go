//go:build verif

package rueidis

import (
	"fmt"
	"strconv"
	"strings"
	"testing"
	"time"

	"verifsim/sched"
)

func init() {
	registerScenario(&scenario{name: "csc-ttl", gen: genCSCTTL, load: loadPlan, exec: execCSCTTL})
}

func genCSCTTL(seed uint64, tier, variant string) any {
	r := planRand(seed, 0xC07)
	p := &Plan{Scenario: "csc-ttl", Opt: genOpt(r), X: map[string]any{}}
	p.Opt.RESP2, p.Opt.Multiplex = false, -1
	p.Opt.KeepAliveMs, p.Opt.WriteTimeoutMs = 3600_000, 3600_000
	p.Opt.Tracking = pick(r, []string(nil), []string(nil), []string{"OPTOUT"}, []string{"BCAST"})
	p.Opt.SimpleCache = r.IntN(5) == 0
	p.Opt.CacheSize = 0
	p.Opt.DisableRetry = true
	// time only moves through explicit tick operations and idle ticks, never in the middle of a busy schedule
	p.Sched = SchedSpec{CutProb: pick(r, 0.0, 0.3), MaxSteps: 8000, TickWeight: 0.0001}
	nkeys := 4
	static := r.IntN(4) == 0
	p.X["static"] = static
	ttls := []int{1, 2, 5, 20, 100, 1000, 10_000}
	// server side expiry of the keys: none, missing key, short, long
	for k := 0; k < nkeys; k++ {
		key := "k" + strconv.Itoa(k)
		switch r.IntN(5) {
		case 0: // missing key
		case 1:
			p.Ghosts = append(p.Ghosts, GhostSpec{Kind: "cmd", Argv: []string{"SET", key, "v" + key}})
		default:
			p.Ghosts = append(p.Ghosts, GhostSpec{Kind: "cmd", Argv: []string{"SET", key, "v" + key, "PX", strconv.Itoa(pick(r, 1, 3, 10, 50, 150, 2000, 20_000))}})
		}
	}
	nsetup := len(p.Ghosts)
	p.X["setup_ghosts"] = nsetup
	ntasks := 1 + r.IntN(3)
	for ti := 0; ti < ntasks; ti++ {
		var calls []CallSpec
		for ci, n := 0, 4+r.IntN(8); ci < n; ci++ {
			key := "k" + strconv.Itoa(r.IntN(nkeys))
			if r.IntN(3) == 0 {
				c := CallSpec{Kind: "mcache", Static: static}
				for k, m := 0, 2+r.IntN(3); k < m; k++ {
					c.Cmds = append(c.Cmds, CmdSpec{Argv: []string{"GET", "k" + strconv.Itoa(r.IntN(nkeys))}, Keys: 1, Flag: "ro"})
					c.TTLs = append(c.TTLs, ttls[r.IntN(len(ttls))])
				}
				calls = append(calls, c)
			} else {
				calls = append(calls, CallSpec{Kind: "cache", Static: static, TTLMs: ttls[r.IntN(len(ttls))], Cmds: []CmdSpec{{Argv: []string{"GET", key}, Keys: 1, Flag: "ro"}}})
			}
		}
		p.Tasks = append(p.Tasks, calls)
	}
	// time passes in small and large jumps between the reads
	for i, n := 0, 4+r.IntN(10); i < n; i++ {
		p.Ghosts = append(p.Ghosts, GhostSpec{Kind: "tick", DurMs: pick(r, 1, 1, 2, 4, 9, 19, 48, 99, 500, 3000), MinStep: r.IntN(150)})
	}
	// ... and by amounts that are not whole milliseconds, so that a key can be read in its last millisecond (PTTL 0)
	for i, n := 0, r.IntN(5); i < n; i++ {
		p.Ghosts = append(p.Ghosts, GhostSpec{Kind: "tick", DurMs: pick(r, 0, 0, 0, 2, 9, 49), DurUs: pick(r, 200, 500, 900), MinStep: r.IntN(150)})
	}
	// a slow server makes request start and reply arrival differ by up to seconds
	if r.IntN(2) == 0 {
		p.Faults = append(p.Faults, FaultSpec{Kind: "slow", AtStep: 5 + r.IntN(60), NeedInflight: r.IntN(2) == 0, DurMs: pick(r, 3, 30, 300, 2500)})
	}
	return p
}

func execCSCTTL(t *testing.T, plan any, out *Outcome) {
	p := plan.(*Plan)
	static, _ := p.X["static"].(bool)
	e := standardRun(t, out.Seed, p, out, runHooks{
		beforeClient: func(e *env) { e.sim.W.TagReads = true },
	})
	if out.HarnessErr != "" {
		return
	}
	checkCommon(e)
	w := e.sim.W
	// PTTL the server reported inside each caching transaction, by the sequence number of the read that follows it
	type fetchInfo struct {
		pttl    int64
		sentAt  time.Time
		arrived time.Time // when the frame carrying the reply had been delivered to the client
		ok      bool
	}
	frameEnd := map[[2]int]int{}
	for _, l := range e.sim.Links {
		off := 0
		for _, f := range l.S.OutLog {
			off += f.Bytes
			if !f.Push {
				frameEnd[[2]int{l.ID, f.ConnSeq}] = off
			}
		}
	}
	pttlOf := map[int]fetchInfo{} // read exec seq -> info
	var lastPTTL map[int]int64 = map[int]int64{}
	for _, ex := range w.Log {
		if ex.Conn < 0 {
			continue
		}
		if ex.InExec && strings.ToUpper(ex.Argv[0]) == "PTTL" {
			lastPTTL[ex.Conn] = ex.Reply.I
		}
		if strings.ToUpper(ex.Argv[0]) == "GET" && !ex.Queued {
			fi := fetchInfo{pttl: -1, sentAt: ex.At}
			if ex.InExec {
				fi.pttl = lastPTTL[ex.Conn]
			}
			if l := e.sim.LinkOf(ex.Conn); l != nil {
				if end, ok := frameEnd[[2]int{ex.Conn, ex.ConnSeq}]; ok {
					fi.arrived, fi.ok = l.DeliveredAt(end)
				}
			}
			pttlOf[ex.Seq] = fi
		}
	}
	type fill struct {
		pxat    int64
		arrived time.Time
	}
	fills := map[int]fill{} // read seq -> expiry established by the filling reply
	judgedN := 0
	// first pass: owners (non-hit results) establish the expiry
	e.eachCall(func(task int, spec CallSpec, rec *sched.CallRec, res *CallResult) {
		if res == nil {
			return
		}
		for i, r := range res.Res {
			if r.Err != "" || r.CacheHit || i >= len(spec.Cmds) {
				continue
			}
			ttl := spec.TTLMs
			if i < len(spec.TTLs) {
				ttl = spec.TTLs[i]
			}
			var readSeq int
			if r.V.T == '_' {
				continue // a missing key has no tag: its expiry is judged through the hits below only
			}
			tg := parseTag(r.V.S)
			if !tg.ok {
				continue
			}
			readSeq = tg.readSeq
			fi, ok := pttlOf[readSeq]
			if !ok || !fi.ok {
				continue
			}
			lo := rec.StartAt.Add(time.Duration(ttl) * time.Millisecond).UnixMilli()
			hi := fi.sentAt.Add(time.Duration(ttl) * time.Millisecond).UnixMilli()
			if hi < lo {
				hi = lo
			}
			if !static && fi.pttl == 0 {
				out.probe("server-pttl-zero")
			}
			if !static && fi.pttl >= 0 {
				srv := fi.arrived.Add(time.Duration(fi.pttl) * time.Millisecond).UnixMilli()
				if srv < lo {
					lo = srv
				}
				if srv < hi {
					hi = srv
				}
			}
			judgedN++
			// one millisecond of rounding tolerance: the client truncates its clock reading to milliseconds
			if r.PXAT < lo-1 || r.PXAT > hi+1 {
				out.violate("C07", "wrong-expiry", "task %d call %d cmd %d GET %s ttl=%dms static=%v: reply reports CachePXAT=%d, expected within [%d,%d] = min(request start (+%v..+%v) + ttl, reply arrival (+%v) + server PTTL %d)", task, rec.Index, i, spec.Cmds[i].Argv[1], ttl, static, r.PXAT, lo, hi, rec.StartAt.Sub(e.sim.Start), fi.sentAt.Sub(e.sim.Start), fi.arrived.Sub(e.sim.Start), fi.pttl)
			} else {
				out.judged("expiry-of-filling-reply")
			}
			fills[readSeq] = fill{pxat: r.PXAT, arrived: fi.arrived}
			// accessors
			now := rec.EndAt.UnixMilli()
			want := r.PXAT - now
			if want < 0 {
				want = 0
			}
			if r.PTTL != want {
				out.violate("C07", "accessor-mismatch", "task %d call %d cmd %d: CachePTTL=%d but CachePXAT-now=%d", task, rec.Index, i, r.PTTL, want)
			}
		}
	})
	// second pass: hits
	e.eachCall(func(task int, spec CallSpec, rec *sched.CallRec, res *CallResult) {
		if res == nil {
			return
		}
		for i, r := range res.Res {
			if r.Err != "" || !r.CacheHit || i >= len(spec.Cmds) {
				continue
			}
			now := rec.EndAt.UnixMilli()
			tgh := parseTag(r.V.S)
			f, known := fills[tgh.readSeq]
			if !tgh.ok || !known || !f.arrived.Before(rec.StartAt) {
				// nil replies carry no tag; a value that arrived while this call was already waiting for it is the
				// reply of an in-flight request, not a stored entry
				out.notJudged("hit-on-flight-or-untagged")
			} else {
				judgedN++
				// the decision was taken no earlier than the call started
				if rec.StartAt.UnixMilli() >= r.PXAT {
					out.violate("C07", "hit-after-expiry", "task %d call %d cmd %d GET %s: started at %d ms and was served as a hit although the entry expired at %d ms (%d ms earlier)", task, rec.Index, i, spec.Cmds[i].Argv[1], rec.StartAt.UnixMilli(), r.PXAT, rec.StartAt.UnixMilli()-r.PXAT)
				} else {
					out.judged("hit-before-expiry")
				}
			}
			if tg := parseTag(r.V.S); tg.ok {
				if f, ok := fills[tg.readSeq]; ok && f.pxat != r.PXAT {
					out.violate("C07", "expiry-changed", "task %d call %d cmd %d GET %s: hit reports CachePXAT=%d but the reply that filled the entry reported %d", task, rec.Index, i, spec.Cmds[i].Argv[1], r.PXAT, f.pxat)
				}
			}
			want := r.PXAT - now
			if want < 0 {
				want = 0
			}
			if r.PTTL != want {
				out.violate("C07", "accessor-mismatch", "task %d call %d cmd %d: hit CachePTTL=%d but CachePXAT-now=%d", task, rec.Index, i, r.PTTL, want)
			}
			out.probe("hit-judged")
			if r.PXAT-now <= 5 {
				out.probe("hit-within-5ms-of-expiry")
			}
		}
	})
	out.Nontrivial = judgedN > 0
	_ = fmt.Sprint
}
