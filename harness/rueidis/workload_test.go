//go:build verif

package rueidis

import (
	"bytes"
	"context"
	"fmt"
	"math/rand/v2"
	"os"
	"runtime"
	"strconv"
	"strings"
	"testing"
	"testing/synctest"
	"time"

	"verifsim/fakeredis"
	"verifsim/resp"
	"verifsim/sched"
)

// CallResult is what a workload call observed.
type CallResult struct {
	Kind  string
	Res   []Res
	Err   string // for calls returning a plain error (Receive, Dedicated...)
	ErrK  string
	Msgs  []PubSubMessage
	Notes []string
	KV    map[string]Res    // multi-key helpers returning values
	KErr  map[string]string // multi-key helpers returning errors ("" = nil)
}

// execCall performs one API call described by cs on client cl.
func (e *env) execCall(cl Client, cs CallSpec, ctx context.Context, rec *sched.CallRec) *CallResult {
	r := &CallResult{Kind: cs.Kind}
	switch cs.Kind {
	case "do":
		r.Res = []Res{toRes(cl.Do(ctx, buildCmd(cl.B(), cs.Cmds[0])))}
	case "multi":
		cmdsList := make(Commands, 0, len(cs.Cmds))
		for _, c := range cs.Cmds {
			cmdsList = append(cmdsList, buildCmd(cl.B(), c))
		}
		for _, x := range cl.DoMulti(ctx, cmdsList...) {
			r.Res = append(r.Res, toRes(x))
		}
	case "cache":
		c := Cacheable(buildCmd(cl.B(), cs.Cmds[0]))
		if cs.Static {
			c = c.ToStaticTTL()
		}
		r.Res = []Res{toRes(cl.DoCache(ctx, c, time.Duration(cs.TTLMs)*time.Millisecond))}
	case "mcache":
		var cts []CacheableTTL
		for i, c := range cs.Cmds {
			ttl := cs.TTLMs
			if i < len(cs.TTLs) {
				ttl = cs.TTLs[i]
			}
			cc := Cacheable(buildCmd(cl.B(), c))
			if cs.Static {
				cc = cc.ToStaticTTL()
			}
			cts = append(cts, CT(cc, time.Duration(ttl)*time.Millisecond))
		}
		for _, x := range cl.DoMultiCache(ctx, cts...) {
			r.Res = append(r.Res, toRes(x))
		}
	case "recv":
		err := cl.Receive(ctx, buildSub(cl.B(), cs.Cmds[0].Argv), func(m PubSubMessage) {
			r.Msgs = append(r.Msgs, m)
		})
		if err != nil {
			r.Err, r.ErrK = err.Error(), errKind(err)
		}
	case "unsub":
		r.Res = []Res{toRes(cl.Do(ctx, buildSub(cl.B(), cs.Cmds[0].Argv)))}
	case "close":
		cl.Close()
	case "stream", "mstream":
		var st RedisResultStream
		if cs.Kind == "stream" {
			st = cl.DoStream(ctx, buildCmd(cl.B(), cs.Cmds[0]))
		} else {
			list := make(Commands, 0, len(cs.Cmds))
			for _, c := range cs.Cmds {
				list = append(list, buildCmd(cl.B(), c))
			}
			st = cl.DoMultiStream(ctx, list...)
		}
		for st.HasNext() {
			var w bytes.Buffer
			_, err := st.WriteTo(&w)
			rr := Res{V: resp.Bulk(w.String()), Text: w.String()}
			if err != nil {
				rr.Err, rr.ErrKind = err.Error(), errKind(err)
				if _, ok := err.(*RedisError); ok {
					rr.ErrKind = "redis"
				}
			}
			r.Res = append(r.Res, rr)
		}
		if err := st.Error(); err != nil && err.Error() != "EOF" && len(r.Res) == 0 {
			r.Err, r.ErrK = err.Error(), errKind(err)
		}
	case "dedicated":
		err := cl.Dedicated(func(dc DedicatedClient) error {
			for _, c := range cs.Cmds {
				r.Res = append(r.Res, toRes(dc.Do(ctx, buildCmd(dc.B(), c))))
			}
			return nil
		})
		if err != nil {
			r.Err, r.ErrK = err.Error(), errKind(err)
		}
	default:
		panic("execCall: unknown kind " + cs.Kind)
	}
	return r
}

// expectedReply returns the reply a correct server model gives to argv when it is a pure function of argv.
func expectedReply(argv []string) (resp.Value, bool) {
	switch strings.ToUpper(argv[0]) {
	case "VTAG":
		if len(argv) >= 3 {
			uid := argv[1]
			if len(argv) > 3 {
				if n, err := strconv.Atoi(argv[3]); err == nil && n > 0 {
					uid = fakeredis.PadUID(uid, n)
				}
			}
			return fakeredis.BuildShape(uid, argv[2])
		}
	case "VKTAG":
		if len(argv) >= 4 {
			uid := argv[2]
			if len(argv) > 4 {
				if n, err := strconv.Atoi(argv[4]); err == nil && n > 0 {
					uid = fakeredis.PadUID(uid, n)
				}
			}
			return fakeredis.BuildShape(uid, argv[3])
		}
	case "VARGS":
		return resp.Int(int64(len(argv))), true
	case "VWTAG":
		if len(argv) >= 3 {
			return resp.Bulk("w:" + argv[2]), true
		}
	case "ECHO":
		if len(argv) == 2 {
			return resp.Bulk(argv[1]), true
		}
	case "PING":
		if len(argv) == 1 {
			return resp.Simple("PONG"), true
		}
	}
	return resp.Value{}, false
}

// randShape draws a reply shape.
func randShape(r *rand.Rand, depth int, resp2 bool) string {
	leaves := "sbintfdgvSa"
	if depth == 0 && r.IntN(12) == 0 {
		return string("eB"[r.IntN(2)])
	}
	if depth < 3 && r.IntN(3) == 0 {
		n := r.IntN(4)
		var sb strings.Builder
		kind := r.IntN(4)
		open, close := "[", "]"
		switch kind {
		case 1:
			open, close = "{", "}"
			n = n &^ 1
		case 2:
			open, close = "<", ">"
		case 3:
			open, close = "A[", "]"
		}
		sb.WriteString(open)
		for i := 0; i < n; i++ {
			sb.WriteString(randShape(r, depth+1, resp2))
		}
		sb.WriteString(close)
		return sb.String()
	}
	return string(leaves[r.IntN(len(leaves))])
}

// standardRun executes a Plan against one single-node server with one client per plan and returns the environment.
type runHooks struct {
	beforeClient func(e *env)
	afterSetup   func(e *env)
	ghost        func(e *env, g GhostSpec) func(*sched.Sim)
	extraCall    func(e *env, cl Client, cs CallSpec, ctx context.Context, rec *sched.CallRec) *CallResult
	nClients     int
	noClose      bool
	afterMain    func(e *env)
	onStuck      func(e *env) // called when the workload phase ended without all calls returning, before healing
	newClientRetries int       // NewClient is retried this many times (scenarios that make connection setup fail)
	noDefaultNode    bool      // the scenario builds its own servers in beforeClient (cluster, sentinel)
	newClient        func(e *env, i int) (Client, error) // replaces NewClient(e.clientOption())
	execOverride     func(e *env, cl Client, cs CallSpec, ctx context.Context, rec *sched.CallRec) *CallResult
	// hashMainPhase: the event-log hash of the run is taken when the workload phase ends. For clients whose Close is
	// asynchronous (clusterClient.Close starts one goroutine per node and returns), the teardown is not driven to a
	// defined end by the scheduler and is not judged by any oracle of those scenarios.
	hashMainPhase bool
}

func (e *env) stdGhost(g GhostSpec) func(*sched.Sim) {
	return func(s *sched.Sim) {
		switch g.Kind {
		case "cmd":
			s.W.Ghost(e.addr, g.Argv...)
		case "tick":
			time.Sleep(time.Duration(g.DurMs)*time.Millisecond + time.Duration(g.DurUs)*time.Microsecond)
			s.W.Tick()
		default:
			panic("unknown ghost kind " + g.Kind)
		}
	}
}

func standardRun(t *testing.T, seed uint64, p *Plan, out *Outcome, h runHooks) *env {
	if v, ok := p.X["sched_seed"].(float64); ok {
		seed = uint64(v)
	} else if v, ok := p.X["sched_seed"].(uint64); ok {
		seed = v
	}
	e := newEnv(seed, p, out)
	s := e.sim
	if !h.noDefaultNode {
		n := s.W.AddNode(e.addr)
		if p.Srv.Version != "" {
			n.Version = p.Srv.Version
		}
		n.NoHello = p.Srv.NoHello
	}
	if h.beforeClient != nil {
		h.beforeClient(e)
	}
	nc := h.nClients
	if nc == 0 {
		nc = 1
	}
	var setupErr error
	tickW := s.Cfg.W.Tick
	s.Cfg.W.Tick = 0.02 // connection setup is not what the scenarios starve
	defer func() { s.Cfg.W.Tick = tickW }()
	rr := e.background("setup", func(ctx context.Context) {
		for i := 0; i < nc; i++ {
			mk := func() (Client, error) {
				if h.newClient != nil {
					return h.newClient(e, i)
				}
				return NewClient(e.clientOption())
			}
			cl, err := mk()
			for try := 0; err != nil && try < h.newClientRetries; try++ {
				cl, err = mk()
			}
			for try := 0; err == errConnExpired && try < 5; try++ {
				// a connection reached its ConnLifetime during the constructor's own exchange: the constructor gives up
				// with the internal error (DESIGN.md 15.8); the application would call it again
				s.Stats["setup.retried-after-lifetime-expiry"]++
				cl, err = mk()
			}
			if err != nil {
				setupErr = err
				return
			}
			setMaxP(cl, p.Opt.Procs)
			e.clients = append(e.clients, cl)
		}
	})
	if rr.Reason != "done" || setupErr != nil {
		out.HarnessErr = fmt.Sprintf("setup failed: reason=%s err=%v", rr.Reason, setupErr)
		e.finish()
		return e
	}
	s.Cfg.W.Tick = tickW
	if h.afterSetup != nil {
		h.afterSetup(e)
	}
	base := s.Step
	for ti, calls := range p.Tasks {
		var cs []sched.Call
		for _, c := range calls {
			c := c
			cs = append(cs, sched.Call{
				Name:        c.Kind,
				Timeout:     time.Duration(c.TimeoutMs) * time.Millisecond,
				Cancelable:  c.Cancel,
				CancelAfter: c.CancelAfter,
				Run: func(ctx context.Context, rec *sched.CallRec) any {
					nameGoroutine(sched.TaskID(ctx))
					cl := e.clients[c.Client%len(e.clients)]
					if h.extraCall != nil {
						if r := h.extraCall(e, cl, c, ctx, rec); r != nil {
							return r
						}
					}
					return e.execCall(cl, c, ctx, rec)
				},
			})
		}
		s.AddTask(fmt.Sprintf("task%d", ti), cs)
	}
	for _, g := range p.Ghosts {
		var do func(*sched.Sim)
		if h.ghost != nil {
			do = h.ghost(e, g)
		}
		if do == nil {
			do = e.stdGhost(g)
		}
		s.Ghosts = append(s.Ghosts, &sched.GhostOp{Name: g.Kind + " " + strings.Join(g.Argv, " "), MinStep: base + g.MinStep, Do: do})
	}
	for _, f := range p.Faults {
		s.Faults = append(s.Faults, &sched.Fault{Kind: f.Kind, AtStep: base + f.AtStep, NeedInflight: f.NeedInflight, Pick: f.Pick, Dur: time.Duration(f.DurMs) * time.Millisecond, Arg: f.Arg})
	}
	rr = s.Run(s.AllTasksDone)
	out.Reason = rr.Reason
	if (rr.Reason == "stuck" || rr.Reason == "maxsteps") && *flagTape {
		buf := make([]byte, 1<<20)
		buf = buf[:runtime.Stack(buf, true)]
		os.Stderr.Write(buf)
	}
	if (rr.Reason == "stuck" || rr.Reason == "maxsteps") && h.onStuck != nil {
		h.onStuck(e)
	}
	if rr.Reason == "stuck" || rr.Reason == "maxsteps" {
		// heal and give everything a bounded chance to return before judging a hang
		// A round that ends at the step cap with calls still returning is the harness's budget running out, not a
		// hang (for example server-side blocking timeouts of minutes with a one-second keep-alive): keep draining while
		// every round of 2000 steps completes at least one more call.
		s.Heal()
		s.Cfg.DrainBound = 2 * time.Minute
		completed := func() int {
			n := 0
			for _, t := range s.Tasks {
				n += len(t.Recs)
				if t.Running() != nil {
					n--
				}
			}
			return n
		}
		for round := 0; round < 40; round++ {
			before := completed()
			s.Cfg.MaxSteps = s.Step + 2000
			rr2 := s.Run(s.AllTasksDone)
			out.Reason = rr.Reason + "+" + rr2.Reason
			if rr2.Reason != "maxsteps" || completed() == before {
				break
			}
			s.Stats["drain.extra-rounds"]++
		}
	}
	// calls still running now are hung: closing the client below would release them and hide it
	for _, t := range s.Tasks {
		if rec := t.Running(); rec != nil {
			rec.Hung = true
		}
	}
	if h.hashMainPhase {
		e.mainHash = s.LogHash()
	}
	if h.afterMain != nil {
		h.afterMain(e)
	}
	if !h.noClose {
		e.closeClients()
	}
	e.finish()
	return e
}

func (e *env) closeClients() {
	s := e.sim
	s.Heal()
	s.Cfg.MaxSteps = s.Step + 1500
	rr := e.background("close", func(ctx context.Context) {
		for _, cl := range e.clients {
			cl.Close()
		}
	})
	if rr.Reason != "done" {
		e.out.probe("close-did-not-finish:" + rr.Reason)
	}
	if os.Getenv("VERIF_DEBUG_CLOSE") != "" {
		buf := make([]byte, 1<<20)
		buf = buf[:runtime.Stack(buf, true)]
		os.Stderr.WriteString(fmt.Sprintf("=== seed %d goroutines after Close returned ===\n", e.out.Seed))
		os.Stderr.Write(buf)
	}
	// let the server notice and background goroutines exit
	s.Cfg.MaxSteps = s.Step + 300
	s.Run(func() bool {
		for _, l := range s.Links {
			if !l.Dead && l.C.ClientClosed() {
				return false
			}
		}
		return true
	})
}

// finish fills the generic parts of the outcome and releases simulator goroutines.
func (e *env) finish() {
	s := e.sim
	out := e.out
	out.Steps = s.Step
	out.FakeMs = s.Elapsed().Milliseconds()
	out.LogHash = s.LogHash()
	if e.mainHash != "" {
		out.LogHash = e.mainHash
	}
	out.Stats = s.Stats
	if *flagTape {
		out.Tape = s.Tape
	}
	out.Gaps = append(out.Gaps, s.W.Gaps...)
	if len(s.W.Gaps) > 0 && out.HarnessErr == "" {
		out.HarnessErr = "model gap: " + s.W.Gaps[0]
	}
	if os.Getenv("VERIF_DUMP_LOG") != "" {
		for _, ex := range s.W.Log {
			fmt.Fprintf(os.Stderr, "LOG step=%d seq=%d conn=%d node=%s role=%s inexec=%v queued=%v %q => %s\n", ex.Step, ex.Seq, ex.Conn, ex.Node, ex.Role, ex.InExec, ex.Queued, truncArgv(ex.Argv), truncStr(ex.Reply.String(), 60))
		}
	}
	randState.on.Store(false)
	s.Shutdown()
	// let timers of goroutines that are winding down (close grace periods, clean-up polls) fire
	time.Sleep(3 * time.Second)
	synctest.Wait()
	if *flagTape && false {
		buf := make([]byte, 1<<20)
		buf = buf[:runtime.Stack(buf, true)]
		os.Stderr.WriteString("=== goroutines after shutdown ===\n")
		os.Stderr.Write(buf)
	}
}

// callsOf iterates every call record with its spec and result.
func (e *env) eachCall(fn func(task int, spec CallSpec, rec *sched.CallRec, res *CallResult)) {
	for ti, t := range e.sim.Tasks {
		if ti >= len(e.plan.Tasks) {
			break
		}
		for _, rec := range t.Recs {
			var res *CallResult
			if rec.Done && !rec.Hung {
				res, _ = rec.Result.(*CallResult)
			}
			fn(ti, e.plan.Tasks[ti][rec.Index], rec, res)
		}
	}
}
