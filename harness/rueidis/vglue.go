//go:build verif

package rueidis

// Glue between the real client code and the simulator (verifsim). This file lives in /verif/harness/rueidis and is
// compiled into package rueidis through -overlay as a NON-test file, so that the harnesses of the add-on modules
// (rueidislock, rueidisprob, ...), which import rueidis as a dependency, get the same seams through the exported
// Verif* wrappers at the end of the file.

import (
	"context"
	"crypto/tls"
	"fmt"
	"math/rand/v2"
	"net"
	"runtime"
	"strings"
	"sync"
	"sync/atomic"
	"syscall"
	"testing/synctest"
	"time"

	"github.com/redis/rueidis/internal/util"

	"verifsim/sched"
	"verifsim/simnet"
)

var curSim atomic.Pointer[sched.Sim]

// muxwireName resolves a *muxwire to "<addr>#<index>" for canonical yield identities.
var muxwireName atomic.Pointer[func(*muxwire) string]

func muxOf(cl Client) []*mux {
	switch c := cl.(type) {
	case *singleClient:
		if m, ok := c.conn.(*mux); ok {
			return []*mux{m}
		}
	}
	return nil
}

// coarse yield sites parked under Engine A
var coarseSites = map[string]bool{
	"pipe.Do": true, "pipe.DoMulti": true, "pipe.DoCache": true, "pipe.DoMultiCache": true,
	"mux.pipe": true,
	// herds: goroutines woken together when a queue slot becomes free (pool herds are serialised by the pool locker)
	"fb.put.send": true, "ring.put.woken": true,
}

// coarseSitesExtra lets a scenario park additional sites (e.g. the pool's check-then-wait window).
var coarseSitesExtra atomic.Pointer[map[string]bool]

// fineSites is enabled by Engine B scenarios.
var fineSites atomic.Bool

// yieldFullIdentity makes yield identities carry the complete command and the deadline of the caller's context
// instead of the first three arguments (48 bytes). Scenarios in which one task has several goroutines sending the
// same command with different keys (rueidislock's per-key monitors) need it: goroutines with equal identities must
// be interchangeable. Off by default; reset at the start of every run.
var yieldFullIdentity atomic.Bool

// randState drives the util random seam: value = hash(seed, counter)
var randState struct {
	seed uint64
	ctr  atomic.Uint64
	on   atomic.Bool
	// stepMode: the value is a function of (seed, scheduler step, n) instead of a call counter, i.e. constant within
	// a step. For code paths that draw several values in an order decided by Go map iteration (cluster refresh).
	stepMode atomic.Bool
}

// muxReg records every multiplexer created during the current run (announced through VerifHooks.NewMux), per
// destination in creation order. Creation order per destination is deterministic: multiplexers for one address are
// created by one goroutine at a time (client construction, a topology refresh, a redirect under the client's lock).
var muxReg struct {
	mu    sync.Mutex
	byDst map[string][]*mux
	pinP  int // >0: every new multiplexer gets this parallelism instead of GOMAXPROCS
}

func muxRegReset(pinP int) {
	muxReg.mu.Lock()
	muxReg.byDst = map[string][]*mux{}
	muxReg.pinP = pinP
	muxReg.mu.Unlock()
}

// richIdent makes yield identities at the queue hand-off sites (which receive no context) carry the goroutine's
// role or task and the connection the queue belongs to. Needed when one step can wake queue users of several
// connections at once (cluster refresh asks up to four nodes); off by default so that the identities - and with them
// the event-log hashes and committed replay plans - of the single-connection scenarios do not change.
var richIdent atomic.Bool

// identNoCmd drops the command text from yield identities. For code under test that sends a batch in Go map order
// (MSet / MSetNX / JsonMSet helpers): which command comes first is not a function of the seed; task, site and
// connection still identify the parked goroutine (a task is inside one call at a time). Off by default.
var identNoCmd atomic.Bool

// rwLockSeam hands the acquisition of sync.RWMutexes announced through VerifHooks.RWLock to the scheduler. Off by default.
var rwLockSeam atomic.Bool

// queueOwner finds the connection whose pipe owns a flow buffer or a ring slot (registered multiplexers only).
func queueOwner(obj any) string {
	muxReg.mu.Lock()
	defer muxReg.mu.Unlock()
	for _, ms := range muxReg.byDst {
		for _, m := range ms {
			for i := range m.muxwires {
				p, ok := m.muxwires[i].wire.Load().(*pipe)
				if !ok || p == nil {
					continue
				}
				switch o := obj.(type) {
				case *flowBuffer:
					if fb, ok := p.queue.(*flowBuffer); ok && fb == o {
						return connIDOf(p)
					}
				case *node:
					if r, ok := p.queue.(*ring); ok && len(r.store) > 0 {
						for k := range r.store {
							if &r.store[k] == o {
								return connIDOf(p)
							}
						}
					}
				}
			}
		}
	}
	return ""
}

// Dead-pipe clean-up barrier (opt-in, enableSpinSettle). The clean-up loop of a dead pipe spins (runtime.Gosched)
// while callers are still registered on it and nothing is ready to be handed to them. By default the glue turns every
// turn into a sleep of one fake millisecond; whether the loop finds the in-flight callers' entries on its first turn or
// only after the writer goroutine has noticed the failure and exited is decided by the Go runtime, so callers are
// released at fake time T in one process and one millisecond (and a scheduler tick) later in another, and their retry
// timers shift with it. With the barrier the loop blocks on a channel instead, and before the scheduler looks at the
// outcome of a step (Sim.Settle) the blocked loops are released again and again, with a wait for quiescence in
// between, until none is left or a bound is reached. No fake time passes: what a connection's death releases is
// released in the step in which it died. (First built for the lua-exec scenario.)
var spinSettle struct {
	on  atomic.Bool
	mu  sync.Mutex
	chs []chan struct{}
}

func spinPark() {
	ch := make(chan struct{})
	spinSettle.mu.Lock()
	spinSettle.chs = append(spinSettle.chs, ch)
	spinSettle.mu.Unlock()
	<-ch
}

func settleSpinners(s *sched.Sim) {
	for round := 0; round < 20; round++ {
		spinSettle.mu.Lock()
		ws := spinSettle.chs
		spinSettle.chs = nil
		spinSettle.mu.Unlock()
		if len(ws) == 0 {
			return
		}
		s.Stats["cleanup-loop-turns"] += len(ws)
		for _, ch := range ws {
			close(ch)
		}
		synctest.Wait()
	}
}

// enableSpinSettle turns the barrier on for the current run (reset by newEnv / VerifSetSim).
func enableSpinSettle(s *sched.Sim) {
	spinSettle.mu.Lock()
	spinSettle.chs = nil
	spinSettle.mu.Unlock()
	spinSettle.on.Store(true)
	s.Settle = settleSpinners
}

func muxRegName(w *muxwire) string {
	muxReg.mu.Lock()
	defer muxReg.mu.Unlock()
	for dst, ms := range muxReg.byDst {
		for k, m := range ms {
			for i := range m.muxwires {
				if &m.muxwires[i] == w {
					return fmt.Sprintf("%s/%d#%d", dst, k, i)
				}
			}
		}
	}
	return ""
}

func installHooks() {
	VerifHooks.NewMux = func(x any) {
		m, ok := x.(*mux)
		if !ok || curSim.Load() == nil {
			return
		}
		muxReg.mu.Lock()
		if muxReg.byDst == nil {
			muxReg.byDst = map[string][]*mux{}
		}
		muxReg.byDst[m.dst] = append(muxReg.byDst[m.dst], m)
		if muxReg.pinP > 0 {
			m.maxp = muxReg.pinP
		}
		if richIdent.Load() {
			// pool lockers are numbered in creation order, and a cluster client creates its multiplexers in Go map
			// order: name them after the multiplexer instead (the scenario also sets Sim.SortLockers)
			k := len(muxReg.byDst[m.dst]) - 1
			if l, ok := m.dpool.cond.L.(*sched.Locker); ok {
				l.Name = fmt.Sprintf("pool:%s/%d:d", m.dst, k)
			}
			if l, ok := m.spool.cond.L.(*sched.Locker); ok {
				l.Name = fmt.Sprintf("pool:%s/%d:s", m.dst, k)
			}
		}
		muxReg.mu.Unlock()
	}
	VerifHooks.Yield = func(ctx context.Context, site string, obj any, cmd []string) {
		s := curSim.Load()
		if s == nil {
			return
		}
		if site == "pipe.cleanup.spin" && s.IsDown() {
			// the run is over; a clean-up loop that still has registered callers (hung calls) would spin forever and
			// keep the bubble alive: block it for good, the bubble then ends with "blocked goroutines remain"
			select {}
		}
		if site == "pipe.cleanup.spin" && spinSettle.on.Load() && !fineSites.Load() {
			spinPark()
			return
		}
		if richIdent.Load() {
			if id := sched.TaskID(ctx); id != "" {
				// lock waits are identified by the waiting goroutine's name; batch fan-outs run one node on the caller's
				// goroutine and the others on new ones (which is which is Go map order): every goroutine that works for
				// a task carries the task's name
				nameGoroutine(id)
			}
		}
		if site == "pipe.cleanup.spin" && !fineSites.Load() {
			// The clean-up loop of a dead pipe spins with Gosched while callers are still registered. A spinning
			// goroutine is never durably blocked and would freeze the fake clock, so under the simulator it polls
			// once per fake millisecond instead.
			if b := cleanupSpinBudget.Load(); b > 0 && cleanupSpins(obj, b) {
				// opt-in (VerifCleanupSpinBudget): the first spins of a pipe are real ones. What the loop usually waits for
				// is another goroutine of the same step that is runnable right now (the writer loop closing p.close, a
				// caller that has its error and is about to deregister); whether the loop gets there first is decided by
				// the Go runtime, and a fake millisecond spent on it makes that race visible in the event log.
				return
			}
			time.Sleep(time.Millisecond)
			return
		}
		if !coarseSites[site] {
			extra := coarseSitesExtra.Load()
			if !fineSites.Load() && (extra == nil || !(*extra)[site]) {
				return
			}
		} else if (site == "fb.put.send" || site == "ring.put.woken") && len(cmd) == 1 && cmd[0] == "PING" && !fineSites.Load() {
			return // rueidis' own wake-up PINGs (Close, clean-up): not part of any herd the workload creates
		}
		s.Park(yieldIdentity(ctx, site, obj, cmd))
	}
	// The SHA-1 lock of a Lua script is held across the SCRIPT LOAD round trip. With rwLockSeam on (opt-in, per run)
	// its acquisition is the scheduler's: a scheduling point before a write lock is taken (the place where two first
	// callers that both read an empty SHA meet), and a waiter polls once per scheduling decision instead of blocking
	// on the sync.RWMutex, which synctest would not see as durably blocked.
	VerifHooks.RWLock = func(ctx context.Context, mu *sync.RWMutex, write bool) bool {
		s := curSim.Load()
		if s == nil || !rwLockSeam.Load() || s.IsDown() {
			return false
		}
		if write {
			s.Park(yieldIdentity(ctx, "rw.lock", nil, nil))
			for !mu.TryLock() {
				if s.IsDown() {
					mu.Lock()
					return true
				}
				s.Stats["rwlock.write-wait"]++
				s.Park(yieldIdentity(ctx, "rw.lock.wait", nil, nil))
			}
			return true
		}
		for !mu.TryRLock() {
			if s.IsDown() {
				mu.RLock()
				return true
			}
			s.Stats["rwlock.read-wait"]++
			s.Park(yieldIdentity(ctx, "rw.rlock.wait", nil, nil))
		}
		return true
	}
	// Ring slots and pools get channel-based lockers: a goroutine blocked on them is
	// durably blocked for synctest, which a goroutine blocked on sync.Mutex is not.
	// (The ring reader keeps a slot locked while it reads the remaining replies of a
	// batch from the network; the pool keeps its lock while closing wires.)
	VerifHooks.NewLocker = func() sync.Locker {
		s := curSim.Load()
		if s == nil {
			return &sync.Mutex{}
		}
		return s.NewLocker(false)
	}
	// Pool conditions are broadcast to (cancellation, Close): all waiters wake and race for the lock.
	// Every acquisition of a pool lock is therefore granted by the scheduler.
	VerifHooks.NewPoolLocker = func() sync.Locker {
		s := curSim.Load()
		if s == nil {
			return &sync.Mutex{}
		}
		return s.NewLocker(true)
	}
	util.VerifRand = func(n int) (int, bool) {
		if !randState.on.Load() || n <= 0 {
			return 0, false
		}
		if randState.stepMode.Load() {
			if s := curSim.Load(); s != nil {
				return int(mix(randState.seed^(uint64(n)*0x9e3779b97f4a7c15), uint64(s.Step)+1<<40) % uint64(n)), true
			}
		}
		return int(mix(randState.seed, randState.ctr.Add(1)) % uint64(n)), true
	}
	util.VerifShuffle = func(n int, swap func(i, j int)) bool {
		if !randState.on.Load() {
			return false
		}
		c := randState.ctr.Add(1)
		if randState.stepMode.Load() {
			if s := curSim.Load(); s != nil {
				c = uint64(s.Step) + 1<<40
			}
		}
		r := rand.New(rand.NewPCG(randState.seed, c))
		r.Shuffle(n, swap)
		return true
	}
	util.VerifRandomBytes = func() []byte {
		if !randState.on.Load() {
			return nil
		}
		b := make([]byte, 24)
		c := randState.ctr.Add(1)
		for i := 0; i < 3; i++ {
			v := mix(randState.seed+uint64(i), c)
			for j := 0; j < 8; j++ {
				b[i*8+j] = byte(v >> (8 * j))
			}
		}
		return b
	}
}

// cleanupSpinBudget > 0 lets every dead pipe spin that many times for real before it starts polling in fake time.
var cleanupSpinBudget atomic.Int32
var cleanupSpinCounts atomic.Pointer[sync.Map] // pipe -> *spinState, replaced at the start of every run

type spinState struct {
	n     atomic.Int32
	since atomic.Int64 // real (not simulated) time of the first spin, ns
}

// realNanos reads the machine's clock: package time is simulated inside a bubble, the system call is not.
func realNanos() int64 {
	var tv syscall.Timeval
	if syscall.Gettimeofday(&tv) != nil {
		return 0
	}
	return tv.Sec*1e9 + tv.Usec*1e3
}

// cleanupSpins reports whether the clean-up loop of pipe obj should go on spinning for real: until it has spun
// budget times AND 150 ms of real time have passed (on a loaded machine the goroutine it waits for may not get a
// processor for a while).
func cleanupSpins(obj any, budget int32) bool {
	m := cleanupSpinCounts.Load()
	if m == nil {
		return false
	}
	c, _ := m.LoadOrStore(obj, new(spinState))
	st := c.(*spinState)
	n := st.n.Add(1)
	if n == 1 {
		st.since.Store(realNanos())
	}
	if n <= budget {
		return true
	}
	if n&1023 == 0 || n == budget+1 {
		if t0 := st.since.Load(); t0 != 0 && realNanos()-t0 < 150e6 {
			return true
		}
		st.since.Store(0) // budget used up: this pipe polls in simulated time from now on
		return false
	}
	return st.since.Load() != 0
}

// goroutine identities for lock waits: task goroutines register themselves; rueidis' own goroutines
// are recognised by their role on the stack.
var goNames sync.Map // goid -> name

func curGoid() uint64 {
	var buf [64]byte
	n := runtime.Stack(buf[:], false)
	// "goroutine 123 ["
	var id uint64
	for _, c := range buf[10:n] {
		if c < '0' || c > '9' {
			break
		}
		id = id*10 + uint64(c-'0')
	}
	return id
}

func nameGoroutine(name string) { goNames.Store(curGoid(), name) }

func identifyGoroutine() string {
	if v, ok := goNames.Load(curGoid()); ok {
		return v.(string)
	}
	buf := make([]byte, 4096)
	buf = buf[:runtime.Stack(buf, false)]
	st := string(buf)
	switch {
	case strings.Contains(st, "_backgroundWrite"):
		return "writer"
	case strings.Contains(st, "_backgroundRead"):
		return "reader"
	case strings.Contains(st, "removeIdleConns"):
		return "poolcleanup"
	case strings.Contains(st, "(*pipe)._background"):
		return "bgcleanup"
	case strings.Contains(st, "(*pipe).Close"):
		return "closer"
	}
	return "int"
}

func mix(a, b uint64) uint64 {
	x := a*0x9e3779b97f4a7c15 ^ b*0xbf58476d1ce4e5b9
	x ^= x >> 30
	x *= 0xbf58476d1ce4e5b9
	x ^= x >> 27
	x *= 0x94d049bb133111eb
	x ^= x >> 31
	return x
}

func connIDOf(p *pipe) string {
	if p == nil || p.conn == nil {
		return "c?"
	}
	if c, ok := p.conn.(*simnet.Conn); ok {
		return fmt.Sprintf("c%d", c.ID)
	}
	return "c?"
}

// bgNamer, when set by a scenario, refines the identity of goroutines that carry no task id (rueidis' own
// goroutines, e.g. the sentinel client's subscription goroutine versus its refresh goroutine, which reach the same
// yield site on the same wire in the same step). nil (the default) leaves every identity as it was.
var bgNamer atomic.Pointer[func() string]

func yieldIdentity(ctx context.Context, site string, obj any, cmd []string) string {
	who := sched.TaskID(ctx)
	if who == "" || (!richIdent.Load() && (strings.HasPrefix(site, "fb.") || strings.HasPrefix(site, "ring."))) {
		// (the queue hand-off seams carry the caller's context since hook commit c97e4fd; without richIdent they keep
		// their historical identity so that event-log hashes and committed replay plans stay valid)
		who = "bg"
		if f := bgNamer.Load(); f != nil {
			who = (*f)()
		}
	}
	where := ""
	switch o := obj.(type) {
	case *pipe:
		where = connIDOf(o)
	case *mux:
		where = o.dst
	case *muxwire:
		where = "wire?"
		if f := muxwireName.Load(); f != nil {
			where = (*f)(o)
		}
		if richIdent.Load() && (where == "wire-new" || where == "wire?") {
			// clients other than singleClient (cluster, sentinel, standalone): name the wire through the registry
			// of multiplexers, "<dst>/<k>#<i>" = wire i of the k-th multiplexer created for dst in this run
			if n := muxRegName(o); n != "" {
				where = n
			}
		}
	case *pool:
		where = "pool"
	case *node:
		where = "slot"
		if richIdent.Load() {
			if c := queueOwner(o); c != "" {
				where = "slot@" + c
			}
		}
	case *flowBuffer:
		where = "fb"
		if richIdent.Load() {
			if c := queueOwner(o); c != "" {
				where = "fb@" + c
			}
		}
	}

	c := ""
	if yieldFullIdentity.Load() {
		c = fmt.Sprintf("%q", cmd)
		if ctx != nil {
			if dl, ok := ctx.Deadline(); ok {
				c += fmt.Sprintf("|dl=%d", dl.UnixNano())
			}
		}
		return who + "|" + site + "|" + where + "|" + c
	}
	if len(cmd) > 0 && !identNoCmd.Load() {
		n := len(cmd)
		if n > 3 {
			n = 3
		}
		c = strings.Join(cmd[:n], " ")
		if len(c) > 48 {
			c = c[:48]
		}
	}
	return who + "|" + site + "|" + where + "|" + c
}


// setMaxP pins the parallelism rueidis derives from GOMAXPROCS at construction time, so that it is
// part of the plan and not of the process environment.
func setMaxP(cl Client, n int) {
	if n <= 0 {
		return
	}
	switch c := cl.(type) {
	case *singleClient:
		if m, ok := c.conn.(*mux); ok {
			m.maxp = n
		}
	}
}

// ---- exported wrappers for harnesses outside this package ----

// VerifWireNamer tells the yield identities which clients exist, so that a multiplexed wire is named
// "cl<i>/<addr>#<slot>" instead of by pointer.
func VerifWireNamer(clients func() []Client) {
	name := func(w *muxwire) string {
		for ci, cl := range clients() {
			for _, m := range muxOf(cl) {
				for i := range m.muxwires {
					if &m.muxwires[i] == w {
						return fmt.Sprintf("cl%d/%s#%d", ci, m.dst, i)
					}
				}
			}
		}
		return "wire-new"
	}
	muxwireName.Store(&name)
}


// VerifInstallHooks installs the yield, locker and randomness seams (idempotent).
func VerifInstallHooks() { installHooks() }

// VerifSetSim makes s the simulation the seams report to (nil = none) and seeds the random seam.
func VerifSetSim(s *sched.Sim, seed uint64) {
	if s != nil {
		s.Identify = identifyGoroutine
		randState.seed = seed
		randState.ctr.Store(0)
		randState.on.Store(true)
		queueTypeFromEnv = ""
		muxRegReset(0)
		richIdent.Store(false)
		identNoCmd.Store(false)
		rwLockSeam.Store(false)
		spinSettle.on.Store(false)
		yieldFullIdentity.Store(false)
		cleanupSpinBudget.Store(0)
		cleanupSpinCounts.Store(&sync.Map{})
	}
	curSim.Store(s)
}

// VerifYieldFullIdentity makes yield identities carry the whole command and the context deadline (see
// yieldFullIdentity). Call it after VerifSetSim; it lasts for the current run.
func VerifYieldFullIdentity(on bool) { yieldFullIdentity.Store(on) }

// VerifNameGoroutine registers the calling goroutine under a stable name (lock-wait identities).
func VerifNameGoroutine(name string) { nameGoroutine(name) }

// VerifDialFn returns a ClientOption.DialCtxFn that dials into the simulated network of s.
func VerifDialFn(s *sched.Sim) func(context.Context, string, *net.Dialer, *tls.Config) (net.Conn, error) {
	return func(ctx context.Context, dst string, _ *net.Dialer, _ *tls.Config) (net.Conn, error) {
		return s.Net.DialContext(ctx, dst, sched.TaskID(ctx))
	}
}

// VerifPinParallelism pins the worker counts a client derives from GOMAXPROCS at construction time.
func VerifPinParallelism(cl Client, n int) { setMaxP(cl, n) }

// VerifPinAllParallelism pins the parallelism of every multiplexer created from now on in this run.
func VerifPinAllParallelism(n int) {
	muxReg.mu.Lock()
	muxReg.pinP = n
	muxReg.mu.Unlock()
}

// VerifSpinSettle turns on the dead-pipe clean-up barrier for the current run (see spinSettle).
func VerifSpinSettle(s *sched.Sim) { enableSpinSettle(s) }

// VerifRichIdentities turns on connection- and goroutine-qualified identities at the queue hand-off yield sites.
func VerifRichIdentities(on bool) { richIdent.Store(on) }
// VerifCleanupSpinBudget lets the clean-up loop of every dead pipe spin n times for real (as it does outside the
// simulator) before it falls back to polling once per fake millisecond. Call after VerifSetSim; 0 = off (default).
func VerifCleanupSpinBudget(n int) { cleanupSpinBudget.Store(int32(n)) }

// VerifQueueType selects the command queue of pipes created from now on in this run ("" = ring, "flowbuffer").
// Call after VerifSetSim (which resets it to the default).
func VerifQueueType(t string) { queueTypeFromEnv = t }

// VerifCoarseExtra parks additional yield sites (nil = default set).
func VerifCoarseExtra(m map[string]bool) {
	if m == nil {
		coarseSitesExtra.Store(nil)
		return
	}
	coarseSitesExtra.Store(&m)
}
