//go:build verif

package rueidis

import (
	"context"
	"fmt"
	"strings"
	"sync/atomic"
	"testing"

	"github.com/redis/rueidis/internal/cmds"

	"verifsim/sched"
)

// Engine B, unit level: the queue implementations alone, with every lock, channel operation and wake-up of
// ring.go / flowbuffer.go as a scheduling decision. P putters enqueue tagged commands and wait for their
// results; one writer loop and one reader loop use the queue exactly as pipe._backgroundWrite/_backgroundRead do.

func init() {
	registerScenario(&scenario{name: "queue-unit", gen: genQueueUnit, load: loadQueuePlan, exec: execQueueUnit})
	registerScenario(&scenario{name: "queue-real", gen: genQueueReal, load: loadPlan, exec: execQueueReal})
}

// queue-real: the real pipe (writer and reader loops, bufio buffers) over a simulated connection with the fine
// yield seams of ring.go / flowbuffer.go enabled, with more callers than slots.
func genQueueReal(seed uint64, tier, variant string) any {
	r := planRand(seed, 0xC022)
	p := &Plan{Scenario: "queue-real", Opt: genOpt(r), X: map[string]any{}}
	p.Opt.RESP2, p.Opt.Multiplex = false, -1
	p.Opt.RingScale = pick(r, 1, 1, 2, 3)
	p.Opt.WriteBuf = pick(r, 0, 32, 64, 512)
	p.Opt.ReadBuf = pick(r, 0, 32, 512)
	if variant == "no-partial-flush" {
		p.Opt.WriteBuf = 0
	}
	p.Opt.KeepAliveMs, p.Opt.WriteTimeoutMs = 3600_000, 3600_000
	p.Opt.DisableCache = true
	p.Opt.AlwaysPipelining = true
	p.Sched = SchedSpec{CutProb: pick(r, 0.0, 0.5), C2SCutProb: pick(r, 0.0, 0.5), MaxSteps: 30000, TickWeight: 0.05}
	slots := 2 << (p.Opt.RingScale - 1)
	ntasks := 2 + r.IntN(slots+3)
	if ntasks > 10 {
		ntasks = 10
	}
	for ti := 0; ti < ntasks; ti++ {
		var calls []CallSpec
		for ci, n := 0, 1+r.IntN(4); ci < n; ci++ {
			uid := func(k int) string { return fmt.Sprintf("t%d.c%d.k%d", ti, ci, k) }
			if r.IntN(2) == 0 {
				c := CallSpec{Kind: "multi"}
				for k, m := 0, 2+r.IntN(5); k < m; k++ {
					c.Cmds = append(c.Cmds, CmdSpec{Argv: []string{"VTAG", uid(k), pick(r, "s", "b", "[sb]", "i")}})
				}
				calls = append(calls, c)
			} else {
				calls = append(calls, CallSpec{Kind: "do", Cmds: []CmdSpec{{Argv: []string{"VTAG", uid(0), pick(r, "s", "b", "[sb]")}}}})
			}
		}
		p.Tasks = append(p.Tasks, calls)
	}
	return p
}

func execQueueReal(t *testing.T, plan any, out *Outcome) {
	p := plan.(*Plan)
	fineSites.Store(true)
	defer fineSites.Store(false)
	signature := ""
	e := standardRun(t, out.Seed, p, out, runHooks{
		onStuck: func(e *env) {
			// Known finding (DESIGN.md): the reader keeps the slot of a batch locked while it waits for the remaining
			// replies of that batch; with the ring full the writer needs that very slot next and blocks on its lock
			// before flushing, with the rest of the batch still in its write buffer.
			unflushed := 0
			for _, cl := range e.clients {
				for _, pp := range pipesOf(cl) {
					if pp.w != nil {
						unflushed += pp.w.Buffered()
					}
				}
			}
			writerWaits := false
			for _, ids := range e.sim.LockWaiters() {
				for _, id := range ids {
					if id == "writer" {
						writerWaits = true
					}
				}
			}
			if unflushed > 0 && writerWaits && p.Opt.Queue != "flow" {
				signature = fmt.Sprintf("writer blocked on a slot lock with %d unflushed bytes in its buffer", unflushed)
			}
		},
	})
	if out.HarnessErr != "" {
		return
	}
	checkCommon(e)
	checkRepliesOwnInOrder(e, "C02", true)
	// the same oracle states C01 ("every pipelined call gets its own replies"); here it runs under line-by-line
	// scheduling of the queue code with more callers than slots
	checkRepliesOwnInOrder(e, "C01", true)
	// ... but hangs are C02's subject here (one of them is a known finding of C02): under C01 only replies are judged
	kept := out.Violations[:0]
	for _, v := range out.Violations {
		if v.Prop == "C01" && v.Rule == "call-never-returned" {
			continue
		}
		kept = append(kept, v)
	}
	out.Violations = kept
	if signature != "" {
		// re-label the hang with its specific cause
		for i := range out.Violations {
			if out.Violations[i].Prop == "C02" && out.Violations[i].Rule == "call-never-returned" {
				out.Violations[i].Rule = "ring-full-writer-blocked-before-flush"
				out.Violations[i].Detail += " [" + signature + "]"
			}
		}
	}
	slots := 2 << (p.Opt.RingScale - 1)
	if len(p.Tasks) > slots {
		out.probe("more-callers-than-slots")
	}
}

type QueuePlan struct {
	Scenario string  `json:"scenario"`
	Queue    string  `json:"queue"`
	Factor   int     `json:"factor"`    // 2<<(factor-1) slots
	Wrap     bool    `json:"wrap"`      // start the ring counters just below 2^32
	Tasks    [][]int `json:"tasks"`     // per putter: batch sizes (1 = PutOne, n>1 = PutMulti of n)
	MaxSteps int     `json:"max_steps"` //
}

func loadQueuePlan(b []byte) (any, error) {
	p := &QueuePlan{}
	if err := jsonUnmarshal(b, p); err != nil {
		return nil, err
	}
	return p, nil
}

func genQueueUnit(seed uint64, tier, variant string) any {
	r := planRand(seed, 0xC02)
	p := &QueuePlan{Scenario: "queue-unit", Queue: pick(r, "ring", "flow"), Factor: pick(r, 1, 1, 2, 3), Wrap: r.IntN(2) == 0, MaxSteps: 20000}
	if variant == "ring" || variant == "flow" {
		p.Queue = variant
	}
	slots := 2 << (p.Factor - 1)
	nput := 1 + r.IntN(2*slots+2)
	if nput > 12 {
		nput = 12
	}
	for i := 0; i < nput; i++ {
		var t []int
		for j, n := 0, 1+r.IntN(4); j < n; j++ {
			t = append(t, pick(r, 1, 1, 1, 2, 3, 4))
		}
		p.Tasks = append(p.Tasks, t)
	}
	return p
}

type qItem struct {
	tags []string
	ch   chan RedisResult
}

func execQueueUnit(t *testing.T, plan any, out *Outcome) {
	p := plan.(*QueuePlan)
	out.Config = fmt.Sprintf("q=%s,slots=%d,wrap=%v,putters=%d", p.Queue, 2<<(p.Factor-1), p.Wrap, len(p.Tasks))
	s := sched.New(out.Seed, sched.Config{MaxSteps: p.MaxSteps, KeepTape: *flagTape})
	s.Identify = identifyGoroutine
	curSim.Store(s)
	fineSites.Store(true)
	defer fineSites.Store(false)
	var q queue
	switch p.Queue {
	case "flow":
		q = newFlowBuffer(p.Factor)
	default:
		r := newRing(p.Factor)
		if p.Wrap {
			start := ^uint32(0) - uint32(3)
			r.write, r.read1, r.read2 = start, start, start
		}
		q = r
	}
	total := 0
	for _, tk := range p.Tasks {
		total += len(tk)
	}
	// the "wire": commands the writer has sent, in order; the reader answers them in that order
	wire := make(chan qItem, total+4)
	var written []string // tags in the order the writer took them from the queue
	var completed atomic.Int32
	var putOrder []struct {
		tag        string
		start, end int
	}
	var violations []string
	violate := func(format string, a ...any) {
		if len(violations) < 10 {
			violations = append(violations, fmt.Sprintf(format, a...))
		}
	}
	mkCmd := func(tag string) Completed { return cmds.NewCompleted([]string{"TAG", tag}) }
	tagOf := func(c Completed) string {
		if c.IsEmpty() || len(c.Commands()) < 2 {
			return "?"
		}
		return c.Commands()[1]
	}
	var writerDone, readerDone atomic.Bool
	go func() { // writer loop, as pipe._backgroundWrite
		nameGoroutine("writer")
		for {
			one, multi, ch := q.NextWriteCmd()
			if ch == nil {
				one, multi, ch = q.WaitForWrite()
			}
			var tags []string
			if multi == nil {
				tags = []string{tagOf(one)}
			} else {
				for _, c := range multi {
					tags = append(tags, tagOf(c))
				}
			}
			if tags[0] == "QUIT" {
				wire <- qItem{tags: tags, ch: ch}
				writerDone.Store(true)
				return
			}
			written = append(written, tags...)
			wire <- qItem{tags: tags, ch: ch}
		}
	}()
	go func() { // reader loop, as pipe._backgroundRead: one result per command, completion after the last of a batch
		nameGoroutine("reader")
		for it := range wire {
			s.Park("reader|reply|" + it.tags[0]) // the scheduler decides when the reply arrives
			one, multi, ch, resps := q.NextResultCh()
			if ch == nil {
				q.FinishResult()
				violate("reader: NextResultCh returned no entry although %v had been written", it.tags)
				readerDone.Store(true)
				return
			}
			var tags []string
			if multi == nil {
				tags = []string{tagOf(one)}
			} else {
				for _, c := range multi {
					tags = append(tags, tagOf(c))
				}
			}
			if strings.Join(tags, ",") != strings.Join(it.tags, ",") {
				violate("reader: the oldest written entry is %v but NextResultCh returned %v", it.tags, tags)
			}
			if ch != it.ch {
				violate("reader: entry %v is completed through a different channel than the one handed to the writer", tags)
			}
			if (multi == nil && resps != nil) || (multi != nil && len(resps) != len(multi)) {
				// the result slice belongs to the caller that enqueued the batch; a single command has none
				violate("reader: entry %v (%d command(s)) was handed a result slice of %d element(s): the reply slots of another caller's batch", tags, len(tags), len(resps))
				resps = nil
			}
			for i := range resps {
				resps[i] = NewResult(strmsg('+', tags[i]), nil)
			}
			res := NewResult(strmsg('+', tags[len(tags)-1]), nil)
			ch <- res
			q.FinishResult()
			if tags[0] == "QUIT" {
				readerDone.Store(true)
				return
			}
		}
	}()
	for ti, tk := range p.Tasks {
		ti, tk := ti, tk
		var calls []sched.Call
		for ci, n := range tk {
			ci, n := ci, n
			calls = append(calls, sched.Call{Name: "put", Run: func(ctx context.Context, rec *sched.CallRec) any {
				nameGoroutine(fmt.Sprintf("t%d", ti))
				tag := fmt.Sprintf("t%d.c%d", ti, ci)
				startStep := s.Step
				var got []string
				if n == 1 {
					ch, _ := q.PutOne(context.Background(), mkCmd(tag+".k0"))
					putOrder = append(putOrder, struct {
						tag        string
						start, end int
					}{tag + ".k0", startStep, s.Step})
					r := <-ch
					got = []string{r.val.string()}
				} else {
					multi := make([]Completed, n)
					resps := make([]RedisResult, n)
					for k := range multi {
						multi[k] = mkCmd(fmt.Sprintf("%s.k%d", tag, k))
					}
					ch, _ := q.PutMulti(context.Background(), multi, resps)
					putOrder = append(putOrder, struct {
						tag        string
						start, end int
					}{tag + ".k0", startStep, s.Step})
					<-ch
					for k := range resps {
						got = append(got, resps[k].val.string())
					}
				}
				completed.Add(1)
				return got
			}})
		}
		s.AddTask(fmt.Sprintf("putter%d", ti), calls)
	}
	rr := s.Run(s.AllTasksDone)
	out.Reason = rr.Reason
	// results
	for ti, tk := range s.Tasks {
		for _, rec := range tk.Recs {
			n := p.Tasks[ti][rec.Index]
			if !rec.Done {
				violate("deadlock: putter %d call %d (batch of %d) never got its result; run ended %s at step %d with %d of %d calls completed, %d entries written", ti, rec.Index, n, rr.Reason, s.Step, completed.Load(), total, len(written))
				continue
			}
			got := rec.Result.([]string)
			for k := 0; k < n; k++ {
				want := fmt.Sprintf("t%d.c%d.k%d", ti, rec.Index, k)
				if k >= len(got) || got[k] != want {
					violate("putter %d call %d: result %d is %q, want %q (the reply slot of another caller)", ti, rec.Index, k, safeIdx(got, k), want)
				}
			}
		}
	}
	// exactly once, per-putter order, real-time order
	seen := map[string]int{}
	pos := map[string]int{}
	for i, tg := range written {
		seen[tg]++
		pos[tg] = i
	}
	for tg, n := range seen {
		if n != 1 {
			violate("command %s was handed to the writer %d times", tg, n)
		}
	}
	if rr.Reason == "done" {
		for ti, tk := range p.Tasks {
			last := -1
			for ci, n := range tk {
				for k := 0; k < n; k++ {
					tg := fmt.Sprintf("t%d.c%d.k%d", ti, ci, k)
					ps, ok := pos[tg]
					if !ok {
						violate("command %s never reached the writer", tg)
						continue
					}
					if ps <= last {
						violate("putter %d: command %s reached the wire before an earlier command of the same putter", ti, tg)
					}
					last = ps
				}
			}
		}
		// Note: no real-time order between different putters is demanded. A putter that is slow between taking its
		// ticket and locking its slot can be overtaken, on that slot, by a putter one lap later; "queue order" is the
		// order of the slots the writer visits, and per-caller order is what callers can observe.
		_ = putOrder
	}
	for _, v := range violations {
		rule := "queue-contract"
		if strings.HasPrefix(v, "deadlock") {
			rule = "queue-deadlock"
		}
		out.violate("C02", rule, "%s", v)
	}
	// let the loops exit
	if rr.Reason == "done" {
		go func() {
			nameGoroutine("quit")
			ch, _ := q.PutOne(context.Background(), mkCmd("QUIT"))
			<-ch
		}()
		s.Cfg.MaxSteps = s.Step + 2000
		s.Run(func() bool { return writerDone.Load() && readerDone.Load() })
	}
	out.Steps = s.Step
	out.LogHash = s.LogHash()
	out.Stats = s.Stats
	if *flagTape {
		out.Tape = s.Tape
	}
	slots := 2 << (p.Factor - 1)
	if len(p.Tasks) > slots {
		out.probe("more-putters-than-slots")
	}
	if p.Wrap && p.Queue == "ring" {
		out.probe("slot-index-wrapped")
	}
	out.Nontrivial = len(p.Tasks) >= 2
	close(wire)
	s.Shutdown()
}

func safeIdx(a []string, i int) string {
	if i < len(a) {
		return a[i]
	}
	return "<missing>"
}
