//go:build verif

package rueidis

// Scenario "standalone-route": the standalone client with replicas (ClientOption.Standalone.ReplicaAddress +
// SendToReplicas, optionally ReadNodeSelector over the AZ-annotated candidate list).
//
// C21, standalone part: a command reaches a configured replica only when SendToReplicas is true for it (for batches:
// for every command of the batch); a node-selector result outside the candidate list lands on the primary.
//
// standalone.pick draws from math/rand/v2 (not seedable) when there are several replicas and no selector: plans with
// more than one replica always carry a selector, and every selector is a constant function.

import (
	"fmt"
	"sort"
	"strconv"
	"strings"
	"sync"
	"testing"
	"time"

	"verifsim/sched"
)

func init() {
	registerScenario(&scenario{name: "standalone-route", gen: genStandalone, load: loadPlan, exec: execStandalone})
}

var (
	saPrimary  = "10.3.0.1:6379"
	saReplicas = []string{"10.3.0.2:6379", "10.3.0.3:6379", "10.3.0.4:6379"}
)

// one client configuration, kept in Plan.X["clients"] (JSON: list of maps)
type saClient struct {
	Replicas int    // number of configured replica addresses (1..3)
	AZ       bool   // EnableReplicaAZInfo: the selector's candidate list is primary + replicas, otherwise it is empty
	Selector string // "" (none) or the constant the selector returns, e.g. "0", "2", "-1", "7"
	Pred     string // SendToReplicas predicate kind
}

func saClientsOf(p *Plan) []saClient {
	var out []saClient
	raw, _ := p.X["clients"].([]any)
	for _, x := range raw {
		m, _ := x.(map[string]any)
		c := saClient{}
		switch v := m["replicas"].(type) {
		case float64:
			c.Replicas = int(v)
		case int:
			c.Replicas = v
		}
		c.AZ, _ = m["az"].(bool)
		c.Selector, _ = m["selector"].(string)
		c.Pred, _ = m["pred"].(string)
		out = append(out, c)
	}
	return out
}

func genStandalone(seed uint64, tier, variant string) any {
	r := planRand(seed, 0xC21)
	p := &Plan{Scenario: "standalone-route", X: map[string]any{}}
	p.Opt = OptSpec{
		Queue: pick(r, "ring", "ring", "flow"), Multiplex: -1, Procs: 16,
		ReadBuf: pick(r, 0, 64, 512), WriteBuf: pick(r, 0, 64, 512),
		AlwaysPipelining: r.IntN(3) == 0,
		RESP2:            r.IntN(6) == 0,
		DisableRetry:     r.IntN(4) == 0,
		RetryDelaysMs:    pick(r, []int{0, 0, -1}, []int{1, 5, -1}),
		DisableCache:     r.IntN(2) == 0,
		KeepAliveMs:      3600_000, WriteTimeoutMs: 10_000, DialTimeoutMs: 2000,
		PoolSize: pick(r, 1, 2),
	}
	if p.Opt.RESP2 {
		p.Opt.DisableCache = true
	}
	p.Sched = SchedSpec{CutProb: pick(r, 0.0, 0.3), MaxSteps: 6000, TickWeight: pick(r, 0.2, 0.5)}
	nc := 1 + r.IntN(3)
	var clients []any
	for i := 0; i < nc; i++ {
		c := map[string]any{"replicas": 1 + r.IntN(3), "az": r.IntN(4) != 0, "selector": "", "pred": pick(r, "readonly", "readonly", "mark", "mark", "all", "none")}
		nrep := c["replicas"].(int)
		if nrep > 1 || r.IntN(2) == 0 {
			// constant selectors: in range (0 = primary, 1..n = replica), one past the end, far out, negative
			c["selector"] = strconv.Itoa(pick(r, 0, 1, nrep, nrep, nrep+1, nrep+1, 7, 1000, -1, -1, -5))
		}
		clients = append(clients, c)
	}
	p.X["clients"] = clients
	nt := 2 + r.IntN(4)
	for ti := 0; ti < nt; ti++ {
		calls := genRouteCalls(r, ti, 2+r.IntN(6), !p.Opt.DisableCache, !p.Opt.RESP2)
		for i := range calls {
			calls[i].Client = r.IntN(nc)
		}
		p.Tasks = append(p.Tasks, calls)
	}
	if variant != "calm" && r.IntN(3) == 0 {
		for i, n := 0, 1+r.IntN(2); i < n; i++ {
			p.Faults = append(p.Faults, FaultSpec{Kind: pick(r, "reset", "eof", "reset-after-exec"), AtStep: r.IntN(150), NeedInflight: r.IntN(2) == 0, Pick: r.IntN(6)})
		}
	}
	return p
}

type saSelCall struct {
	slot  uint16
	nodes int
	ret   int
}

func execStandalone(t *testing.T, plan any, out *Outcome) {
	p := plan.(*Plan)
	cfgs := saClientsOf(p)
	if len(cfgs) == 0 {
		out.HarnessErr = "standalone-route: plan without clients"
		return
	}
	var mu sync.Mutex
	selLog := make([][]saSelCall, len(cfgs))
	predLog := make([][]predEvent, len(cfgs))
	e := standardRun(t, out.Seed, p, out, runHooks{
		noDefaultNode: true,
		nClients:      len(cfgs),
		noClose:       true,
		afterMain: func(e *env) {
			e.closeClients()
			// let connection clean-up (lock grants, close grace periods) run out before the simulator is shut down
			e.sim.Cfg.DrainBound = 2 * time.Second
			e.sim.Cfg.MaxSteps = e.sim.Step + 600
			e.sim.Run(func() bool { return false })
		},
		beforeClient: func(e *env) {
			muxRegReset(16)
			richIdent.Store(true)
			n := e.sim.W.AddNode(saPrimary)
			n.AZ = "az-a"
			for i, a := range saReplicas {
				e.sim.W.AddReplica(a, saPrimary).AZ = []string{"az-a", "az-b", "az-c"}[i]
			}
		},
		newClient: func(e *env, i int) (Client, error) {
			c := cfgs[i]
			opt := e.clientOption()
			opt.ForceSingleClient = false
			opt.InitAddress = []string{saPrimary}
			opt.Standalone.ReplicaAddress = append([]string(nil), saReplicas[:c.Replicas]...)
			opt.EnableReplicaAZInfo = c.AZ
			kind := c.Pred
			opt.SendToReplicas = func(cmd Completed) bool {
				argv := append([]string(nil), cmd.Commands()...)
				ret := routePredArgv(kind, argv, cmd.IsReadOnly())
				mu.Lock()
				predLog[i] = append(predLog[i], predEvent{argv, ret})
				mu.Unlock()
				return ret
			}
			if c.Selector != "" {
				k, _ := strconv.Atoi(c.Selector)
				opt.ReadNodeSelector = func(slot uint16, nodes []NodeInfo) int {
					mu.Lock()
					selLog[i] = append(selLog[i], saSelCall{slot, len(nodes), k})
					mu.Unlock()
					return k
				}
			}
			return NewClient(opt)
		},
	})
	if out.HarnessErr != "" {
		return
	}
	out.Config = fmt.Sprintf("clients=%d,q=%s,r2=%v,ap=%v,retry=%v,flt=%d", len(cfgs), p.Opt.Queue, p.Opt.RESP2, p.Opt.AlwaysPipelining, !p.Opt.DisableRetry, len(p.Faults))
	checkCommon(e)
	s := e.sim

	// harness self-check: the predicate given to the client answered as the plan says
	for ci, c := range cfgs {
		want := map[string]bool{}
		for _, calls := range p.Tasks {
			for _, cs := range calls {
				if cs.Client%len(cfgs) != ci {
					continue
				}
				for _, cm := range cs.Cmds {
					want[argvKey(cm.Argv)] = routePredSpec(c.Pred, cm)
				}
			}
		}
		for _, pe := range predLog[ci] {
			if w, ok := want[argvKey(pe.Argv)]; ok && w != pe.Ret {
				out.HarnessErr = fmt.Sprintf("predicate %s of client %d answered %v for %q, the plan expects %v", c.Pred, ci, pe.Ret, pe.Argv, w)
				return
			}
		}
	}
	// selector results against the candidate list the client passed
	outOfRange := make([]bool, len(cfgs))
	selUsed := make([]bool, len(cfgs))
	for ci := range cfgs {
		for _, sc := range selLog[ci] {
			selUsed[ci] = true
			if sc.ret < 0 || sc.ret >= sc.nodes {
				outOfRange[ci] = true
				if sc.ret < 0 {
					out.probe("selector-negative")
				} else if sc.nodes == 0 {
					out.probe("selector-empty-candidate-list")
				} else {
					out.probe("selector-past-the-end")
				}
			} else if sc.ret > 0 {
				out.probe("selector-chose-replica")
			} else {
				out.probe("selector-chose-primary")
			}
		}
	}
	type callRef struct {
		spec CallSpec
		ci   int
	}
	calls := map[string]callRef{}
	judgeFrontEndRetries(e, "standalone")
	e.eachCall(func(task int, spec CallSpec, rec *sched.CallRec, res *CallResult) {
		calls[fmt.Sprintf("%d.%d", task, rec.Index)] = callRef{spec, spec.Client % len(cfgs)}
	})
	isReplicaAddr := map[string]bool{}
	for _, a := range saReplicas {
		isReplicaAddr[a] = true
	}
	onReplica, onPrimary, mixedBatches := 0, 0, 0
	seenMixed := map[string]bool{}
	for _, ex := range s.W.Log {
		if ex.Conn < 0 {
			continue
		}
		uid, ok := uidOf(ex.Argv)
		if !ok {
			if len(ex.Argv) == 2 && (strings.EqualFold(ex.Argv[0], "SUBSCRIBE") || strings.EqualFold(ex.Argv[0], "UNSUBSCRIBE")) {
				uid = ex.Argv[1]
			} else {
				continue
			}
		}
		task, call, _, ok := parseUID(uid)
		if !ok {
			continue
		}
		ck := fmt.Sprintf("%d.%d", task, call)
		cr, ok := calls[ck]
		if !ok {
			continue
		}
		c := cfgs[cr.ci]
		optIn, some := len(cr.spec.Cmds) > 0, false
		for _, cm := range cr.spec.Cmds {
			if routePredSpec(c.Pred, cm) {
				some = true
			} else {
				optIn = false
			}
		}
		if some && !optIn && !seenMixed[ck] {
			seenMixed[ck] = true
			mixedBatches++
		}
		where := fmt.Sprintf("client %d task %d call %d (%s) %q received by %s (role %s)", cr.ci, task, call, cr.spec.Kind, truncArgv(ex.Argv), ex.Node, ex.Role)
		replica := isReplicaAddr[ex.Node] || ex.Role == "slave"
		switch {
		case replica && !optIn:
			out.violate("C21", "replica-without-opt-in", "%s although SendToReplicas (%s) is not true for every command of the call", where, c.Pred)
		case replica && (cr.spec.Kind == "cache" || cr.spec.Kind == "mcache"):
			// the standalone client serves cached reads from the primary only; a replica is not forbidden by the property
			out.judged("C21:replica-with-opt-in")
			onReplica++
		case replica:
			out.judged("C21:replica-with-opt-in")
			onReplica++
			switch cr.spec.Kind {
			case "stream", "mstream":
				out.probe("stream-on-replica")
			case "recv":
				out.probe("subscription-on-replica")
			case "multi":
				out.probe("batch-on-replica")
			}
		default:
			out.judged("C21:on-primary")
			onPrimary++
		}
		// a selector result outside the candidate list falls back to the primary
		if c.Selector != "" && selUsed[cr.ci] && outOfRange[cr.ci] {
			if ex.Node != saPrimary {
				out.violate("C21", "selector-fallback-not-primary", "%s although the node selector returned %s for a candidate list of %d node(s)", where, c.Selector, selLog[cr.ci][0].nodes)
			} else {
				out.judged("C21:selector-fallback-on-primary")
			}
		}
	}
	if mixedBatches > 0 {
		out.probe("batch-with-partial-opt-in")
	}
	if onReplica > 0 {
		out.probe("replica-served")
	}
	ks := make([]string, 0)
	for _, c := range cfgs {
		ks = append(ks, c.Pred)
	}
	sort.Strings(ks)
	out.Nontrivial = onReplica+onPrimary > 0 && (onReplica > 0 || mixedBatches > 0 || anyTrue(outOfRange))
}

func anyTrue(b []bool) bool {
	for _, x := range b {
		if x {
			return true
		}
	}
	return false
}
