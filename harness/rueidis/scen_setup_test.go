//go:build verif

package rueidis

import (
	"fmt"
	"strings"
	"testing"

	"verifsim/resp"
	"verifsim/sched"
)

func init() {
	registerScenario(&scenario{name: "setup", gen: genSetup, load: loadPlan, exec: execSetup})
}

func genSetup(seed uint64, tier, variant string) any {
	enum := variant == "enum"
	base := seed
	step := -1
	if enum {
		base, step = seed>>4, int(seed&15)
	}
	r := planRand(base, 0xC47)
	p := &Plan{Scenario: "setup", Opt: genOpt(r), X: map[string]any{}}
	o := &p.Opt
	o.RESP2 = r.IntN(6) == 0
	o.Multiplex = pick(r, -1, -1, 1)
	o.KeepAliveMs, o.WriteTimeoutMs, o.DialTimeoutMs = 3600_000, 10_000, 3000
	o.DisableCache = o.RESP2 || r.IntN(4) == 0
	if !o.DisableCache {
		o.Tracking = pick(r, []string(nil), []string{"OPTOUT"}, []string{"BCAST"}, []string{"BCAST", "PREFIX", "a", "PREFIX", "b"}, []string{"OPTIN", "NOLOOP"})
	}
	switch r.IntN(6) {
	case 1:
		o.Password = "secret"
	case 2:
		o.Username, o.Password = "alice", "pw"
	case 3:
		o.Username, o.Password, o.DynAuth = "bob", "pw2", true
	case 4:
		o.Password, o.DynAuth = "dynsecret", true // credentials function supplying a password for the default user
	}
	// static credentials next to the callback: what the callback returns is used verbatim, empty fields included
	o.StaticDecoy = o.DynAuth && r.IntN(2) == 0
	o.ClientName = pick(r, "", "", "app-1")
	o.SelectDB = pick(r, 0, 0, 3)
	o.NoTouch, o.NoEvict = r.IntN(3) == 0, r.IntN(3) == 0
	o.SetInfo = pick(r, []string(nil), []string(nil), []string{"-"}, []string{"mylib", "9.9"})
	o.RetryDelaysMs = []int{1, 5, 20}
	p.Srv.NoHello = r.IntN(6) == 0
	if p.Srv.NoHello {
		// a server without HELLO (Redis < 6) has no client tracking, NO-TOUCH or NO-EVICT either
		o.DisableCache = true
		o.Tracking = nil
		o.NoTouch, o.NoEvict = false, false
	}
	// availability-zone discovery changes the setup exchange: with AZFromInfo an INFO SERVER step follows HELLO, without
	// it the zone comes from the HELLO reply and the exchange is the plain one
	switch r.IntN(4) {
	case 0:
		o.ReplicaAZInfo = true
	case 1:
		o.ReplicaAZInfo, o.AZFromInfo = true, true
	case 2:
		o.AZFromInfo = r.IntN(2) == 0 // without EnableReplicaAZInfo the option has no effect
	}
	p.Sched = SchedSpec{CutProb: pick(r, 0.0, 0.4), MaxSteps: 6000}
	// which setup step fails on the first connections, and how
	if enum {
		p.X["fail_step"] = step
		p.X["fail_kind"] = pick(r, "error", "drop")
	} else if r.IntN(2) == 0 {
		p.X["fail_step"] = r.IntN(12)
		p.X["fail_kind"] = pick(r, "error", "error", "drop")
	}
	p.X["fail_conns"] = 1 + r.IntN(2)
	for ti, nt := 0, 2+r.IntN(3); ti < nt; ti++ {
		var calls []CallSpec
		for ci, n := 0, 2+r.IntN(3); ci < n; ci++ {
			uid := fmt.Sprintf("t%d.c%d.k0", ti, ci)
			if r.IntN(4) == 0 {
				calls = append(calls, CallSpec{Kind: "do", Cmds: []CmdSpec{{Argv: []string{"BLPOP", "bl0", "0.05"}, Keys: 1, Flag: "block"}}})
			} else {
				calls = append(calls, CallSpec{Kind: "do", Cmds: []CmdSpec{{Argv: []string{"VTAG", uid, "[sb]"}, Flag: pick(r, "", "ro")}}})
			}
		}
		p.Tasks = append(p.Tasks, calls)
	}
	return p
}

func isSetupCmd(argv []string) bool {
	switch strings.ToUpper(argv[0]) {
	case "HELLO", "AUTH", "SELECT", "READONLY", "INFO":
		return true
	case "CLIENT":
		return len(argv) > 1 && strings.ToUpper(argv[1]) != "CACHING"
	}
	return false
}

func execSetup(t *testing.T, plan any, out *Outcome) {
	p := plan.(*Plan)
	failStep, hasFail := planInt(p, "fail_step")
	failKind, _ := p.X["fail_kind"].(string)
	failConns, _ := planInt(p, "fail_conns")
	type connInfo struct {
		setupSeen  int
		failedCmd  string // non-tolerated setup command that got an error reply
		injected   bool
	}
	conns := map[int]*connInfo{}
	var e *env
	// the client is created inside standardRun: failures must not hit the very first connection attempt forever,
	// ForceSingleClient + Dial error would fail NewClient; the harness retries NewClient
	e = standardRunSetup(t, out, p, func(e *env) {
		w := e.sim.W
		n := w.Nodes[e.addr]
		n.AZ = "zone-a"
		switch {
		case p.Opt.Username != "":
			n.Users[p.Opt.Username] = p.Opt.Password
		case p.Opt.Password != "":
			n.Users["default"] = p.Opt.Password
		}
		if p.Opt.StaticDecoy {
			// the server knows the statically configured user too, with either password: a client that mixes the two
			// sources is let in and shows up as the wrong user
			n.Users["decoy"] = p.Opt.Password
		}
		w.Intercept = func(sc *fakeredisSrvConn, argv []string) (resp.Value, bool) {
			ci := conns[sc.ID]
			if ci == nil {
				ci = &connInfo{}
				conns[sc.ID] = ci
			}
			if !isSetupCmd(argv) {
				return resp.Value{}, false
			}
			idx := ci.setupSeen
			ci.setupSeen++
			if ci.failedCmd == strings.Join(argv, " ") {
				// the step is attempted again on this connection (RESP2 fallback re-sends the session commands)
				ci.failedCmd = ""
			}
			if hasFail && sc.ID < failConns && idx == failStep && !ci.injected {
				ci.injected = true
				if failKind == "drop" {
					if l := e.sim.LinkOf(sc.ID); l != nil {
						e.sim.BreakLink(l, "reset", false)
						e.sim.Stats["fault.setup_conn_dropped"]++
					}
					return resp.Err("ERR dropped"), true
				}
				e.sim.Stats["fault.setup_step_error"]++
				name := strings.ToUpper(argv[0])
				tolerated := name == "READONLY" || (name == "CLIENT" && len(argv) > 1 && strings.ToUpper(argv[1]) == "SETINFO")
				if !tolerated {
					ci.failedCmd = strings.Join(argv, " ")
				}
				return resp.Err("ERR injected failure of setup step"), true
			}
			return resp.Value{}, false
		}
	})
	if out.HarnessErr != "" || e == nil {
		return
	}
	checkCommon(e)
	o := p.Opt
	wantUser := "default"
	if o.Username != "" {
		wantUser = o.Username
	}
	wantProto := 3
	if o.RESP2 || p.Srv.NoHello {
		wantProto = 2
	}
	users := 0
	for _, l := range e.sim.Links {
		first := true
		for _, ex := range l.S.Cmds {
			if isSetupCmd(ex.Argv) || strings.ToUpper(ex.Argv[0]) == "PING" {
				continue
			}
			// a user command (or the caching wrapper of one)
			if ci := conns[l.ID]; ci != nil && ci.failedCmd != "" {
				out.violate("C47", "served-after-failed-setup", "connection %d: setup command %q was answered with an error, yet %q was then sent on that connection", l.ID, ci.failedCmd, truncArgv(ex.Argv))
				break
			}
			if !first {
				continue
			}
			first = false
			users++
			s := ex.Sess
			bad := func(what string, got, want any) {
				out.violate("C47", "session-mismatch", "connection %d, first user command %q: %s is %v, the options ask for %v (session %+v)", l.ID, truncArgv(ex.Argv), what, got, want, s)
			}
			if !s.Authed || s.User != wantUser {
				bad("authenticated user", fmt.Sprintf("%v/%s", s.Authed, s.User), wantUser)
			}
			if s.Proto != wantProto {
				bad("protocol", s.Proto, wantProto)
			}
			if s.Name != o.ClientName {
				bad("client name", s.Name, o.ClientName)
			}
			if s.DB != o.SelectDB {
				bad("database", s.DB, o.SelectDB)
			}
			if s.NoTouch != o.NoTouch {
				bad("NO-TOUCH", s.NoTouch, o.NoTouch)
			}
			if s.NoEvict != o.NoEvict {
				bad("NO-EVICT", s.NoEvict, o.NoEvict)
			}
			wantTracking := !o.DisableCache
			if s.Tracking != wantTracking {
				bad("tracking", s.Tracking, wantTracking)
			}
			if wantTracking {
				mode, noloop := "OPTIN", false
				var prefixes []string
				if o.Tracking != nil {
					mode = ""
					for i := 0; i < len(o.Tracking); i++ {
						switch o.Tracking[i] {
						case "OPTIN", "OPTOUT", "BCAST":
							mode = o.Tracking[i]
						case "NOLOOP":
							noloop = true
						case "PREFIX":
							prefixes = append(prefixes, o.Tracking[i+1])
							i++
						}
					}
				}
				if s.TrackMode != mode || s.NoLoop != noloop || strings.Join(s.Prefixes, ",") != strings.Join(prefixes, ",") {
					bad("tracking mode", fmt.Sprintf("%s noloop=%v prefixes=%v", s.TrackMode, s.NoLoop, s.Prefixes), fmt.Sprintf("%s noloop=%v prefixes=%v", mode, noloop, prefixes))
				}
			}
			// library info: tolerated to fail, so only judged when no failure was injected on this connection
			if ci := conns[l.ID]; ci == nil || !ci.injected {
				wantLib, wantVer := LibName, LibVer
				switch {
				case len(o.SetInfo) == 1:
					wantLib, wantVer = "", ""
				case len(o.SetInfo) == 2:
					wantLib, wantVer = o.SetInfo[0], o.SetInfo[1]
				}
				if s.LibName != wantLib || s.LibVer != wantVer {
					bad("library info", s.LibName+"/"+s.LibVer, wantLib+"/"+wantVer)
				}
			}
			out.judged("session-checked")
		}
	}
	if e.sim.Stats["fault.setup_step_error"]+e.sim.Stats["fault.setup_conn_dropped"] > 0 {
		out.probe("setup-step-failed")
	}
	if p.Srv.NoHello {
		out.probe("server-without-hello")
	}
	out.Nontrivial = users > 0
}

// standardRunSetup is standardRun with a client constructor that is retried, because an injected setup failure makes
// NewClient itself fail.
func standardRunSetup(t *testing.T, out *Outcome, p *Plan, before func(e *env)) *env {
	return standardRun(t, out.Seed, p, out, runHooks{beforeClient: before, newClientRetries: 4})
}

var _ = sched.New
