//go:build verif

//go:debug randseednop=0

package rueidis

// Entry point of the simulation harness for package rueidis. This file lives in
// /verif/harness/rueidis and is compiled into the package through -overlay.

import (
	"bufio"
	"encoding/json"
	"flag"
	"fmt"
	mrand "math/rand"
	"os"
	"runtime"
	"runtime/debug"
	"sort"
	"strings"
	"testing"
	"testing/synctest"
	"time"
)

var (
	flagScenario = flag.String("verif.scenario", "", "scenario name")
	flagSeed0    = flag.Uint64("verif.seed0", 1, "first seed")
	flagRuns     = flag.Int("verif.runs", 1, "number of consecutive seeds")
	flagTier     = flag.String("verif.tier", "quick", "quick|thorough")
	flagOut      = flag.String("verif.out", "", "JSON-lines output file")
	flagPlan     = flag.String("verif.plan", "", "plan file (JSON) to execute instead of generating plans")
	flagTape     = flag.Bool("verif.tape", false, "keep and print the event tape")
	flagVariant  = flag.String("verif.variant", "", "scenario variant (e.g. enumeration index)")
	flagProcs    = flag.Int("verif.procs", 0, "GOMAXPROCS for this child (0 = leave)")
)

// recycleAtBytes is the memory obtained from the OS beyond which a child ends early (16 children run side by side).
const recycleAtBytes = 2 << 30

// Violation is one broken rule.
type Violation struct {
	Prop   string `json:"prop"`
	Rule   string `json:"rule"`
	Detail string `json:"detail"`
}

// Outcome is the result of one simulated run.
type Outcome struct {
	Seed       uint64         `json:"seed"`
	Scenario   string         `json:"scenario"`
	Steps      int            `json:"steps"`
	FakeMs     int64          `json:"fake_ms"`
	Reason     string         `json:"reason"`
	LogHash    string         `json:"log_hash"`
	Nontrivial bool           `json:"nontrivial"`
	Violations []Violation    `json:"violations,omitempty"`
	Stats      map[string]int `json:"stats,omitempty"`
	Probes     map[string]int `json:"probes,omitempty"`
	NotJudged  map[string]int `json:"not_judged,omitempty"`
	Judged     map[string]int `json:"judged,omitempty"`
	Gaps       []string       `json:"gaps,omitempty"`
	HarnessErr string         `json:"harness_err,omitempty"`
	Plan       any            `json:"plan,omitempty"`
	Tape       []string       `json:"tape,omitempty"`
	Leaked     bool           `json:"leaked,omitempty"`
	Config     string         `json:"config,omitempty"` // short label of the swarm configuration
}

func (o *Outcome) violate(prop, rule, format string, a ...any) {
	if len(o.Violations) < 20 {
		o.Violations = append(o.Violations, Violation{Prop: prop, Rule: rule, Detail: fmt.Sprintf(format, a...)})
	}
}

func (o *Outcome) probe(name string) {
	if o.Probes == nil {
		o.Probes = map[string]int{}
	}
	o.Probes[name]++
}

func (o *Outcome) judged(name string) {
	if o.Judged == nil {
		o.Judged = map[string]int{}
	}
	o.Judged[name]++
}

func (o *Outcome) notJudged(name string) {
	if o.NotJudged == nil {
		o.NotJudged = map[string]int{}
	}
	o.NotJudged[name]++
}

// scenario is implemented per property group.
type scenario struct {
	name string
	// gen draws a plan for the seed (pure function of seed, tier and variant).
	gen func(seed uint64, tier, variant string) any
	// load parses a plan from JSON (replay / minimisation).
	load func(b []byte) (any, error)
	// exec runs the plan inside a bubble.
	exec func(t *testing.T, plan any, out *Outcome)
}

var scenarios = map[string]*scenario{}

func registerScenario(s *scenario) { scenarios[s.name] = s }

func TestVerif(t *testing.T) {
	if *flagScenario == "" {
		t.Skip("no -verif.scenario")
	}
	if *flagProcs > 0 {
		runtime.GOMAXPROCS(*flagProcs)
	}
	debug.SetGCPercent(400)
	sc := scenarios[*flagScenario]
	if sc == nil {
		var names []string
		for n := range scenarios {
			names = append(names, n)
		}
		sort.Strings(names)
		t.Fatalf("unknown scenario %q; have %s", *flagScenario, strings.Join(names, ","))
	}
	var w *bufio.Writer
	if *flagOut != "" {
		f, err := os.OpenFile(*flagOut, os.O_CREATE|os.O_WRONLY|os.O_APPEND, 0o644)
		if err != nil {
			t.Fatal(err)
		}
		defer f.Close()
		w = bufio.NewWriter(f)
	} else {
		w = bufio.NewWriter(os.Stdout)
	}
	emit := func(v any) {
		b, err := json.Marshal(v)
		if err != nil {
			b, _ = json.Marshal(map[string]any{"ev": "error", "err": err.Error()})
		}
		w.Write(b)
		w.WriteByte('\n')
		w.Flush()
	}
	installHooks()
	if *flagPlan != "" {
		b, err := os.ReadFile(*flagPlan)
		if err != nil {
			t.Fatal(err)
		}
		var env struct {
			Seed uint64          `json:"seed"`
			Plan json.RawMessage `json:"plan"`
		}
		if err := json.Unmarshal(b, &env); err != nil {
			t.Fatal(err)
		}
		plan, err := sc.load(env.Plan)
		if err != nil {
			t.Fatal(err)
		}
		emit(map[string]any{"ev": "begin", "seed": env.Seed})
		out := runOne(t, sc, env.Seed, plan)
		emit(map[string]any{"ev": "end", "seed": env.Seed, "out": out})
		w.Flush()
		os.Exit(0)
	}
	for i := 0; i < *flagRuns; i++ {
		seed := *flagSeed0 + uint64(i)
		emit(map[string]any{"ev": "begin", "seed": seed})
		plan := sc.gen(seed, *flagTier, *flagVariant)
		out := runOne(t, sc, seed, plan)
		emit(map[string]any{"ev": "end", "seed": seed, "out": out})
		// Goroutines that a finished bubble leaves blocked pin that run's buffers and payloads for the life of the
		// process. Runs are independent of the process they execute in (every run is a function of its seed alone), so
		// a child that has grown large hands the rest of its shard back: it exits cleanly after a completed run and
		// the driver starts a fresh child at the next seed.
		if i%8 == 7 && i+1 < *flagRuns {
			var ms runtime.MemStats
			runtime.ReadMemStats(&ms)
			if ms.Sys > recycleAtBytes {
				break
			}
		}
	}
	// The repository's TestMain waits for goroutines to disappear; goroutines of finished bubbles that were
	// deliberately left blocked (hung plans) never do. All results are flushed: leave now.
	w.Flush()
	os.Exit(0)
}

func runOne(t *testing.T, sc *scenario, seed uint64, plan any) (out *Outcome) {
	out = &Outcome{Seed: seed, Scenario: sc.name}
	// cluster.go shuffles its refresh candidates with the global math/rand source: seed it per run
	// (effective because of the go:debug randseednop=0 directive above)
	mrand.Seed(int64(seed))
	start := time.Now()
	_ = start
	func() {
		defer func() {
			if r := recover(); r != nil {
				msg := fmt.Sprint(r)
				if strings.Contains(msg, "deadlock: main bubble goroutine has exited but blocked goroutines remain") {
					out.Leaked = true
					if *flagTape {
						fmt.Fprintln(os.Stderr, "LEAK:", msg)
					}
					return
				}
				out.HarnessErr = "panic in scheduler goroutine: " + msg + "\n" + string(debug.Stack())
			}
		}()
		synctest.Test(t, func(t *testing.T) {
			sc.exec(t, plan, out)
		})
	}()
	curSim.Store(nil)
	if len(out.Violations) > 0 || *flagTape || *flagPlan != "" {
		out.Plan = plan
	}
	return out
}
