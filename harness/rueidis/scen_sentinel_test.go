//go:build verif

package rueidis

// Scenario "sentinel-follow": a real sentinelClient against three model sentinels and three data nodes.
//
// C23 (sentinel clients follow the current master) and, as a by-product, the sentinel part of C21 (replicas only when
// the caller opts in).
//
// The client is built with newSentinelClient and a connFn that wraps makeConn only to label every connection it opens
// with the role the client opened it for (S = sentinel, M = master connection, R = replica connection) and the
// address; the label travels as the tag of the simulated dial, so every model connection is attributable to one
// logical connection (multiplexer) of the client.
//
// Determinism (DESIGN.md 3.3): sentinelClient.mu is a sync.Mutex held across network I/O. At every quiescent point the
// scheduler asks (in-package) whether a refresh is in flight (single-flight counter) and whether the mutex is held
// (TryLock): while either is true no sentinel event is published, Close is not started and sentinel connections are not
// broken unless the holder is a refresh (whose waiters block on a channel). Events are published and delivered in one
// step, so no push frame is ever pending while something else may take the mutex. Deferred events are never dropped.

import (
	"context"
	"crypto/tls"
	"fmt"
	"net"
	"runtime"
	"sort"
	"strconv"
	"strings"
	"sync"
	"sync/atomic"
	"testing"
	"time"

	"verifsim/fakeredis"
	"verifsim/sched"
)

func init() {
	registerScenario(&scenario{name: "sentinel-follow", gen: genSentinel, load: loadPlan, exec: execSentinel})
}

const (
	sentSet      = "mymaster"
	sentConnName = "verif-sentinel-conn"
)

var (
	sentAddrs     = []string{"10.1.0.1:26379", "10.1.0.2:26379", "10.1.0.3:26379"}
	sentDataAddrs = []string{"10.2.0.1:6379", "10.2.0.2:6379", "10.2.0.3:6379"}
	// the master of another master set that the same sentinels monitor (plans with X["foreign"])
	sentForeignAddr = "10.2.0.9:6379"
	sentExtraAddr = "10.1.0.9:26379" // announced through +sentinel; no such process exists
)

// ---- plan ----

func xStr(p *Plan, k, def string) string {
	if v, ok := p.X[k].(string); ok {
		return v
	}
	return def
}

func xInt(p *Plan, k string, def int) int {
	switch v := p.X[k].(type) {
	case float64:
		return int(v)
	case int:
		return v
	}
	return def
}

// routePred is the SendToReplicas predicate of a plan: a pure function of the command.
func routePredArgv(kind string, argv []string, readonly bool) bool {
	switch kind {
	case "all":
		return true
	case "none":
		return false
	case "readonly":
		return readonly
	case "mark":
		for i := 1; i < len(argv) && i < 3; i++ {
			if strings.HasSuffix(argv[i], "R") {
				return true
			}
		}
		return false
	}
	panic("routePred: unknown kind " + kind)
}

func routePredSpec(kind string, c CmdSpec) bool { return routePredArgv(kind, c.Argv, c.Flag == "ro") }

// genRouteCalls draws the workload shared by the sentinel and standalone routing scenarios.
func genRouteCalls(r interface{ IntN(int) int }, ti, ncalls int, allowCache, allowRecv bool) []CallSpec {
	var calls []CallSpec
	pk := func(xs ...string) string { return xs[r.IntN(len(xs))] }
	for ci := 0; ci < ncalls; ci++ {
		uid := func(k int) string {
			u := fmt.Sprintf("t%d.c%d.k%d", ti, ci, k)
			if r.IntN(3) == 0 {
				u += "R"
			}
			return u
		}
		one := func(k int) CmdSpec {
			if r.IntN(4) == 0 {
				return CmdSpec{Argv: []string{"VWTAG", "w" + strconv.Itoa(r.IntN(3)), uid(k)}, Keys: 1}
			}
			return CmdSpec{Argv: []string{"VTAG", uid(k), pk("s", "b", "[sb]", "i")}, Flag: pk("ro", "ro", "")}
		}
		var c CallSpec
		switch x := r.IntN(100); {
		case x < 45:
			c = CallSpec{Kind: "do", Cmds: []CmdSpec{one(0)}}
		case x < 75:
			c = CallSpec{Kind: "multi"}
			same := r.IntN(2) == 0
			first := one(0)
			c.Cmds = append(c.Cmds, first)
			for k, m := 1, 2+r.IntN(3); k < m; k++ {
				n := one(k)
				if same && first.Argv[0] == "VTAG" {
					n = CmdSpec{Argv: []string{"VTAG", uid(k), "s"}, Flag: first.Flag}
				}
				c.Cmds = append(c.Cmds, n)
			}
		case x < 83:
			c = CallSpec{Kind: "stream", Cmds: []CmdSpec{{Argv: []string{"VTAG", uid(0), pk("s", "b")}, Flag: pk("ro", "")}}}
		case x < 90:
			c = CallSpec{Kind: "mstream"}
			fl := pk("ro", "")
			for k, m := 0, 2+r.IntN(2); k < m; k++ {
				f := fl
				if r.IntN(4) == 0 {
					f = pk("ro", "")
				}
				c.Cmds = append(c.Cmds, CmdSpec{Argv: []string{"VTAG", uid(k), pk("s", "b")}, Flag: f})
			}
		case x < 95 && allowCache:
			c = CallSpec{Kind: "cache", TTLMs: 60_000, Cmds: []CmdSpec{{Argv: []string{"VKTAG", "ck" + strconv.Itoa(r.IntN(2)), uid(0), "s"}, Keys: 1, Flag: "ro"}}}
		case x < 98 && allowRecv:
			// a subscription that ends by its deadline; the channel name doubles as the command's identity
			c = CallSpec{Kind: "recv", Cmds: []CmdSpec{{Argv: []string{"SUBSCRIBE", uid(0)}, Flag: "ro"}}, TimeoutMs: 50 + r.IntN(400)} // the builder marks SUBSCRIBE read-only
		default:
			c = CallSpec{Kind: "do", Cmds: []CmdSpec{{Argv: []string{"ECHO", uid(0)}}}}
		}
		if c.Kind != "recv" && r.IntN(8) == 0 {
			c.TimeoutMs = 200 + r.IntN(3000)
		}
		calls = append(calls, c)
	}
	return calls
}

func genSentinel(seed uint64, tier, variant string) any {
	r := planRand(seed, 0xC23)
	p := &Plan{Scenario: "sentinel-follow", X: map[string]any{}}
	mode := pick(r, "primary", "primary", "split", "split", "split", "replica-only")
	p.X["mode"] = mode
	p.X["pred"] = pick(r, "readonly", "readonly", "mark", "mark", "all", "none")
	lifetime := variant == "lifetime"
	calm := variant == "calm" || lifetime || (variant == "" && r.IntN(6) == 0)
	p.X["calm"] = calm
	p.Opt = OptSpec{
		Queue: "ring", Multiplex: -1, Procs: 16,
		ReadBuf: pick(r, 0, 64, 512), WriteBuf: pick(r, 0, 64, 512),
		AlwaysPipelining: r.IntN(3) == 0,
		DisableRetry:     r.IntN(4) == 0,
		RetryDelaysMs:    pick(r, []int{0, 0, -1}, []int{1, 5, -1}, []int{0, 20, 100, -1}),
		DisableCache:     r.IntN(2) == 0,
		KeepAliveMs:      3600_000, WriteTimeoutMs: 10_000, DialTimeoutMs: 2000,
		PoolSize: pick(r, 1, 2),
	}
	p.Sched = SchedSpec{CutProb: pick(r, 0.0, 0.3), MaxSteps: 9000, TickWeight: pick(r, 0.2, 0.6)}
	nt := 2 + r.IntN(4)
	for ti := 0; ti < nt; ti++ {
		p.Tasks = append(p.Tasks, genRouteCalls(r, ti, 2+r.IntN(6), !p.Opt.DisableCache, false))
	}
	if lifetime {
		// variant lifetime: a deployment in which nothing changes, connections that expire (ConnLifetime) while calls are
		// in flight, and batches whose recovery after the expiry is judged: plain batches, MULTI ... EXEC blocks followed
		// by further writes, and blocks whose EXEC is refused because a member was rejected when it was queued
		p.X["lifetime"] = true
		p.Opt.ConnLifetimeMs = pick(r, 60, 150, 400, 1000)
		p.Opt.AlwaysPipelining = r.IntN(4) != 0
		p.Sched.TickWeight = pick(r, 0.05, 0.2, 0.6)
		p.Sched.CutProb = pick(r, 0.3, 0.7, 1.0)
		// a server that answers slowly around the end of a lifetime: the client closes an expired connection only after
		// a grace period of one second, calls outstanding longer than that are cut off
		for i, n := 0, 2+r.IntN(6); i < n; i++ {
			p.Faults = append(p.Faults, FaultSpec{Kind: "slow", AtStep: r.IntN(250), NeedInflight: true, Pick: r.IntN(6), DurMs: pick(r, 1100, 1500, 2500)})
		}
		for ti := range p.Tasks {
			for ci, n := len(p.Tasks[ti]), len(p.Tasks[ti])+1+r.IntN(3); ci < n; ci++ {
				uid := func(k int) string { return fmt.Sprintf("t%d.c%d.k%d", ti, ci, k) }
				wr := func(k int) CmdSpec {
					return CmdSpec{Argv: []string{"VWTAG", "w" + strconv.Itoa(r.IntN(3)), uid(k)}, Keys: 1}
				}
				c := CallSpec{Kind: "multi"}
				k := 0
				if r.IntN(3) != 0 {
					c.Cmds = append(c.Cmds, CmdSpec{Argv: []string{"MULTI"}})
					for m := 1 + r.IntN(2); m > 0; m-- {
						c.Cmds = append(c.Cmds, wr(k))
						k++
					}
					if r.IntN(2) == 0 {
						// refused when queued (wrong number of arguments): EXEC answers EXECABORT
						c.Cmds = append(c.Cmds, CmdSpec{Argv: []string{"VWTAG", "onlykey"}})
					}
					c.Cmds = append(c.Cmds, CmdSpec{Argv: []string{"EXEC"}})
				}
				for m := 2 + r.IntN(4); m > 0; m-- {
					if r.IntN(4) == 0 {
						c.Cmds = append(c.Cmds, CmdSpec{Argv: []string{"VTAG", uid(k), "s"}, Flag: "ro"})
					} else {
						c.Cmds = append(c.Cmds, wr(k))
					}
					k++
				}
				p.Tasks[ti] = append(p.Tasks[ti], c)
			}
		}
	}
	// environment story: the model's current master index, the sentinels' views and what happens to them
	cur := 0
	p.X["initial"] = cur
	step := 5 + r.IntN(40)
	add := func(g GhostSpec) {
		g.MinStep = step
		p.Ghosts = append(p.Ghosts, g)
		step += r.IntN(35)
	}
	other := func(not int) int {
		n := r.IntN(len(sentDataAddrs) - 1)
		if n >= not {
			n++
		}
		return n
	}
	// before the client exists: up to two sentinels may already hold a stale view or be down
	if !calm && r.IntN(3) == 0 {
		s := r.IntN(len(sentAddrs))
		if r.IntN(2) == 0 {
			p.Ghosts = append(p.Ghosts, GhostSpec{Kind: "view", Node: s, Argv: []string{strconv.Itoa(other(cur)), "nopub"}, MinStep: -1})
		} else {
			p.Ghosts = append(p.Ghosts, GhostSpec{Kind: "sent-down", Node: s, MinStep: -1})
			p.Ghosts = append(p.Ghosts, GhostSpec{Kind: "sent-up", Node: s, MinStep: 20 + r.IntN(80)})
		}
	}
	episodes := 1 + r.IntN(4)
	if calm {
		episodes = r.IntN(3)
	}
	if lifetime {
		// no announcements at all: an expiring sentinel connection and its successor can both be subscribed for a moment,
		// an event then reaches two listeners and the second blocks on the client's sync.Mutex while the first is parked
		// inside the simulator - a state synctest cannot see through (seed 1079194237 of an earlier version of the variant)
		episodes = 0
	}
	for ep := 0; ep < episodes; ep++ {
		kind := r.IntN(100)
		if calm {
			kind = 0
		}
		switch {
		case kind < 35:
			// clean failover: roles first, then every sentinel announces it (in a seeded order)
			n := other(cur)
			add(GhostSpec{Kind: "failover", Node: n})
			if !calm && r.IntN(3) == 0 {
				// an instance event reaches the client before any sentinel names the new master
				add(GhostSpec{Kind: "event", Node: sentCurrent, Argv: []string{pick(r, "+slave", "+reboot", "-sdown"), "slave", strconv.Itoa(pick(r, n, cur))}})
			}
			if r.IntN(2) == 0 {
				add(GhostSpec{Kind: "view", Node: sentCurrent, Argv: []string{strconv.Itoa(n), "pub"}})
			}
			for _, s := range r.Perm(len(sentAddrs)) {
				add(GhostSpec{Kind: "view", Node: s, Argv: []string{strconv.Itoa(n), "pub"}})
			}
			cur = n
		case kind < 55:
			// announcement before the roles change: the ROLE check meets a node that is not (yet) a master
			n := other(cur)
			ss := r.Perm(len(sentAddrs))
			add(GhostSpec{Kind: "view", Node: pick(r, ss[0], sentCurrent, sentCurrent), Argv: []string{strconv.Itoa(n), "pub"}})
			if r.IntN(2) == 0 {
				add(GhostSpec{Kind: "view", Node: ss[1], Argv: []string{strconv.Itoa(n), pick(r, "pub", "nopub")}})
			}
			add(GhostSpec{Kind: "failover", Node: n})
			for _, s := range ss[1:] {
				add(GhostSpec{Kind: "view", Node: s, Argv: []string{strconv.Itoa(n), "pub"}})
			}
			cur = n
		case kind < 70:
			// role flip nobody announces (and possibly back)
			n := other(cur)
			add(GhostSpec{Kind: "demote", Node: cur, Argv: []string{strconv.Itoa(n)}})
			switch r.IntN(3) {
			case 0:
				add(GhostSpec{Kind: "promote", Node: cur})
			case 1:
				add(GhostSpec{Kind: "failover", Node: n})
				add(GhostSpec{Kind: "view", Node: pick(r, r.IntN(len(sentAddrs)), sentCurrent), Argv: []string{strconv.Itoa(n), "pub"}})
				cur = n
			}
		case kind < 80:
			// the node the client is connected to as master is demoted without the connection breaking, and then the
			// SAME address is verified again (an instance event naming it, or a sentinel that still names it): the ROLE
			// check on the installed connection meets the wrong role
			n := other(cur)
			add(GhostSpec{Kind: "demote", Node: cur, Argv: []string{strconv.Itoa(n)}})
			if r.IntN(2) == 0 {
				add(GhostSpec{Kind: "event", Node: pick(r, sentCurrent, sentCurrent, r.IntN(len(sentAddrs))), Argv: []string{"+reboot", "master", strconv.Itoa(cur)}})
			} else {
				add(GhostSpec{Kind: "view", Node: sentCurrent, Argv: []string{strconv.Itoa(cur), "pub"}})
			}
			if r.IntN(2) == 0 {
				add(GhostSpec{Kind: "failover", Node: n})
				add(GhostSpec{Kind: "view", Node: pick(r, r.IntN(len(sentAddrs)), sentCurrent), Argv: []string{strconv.Itoa(n), "pub"}})
				cur = n
			} else {
				add(GhostSpec{Kind: "promote", Node: cur})
			}
		case kind < 90:
			// instance events
			for i, m := 0, 1+r.IntN(3); i < m; i++ {
				ch := pick(r, "+slave", "+sdown", "-sdown", "+reboot", "+reboot", "+sentinel")
				role := pick(r, "slave", "slave", "master")
				inst := other(cur)
				if role == "master" {
					inst = pick(r, cur, cur, other(cur))
				}
				add(GhostSpec{Kind: "event", Node: pick(r, r.IntN(len(sentAddrs)), sentCurrent, sentCurrent), Argv: []string{ch, role, strconv.Itoa(inst)}})
			}
		default:
			// loss of a node, a sentinel or single connections
			switch r.IntN(4) {
			case 0:
				d := r.IntN(len(sentDataAddrs))
				add(GhostSpec{Kind: "node-down", Node: d})
				step += 10 + r.IntN(60)
				add(GhostSpec{Kind: "node-up", Node: d})
			case 1:
				s := pick(r, r.IntN(len(sentAddrs)), sentCurrent)
				add(GhostSpec{Kind: "sent-down", Node: s})
				step += 10 + r.IntN(60)
				add(GhostSpec{Kind: "sent-up", Node: s})
			default:
				for i, m := 0, 1+r.IntN(3); i < m; i++ {
					add(GhostSpec{Kind: "break", Node: r.IntN(8), Argv: []string{pick(r, "S", "M", "M", "R", "any"), pick(r, "reset", "eof", "reset-after-exec")}})
				}
			}
		}
	}
	// where the story ends: the node every sentinel finally agrees on (announced by +switch-master in the closing phase)
	p.X["final"] = pick(r, cur, other(cur), other(cur))
	if lifetime {
		p.X["final"] = cur
	}
	// the node the sentinels named before may go on answering ROLE as master (a deposed master that has not heard of it)
	p.X["stale_old"] = r.IntN(2) == 0
	// the last fault: the first dial after the final announcement is refused (the switch fails once and must be retried)
	p.X["final_fault"] = pick(r, "", "", "refuse-dial")
	if calm {
		p.X["final_fault"] = ""
	}
	// the sentinels also monitor another master set whose name begins with ours; its failover is announced on the same
	// channel and must be ignored (its new master is a reachable node that truthfully answers ROLE as master)
	if !lifetime && r.IntN(3) == 0 {
		p.X["foreign"] = true
		p.Ghosts = append(p.Ghosts, GhostSpec{Kind: "foreign-switch", Node: pick(r, sentCurrent, sentCurrent, r.IntN(len(sentAddrs))), MinStep: 5 + r.IntN(120)})
	}
	// session settings (C47, sentinel part): the data nodes and the sentinels take different credentials and names, the
	// database is selected on data nodes only (a sentinel has no SELECT)
	p.X["auth"] = pick(r, 0, 0, 1, 2, 3, 4)
	p.X["db"] = pick(r, 0, 0, 3)
	p.X["dname"] = pick(r, "", "app-d")
	return p
}

// sentCreds returns the credentials the plan gives to data nodes and to sentinels ("" = none).
func sentCreds(p *Plan) (dUser, dPass, sUser, sPass string) {
	switch xInt(p, "auth", 0) {
	case 1:
		dPass = "dpw"
	case 2:
		sPass = "spw"
	case 3:
		dPass, sPass = "dpw", "spw"
	case 4:
		dUser, dPass, sUser, sPass = "duser", "dpw2", "suser", "spw2"
	}
	return
}

// ---- run ----

type sentWrite struct{ step, cum int }

type predEvent struct {
	Argv []string
	Ret  bool
}

type sentRun struct {
	e      *env
	p      *Plan
	cl     *sentinelClient
	mode   string
	pred   string
	mu     sync.Mutex
	muxSeq map[string]int
	preds  []predEvent
	opDone []bool
	base   int
	envOn  bool
	wlog   map[int][]sentWrite
	lastW  map[int]int
	// bookkeeping for probes
	published    int
	delivered    int
	deferredOps  int
	finalPubStep int
	finalDeliv   int
	quietOK      bool
	probeTask    *sched.Task
	probeSpecs   []CallSpec
	viewMaster   []int // per sentinel: index of the data node its view names as master
	downCurrent  int
	settledAt    []bool // per scheduler step: no internal goroutine of the client had anything left to do
	viewEarly    map[int][2]int // announced view changes whose announcement is still deferred: op index -> (sentinel, old master)
}

func (sr *sentRun) sim() *sched.Sim { return sr.e.sim }

// connFn labels the connections of one logical connection of the client; everything else is makeConn.
func (sr *sentRun) connFn(dst string, opt *ClientOption) conn {
	role := "M"
	switch {
	case opt.ClientName == sentConnName:
		role = "S"
	case opt.ReplicaOnly:
		role = "R"
	}
	sr.mu.Lock()
	k := sr.muxSeq[role+"/"+dst]
	sr.muxSeq[role+"/"+dst] = k + 1
	sr.mu.Unlock()
	tag := fmt.Sprintf("%s/%s/%d", role, dst, k)
	// With SendToReplicas a refresh opens the master and the replica connection from two goroutines at once; building a
	// multiplexer creates scheduler-named lockers, so the two constructions are put in an order the scheduler chooses.
	sr.sim().Park("bg|connFn|" + tag)
	o := *opt
	net0 := sr.sim().Net
	o.DialCtxFn = func(ctx context.Context, dst string, _ *net.Dialer, _ *tls.Config) (net.Conn, error) {
		return net0.DialContext(ctx, dst, tag)
	}
	return makeConn(dst, &o)
}

// busy reports, at a quiescent point, whether a refresh is in flight or the client's mutex is held by a parked goroutine.
func (sr *sentRun) busy() (refreshing, held bool) {
	c := sr.cl
	if c == nil {
		return true, true
	}
	refreshing = c.sc.suppressing() > 0
	if c.mu.TryLock() {
		c.mu.Unlock()
	} else {
		held = true
	}
	return
}

// clientSettled reports, at a quiescent point, that none of the client's own goroutines (refresh, switch, event
// callback, a connection being closed) has anything left to do: no refresh in flight, the mutex free, none of them
// parked at a yield point or waiting for a lock. Workload goroutines do not count.
func (sr *sentRun) clientSettled() bool {
	if r, h := sr.busy(); r || h {
		return false
	}
	s := sr.sim()
	for _, id := range s.ParkedIDs() {
		if strings.HasPrefix(id, "bg") {
			return false
		}
	}
	for _, id := range s.LockWaiterIDs() {
		if !isTaskName(id) {
			return false
		}
	}
	return true
}

// nextDiscoveryStep is the first step after `after` at which a sentinel received a SENTINEL command from the client.
func nextDiscoveryStep(log []*fakeredis.Exec, after int) int {
	for _, ex := range log {
		if ex.Conn >= 0 && ex.Step > after && len(ex.Argv) > 0 {
			// (SENTINEL only: with SendToReplicas the master and the replica target are verified by two goroutines at
			// once, so a ROLE command may belong to the other one; the next sentinel query comes after both returned)
			if n := strings.ToUpper(ex.Argv[0]); n == "SENTINEL" {
				return ex.Step
			}
		}
	}
	return -1
}

func isTaskName(id string) bool {
	if len(id) < 2 || id[0] != 't' {
		return false
	}
	for _, c := range id[1:] {
		if c < '0' || c > '9' {
			return false
		}
	}
	return true
}

// settledAfter is the first step >= step at which the client was settled (-1 = never).
func (sr *sentRun) settledAfter(step int) int {
	for i := step; i >= 0 && i < len(sr.settledAt); i++ {
		if sr.settledAt[i] {
			return i
		}
	}
	return -1
}

func (sr *sentRun) recvParked() bool {
	for _, id := range sr.sim().ParkedIDs() {
		if strings.HasPrefix(id, "bg:recv|") {
			return true
		}
	}
	return false
}

// pushGate: a sentinel event may be published (and Close may start) only when nothing holds or is about to want the mutex.
func (sr *sentRun) pushGate() bool {
	r, h := sr.busy()
	return !r && !h && !sr.recvParked()
}

// sentFaultGate: connections to sentinels may break while a refresh holds the mutex (its waiters block on a channel),
// or while nobody holds it; not while a switch or Close holds it.
func (sr *sentRun) sentFaultGate() bool {
	r, h := sr.busy()
	return r || !h
}

func sentBgName() string {
	buf := make([]byte, 8192)
	buf = buf[:runtime.Stack(buf, false)]
	st := string(buf)
	if strings.Contains(st, ").listWatch.func") && !strings.Contains(st, ")._refresh") && !strings.Contains(st, ")._switchTarget") {
		return "bg:recv"
	}
	return "bg"
}

func connClass(tag string) (role, addr string, k int) {
	parts := strings.Split(tag, "/")
	if len(parts) != 3 {
		return "", "", 0
	}
	k, _ = strconv.Atoi(parts[2])
	return parts[0], parts[1], k
}

// deliverNow hands everything the server has pending on l to the client in this step.
func deliverNow(s *sched.Sim, l *sched.Link) int {
	if l.Dead || l.SrvClosed || l.C.ClientClosed() || len(l.S.Out) == 0 {
		return 0
	}
	b := l.S.Out
	l.C.Deliver(b)
	l.Delivered += len(b)
	l.DeliveryLog = append(l.DeliveryLog, sched.Delivery{Step: s.Step, Cum: l.Delivered, At: time.Now()})
	l.S.Out = nil
	s.Logf("  s2c c%d %d/%d bytes (event)", l.ID, len(b), len(b))
	return len(b)
}

// publishAndDeliver runs pub (which makes the model publish on sentinel si) and delivers the frames at once.
func (sr *sentRun) publishAndDeliver(si int, pub func() int) int {
	s := sr.sim()
	n := pub()
	sr.published++
	got := 0
	for _, l := range s.Links {
		if l.S.Node.Addr == sentAddrs[si] && deliverNow(s, l) > 0 {
			got++
		}
	}
	if n > 0 && got > 0 {
		sr.delivered++
	}
	s.Logf("  publish on sentinel %d: %d subscriber(s), %d live", si, n, got)
	return got
}

func (sr *sentRun) gateOK(g GhostSpec) bool {
	switch g.Kind {
	case "view":
		if len(g.Argv) > 1 && g.Argv[1] == "pub" {
			return sr.pushGate()
		}
	case "event", "foreign-switch":
		return sr.pushGate()
	case "sent-down":
		return sr.sentFaultGate()
	case "break":
		if g.Argv[0] == "S" || g.Argv[0] == "any" {
			return sr.sentFaultGate()
		}
	}
	return true
}

func (sr *sentRun) setView(si, master int) {
	s := sr.sim()
	x := s.W.Sentinel.Get(sentAddrs[si])
	var reps, others []string
	for i, a := range sentDataAddrs {
		if i != master {
			reps = append(reps, a)
		}
	}
	for i, a := range sentAddrs {
		if i != si {
			others = append(others, a)
		}
	}
	x.Monitor(sentSet, sentDataAddrs[master], reps, others)
	sr.viewMaster[si] = master
}

func (sr *sentRun) breakLinksOf(addr, kind string) {
	s := sr.sim()
	for _, l := range s.Links {
		if !l.Dead && !l.SrvClosed && l.S.Node.Addr == addr {
			s.BreakLink(l, kind, false)
		}
	}
}

// subscribedSentinel is the index of the sentinel on which this client has a live subscription (-1 = none).
func (sr *sentRun) subscribedSentinel() int {
	s := sr.sim()
	for _, l := range s.LiveLinks() {
		if role, addr, _ := connClass(l.C.Tag); role == "S" && l.S.Subscribed("+switch-master") {
			for i, a := range sentAddrs {
				if a == addr {
					return i
				}
			}
		}
	}
	return -1
}

// applyView makes sentinel g.Node name data node g.Argv[0] as master (once) and, when publish is set, announces it.
func (sr *sentRun) applyView(i int, g GhostSpec, publish bool) {
	n, _ := strconv.Atoi(g.Argv[0])
	st, done := sr.viewEarly[i]
	if !done {
		node := g.Node
		if node == sentCurrent {
			if node = sr.subscribedSentinel(); node < 0 {
				node = 0
			}
		}
		st = [2]int{node, sr.viewMaster[node]}
		sr.viewEarly[i] = st
		sr.setView(node, n)
	}
	if publish {
		w := sr.sim().W
		sr.publishAndDeliver(st[0], func() int {
			return w.Sentinel.Publish(sentAddrs[st[0]], "+switch-master", sentSet+" "+hostPort(sentDataAddrs[st[1]])+" "+hostPort(sentDataAddrs[n]))
		})
	}
}

const sentCurrent = 9 // GhostSpec.Node: "the sentinel the client is subscribed to when the operation is applied"

func (sr *sentRun) applyOp(g GhostSpec) {
	s := sr.sim()
	w := s.W
	atoi := func(x string) int { n, _ := strconv.Atoi(x); return n }
	if (g.Kind == "event" || g.Kind == "sent-down" || g.Kind == "foreign-switch") && g.Node == sentCurrent {
		if g.Node = sr.subscribedSentinel(); g.Node < 0 {
			g.Node = 0
		}
		if g.Kind == "sent-down" {
			sr.downCurrent = g.Node
		}
	}
	if g.Kind == "sent-up" && g.Node == sentCurrent {
		g.Node = sr.downCurrent
	}
	switch g.Kind {
	case "promote":
		w.Promote(sentDataAddrs[g.Node])
	case "demote":
		if m := atoi(g.Argv[0]); m != g.Node {
			w.Demote(sentDataAddrs[g.Node], sentDataAddrs[m])
		}
	case "failover":
		w.Promote(sentDataAddrs[g.Node])
		for i, a := range sentDataAddrs {
			if i != g.Node {
				w.Demote(a, sentDataAddrs[g.Node])
			}
		}
	case "foreign-switch":
		sr.publishAndDeliver(g.Node, func() int {
			return w.Sentinel.Publish(sentAddrs[g.Node], "+switch-master", sentSet+"-sessions 10.2.0.8 6379 "+hostPort(sentForeignAddr))
		})
		sr.sim().Stats["env.foreign-switch-master"]++
	case "event":
		ch, role, inst := g.Argv[0], g.Argv[1], atoi(g.Argv[2])
		addr := sentDataAddrs[inst]
		sr.publishAndDeliver(g.Node, func() int {
			switch ch {
			case "+sentinel":
				return w.Sentinel.InstanceEvent(sentAddrs[g.Node], "+sentinel", "sentinel", sentSet, sentExtraAddr)
			case "+sdown", "-sdown":
				if role == "slave" {
					return w.Sentinel.SDown(sentAddrs[g.Node], "slave", sentSet, addr, ch == "+sdown")
				}
				return w.Sentinel.InstanceEvent(sentAddrs[g.Node], ch, "master", sentSet, addr)
			case "+slave":
				return w.Sentinel.InstanceEvent(sentAddrs[g.Node], "+slave", "slave", sentSet, addr)
			default:
				return w.Sentinel.InstanceEvent(sentAddrs[g.Node], ch, role, sentSet, addr)
			}
		})
	case "node-down":
		w.Nodes[sentDataAddrs[g.Node]].Down = true
		sr.breakLinksOf(sentDataAddrs[g.Node], "reset")
	case "node-up":
		w.Nodes[sentDataAddrs[g.Node]].Down = false
	case "sent-down":
		w.Nodes[sentAddrs[g.Node]].Down = true
		sr.breakLinksOf(sentAddrs[g.Node], "reset")
	case "sent-up":
		w.Nodes[sentAddrs[g.Node]].Down = false
	case "break":
		var el []*sched.Link
		for _, l := range s.LiveLinks() {
			role, _, _ := connClass(l.C.Tag)
			if g.Argv[0] == "any" || g.Argv[0] == role {
				el = append(el, l)
			}
		}
		if len(el) > 0 {
			l := el[g.Node%len(el)]
			if g.Argv[1] == "reset-after-exec" {
				s.BreakLink(l, "reset", true)
			} else {
				s.BreakLink(l, g.Argv[1], false)
			}
			s.Stats["fault."+g.Argv[1]]++
		}
	default:
		panic("sentinel-follow: unknown env op " + g.Kind)
	}
}

func hostPort(addr string) string {
	h, p, _ := net.SplitHostPort(addr)
	return h + " " + p
}

func (sr *sentRun) clientOption() ClientOption {
	e := sr.e
	opt := e.clientOption()
	opt.ForceSingleClient = false
	opt.InitAddress = append([]string(nil), sentAddrs...)
	opt.Sentinel = SentinelOption{MasterSet: sentSet, ClientName: sentConnName}
	opt.Sentinel.Dialer = opt.Dialer
	opt.ClientName = xStr(sr.p, "dname", "")
	opt.SelectDB = xInt(sr.p, "db", 0)
	opt.Username, opt.Password, opt.Sentinel.Username, opt.Sentinel.Password = sentCreds(sr.p)
	opt.PipelineMultiplex = -1
	// what NewClient would fill in
	if opt.ReadBufferEachConn < 32 {
		opt.ReadBufferEachConn = DefaultReadBuffer
	}
	if opt.WriteBufferEachConn < 32 {
		opt.WriteBufferEachConn = DefaultWriteBuffer
	}
	if opt.CacheSizeEachConn <= 0 {
		opt.CacheSizeEachConn = DefaultCacheBytes
	}
	if opt.BlockingPipeline == 0 {
		opt.BlockingPipeline = DefaultBlockingPipeline
	}
	if opt.RetryDelay == nil {
		opt.RetryDelay = func(int, Completed, error) time.Duration { return -1 }
	}
	switch sr.mode {
	case "split":
		kind := sr.pred
		opt.SendToReplicas = func(cmd Completed) bool {
			argv := append([]string(nil), cmd.Commands()...)
			ret := routePredArgv(kind, argv, cmd.IsReadOnly())
			sr.mu.Lock()
			sr.preds = append(sr.preds, predEvent{argv, ret})
			sr.mu.Unlock()
			return ret
		}
	case "replica-only":
		opt.ReplicaOnly = true
	}
	return opt
}

func (sr *sentRun) quiet() bool {
	s := sr.sim()
	if r, h := sr.busy(); r || h {
		return false
	}
	if s.ParkedCount() > 0 || len(s.Net.PendingDials()) > 0 {
		return false
	}
	for _, l := range s.Links {
		if l.Dead || l.SrvClosed {
			continue
		}
		if l.C.PendingWritten() > 0 || len(l.S.Out) > 0 {
			return false
		}
	}
	return true
}

// waitQuiet runs until the client has settled (bounded); it reports whether it did.
func (sr *sentRun) waitQuiet(steps int) bool {
	s := sr.sim()
	s.Cfg.MaxSteps = s.Step + steps
	rr := s.Run(func() bool { return s.AllTasksDone() && sr.quiet() })
	return rr.Reason == "done"
}

func execSentinel(t *testing.T, plan any, out *Outcome) {
	p := plan.(*Plan)
	e := newEnv(out.Seed, p, out)
	s := e.sim
	muxRegReset(16)
	richIdent.Store(true)
	enableSpinSettle(s) // dead-pipe clean-up barrier (DESIGN.md 15.2): the one divergence source the self-test found here
	wireName := func(w *muxwire) string { return muxRegName(w) }
	muxwireName.Store(&wireName)
	bg := sentBgName
	bgNamer.Store(&bg)
	defer bgNamer.Store(nil)
	sr := &sentRun{e: e, p: p, mode: xStr(p, "mode", "primary"), pred: xStr(p, "pred", "readonly"), muxSeq: map[string]int{},
		wlog: map[int][]sentWrite{}, lastW: map[int]int{}, opDone: make([]bool, len(p.Ghosts)), viewMaster: make([]int, len(sentAddrs)), viewEarly: map[int][2]int{}}
	out.Config = fmt.Sprintf("mode=%s,pred=%s,calm=%v,ap=%v,retry=%v,ops=%d", sr.mode, sr.pred, p.X["calm"], p.Opt.AlwaysPipelining, !p.Opt.DisableRetry, len(p.Ghosts))

	// the world: data nodes, sentinels, a consistent initial view
	initial := xInt(p, "initial", 0)
	s.W.AddNode(sentDataAddrs[initial])
	for i, a := range sentDataAddrs {
		if i != initial {
			s.W.AddReplica(a, sentDataAddrs[initial])
		}
	}
	if fg, _ := p.X["foreign"].(bool); fg {
		s.W.AddNode(sentForeignAddr)
	}
	sm := fakeredis.NewSentinelModel(s.W)
	for _, a := range sentAddrs {
		sm.AddSentinel(a)
	}
	for i := range sentAddrs {
		sr.setView(i, initial)
	}
	if dUser, dPass, sUser, sPass := sentCreds(p); dPass != "" || sPass != "" {
		for _, a := range append(append([]string(nil), sentDataAddrs...), sentForeignAddr) {
			if s.W.Nodes[a] == nil {
				continue
			}
			if dPass != "" {
				u := dUser
				if u == "" {
					u = "default"
				}
				s.W.Nodes[a].Users = map[string]string{u: dPass}
			}
		}
		for _, a := range sentAddrs {
			if sPass != "" {
				u := sUser
				if u == "" {
					u = "default"
				}
				sm.SetAuth(a, u, sPass)
			}
		}
	}
	for i, g := range p.Ghosts {
		if g.MinStep < 0 {
			if g.Kind == "view" {
				sr.applyView(i, g, false)
			} else {
				sr.applyOp(g)
			}
			sr.opDone[i] = true
		}
	}
	s.OnStep = func(s *sched.Sim) error {
		for len(sr.settledAt) <= s.Step {
			sr.settledAt = append(sr.settledAt, false)
		}
		sr.settledAt[s.Step] = sr.clientSettled()
		for _, l := range s.Links {
			if _, nw, _, _, _ := l.C.Stats(); nw != sr.lastW[l.ID] {
				sr.lastW[l.ID] = nw
				sr.wlog[l.ID] = append(sr.wlog[l.ID], sentWrite{s.Step, nw})
			}
		}
		return nil
	}

	// the client
	var setupErr error
	tickW := s.Cfg.W.Tick
	s.Cfg.W.Tick = 0.02
	rr := e.background("setup", func(ctx context.Context) {
		opt := sr.clientOption()
		for attempt := 0; ; attempt++ {
			cl, err := newSentinelClient(&opt, sr.connFn, newRetryer(opt.RetryDelay))
			if err == errConnExpired && attempt < 5 {
				// a connection reached its ConnLifetime in the middle of the discovery: the constructor gives up with
				// the internal error (15.8); the application would call it again
				s.Stats["setup.retried-after-lifetime-expiry"]++
				continue
			}
			if err != nil {
				setupErr = err
				return
			}
			sr.cl = cl
			e.clients = append(e.clients, cl)
			return
		}
	})
	s.Cfg.W.Tick = tickW
	stopClient := func() {
		if sr.cl != nil {
			atomic.StoreUint32(&sr.cl.stop, 1)
		}
	}
	if rr.Reason != "done" || setupErr != nil {
		// a constructor that fails because the client itself misconfigured a connection is a finding, not harness trouble
		before := len(out.Violations)
		sr.judgeSetup()
		if len(out.Violations) == before {
			out.HarnessErr = fmt.Sprintf("setup failed: reason=%s err=%v", rr.Reason, setupErr)
		}
		stopClient()
		e.finish()
		return
	}

	// workload and environment
	sr.base = s.Step
	for _, f := range p.Faults {
		s.Faults = append(s.Faults, &sched.Fault{Kind: f.Kind, AtStep: sr.base + f.AtStep, NeedInflight: f.NeedInflight, Pick: f.Pick, Dur: time.Duration(f.DurMs) * time.Millisecond, Arg: f.Arg})
	}
	for ti, calls := range p.Tasks {
		var cs []sched.Call
		for _, c := range calls {
			c := c
			cs = append(cs, sched.Call{Name: c.Kind, Timeout: time.Duration(c.TimeoutMs) * time.Millisecond, Run: func(ctx context.Context, rec *sched.CallRec) any {
				nameGoroutine(sched.TaskID(ctx))
				return e.execCall(sr.cl, c, ctx, rec)
			}})
		}
		s.AddTask(fmt.Sprintf("task%d", ti), cs)
	}
	sr.envOn = true
	s.UserEvents = func(s *sched.Sim) []sched.Event {
		if !sr.envOn {
			return nil
		}
		for i, g := range p.Ghosts {
			if sr.opDone[i] {
				continue
			}
			if s.Step < sr.base+g.MinStep {
				return nil // operations become due in plan order
			}
			i, g := i, g
			if !sr.gateOK(g) {
				sr.deferredOps++
				if _, early := sr.viewEarly[i]; g.Kind == "view" && !early {
					// the sentinel changes its mind now; only the announcement waits (as a message delayed on its way)
					return []sched.Event{{Kind: "env", Key: fmt.Sprintf("g%d:view-unannounced", i), Weight: 1.5, Do: func() { sr.applyView(i, g, false) }}}
				}
				continue // deferred, not dropped; operations that need no gate may overtake it
			}
			return []sched.Event{{Kind: "env", Key: fmt.Sprintf("g%d:%s", i, g.Kind), Weight: 1.5, Do: func() {
				sr.opDone[i] = true
				if g.Kind == "view" {
					sr.applyView(i, g, g.Argv[1] == "pub")
				} else {
					sr.applyOp(g)
				}
			}}}
		}
		return nil
	}
	allOps := func() bool {
		for _, d := range sr.opDone {
			if !d {
				return false
			}
		}
		return true
	}
	// a refresh that cannot succeed in the current state of the world retries without pause; the closing phase below
	// repairs the world, so the main phase only needs room for the plan's operations and the workload
	lastDue := 0
	for _, g := range p.Ghosts {
		if g.MinStep > lastDue {
			lastDue = g.MinStep
		}
	}
	if limit := sr.base + lastDue + 1200; limit < s.Cfg.MaxSteps {
		s.Cfg.MaxSteps = limit
	}
	rr = s.Run(func() bool { return s.AllTasksDone() && allOps() })
	out.Reason = rr.Reason
	sr.envOn = false

	// closing phase: faults stop, the world becomes consistent, the switch to the final master is announced
	s.Heal()
	final := xInt(p, "final", 0)
	for _, a := range append(append([]string(nil), sentDataAddrs...), sentAddrs...) {
		s.W.Nodes[a].Down = false
	}
	s.W.Promote(sentDataAddrs[final])
	for i, a := range sentDataAddrs {
		if i != final {
			s.W.Demote(a, sentDataAddrs[final])
		}
	}
	prevView := append([]int(nil), sr.viewMaster...)
	for i := range sentAddrs {
		sr.setView(i, final)
	}
	if b, _ := p.X["stale_old"].(bool); b {
		// one deposed master at most, so that a real replica remains for clients that need one
		si := sr.subscribedSentinel()
		if si < 0 {
			si = 0
		}
		if o := prevView[si]; o != final {
			s.W.Promote(sentDataAddrs[o])
			out.probe("deposed-master-still-answers-master")
		}
	}
	s.Cfg.DrainBound = 30 * time.Second
	settled := sr.waitQuiet(4000)
	if lt, _ := p.X["lifetime"].(bool); lt {
		settled = false // variant lifetime: no closing announcement, no liveness probes (see genSentinel)
	}
	if settled {
		// every sentinel announces the switch; the client hears the one it is subscribed to
		sr.finalPubStep = s.Step
		if xStr(p, "final_fault", "") == "refuse-dial" {
			s.Faults = append(s.Faults, &sched.Fault{Kind: "refuse-dial", AtStep: s.Step})
			out.probe("dial-refused-during-final-switch")
		}
		for i := range sentAddrs {
			i := i
			sr.finalDeliv += sr.publishAndDeliver(i, func() int {
				return s.W.Sentinel.Publish(sentAddrs[i], "+switch-master", sentSet+" "+hostPort(sentDataAddrs[prevView[i]])+" "+hostPort(sentDataAddrs[final]))
			})
		}
		settled = sr.waitQuiet(4000)
	}
	sr.quietOK = settled
	if settled {
		// fresh traffic after the quiet period: writes are never retried and only a master executes them
		var cs []sched.Call
		for i := 0; i < 4; i++ {
			spec := CallSpec{Kind: "do", Cmds: []CmdSpec{{Argv: []string{"VWTAG", "probe", fmt.Sprintf("t%d.c%d.k0", len(p.Tasks), i)}, Keys: 1}}}
			if sr.mode == "replica-only" {
				spec = CallSpec{Kind: "do", Cmds: []CmdSpec{{Argv: []string{"VTAG", fmt.Sprintf("t%d.c%d.k0", len(p.Tasks), i), "s"}, Flag: "ro"}}}
			}
			sr.probeSpecs = append(sr.probeSpecs, spec)
			cs = append(cs, sched.Call{Name: "probe", Run: func(ctx context.Context, rec *sched.CallRec) any {
				nameGoroutine(sched.TaskID(ctx))
				return e.execCall(sr.cl, spec, ctx, rec)
			}})
		}
		sr.probeTask = s.AddTask("probe", cs)
		s.Cfg.MaxSteps = s.Step + 3000
		s.Run(s.AllTasksDone)
		settled = sr.waitQuiet(2000)
	}
	for _, tk := range s.Tasks {
		if rec := tk.Running(); rec != nil {
			rec.Hung = true
		}
	}
	// Close only when nothing holds the client's mutex; otherwise stop the client's loops without it
	if settled || sr.pushGate() {
		e.closeClients()
	} else {
		out.probe("client-not-settled-before-close")
		stopClient()
		s.Cfg.MaxSteps = s.Step + 1500
		s.Run(func() bool { r, h := sr.busy(); return !r && !h })
		if r, h := sr.busy(); !r && !h {
			e.closeClients()
		}
	}
	stopClient()
	// let connection clean-up (lock grants, close grace periods) run out before the simulator is shut down
	s.Cfg.DrainBound = 2 * time.Second
	s.Cfg.MaxSteps = s.Step + 600
	s.Run(func() bool { return false })
	e.finish()
	if out.HarnessErr != "" {
		return
	}
	checkCommon(e)
	sr.judge()
}

// ---- oracle ----

func respCmdLen(argv []string) int {
	n := 1 + len(strconv.Itoa(len(argv))) + 2
	for _, a := range argv {
		n += 1 + len(strconv.Itoa(len(a))) + 2 + len(a) + 2
	}
	return n
}

type roleCheck struct {
	seq       int
	delivered int // step at which the reply had reached the client (-1 = never)
	role      string
}

type sentReport struct {
	seq  int
	addr string
	how  string
}

// linkFacts derives, for one connection, the byte offsets of its commands and replies.
type linkFacts struct {
	cmdEnd   []int // cumulative request bytes after command i
	replyEnd map[int]int
}

func (sr *sentRun) factsOf(l *sched.Link) *linkFacts {
	f := &linkFacts{replyEnd: map[int]int{}}
	cum := 0
	for _, ex := range l.S.Cmds {
		cum += respCmdLen(ex.Argv)
		f.cmdEnd = append(f.cmdEnd, cum)
	}
	cum = 0
	for _, fr := range l.S.OutLog {
		cum += fr.Bytes
		if !fr.Push && fr.ConnSeq >= 0 {
			f.replyEnd[fr.ConnSeq] = cum
		}
	}
	return f
}

func (sr *sentRun) writeStep(l *sched.Link, f *linkFacts, connSeq int) int {
	if connSeq >= len(f.cmdEnd) {
		return -1
	}
	for _, w := range sr.wlog[l.ID] {
		if w.cum >= f.cmdEnd[connSeq] {
			return w.step
		}
	}
	return -1
}

// replicaPath tells which path the client must choose for a call (the caller's opt-in).
func (sr *sentRun) replicaPath(spec CallSpec) bool {
	switch sr.mode {
	case "replica-only":
		return true
	case "split":
		for _, c := range spec.Cmds {
			if !routePredSpec(sr.pred, c) {
				return false
			}
		}
		return len(spec.Cmds) > 0
	}
	return false
}

// judgeSetup is the sentinel part of C47: the first command after the setup exchange on every connection finds the
// session the options ask for - the data-node credentials, name and database on data connections, the sentinel
// credentials and name and database 0 on sentinel connections - and no SELECT ever reaches a sentinel.
func (sr *sentRun) judgeSetup() {
	s, out, p := sr.e.sim, sr.e.out, sr.p
	dUser, dPass, sUser, sPass := sentCreds(p)
	for _, c := range s.Net.Conns() {
		l := s.LinkOf(c.ID)
		if l == nil {
			continue
		}
		class, _, _ := connClass(c.Tag)
		if class == "" {
			continue
		}
		wantUser, wantAuth, wantName, wantDB := "default", dPass, xStr(p, "dname", ""), xInt(p, "db", 0)
		if dUser != "" {
			wantUser = dUser
		}
		if class == "S" {
			wantUser, wantAuth, wantName, wantDB = "default", sPass, sentConnName, 0
			if sUser != "" {
				wantUser = sUser
			}
		}
		first := true
		for _, ex := range l.S.Cmds {
			if class == "S" && strings.EqualFold(ex.Argv[0], "SELECT") {
				out.violate("C47", "select-sent-to-sentinel", "connection %d [%s]: %q was sent to a sentinel", c.ID, c.Tag, truncArgv(ex.Argv))
			}
			if isSetupCmd(ex.Argv) || strings.EqualFold(ex.Argv[0], "PING") || !first {
				continue
			}
			first = false
			ss := ex.Sess
			if wantAuth != "" && (!ss.Authed || ss.User != wantUser) {
				out.violate("C47", "session-mismatch", "connection %d [%s], first command %q: authenticated as %v/%q, the options ask for user %q", c.ID, c.Tag, truncArgv(ex.Argv), ss.Authed, ss.User, wantUser)
			} else if ss.Name != wantName || ss.DB != wantDB {
				out.violate("C47", "session-mismatch", "connection %d [%s], first command %q: client name %q database %d, the options ask for %q and %d", c.ID, c.Tag, truncArgv(ex.Argv), ss.Name, ss.DB, wantName, wantDB)
			} else {
				out.judged("C47:session-checked")
				if class == "S" && (wantAuth != "" || xInt(p, "db", 0) != 0) {
					out.probe("sentinel-connection-with-own-settings")
				}
			}
		}
	}
}

func (sr *sentRun) judge() {
	e, s, out, p := sr.e, sr.e.sim, sr.e.out, sr.p
	sr.judgeSetup()
	lifetime, _ := p.X["lifetime"].(bool)
	if lifetime {
		judgeLifetimeRecovery(e, "sentinel")
	} else {
		judgeFrontEndRetries(e, "sentinel")
	}
	// the predicate the client was given answered as the plan says (harness self-check)
	if sr.mode == "split" {
		want := map[string]bool{}
		for _, calls := range append(append([][]CallSpec(nil), p.Tasks...), sr.probeSpecs) {
			for _, c := range calls {
				for _, cm := range c.Cmds {
					want[argvKey(cm.Argv)] = routePredSpec(sr.pred, cm)
				}
			}
		}
		for _, pe := range sr.preds {
			if w, ok := want[argvKey(pe.Argv)]; ok && w != pe.Ret {
				out.HarnessErr = fmt.Sprintf("predicate %s answered %v for %q, the plan expects %v", sr.pred, pe.Ret, pe.Argv, w)
				return
			}
		}
	}
	tags := map[int]string{}
	for _, c := range s.Net.Conns() {
		tags[c.ID] = c.Tag
	}
	facts := map[int]*linkFacts{}
	factOf := func(id int) (*sched.Link, *linkFacts) {
		l := s.LinkOf(id)
		if l == nil {
			return nil, nil
		}
		if facts[id] == nil {
			facts[id] = sr.factsOf(l)
		}
		return l, facts[id]
	}
	// what sentinels told this client, and what the nodes answered to ROLE, per logical connection
	var reports []sentReport
	checks := map[string][]roleCheck{}
	refused := 0
	for _, ex := range s.W.Log {
		if ex.Conn < 0 {
			continue
		}
		role, _, _ := connClass(tags[ex.Conn])
		switch {
		case role == "S" && len(ex.Argv) == 3 && strings.EqualFold(ex.Argv[0], "SENTINEL") && strings.EqualFold(ex.Argv[1], "GET-MASTER-ADDR-BY-NAME"):
			if len(ex.Reply.A) == 2 {
				a := net.JoinHostPort(ex.Reply.A[0].S, ex.Reply.A[1].S)
				reports = append(reports, sentReport{ex.Seq, a, "get-master-addr-by-name"})
			}
		case (role == "M" || role == "R") && len(ex.Argv) == 1 && strings.EqualFold(ex.Argv[0], "ROLE"):
			l, f := factOf(ex.Conn)
			rc := roleCheck{seq: ex.Seq, delivered: -1}
			if len(ex.Reply.A) > 0 && !ex.Reply.IsErr() {
				rc.role = ex.Reply.A[0].S
			}
			if end, ok := f.replyEnd[ex.ConnSeq]; ok {
				rc.delivered = l.DeliveredStep(end)
			}
			checks[tags[ex.Conn]] = append(checks[tags[ex.Conn]], rc)
			if (role == "M" && rc.role != "master") || (role == "R" && rc.role != "slave") {
				refused++
			}
		}
	}
	switches := 0
	for _, pu := range s.W.Pushes {
		if pu.Kind != "message" || len(pu.Value.A) != 3 {
			continue
		}
		if role, _, _ := connClass(tags[pu.Conn]); role != "S" {
			continue
		}
		ch, msg := pu.Value.A[1].S, strings.Split(pu.Value.A[2].S, " ")
		switch {
		case ch == "+switch-master" && len(msg) == 5 && msg[0] == sentSet:
			reports = append(reports, sentReport{pu.Seq, net.JoinHostPort(msg[3], msg[4]), "+switch-master"})
			switches++
		case ch == "+reboot" && len(msg) >= 4 && msg[0] == "master" && msg[1] == sentSet:
			reports = append(reports, sentReport{pu.Seq, net.JoinHostPort(msg[2], msg[3]), "+reboot master"})
		}
	}
	reported := func(addr string, before int) bool {
		for _, rp := range reports {
			if rp.addr == addr && rp.seq < before {
				return true
			}
		}
		return false
	}
	// the calls, by uid
	type callRef struct {
		spec  CallSpec
		rec   *sched.CallRec
		probe bool
	}
	calls := map[string]callRef{}
	key := func(task, call int) string { return fmt.Sprintf("%d.%d", task, call) }
	e.eachCall(func(task int, spec CallSpec, rec *sched.CallRec, res *CallResult) {
		calls[key(task, rec.Index)] = callRef{spec: spec, rec: rec}
	})
	if sr.probeTask != nil {
		for _, rec := range sr.probeTask.Recs {
			calls[key(len(p.Tasks), rec.Index)] = callRef{spec: sr.probeSpecs[rec.Index], rec: rec, probe: true}
		}
	}
	judged, afterSwitch := 0, 0
	firstSwitchSeq := -1
	for _, rp := range reports {
		if rp.how == "+switch-master" && (firstSwitchSeq < 0 || rp.seq < firstSwitchSeq) {
			firstSwitchSeq = rp.seq
		}
	}
	final := sentDataAddrs[xInt(p, "final", 0)]
	probeAt := map[int]string{} // probe index -> node that received it
	for _, ex := range s.W.Log {
		if ex.Conn < 0 {
			continue
		}
		uid, ok := uidOf(ex.Argv)
		if !ok {
			if len(ex.Argv) == 2 && strings.EqualFold(ex.Argv[0], "SUBSCRIBE") {
				uid = ex.Argv[1]
			} else {
				continue
			}
		}
		task, call, _, ok := parseUID(uid)
		if !ok {
			continue
		}
		cr, ok := calls[key(task, call)]
		if !ok {
			continue
		}
		class, addr, _ := connClass(tags[ex.Conn])
		if class == "" || class == "S" {
			out.HarnessErr = fmt.Sprintf("user command %q on connection %d with label %q", truncArgv(ex.Argv), ex.Conn, tags[ex.Conn])
			return
		}
		wantReplica := sr.replicaPath(cr.spec)
		where := fmt.Sprintf("task %d call %d %q received by %s (role %s at that time) on connection %d [%s]", task, call, truncArgv(ex.Argv), ex.Node, ex.Role, ex.Conn, tags[ex.Conn])
		// C21, sentinel part: a replica connection only with the caller's opt-in
		if class == "R" && !wantReplica {
			out.violate("C21", "replica-without-opt-in", "%s, a connection the client opened as replica connection, although SendToReplicas is not true for every command of the call (mode %s, predicate %s)", where, sr.mode, sr.pred)
		} else if class == "R" {
			out.judged("C21:replica-with-opt-in")
		} else {
			out.judged("C21:primary-connection")
		}
		l, f := factOf(ex.Conn)
		ws := sr.writeStep(l, f, ex.ConnSeq)
		if ws < 0 {
			out.HarnessErr = fmt.Sprintf("cannot place the write of %s in the byte log", where)
			return
		}
		// most recent ROLE answer on this logical connection that the client had received before it wrote the command
		var last *roleCheck
		for i := range checks[tags[ex.Conn]] {
			rc := &checks[tags[ex.Conn]][i]
			if rc.delivered >= 0 && rc.delivered < ws && (last == nil || rc.seq > last.seq) {
				last = rc
			}
		}
		need := "master"
		if wantReplica {
			need = "slave"
		}
		knownReplica := false
		switch {
		case last == nil:
			out.violate("C23", "traffic-without-role-check", "%s (written at step %d): no ROLE answer had been received on that connection", where, ws)
		case last.role != need:
			// The answer may have arrived while this call was already under way (it had picked its connection), or while
			// the client was still closing the connection: only a call that started after the client had finished
			// everything the answer made it do is judged.
			// Two witnesses that the client has finished with the answer: (1) nothing internal left to do at some step
			// after it; (2) the discovery flow has moved on - the verification of a target, including the closing of a
			// connection that answered the wrong role, is synchronous in the goroutine that asked ROLE, so once the client
			// sends its next SENTINEL command that verification has returned.
			q := sr.settledAfter(last.delivered)
			if q2 := nextDiscoveryStep(e.sim.W.Log, last.delivered); q2 >= 0 && (q < 0 || q2 < q) {
				q = q2
			}
			if q >= 0 && q < cr.rec.StartStep {
				out.violate("C23", "traffic-after-wrong-role", "%s (call started at step %d, written at step %d) on the %s path: the most recent ROLE answer on that connection was %q, received at step %d; the client had finished with that answer by step %d", where, cr.rec.StartStep, ws, map[bool]string{false: "primary", true: "replica"}[wantReplica], last.role, last.delivered, q)
				knownReplica = last.role == "slave"
			} else {
				out.notJudged("C23:wrong-role-answer-raced-with-the-call")
			}
		default:
			out.judged("C23:role-checked")
			judged++
		}
		if !wantReplica {
			if !reported(addr, ex.Seq) || addr != ex.Node {
				out.violate("C23", "primary-traffic-to-unreported-address", "%s: no sentinel had reported %s as master to this client before", where, ex.Node)
			} else {
				out.judged("C23:address-was-reported")
			}
			if ex.Role != "master" {
				out.probe("primary-traffic-met-demoted-node")
			}
		}
		// C21 by the role of the node, where the client knew it
		if ex.Role == "slave" && !wantReplica {
			if knownReplica {
				out.violate("C21", "replica-without-opt-in", "%s: the node had answered ROLE as slave on that connection before the call started and SendToReplicas is not true for every command of the call", where)
			} else {
				out.notJudged("C21:role-changed-after-the-role-check")
			}
		}
		if firstSwitchSeq >= 0 && ex.Seq > firstSwitchSeq {
			afterSwitch++
		}
		if cr.probe {
			probeAt[call] = ex.Node
		}
	}
	// bounded liveness: after the announced switch and the quiet period, fresh primary traffic is on the new master
	switch {
	case lifetime:
		// connections that expire make the client re-verify and re-dial on its own schedule: a ROLE check that meets an
		// expired connection closes the installed master connection, and calls fail with ErrClosing until the next
		// refresh has replaced it (seed 289 of the variant). There is no quiet period to judge liveness after.
		out.notJudged("liveness:connections-expire")
	case sr.probeTask == nil:
		out.notJudged("liveness:client-did-not-settle")
		out.probe("client-did-not-settle-after-heal")
	case sr.mode == "replica-only" || (sr.mode == "split" && sr.pred == "all"):
		out.notJudged("liveness:no-primary-path")
	case sr.finalDeliv == 0:
		out.notJudged("liveness:switch-event-not-delivered")
	default:
		bad := false
		for i := 0; i < len(sr.probeSpecs); i++ {
			if n, ok := probeAt[i]; ok && n != final {
				out.violate("C23", "traffic-not-on-new-master", "fresh write %d, issued after +switch-master to %s had been delivered (step %d) and the client had settled, was received by %s", i, final, sr.finalPubStep, n)
				bad = true
			}
		}
		lastIdx := len(sr.probeSpecs) - 1
		if n, ok := probeAt[lastIdx]; !ok && !bad {
			res := "no result"
			if rec := sr.probeTask.Recs; len(rec) > lastIdx && rec[lastIdx].Done {
				if cr, _ := rec[lastIdx].Result.(*CallResult); cr != nil && len(cr.Res) > 0 {
					res = cr.Res[0].Err + cr.Res[0].Text
				}
			}
			out.violate("C23", "new-master-not-reached", "after +switch-master to %s was delivered (step %d) and a quiet period, none of the last fresh writes reached it (last result: %s)", final, sr.finalPubStep, truncStr(res, 200))
		} else if ok && n == final {
			out.judged("C23:liveness")
			out.probe("liveness-judged")
		}
	}
	if switches > 0 {
		out.probe("switch-master-delivered")
	}
	if s.Stats["env.foreign-switch-master"] > 0 {
		out.probe("foreign-master-set-switch-announced")
	}
	if refused > 0 {
		out.probe("role-check-refused-node")
	}
	if len(reports) > 0 {
		addrs := map[string]bool{}
		for _, rp := range reports {
			addrs[rp.addr] = true
		}
		if len(addrs) > 1 {
			out.probe("sentinels-named-different-masters")
		}
	}
	if sr.deferredOps > 0 {
		out.probe("event-deferred-while-mutex-busy")
	}
	if s.Stats["fault.reset"]+s.Stats["fault.eof"]+s.Stats["fault.reset-after-exec"] > 0 {
		out.probe("connection-lost")
	}
	for _, g := range p.Ghosts {
		switch g.Kind {
		case "node-down":
			out.probe("node-lost")
		case "sent-down":
			out.probe("sentinel-lost")
		}
	}
	if afterSwitch > 0 {
		out.probe("traffic-after-switch-event")
	}
	ks := make([]string, 0, len(checks))
	for k := range checks {
		ks = append(ks, k)
	}
	sort.Strings(ks)
	if len(ks) > 2 {
		out.probe("more-than-two-data-connections")
	}
	out.Nontrivial = judged > 0 && (switches > 0 || refused > 0)
	if lifetime {
		out.Nontrivial = judged > 0 && out.Probes["connection-reached-its-lifetime"] > 0
	}
}
