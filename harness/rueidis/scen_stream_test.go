//go:build verif

package rueidis

import (
	"context"
	"errors"
	"fmt"
	"strconv"
	"strings"
	"testing"

	"verifsim/sched"
)

func init() {
	registerScenario(&scenario{name: "stream", gen: genStream, load: loadPlan, exec: execStream})
}

func genStream(seed uint64, tier, variant string) any {
	enum := strings.HasPrefix(variant, "enum")
	base, boundary := seed, 0
	if enum {
		base, boundary = seed>>8, int(seed&255)
	}
	r := planRand(base, 0xC29)
	p := &Plan{Scenario: "stream", Opt: genOpt(r), X: map[string]any{}}
	p.Opt.RESP2 = r.IntN(5) == 0
	p.Opt.PoolSize = pick(r, 1, 2)
	p.Opt.ReadBuf = pick(r, 0, 32, 64, 512, 4096)
	p.Opt.KeepAliveMs, p.Opt.WriteTimeoutMs, p.Opt.DialTimeoutMs = 3600_000, 10_000, 2000
	p.Opt.DisableRetry = true
	p.Sched = SchedSpec{CutProb: pick(r, 0.3, 0.8, 1.0), MaxSteps: 10000, TickWeight: 0.05}
	nt := 1 + r.IntN(3)
	if enum {
		nt = 1
	}
	for ti := 0; ti < nt; ti++ {
		var calls []CallSpec
		for ci, n := 0, 1+r.IntN(4); ci < n; ci++ {
			uid := func(k int) string { return fmt.Sprintf("t%d.c%d.k%d", ti, ci, k) }
			shape := func() string {
				s := pick(r, "s", "b", "b", "i", "d", "n", "e", "S", "v", "z")
				if p.Opt.RESP2 && s == "S" {
					s = "b"
				}
				return s
			}
			pad := func() string { return strconv.Itoa(pick(r, 0, 0, 17, 300, 5000, 70000, 200000)) }
			var c CallSpec
			if r.IntN(2) == 0 {
				c = CallSpec{Kind: "wstream", Cmds: []CmdSpec{{Argv: []string{"VTAG", uid(0), shape(), pad()}}}}
			} else {
				c = CallSpec{Kind: "wstream"}
				for k, m := 0, 2+r.IntN(3); k < m; k++ {
					c.Cmds = append(c.Cmds, CmdSpec{Argv: []string{"VTAG", uid(k), shape(), pad()}})
				}
			}
			// N: the caller's writer fails after N bytes (0 = never)
			if r.IntN(5) == 0 {
				c.N = 1 + r.IntN(5000)
			}
			calls = append(calls, c)
		}
		p.Tasks = append(p.Tasks, calls)
	}
	if enum {
		p.X["sched_seed"] = base
		p.Faults = []FaultSpec{{Kind: pick(r, "eof-mid-reply", "reset"), AtStep: boundary, NeedInflight: false, Pick: r.IntN(3), Arg: r.IntN(1 << 16)}}
	} else if r.IntN(2) == 0 {
		for i, n := 0, 1+r.IntN(2); i < n; i++ {
			p.Faults = append(p.Faults, FaultSpec{Kind: pick(r, "eof-mid-reply", "eof-mid-reply", "reset", "werr"), AtStep: r.IntN(150), NeedInflight: true, Pick: r.IntN(3), Arg: r.IntN(1 << 18)})
		}
	}
	return p
}

type failWriter struct {
	buf   []byte
	limit int
}

var errWriterFull = errors.New("harness writer refuses more bytes")

func (w *failWriter) Write(p []byte) (int, error) {
	if w.limit > 0 && len(w.buf)+len(p) > w.limit {
		n := w.limit - len(w.buf)
		if n < 0 {
			n = 0
		}
		w.buf = append(w.buf, p[:n]...)
		return n, errWriterFull
	}
	w.buf = append(w.buf, p...)
	return len(p), nil
}

type streamOut struct {
	payload  string
	err      string
	redisErr bool
	nilErr   bool
	wrote    int64
}

func execStream(t *testing.T, plan any, out *Outcome) {
	p := plan.(*Plan)
	proto := 3
	if p.Opt.RESP2 {
		proto = 2
	}
	leak := ""
	e := standardRun(t, out.Seed, p, out, runHooks{
		extraCall: func(e *env, cl Client, cs CallSpec, ctx context.Context, rec *sched.CallRec) *CallResult {
			if cs.Kind != "wstream" {
				return nil
			}
			r := &CallResult{Kind: "wstream"}
			var st RedisResultStream
			if len(cs.Cmds) == 1 {
				st = cl.DoStream(ctx, buildCmd(cl.B(), cs.Cmds[0]))
			} else {
				list := make(Commands, 0, len(cs.Cmds))
				for _, c := range cs.Cmds {
					list = append(list, buildCmd(cl.B(), c))
				}
				st = cl.DoMultiStream(ctx, list...)
			}
			var outs []streamOut
			for st.HasNext() {
				w := &failWriter{limit: cs.N}
				n, err := st.WriteTo(w)
				so := streamOut{payload: string(w.buf), wrote: n}
				if err != nil {
					so.err = err.Error()
					_, so.redisErr = err.(*RedisError)
					so.nilErr = IsRedisNil(err)
				}
				outs = append(outs, so)
				if len(outs) > len(cs.Cmds)+2 {
					r.Notes = append(r.Notes, "HasNext stayed true after more WriteTo calls than commands")
					break
				}
			}
			// a further WriteTo after the end must not consume anything
			w := &failWriter{}
			if n, _ := st.WriteTo(w); n != 0 || len(w.buf) != 0 {
				r.Notes = append(r.Notes, "WriteTo after the end wrote bytes")
			}
			if st.Error() != nil {
				r.Err = st.Error().Error()
			}
			rec.Notes = map[string]any{"outs": outs}
			return r
		},
		afterMain: func(e *env) {
			for pi, pl := range poolsOf(e.clients[0]) {
				if pl.size != len(pl.list) {
					leak = fmt.Sprintf("%s pool: size=%d idle=%d with nothing running (BlockingPoolSize=%d)", []string{"blocking", "streaming"}[pi%2], pl.size, len(pl.list), pl.cap)
				}
				seen := map[wire]bool{}
				for _, w := range pl.list {
					if seen[w] {
						leak = "the same connection was returned to the pool twice"
					}
					seen[w] = true
				}
			}
		},
	})
	if out.HarnessErr != "" {
		return
	}
	checkCommon(e)
	if leak != "" {
		out.violate("C29", "pool-accounting", "%s", leak)
	}
	faulted := len(p.Faults) > 0
	streams := 0
	e.eachCall(func(task int, spec CallSpec, rec *sched.CallRec, res *CallResult) {
		if spec.Kind != "wstream" {
			return
		}
		if res == nil {
			out.violate("C29", "stream-never-returned", "task %d call %d stream call never returned", task, rec.Index)
			return
		}
		streams++
		for _, n := range res.Notes {
			out.violate("C29", "stream-contract", "task %d call %d: %s", task, rec.Index, n)
		}
		outs, _ := rec.Notes["outs"].([]streamOut)
		if len(outs) > len(spec.Cmds) {
			out.violate("C29", "stream-contract", "task %d call %d: %d WriteTo calls consumed replies for %d commands", task, rec.Index, len(outs), len(spec.Cmds))
			return
		}
		complete := true
		for i, so := range outs {
			exp, _ := expectedReply(spec.Cmds[i].Argv)
			want := normalize(exp, proto)
			wantPayload := want.S
			if want.T == ':' {
				wantPayload = strconv.FormatInt(want.I, 10)
			}
			switch {
			case so.err == "":
				if want.T == '_' || want.T == '-' || want.T == '!' {
					out.violate("C29", "stream-error-swallowed", "task %d call %d reply %d: a %q reply was reported as success with %d bytes", task, rec.Index, i, string(want.T), len(so.payload))
				} else if so.payload != wantPayload {
					out.violate("C29", "stream-payload", "task %d call %d reply %d %q: wrote %d bytes, the reply's payload has %d bytes (first difference at %d)", task, rec.Index, i, truncArgv(spec.Cmds[i].Argv), len(so.payload), len(wantPayload), firstDiff(so.payload, wantPayload))
				} else {
					out.judged("stream-payload-exact")
					if want.T == '$' && wantPayload == "" {
						out.probe("empty-bulk-string-streamed")
					}
				}
			case so.nilErr:
				if want.T != '_' {
					out.violate("C29", "stream-payload", "task %d call %d reply %d: reported nil for a %q reply", task, rec.Index, i, string(want.T))
				}
			case so.redisErr:
				if want.T != '-' && want.T != '!' {
					out.violate("C29", "stream-payload", "task %d call %d reply %d: reported a Redis error %q for a %q reply", task, rec.Index, i, so.err, string(want.T))
				}
			default:
				// a failing io.Writer alone does not spoil the connection: the rest of the reply is discarded;
				// anything else means the reply could not be consumed completely
				if so.err != errWriterFull.Error() {
					complete = false
				}
				// the writer failed or the connection broke: what was written must be a prefix of the payload
				if want.T != '_' && want.T != '-' && want.T != '!' && !strings.HasPrefix(wantPayload, so.payload) {
					out.violate("C29", "stream-payload", "task %d call %d reply %d: %d bytes were written before the error %q and they are not a prefix of the payload", task, rec.Index, i, len(so.payload), so.err)
				}
				if so.err == errWriterFull.Error() {
					out.probe("writer-failed-midway")
				} else if !faulted && !(spec.TimeoutMs > 0) {
					out.violate("C29", "stream-error", "task %d call %d reply %d: error %q without any fault", task, rec.Index, i, so.err)
				}
			}
		}
		if complete && len(outs) != len(spec.Cmds) && !faulted && res.Err == "" {
			out.violate("C29", "stream-contract", "task %d call %d: %d replies were delivered for %d commands", task, rec.Index, len(outs), len(spec.Cmds))
		}
		// a reply that was not consumed completely: the connection must be closed and never reused
		if !complete {
			var conn = -1
			if uid, ok := uidOf(spec.Cmds[0].Argv); ok {
				for _, ex := range e.sim.W.Log {
					if u2, ok := uidOf(ex.Argv); ok && u2 == uid {
						conn = ex.Conn
					}
				}
			}
			if conn >= 0 {
				l := e.sim.LinkOf(conn)
				lastOwn := -1
				for _, ex := range l.S.Cmds {
					if u2, ok := uidOf(ex.Argv); ok && strings.HasPrefix(u2, fmt.Sprintf("t%d.c%d.", task, rec.Index)) {
						lastOwn = ex.ConnSeq
					}
				}
				for _, ex := range l.S.Cmds {
					if ex.ConnSeq > lastOwn && !isSetupCmd(ex.Argv) && strings.ToUpper(ex.Argv[0]) != "PING" {
						out.violate("C29", "reused-after-partial-read", "connection %d: %q was sent after a streaming reply of task %d call %d had not been consumed completely", conn, truncArgv(ex.Argv), task, rec.Index)
						break
					}
				}
				if !l.C.ClientClosed() && !l.Dead {
					out.violate("C29", "not-closed-after-partial-read", "connection %d was left open after a streaming reply of task %d call %d had not been consumed completely", conn, task, rec.Index)
				}
				out.probe("partial-consumption")
			}
		}
	})
	if e.sim.Stats["s2c.partial"] > 0 {
		out.probe("reply-split-across-reads")
	}
	out.Nontrivial = streams > 0
}
