//go:build verif

package rueidis

import (
	"sync"
	"context"
	"errors"
	"fmt"
	"strconv"
	"strings"
	"testing"

	"verifsim/sched"
)

func init() {
	registerScenario(&scenario{name: "dedicated", gen: genDedicated, load: loadPlan, exec: execDedicated})
}

func genDedicated(seed uint64, tier, variant string) any {
	r := planRand(seed, 0xC25)
	p := &Plan{Scenario: "dedicated", Opt: genOpt(r), X: map[string]any{}}
	p.Opt.RESP2 = false
	p.Opt.Multiplex = -1
	p.Opt.PoolSize = pick(r, 1, 1, 2)
	p.Opt.KeepAliveMs, p.Opt.WriteTimeoutMs = 3600_000, 600_000
	p.Opt.DisableRetry = true
	p.Sched = SchedSpec{CutProb: pick(r, 0.0, 0.4), MaxSteps: 8000, TickWeight: 0.2}
	// a client-wide invalidation callback next to the one a session installs: both are owed the invalidations
	p.Opt.OnInvalidations = r.IntN(2) == 0
	nt := 2 + r.IntN(5)
	for ti := 0; ti < nt; ti++ {
		var calls []CallSpec
		for ci, n := 0, 1+r.IntN(4); ci < n; ci++ {
			uid := func(k int) string { return fmt.Sprintf("t%d.c%d.k%d", ti, ci, k) }
			var c CallSpec
			switch x := r.IntN(100); {
			case x < 50:
				// a dedicated session: S = optional setup (hooks / invalidation callback / subscribe), then a WATCH...EXEC
				c = CallSpec{Kind: "dsession", S: pick(r, "", "", "hooks", "inval", "subscribe"), N: r.IntN(2)}
				key := "wk" + strconv.Itoa(r.IntN(2))
				c.Cmds = append(c.Cmds, CmdSpec{Argv: []string{"WATCH", key}, Keys: 1})
				c.Cmds = append(c.Cmds, CmdSpec{Argv: []string{"VKTAG", key, "d." + uid(1), "s"}, Keys: 1})
				c.Cmds = append(c.Cmds, CmdSpec{Argv: []string{"MULTI"}})
				for k, m := 0, 1+r.IntN(3); k < m; k++ {
					c.Cmds = append(c.Cmds, CmdSpec{Argv: []string{"VWTAG", key, "d." + uid(3+k)}, Keys: 1})
				}
				c.Cmds = append(c.Cmds, CmdSpec{Argv: []string{"EXEC"}})
			case x < 65:
				c = CallSpec{Kind: "do", Cmds: []CmdSpec{{Argv: []string{"BLPOP", "bl0", pick(r, "0.05", "0.5")}, Keys: 1, Flag: "block"}}}
				if r.IntN(3) == 0 {
					// given up by its caller while the server still holds it: that connection must not be handed to a session
					c.Cmds[0].Argv[2] = pick(r, "2", "0")
					c.Cancel, c.CancelAfter = true, 2+r.IntN(6)
				}
			default:
				c = CallSpec{Kind: "do", Cmds: []CmdSpec{{Argv: []string{"VTAG", uid(0), "[sb]"}}}}
			}
			calls = append(calls, c)
		}
		p.Tasks = append(p.Tasks, calls)
	}
	for i, n := 0, 2+r.IntN(6); i < n; i++ {
		switch r.IntN(3) {
		case 0:
			p.Ghosts = append(p.Ghosts, GhostSpec{Kind: "cmd", Argv: []string{"VWTAG", "wk" + strconv.Itoa(r.IntN(2)), "ghost." + strconv.Itoa(i)}, MinStep: r.IntN(200)})
		case 1:
			p.Ghosts = append(p.Ghosts, GhostSpec{Kind: "cmd", Argv: []string{"PUBLISH", "dch", "m" + strconv.Itoa(i)}, MinStep: r.IntN(200)})
		default:
			p.Ghosts = append(p.Ghosts, GhostSpec{Kind: "cmd", Argv: []string{"RPUSH", "bl0", "e" + strconv.Itoa(i)}, MinStep: r.IntN(200)})
		}
	}
	return p
}

func execDedicated(t *testing.T, plan any, out *Outcome) {
	p := plan.(*Plan)
	var invMu sync.Mutex
	invGot := map[*sched.CallRec][]string{} // per session: what its SetOnInvalidations callback was called with, in order
	e := standardRun(t, out.Seed, p, out, runHooks{
		extraCall: func(e *env, cl Client, cs CallSpec, ctx context.Context, rec *sched.CallRec) *CallResult {
			if cs.Kind != "dsession" {
				return nil
			}
			r := &CallResult{Kind: "dsession"}
			var dc DedicatedClient
			var release func()
			if cs.N == 0 {
				dc, release = cl.Dedicate()
			}
			var hookMsgs int
			body := func(dc DedicatedClient) error {
				switch cs.S {
				case "hooks":
					dc.SetPubSubHooks(PubSubHooks{OnMessage: func(m PubSubMessage) { hookMsgs++ }})
					r.Res = append(r.Res, toRes(dc.Do(ctx, dc.B().Subscribe().Channel("dch").Build())))
				case "subscribe":
					r.Res = append(r.Res, toRes(dc.Do(ctx, dc.B().Subscribe().Channel("dch").Build())))
				case "inval":
					dc.SetOnInvalidations(func(ms []RedisMessage) {
						ev := "nil"
						if ms != nil {
							ks := make([]string, len(ms))
							for i, m := range ms {
								ks[i] = m.string()
							}
							ev = strings.Join(ks, ",")
						}
						invMu.Lock()
						invGot[rec] = append(invGot[rec], ev)
						invMu.Unlock()
					})
					r.Res = append(r.Res, toRes(dc.Do(ctx, dc.B().Arbitrary("CLIENT", "TRACKING", "ON", "BCAST").Build())))
				}
				for _, c := range cs.Cmds {
					r.Res = append(r.Res, toRes(dc.Do(ctx, buildCmd(dc.B(), c))))
				}
				return nil
			}
			var kept DedicatedClient
			if dc != nil {
				body(dc)
				kept = dc
				release()
			} else {
				cl.Dedicated(func(d DedicatedClient) error { kept = d; return body(d) })
			}
			// use after release
			after := kept.Do(ctx, kept.B().Arbitrary("VTAG").Args("after."+cs.Cmds[1].Argv[2], "s").Build())
			if !errors.Is(after.Error(), ErrDedicatedClientRecycled) {
				r.Notes = append(r.Notes, fmt.Sprintf("after-release: %v / %s", after.Error(), toRes(after).Text))
			}
			am := kept.DoMulti(ctx, kept.B().Arbitrary("VTAG").Args("after2."+cs.Cmds[1].Argv[2], "s").Build())
			if len(am) != 1 || !errors.Is(am[0].Error(), ErrDedicatedClientRecycled) {
				r.Notes = append(r.Notes, "after-release-multi")
			}
			if err := kept.Receive(ctx, kept.B().Subscribe().Channel("x").Build(), func(PubSubMessage) {}); !errors.Is(err, ErrDedicatedClientRecycled) {
				r.Notes = append(r.Notes, fmt.Sprintf("after-release-receive: %v", err))
			}
			return r
		},
	})
	if out.HarnessErr != "" {
		return
	}
	checkCommon(e)
	checkRepliesOwnInOrder(e, "C01", true)
	w := e.sim.W
	sessions := 0
	e.eachCall(func(task int, spec CallSpec, rec *sched.CallRec, res *CallResult) {
		if spec.Kind != "dsession" {
			return
		}
		if res == nil {
			out.violate("C25", "session-never-returned", "task %d call %d dedicated session never returned", task, rec.Index)
			return
		}
		sessions++
		for _, n := range res.Notes {
			out.violate("C25", "use-after-release", "task %d call %d: a call on the released dedicated client did not fail with ErrDedicatedClientRecycled (%s)", task, rec.Index, n)
		}
		// every command of the session got the reply to that command: a connection that still owed another caller a reply
		// when the session took it would shift them
		off := 0
		if spec.S != "" {
			off = 1 // the result of SUBSCRIBE / CLIENT TRACKING ON comes first
		}
		inTx := false
		for i, c := range spec.Cmds {
			if off+i >= len(res.Res) {
				break
			}
			r := res.Res[off+i]
			if r.Err != "" {
				continue
			}
			bad := ""
			switch name := strings.ToUpper(c.Argv[0]); {
			case name == "WATCH" || name == "MULTI":
				if r.V.S != "OK" {
					bad = "+OK"
				}
				inTx = inTx || name == "MULTI"
			case name == "EXEC":
				if r.V.T != '*' && r.V.T != '_' && !r.V.Null {
					bad = "an array or nil"
				}
				inTx = false
			case inTx:
				if r.V.S != "QUEUED" {
					bad = "+QUEUED"
				}
			case name == "VKTAG":
				if !strings.Contains(r.V.S, c.Argv[2]) {
					bad = "a reply carrying " + c.Argv[2]
				}
			}
			if bad != "" {
				out.violate("C25", "session-got-foreign-reply", "task %d call %d: command %d of the dedicated session, %q, was answered with %s where %s is due: the session's connection delivered a reply that belongs to another command", task, rec.Index, i, truncArgv(c.Argv), truncStr(r.V.String(), 80), bad)
				break
			}
			out.judged("session-reply-is-own")
		}
		sid := spec.Cmds[1].Argv[2] // d.tX.cY.k1
		prefix := sid[:strings.LastIndex(sid, ".")+1]
		// locate the session on its connection
		conn, firstSeq, lastSeq := -1, -1, -1
		for _, ex := range w.Log {
			if ex.Conn < 0 {
				continue
			}
			if uid, ok := uidOf(ex.Argv); ok && strings.HasPrefix(uid, prefix) && !ex.InExec {
				if conn == -1 {
					conn, firstSeq = ex.Conn, ex.ConnSeq
				}
				if ex.Conn != conn {
					out.violate("C25", "session-split", "task %d call %d: commands of one dedicated session reached connections %d and %d", task, rec.Index, conn, ex.Conn)
					return
				}
				lastSeq = ex.ConnSeq
			}
		}
		if conn < 0 {
			return
		}
		l := e.sim.LinkOf(conn)
		// include the session's WATCH (right before its first tagged command) and EXEC (right after its last)
		var cmdsOnConn = l.S.Cmds
		start, end := firstSeq, lastSeq
		for i := range cmdsOnConn {
			if cmdsOnConn[i].ConnSeq == firstSeq && i > 0 && strings.ToUpper(cmdsOnConn[i-1].Argv[0]) == "WATCH" {
				start = cmdsOnConn[i-1].ConnSeq
			}
		}
		own := map[string]bool{"WATCH": true, "MULTI": true, "EXEC": true, "SUBSCRIBE": true, "CLIENT": true, "PING": true}
		for _, ex := range cmdsOnConn {
			if ex.ConnSeq < start || ex.ConnSeq > end {
				continue
			}
			uid, tagged := uidOf(ex.Argv)
			if tagged && !strings.HasPrefix(uid, prefix) {
				out.violate("C25", "foreign-command-in-session", "connection %d: %q of another caller arrived between the first and the last command of dedicated session %s", conn, truncArgv(ex.Argv), prefix)
				return
			}
			if !tagged && !own[strings.ToUpper(ex.Argv[0])] {
				out.violate("C25", "foreign-command-in-session", "connection %d: %q arrived inside dedicated session %s", conn, truncArgv(ex.Argv), prefix)
				return
			}
		}
		// the transaction saw exactly its own queued commands: EXEC is nil (watched key changed) or one reply per queued write
		// clean-up before the connection is used by anybody else
		sawUnsub, sawDiscard, sawTrackingOff := false, false, false
		for _, ex := range cmdsOnConn {
			if ex.ConnSeq <= end {
				continue
			}
			name := strings.ToUpper(ex.Argv[0])
			switch {
			case name == "UNSUBSCRIBE":
				sawUnsub = true
			case name == "DISCARD":
				sawDiscard = true
			case name == "CLIENT" && len(ex.Argv) > 2 && strings.ToUpper(ex.Argv[1]) == "TRACKING" && strings.ToUpper(ex.Argv[2]) == "OFF":
				sawTrackingOff = true
			case name == "PUNSUBSCRIBE" || name == "SUNSUBSCRIBE" || name == "PING" || name == "EXEC":
			default:
				// first command of the next user of this connection
				if (spec.S == "hooks" || spec.S == "subscribe") && !sawUnsub {
					out.violate("C25", "reused-without-cleanup", "connection %d: %q was sent after dedicated session %s, which had subscribed, without an UNSUBSCRIBE in between (discard seen: %v)", conn, truncArgv(ex.Argv), prefix, sawDiscard)
				}
				if (spec.S == "hooks" || spec.S == "subscribe") && len(ex.Sess.Capa) >= 0 {
					// the server must not consider the connection subscribed any more
					for _, c2 := range cmdsOnConn {
						_ = c2
					}
				}
				// (this clause is stated by C25 and by C27: reported under both)
				if spec.S == "inval" && !sawTrackingOff {
					for _, prop := range []string{"C25", "C27"} {
						out.violate(prop, "reused-with-tracking", "connection %d: %q was sent after dedicated session %s, which had installed an invalidation callback, without CLIENT TRACKING OFF", conn, truncArgv(ex.Argv), prefix)
					}
				}
				if ex.Sess.Tracking && spec.S == "inval" {
					for _, prop := range []string{"C25", "C27"} {
						out.violate(prop, "reused-with-tracking", "connection %d still had tracking enabled when %q arrived after session %s", conn, truncArgv(ex.Argv), prefix)
					}
				}
				if spec.S == "inval" {
					out.judged("tracking-off-before-reuse")
				}
				goto done
			}
		}
	done:
		// C27, dedicated part: the callback installed with SetOnInvalidations saw exactly the invalidations the server sent
		// on the session's connection, in order. The reply stream is ordered: every invalidation the server wrote before
		// the reply of a command the session got an answer to had been handed to the callback when that answer returned.
		if spec.S == "inval" {
			trackIdx, lastAnsweredIdx := -1, -1
			answered := map[int]bool{} // ConnSeq of the session's commands that returned a reply
			k := 1                     // res.Res[0] is CLIENT TRACKING ON, then one result per planned command
			trackSeq := -2
			for _, ex := range cmdsOnConn {
				if ex.ConnSeq == start-1 && len(ex.Argv) > 2 && strings.EqualFold(ex.Argv[0], "CLIENT") && strings.EqualFold(ex.Argv[1], "TRACKING") {
					trackSeq = ex.ConnSeq
				}
				if ex.ConnSeq >= start && ex.ConnSeq <= end+1 && k < len(res.Res) {
					if res.Res[k].Err == "" {
						answered[ex.ConnSeq] = true
					}
					k++
				}
			}
			for i, f := range l.S.OutLog {
				if f.Push {
					continue
				}
				if trackIdx < 0 && f.ConnSeq == trackSeq {
					trackIdx = i // reply of CLIENT TRACKING ON BCAST, the command in front of the session's WATCH
				}
				if answered[f.ConnSeq] {
					lastAnsweredIdx = i
				}
			}
			if trackIdx >= 0 && len(res.Res) > 0 && res.Res[0].Err == "" {
				var must, all []string
				for i := trackIdx + 1; i < len(l.S.OutLog); i++ {
					f := l.S.OutLog[i]
					if !f.Push || len(f.Value.A) < 2 || f.Value.A[0].S != "invalidate" {
						continue
					}
					ev := "nil"
					if !f.Value.A[1].Null && f.Value.A[1].T != '_' {
						ks := make([]string, len(f.Value.A[1].A))
						for j, kv := range f.Value.A[1].A {
							ks[j] = kv.S
						}
						ev = strings.Join(ks, ",")
					}
					all = append(all, ev)
					if i < lastAnsweredIdx {
						must = append(must, ev)
					}
				}
				invMu.Lock()
				got := append([]string(nil), invGot[rec]...)
				invMu.Unlock()
				for len(got) > 0 && got[len(got)-1] == "nil" && (len(got) > len(all) || all[len(got)-1] != "nil") {
					got = got[:len(got)-1] // the nil that announces the loss or release of the connection
				}
				switch {
				case len(got) < len(must) || strings.Join(got[:len(must)], "|") != strings.Join(must, "|"):
					out.violate("C27", "dedicated-callback-missed-invalidation", "task %d call %d, connection %d: the server sent the invalidations %v before replies the session received, the callback installed with SetOnInvalidations saw %v", task, rec.Index, conn, must, got)
				case len(got) > len(all) || strings.Join(got, "|") != strings.Join(all[:len(got)], "|"):
					out.violate("C27", "dedicated-callback-foreign-invalidation", "task %d call %d, connection %d: the callback installed with SetOnInvalidations saw %v, the server sent %v on that connection", task, rec.Index, conn, got, all)
				default:
					out.judged("dedicated-callback-saw-the-servers-invalidations")
					if len(must) > 0 {
						out.probe("dedicated-callback-received-invalidation")
					}
				}
			}
		}
		out.judged("dedicated-session-judged")
		if spec.S != "" {
			out.probe("session-with-" + spec.S)
		}
	})
	out.Nontrivial = sessions > 0
}
