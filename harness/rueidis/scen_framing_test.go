//go:build verif

package rueidis

import (
	"context"
	"fmt"
	"strconv"
	"strings"
	"testing"
	"time"

	"verifsim/sched"
)

func init() {
	registerScenario(&scenario{name: "cmd-framing", gen: genFraming, load: loadPlan, exec: execFraming})
}

// expandArg turns "@gen:<len>:<salt>" into a deterministic binary string of that length
// (all byte values, including CR, LF and NUL); other strings are returned unchanged.
func expandArg(s string) string {
	if !strings.HasPrefix(s, "@gen:") {
		return s
	}
	parts := strings.Split(s, ":")
	if len(parts) != 3 {
		return s
	}
	n, err1 := strconv.Atoi(parts[1])
	salt, err2 := strconv.Atoi(parts[2])
	if err1 != nil || err2 != nil {
		return s
	}
	b := make([]byte, n)
	x := uint32(salt)*2654435761 + uint32(n)
	for i := range b {
		x = x*1664525 + 1013904223
		switch (x >> 28) & 7 {
		case 0:
			b[i] = '\r'
		case 1:
			b[i] = '\n'
		default:
			b[i] = byte(x >> 16)
		}
	}
	return string(b)
}

func expandArgv(a []string) []string {
	out := make([]string, len(a))
	for i, s := range a {
		out[i] = expandArg(s)
	}
	return out
}

var lenBoundaries = []int{0, 1, 2, 9, 10, 11, 99, 100, 101, 999, 1000, 1001, 9999, 10000, 10001, 99999, 100000, 100001}
var bigBoundaries = []int{999999, 1000000, 1000001}
var countBoundaries = []int{1, 2, 8, 9, 10, 11, 40, 99, 100, 101, 999, 1000, 1001}

func genFraming(seed uint64, tier, variant string) any {
	r := planRand(seed, 0xC14)
	p := &Plan{Scenario: "cmd-framing", Opt: genOpt(r)}
	p.Opt.RESP2 = r.IntN(6) == 0
	p.Sched = SchedSpec{CutProb: 0.2, C2SCutProb: pick(r, 0.0, 0.5), MaxSteps: 12000, TickWeight: 0.05}
	p.Opt.WriteTimeoutMs = 120_000
	p.Opt.DialTimeoutMs = 120_000
	p.Opt.KeepAliveMs = 3600_000
	// bounded socket send buffer: the writer blocks and commands stay queued (C33: abandoned calls)
	sendbuf := pick(r, 0, 0, 4096, 65536)
	withCancel := r.IntN(2) == 0
	p.X = map[string]any{"sendbuf": sendbuf}
	ntasks := 1 + r.IntN(6)
	salt := 0
	// client-side caching traffic: the client builds commands of its own around a cached read (CLIENT CACHING YES,
	// MULTI, PTTL per key, the rewritten MGET of the keys that missed, EXEC) from the same pool; they too must reach
	// the wire intact when the caller gives up while they are queued
	withCache := !p.Opt.RESP2 && r.IntN(2) == 0
	if withCache {
		p.Opt.DisableCache = false
		for i, n := 0, 3+r.IntN(8); i < n; i++ {
			p.Ghosts = append(p.Ghosts, GhostSpec{Kind: "cmd", Argv: []string{"SET", "fk" + strconv.Itoa(r.IntN(6)), "v" + strconv.Itoa(i)}, MinStep: r.IntN(200)})
		}
	} else {
		p.Opt.DisableCache = true
	}
	// commands that are written more than once: read-only commands are sent again after a connection reset; the second
	// frame must be the command the caller built, like the first (large arguments included)
	withRetry := !withCancel && sendbuf == 0 && r.IntN(2) == 0
	p.Opt.DisableRetry = !withRetry
	if withRetry {
		p.Opt.RetryDelaysMs = []int{1, 5}
		for i, n := 0, 1+r.IntN(3); i < n; i++ {
			p.Faults = append(p.Faults, FaultSpec{Kind: pick(r, "reset", "eof", "reset-after-exec"), AtStep: r.IntN(120), NeedInflight: true, Pick: r.IntN(4)})
		}
	}
	p.X["retry"] = withRetry
	for ti := 0; ti < ntasks; ti++ {
		ncalls := 2 + r.IntN(6)
		var calls []CallSpec
		for ci := 0; ci < ncalls; ci++ {
			if withCache && r.IntN(4) == 0 {
				c := CallSpec{Kind: "mgetc", TTLMs: 60_000, Cmds: []CmdSpec{{Argv: []string{"MGET"}}}}
				for k, n := 0, 1+r.IntN(4); k < n; k++ {
					c.Cmds[0].Argv = append(c.Cmds[0].Argv, "fk"+strconv.Itoa(r.IntN(6)))
				}
				if withCancel {
					switch y := r.IntN(100); {
					case y < 35:
						c.Cancel = true
						c.CancelAfter = r.IntN(5)
					case y < 50:
						c.TimeoutMs = 1 + r.IntN(200)
					}
				}
				calls = append(calls, c)
				continue
			}
			mk := func(k int) CmdSpec {
				uid := fmt.Sprintf("t%d.c%d.k%d", ti, ci, k)
				argv := []string{"VARGS", uid}
				var n int
				switch r.IntN(10) {
				case 0:
					n = countBoundaries[r.IntN(len(countBoundaries))]
				default:
					n = r.IntN(6)
				}
				for i := 0; i < n; i++ {
					salt++
					var l int
					switch x := r.IntN(100); {
					case n > 50:
						l = r.IntN(4)
					case x < 50:
						l = lenBoundaries[r.IntN(len(lenBoundaries))]
						if l > 20000 && r.IntN(3) != 0 {
							l = r.IntN(300)
						}
					case x < 52 && sendbuf == 0:
						l = bigBoundaries[r.IntN(len(bigBoundaries))]
					default:
						l = r.IntN(64)
					}
					argv = append(argv, fmt.Sprintf("@gen:%d:%d", l, salt))
				}
				if withRetry {
					if r.IntN(3) == 0 {
						// one large argument (the sizes at which buffers and writes change their strategy)
						salt++
						argv = append(argv, fmt.Sprintf("@gen:%d:%d", pick(r, 4096, 65535, 65536, 70000, 100001), salt))
					}
					return CmdSpec{Argv: argv, Flag: "ro"}
				}
				return CmdSpec{Argv: argv}
			}
			var c CallSpec
			if r.IntN(3) == 0 {
				c = CallSpec{Kind: "multi"}
				for k, n := 0, 2+r.IntN(4); k < n; k++ {
					c.Cmds = append(c.Cmds, mk(k))
				}
			} else {
				c = CallSpec{Kind: "do", Cmds: []CmdSpec{mk(0)}}
			}
			if withCancel {
				switch y := r.IntN(100); {
				case y < 25:
					c.Cancel = true
					c.CancelAfter = r.IntN(5)
				case y < 35:
					c.TimeoutMs = 1 + r.IntN(200)
				}
			}
			calls = append(calls, c)
		}
		p.Tasks = append(p.Tasks, calls)
	}
	return p
}

func execFraming(t *testing.T, plan any, out *Outcome) {
	p := plan.(*Plan)
	// expand generated arguments in place (the plan on disk keeps the compact form)
	q := *p
	q.Tasks = make([][]CallSpec, len(p.Tasks))
	for i, calls := range p.Tasks {
		for _, c := range calls {
			c2 := c
			c2.Cmds = nil
			for _, cm := range c.Cmds {
				c2.Cmds = append(c2.Cmds, CmdSpec{Argv: expandArgv(cm.Argv), Keys: cm.Keys, Flag: cm.Flag})
			}
			q.Tasks[i] = append(q.Tasks[i], c2)
		}
	}
	sendbuf := 0
	if v, ok := p.X["sendbuf"].(float64); ok {
		sendbuf = int(v)
	} else if v, ok := p.X["sendbuf"].(int); ok {
		sendbuf = v
	}
	e := standardRun(t, out.Seed, &q, out, runHooks{beforeClient: func(e *env) {
		if sendbuf > 0 {
			e.sim.OnAccept = func(s *sched.Sim, l *sched.Link) { l.C.SetSendBuffer(sendbuf) }
		}
	}, extraCall: func(e *env, cl Client, cs CallSpec, ctx context.Context, rec *sched.CallRec) *CallResult {
		if cs.Kind != "mgetc" {
			return nil
		}
		r := &CallResult{Kind: cs.Kind}
		c := cl.B().Mget().Key(cs.Cmds[0].Argv[1:]...).Cache()
		r.Res = []Res{toRes(cl.DoCache(ctx, c, time.Duration(cs.TTLMs)*time.Millisecond))}
		return r
	}})
	if out.HarnessErr != "" {
		return
	}
	checkCommon(e)
	checkFraming(e)
	checkRepliesOwnInOrder(e, "C01", sendbuf == 0)
}

// checkFraming is the C14/C33 oracle: every frame the server decoded is exactly an argv some task built,
// each at most once, and every call that returned a reply had its frame decoded.
func checkFraming(e *env) {
	out := e.out
	want := map[string][]string{}
	returned := map[string]bool{}
	abandoned := false
	e.eachCall(func(task int, spec CallSpec, rec *sched.CallRec, res *CallResult) {
		for i, c := range spec.Cmds {
			if len(c.Argv) > 1 && c.Argv[0] == "VARGS" {
				want[c.Argv[1]] = c.Argv
				if res != nil && i < len(res.Res) && res.Res[i].Err == "" {
					returned[c.Argv[1]] = true
				}
				if res != nil && i < len(res.Res) && res.Res[i].Err != "" {
					abandoned = true
				}
			}
		}
	})
	seen := map[string]int{}
	big := false
	cacheKeys := map[string]bool{}
	for _, calls := range e.plan.Tasks {
		for _, c := range calls {
			if c.Kind == "mgetc" {
				for _, k := range c.Cmds[0].Argv[1:] {
					cacheKeys[k] = true
				}
			}
		}
	}
	for _, pe := range e.sim.W.ProtoErrors {
		// (an emptied command is written as "*0": not an array of bulk strings any more)
		out.violate("C14", "malformed-frame", "%s", pe)
		out.violate("C33", "malformed-frame", "%s", pe)
	}
	for _, ex := range e.sim.W.Log {
		if ex.Conn >= 0 && len(ex.Argv) == 0 {
			out.violate("C33", "emptied-frame", "connection %d: the server decoded an empty command (a command that was recycled before it was written)", ex.Conn)
		}
		if ex.Conn < 0 || len(ex.Argv) == 0 {
			continue
		}
		switch strings.ToUpper(ex.Argv[0]) {
		case "HELLO", "CLIENT", "PING", "AUTH", "SELECT", "READONLY":
			continue
		case "MULTI", "EXEC":
			if len(ex.Argv) == 1 {
				continue // the client's own wrapper of a cached read
			}
		case "PTTL", "MGET":
			// the client's own commands around a cached MGET: one PTTL per key that missed and the MGET of those keys
			ok := len(ex.Argv) >= 2 && (ex.Argv[0] == "MGET" || len(ex.Argv) == 2)
			for _, k := range ex.Argv[1:] {
				if !cacheKeys[k] {
					ok = false
				}
			}
			if ok {
				out.judged("cached-read-frame-intact")
				continue
			}
		}
		if ex.Argv[0] != "VARGS" || len(ex.Argv) < 2 {
			out.violate("C14", "foreign-frame", "server decoded a frame no task built: %q", truncArgv(ex.Argv))
			out.violate("C33", "foreign-frame", "server decoded a frame no task built: %q", truncArgv(ex.Argv))
			continue
		}
		w, ok := want[ex.Argv[1]]
		if !ok {
			out.violate("C14", "foreign-frame", "server decoded VARGS with unknown id %q", truncArgv(ex.Argv))
			out.violate("C33", "foreign-frame", "server decoded VARGS with unknown id %q", truncArgv(ex.Argv))
			continue
		}
		seen[ex.Argv[1]]++
		if len(w) != len(ex.Argv) {
			out.violate("C14", "argv-mismatch", "command %s: built %d arguments, server decoded %d", ex.Argv[1], len(w), len(ex.Argv))
			out.violate("C33", "argv-mismatch", "command %s: built %d arguments, server decoded %d", ex.Argv[1], len(w), len(ex.Argv))
			continue
		}
		for i := range w {
			if w[i] != ex.Argv[i] {
				out.violate("C14", "argv-mismatch", "command %s argument %d: built %d bytes, decoded %d bytes (first difference at %d)", ex.Argv[1], i, len(w[i]), len(ex.Argv[i]), firstDiff(w[i], ex.Argv[i]))
				out.violate("C33", "argv-mismatch", "command %s argument %d: built %d bytes, decoded %d bytes (first difference at %d)", ex.Argv[1], i, len(w[i]), len(ex.Argv[i]), firstDiff(w[i], ex.Argv[i]))
				break
			}
			if len(w[i]) >= 1000 {
				big = true
			}
		}
		if len(w) >= 100 {
			out.probe("argc>=100")
		}
	}
	for uid := range returned {
		if seen[uid] == 0 {
			out.violate("C14", "reply-without-frame", "call for %s returned a reply but the server never decoded its frame", uid)
		}
	}
	retry, _ := e.plan.X["retry"].(bool)
	for uid, n := range seen {
		if n > 1 && retry {
			out.probe("command-written-more-than-once")
			continue // read-only commands re-sent after a reset; every copy was compared above
		}
		if n > 1 {
			out.violate("C14", "duplicate-frame", "command %s was decoded %d times", uid, n)
		}
	}
	if big {
		out.probe("arg-len>=1000")
	}
	if abandoned {
		out.probe("call-abandoned-before-reply")
	}
	if e.sim.Stats["ev.c2s"] > 0 && e.plan.Sched.C2SCutProb > 0 {
		out.probe("frames-cut-on-the-wire")
	}
	out.judged("frames-compared")
}

func firstDiff(a, b string) int {
	n := len(a)
	if len(b) < n {
		n = len(b)
	}
	for i := 0; i < n; i++ {
		if a[i] != b[i] {
			return i
		}
	}
	return n
}

func truncArgv(a []string) []string {
	out := make([]string, 0, len(a))
	for i, s := range a {
		if i >= 6 {
			out = append(out, "...")
			break
		}
		if len(s) > 40 {
			s = s[:40] + "..."
		}
		out = append(out, s)
	}
	return out
}
