//go:build verif

package rueidis

import (
	"fmt"
	"math/rand/v2"
	"strconv"
	"strings"
	"testing"

	"verifsim/resp"
	"verifsim/sched"
)

func init() {
	registerScenario(&scenario{name: "pipe-mix", gen: genPipeMix, load: loadPlan, exec: execPipeMix})
}

func planRand(seed uint64, salt uint64) *rand.Rand {
	return rand.New(rand.NewPCG(seed, salt))
}

func pick[T any](r *rand.Rand, xs ...T) T { return xs[r.IntN(len(xs))] }

// genOpt draws the swarm configuration shared by pipeline scenarios.
func genOpt(r *rand.Rand) OptSpec {
	o := OptSpec{
		Queue:            pick(r, "ring", "flow"),
		RingScale:        pick(r, 1, 1, 2, 2, 3, 4, 10),
		Multiplex:        pick(r, -1, -1, 1, 2),
		Procs:            16, // >= number of wires/nodes: with fewer workers than fan-out keys the processing order is Go map order (unseedable)
		ReadBuf:          pick(r, 0, 32, 64, 512, 4096),
		WriteBuf:         pick(r, 0, 32, 64, 512, 4096),
		AlwaysPipelining: r.IntN(3) == 0,
		MaxFlushDelayUs:  pick(r, 0, 0, 20),
		RESP2:            r.IntN(5) == 0,
		KeepAliveMs:      pick(r, 1000, 3600_000, 3600_000),
		WriteTimeoutMs:   10_000,
		PoolSize:         pick(r, 1, 2, 4),
	}
	// Known finding (C02, ring-full reader/writer deadlock; see DESIGN.md): with a ring that can fill up and a
	// write buffer small enough to flush in the middle of a batch, writer and reader can block each other.
	// It is exercised by its own scenario; here the ring is kept large enough not to fill when the
	// write buffer is small.
	if o.Queue == "ring" && o.WriteBuf != 0 && o.RingScale < 4 {
		o.RingScale = 4
	}
	return o
}

func genPipeMix(seed uint64, tier, variant string) any {
	r := planRand(seed, 0xC01)
	p := &Plan{Scenario: "pipe-mix", Opt: genOpt(r)}
	p.Sched = SchedSpec{CutProb: pick(r, 0.0, 0.3, 0.7), MaxSteps: 6000}
	ntasks := 2 + r.IntN(9)
	nkeys := 2 + r.IntN(3)
	noCtx := r.IntN(2) == 0 // half of the plans have no deadlines or cancellations at all: there any error is a violation
	resp2 := p.Opt.RESP2
	var chans []string
	for ti := 0; ti < ntasks; ti++ {
		ncalls := 2 + r.IntN(7)
		var calls []CallSpec
		for ci := 0; ci < ncalls; ci++ {
			uid := func(k int) string { return fmt.Sprintf("t%d.c%d.k%d", ti, ci, k) }
			var c CallSpec
			x := r.IntN(100)
			switch {
			case x < 38:
				c = CallSpec{Kind: "do", Cmds: []CmdSpec{{Argv: []string{"VTAG", uid(0), randShape(r, 0, resp2)}}}}
			case x < 45:
				c = CallSpec{Kind: "do", Cmds: []CmdSpec{{Argv: []string{"VWTAG", "w" + strconv.Itoa(r.IntN(nkeys)), uid(0)}, Keys: 1}}}
			case x < 70:
				n := 2 + r.IntN(5)
				c = CallSpec{Kind: "multi"}
				for k := 0; k < n; k++ {
					c.Cmds = append(c.Cmds, CmdSpec{Argv: []string{"VTAG", uid(k), randShape(r, 0, resp2)}})
				}
			case x < 80 && !resp2:
				j := r.IntN(nkeys)
				c = CallSpec{Kind: "cache", TTLMs: 60_000, Cmds: []CmdSpec{{Argv: []string{"VKTAG", "ck" + strconv.Itoa(j), "K" + strconv.Itoa(j), "[sb{si}]"}, Keys: 1, Flag: "ro"}}}
			case x < 86 && !resp2:
				n := 1 + r.IntN(4)
				c = CallSpec{Kind: "mcache", TTLMs: 60_000}
				for k := 0; k < n; k++ {
					j := r.IntN(nkeys)
					c.Cmds = append(c.Cmds, CmdSpec{Argv: []string{"VKTAG", "ck" + strconv.Itoa(j), "K" + strconv.Itoa(j), "[sb{si}]"}, Keys: 1, Flag: "ro"})
				}
			case x < 92 && !resp2 && !noCtx:
				ch := "ch" + strconv.Itoa(r.IntN(3))
				chans = append(chans, ch)
				c = CallSpec{Kind: "recv", Cmds: []CmdSpec{{Argv: []string{"SUBSCRIBE", ch}}}, TimeoutMs: 100 + r.IntN(1500)}
			case x < 96:
				c = CallSpec{Kind: "do", Cmds: []CmdSpec{{Argv: []string{"BLPOP", "bl" + strconv.Itoa(r.IntN(2)), "0.2"}, Keys: 1, Flag: "block"}}}
			default:
				c = CallSpec{Kind: "do", Cmds: []CmdSpec{{Argv: []string{"ECHO", uid(0)}}}}
			}
			if c.Kind != "recv" && !noCtx {
				switch y := r.IntN(100); {
				case y < 12:
					c.Cancel = true
					c.CancelAfter = r.IntN(6)
				case y < 20:
					c.TimeoutMs = 20 + r.IntN(2000)
				}
			}
			calls = append(calls, c)
		}
		p.Tasks = append(p.Tasks, calls)
	}
	ng := r.IntN(8)
	for i := 0; i < ng; i++ {
		switch r.IntN(3) {
		case 0:
			if len(chans) > 0 {
				p.Ghosts = append(p.Ghosts, GhostSpec{Kind: "cmd", Argv: []string{"PUBLISH", chans[r.IntN(len(chans))], "m" + strconv.Itoa(i)}, MinStep: r.IntN(200)})
				continue
			}
			fallthrough
		case 1:
			p.Ghosts = append(p.Ghosts, GhostSpec{Kind: "cmd", Argv: []string{"SET", "ck" + strconv.Itoa(r.IntN(nkeys)), "g" + strconv.Itoa(i)}, MinStep: r.IntN(200)})
		default:
			p.Ghosts = append(p.Ghosts, GhostSpec{Kind: "cmd", Argv: []string{"RPUSH", "bl" + strconv.Itoa(r.IntN(2)), "e" + strconv.Itoa(i)}, MinStep: r.IntN(200)})
		}
	}
	return p
}

func execPipeMix(t *testing.T, plan any, out *Outcome) {
	p := plan.(*Plan)
	e := standardRun(t, out.Seed, p, out, runHooks{})
	if out.HarnessErr != "" {
		return
	}
	checkCommon(e)
	checkRepliesOwnInOrder(e, "C01", len(p.Faults) == 0)
}

// checkCommon applies the invariants every netsim run must satisfy.
func checkCommon(e *env) {
	for _, pe := range e.sim.W.ProtoErrors {
		e.out.violate("C14", "malformed-command-frame", "%s", pe)
	}
}

// txPosition classifies command i of a batch relative to a MULTI ... EXEC block inside the same batch.
func txPosition(cmds []CmdSpec, i int) (string, bool) {
	in := false
	for j := 0; j <= i; j++ {
		switch strings.ToUpper(cmds[j].Argv[0]) {
		case "MULTI":
			if j == i {
				return "multi", true
			}
			in = true
		case "EXEC":
			if j == i {
				if in {
					return "exec", true
				}
				return "", false
			}
			in = false
		default:
			if j == i && in {
				return "queued", true
			}
		}
	}
	return "", false
}

func parseUID(uid string) (task, call, k int, ok bool) {
	if _, err := fmt.Sscanf(uid, "t%d.c%d.k%d", &task, &call, &k); err != nil {
		return 0, 0, 0, false
	}
	return task, call, k, true
}

func uidOf(argv []string) (string, bool) {
	switch strings.ToUpper(argv[0]) {
	case "VTAG", "ECHO":
		if len(argv) > 1 {
			return argv[1], true
		}
	case "VWTAG", "VKTAG":
		if len(argv) > 2 {
			return argv[2], true
		}
	}
	return "", false
}

// checkRepliesOwnInOrder is the C01 oracle: every returned reply is the reply to the command at that position,
// every call returns exactly once, per-connection order follows issue order, nothing is executed twice.
func checkRepliesOwnInOrder(e *env, prop string, faultFree bool) {
	out := e.out
	proto := 3
	if e.plan.Opt.RESP2 {
		proto = 2
	}
	// A deadline or cancellation of one call may legitimately break the connection it was using (the
	// synchronous path closes the connection; a shared dial fails with the dialer's context error), so
	// other calls may then see connection-level errors. Errors are only strictly forbidden in runs
	// where no call was cancelled or timed out and no fault was injected.
	anyCtx := false
	e.eachCall(func(task int, spec CallSpec, rec *sched.CallRec, res *CallResult) {
		if rec.CancelStep >= 0 || (spec.TimeoutMs > 0 && !rec.Deadline.IsZero() && !rec.EndAt.Before(rec.Deadline)) {
			anyCtx = true
		}
		if res != nil {
			for _, r := range res.Res {
				if r.ErrKind == "ctx-deadline" || r.ErrKind == "ctx-canceled" {
					anyCtx = true
				}
			}
			if res.ErrK == "ctx-deadline" || res.ErrK == "ctx-canceled" {
				anyCtx = true
			}
		}
	})
	strict := faultFree && !anyCtx
	overlap := 0
	type span struct{ task, s, e int }
	var spans []span
	e.eachCall(func(task int, spec CallSpec, rec *sched.CallRec, res *CallResult) {
		if !rec.Done || rec.Hung || res == nil {
			out.violate(prop, "call-never-returned", "task %d call %d (%s %v) started at step %d never returned (run ended: %s)", task, rec.Index, spec.Kind, truncArgv(firstArgv(spec)), rec.StartStep, out.Reason)
			return
		}
		spans = append(spans, span{task, rec.StartStep, rec.EndStep})
		ctxAllowed := spec.TimeoutMs > 0 || rec.CancelStep >= 0
		switch spec.Kind {
		case "do", "multi", "cache", "mcache":
			if len(res.Res) != len(spec.Cmds) {
				out.violate(prop, "result-count", "task %d call %d: %d results for %d commands", task, rec.Index, len(res.Res), len(spec.Cmds))
				return
			}
			for i, r := range res.Res {
				argv := spec.Cmds[i].Argv
				if r.Err != "" {
					if (r.ErrKind == "ctx-deadline" || r.ErrKind == "ctx-canceled") && ctxAllowed {
						out.judged("ctx-error")
						continue
					}
					if strict {
						out.violate(prop, "unexpected-error", "task %d call %d cmd %d %q: error %q without any fault, deadline or cancellation in the run", task, rec.Index, i, truncArgv(argv), r.Err)
					} else {
						out.notJudged("error-after-fault-or-cancellation")
					}
					continue
				}
				exp, known := expectedReply(argv)
				// commands between MULTI and EXEC of the same batch are answered with QUEUED, EXEC with the array of their replies
				if tx, ok := txPosition(spec.Cmds, i); ok {
					switch tx {
					case "queued":
						exp, known = resp.Simple("QUEUED"), true
					case "multi":
						exp, known = resp.OK(), true
					case "exec":
						arr := resp.Arr()
						known = true
						for j := i - 1; j >= 0 && strings.ToUpper(spec.Cmds[j].Argv[0]) != "MULTI"; j-- {
							v, ok := expectedReply(spec.Cmds[j].Argv)
							if !ok {
								known = false
								break
							}
							arr.A = append([]resp.Value{v}, arr.A...)
						}
						exp = arr
					}
				}
				if !known {
					out.notJudged("reply-not-a-function-of-argv")
					continue
				}
				if !faultFree && r.V.T == '-' && strings.HasPrefix(r.V.S, "LOADING") {
					out.judged("loading-error-returned-as-is")
					continue
				}
				if want := normalize(exp, proto); !valEqual(want, r.V) {
					out.violate(prop, "wrong-reply", "task %d call %d cmd %d %q: got %s want %s", task, rec.Index, i, truncArgv(argv), truncStr(r.V.String(), 300), truncStr(want.String(), 300))
				} else {
					out.judged("reply-matches")
				}
			}
		case "recv":
			if res.Err != "" && !((res.ErrK == "ctx-deadline" || res.ErrK == "ctx-canceled") && ctxAllowed) && strict {
				out.violate(prop, "unexpected-error", "task %d call %d Receive: error %q", task, rec.Index, res.Err)
			}
		}
	})
	for i := range spans {
		for j := i + 1; j < len(spans); j++ {
			if spans[i].task != spans[j].task && spans[i].s < spans[j].e && spans[j].s < spans[i].e {
				overlap++
			}
		}
	}
	// server-side view: per connection, each task's commands arrive in issue order; unique commands execute once
	type pos = struct{ call, k int }
	last := map[string]pos{} // conn|task -> last position
	count := map[string]int{}
	for _, ex := range e.sim.W.Log {
		if ex.Queued || ex.Conn < 0 {
			continue
		}
		uid, ok := uidOf(ex.Argv)
		if !ok {
			continue
		}
		task, call, k, ok := parseUID(uid)
		if !ok {
			continue
		}
		count[uid]++
		key := fmt.Sprintf("%d|%d", ex.Conn, task)
		resend := !faultFree && call == lp0(last, key).call && k <= lp0(last, key).k // a retried call re-sends its commands
		if lp, seen := last[key]; seen && !resend && (call < lp.call || (call == lp.call && k <= lp.k)) {
			out.violate(prop, "order", "connection %d received task %d's command %s after its later command c%d.k%d", ex.Conn, task, uid, lp.call, lp.k)
		}
		last[key] = pos{call, k}
	}
	if faultFree {
		for uid, n := range count {
			if n > 1 {
				out.violate(prop, "duplicate-execution", "command %s was received %d times by the server without any fault", uid, n)
			}
		}
	}
	if overlap >= 1 {
		out.Nontrivial = true
	}
	out.probe(fmt.Sprintf("overlapping-call-pairs>=%d", minInt(overlap, 1)))
	for _, l := range e.sim.Links {
		if l.S2CCuts > 0 {
			out.probe("reply-split-across-reads")
			break
		}
	}
	if e.sim.Stats["ev.cancel"] > 0 {
		out.probe("cancel-during-call")
	}
	pushes := 0
	for range e.sim.W.Pushes {
		pushes++
	}
	if pushes > 0 {
		out.probe("push-frames-on-wire")
	}
}

func lp0(m map[string]struct{ call, k int }, key string) struct{ call, k int } { return m[key] }

func truncStr(s string, n int) string {
	if len(s) > n {
		return s[:n] + "..."
	}
	return s
}

func minInt(a, b int) int {
	if a < b {
		return a
	}
	return b
}

func firstArgv(c CallSpec) []string {
	if len(c.Cmds) > 0 {
		return c.Cmds[0].Argv
	}
	return nil
}
