//go:build verif

package rueidis

import (
	"context"
	"fmt"
	"path"
	"strconv"
	"strings"
	"testing"
	"time"

	"verifsim/sched"
)

func init() {
	registerScenario(&scenario{name: "pubsub", gen: genPubSub, load: loadPlan, exec: execPubSub})
}

func genPubSub(seed uint64, tier, variant string) any {
	r := planRand(seed, 0xC26)
	p := &Plan{Scenario: "pubsub", Opt: genOpt(r), X: map[string]any{}}
	p.Opt.RESP2 = false
	p.Opt.Multiplex = -1
	p.Opt.KeepAliveMs, p.Opt.WriteTimeoutMs = 3600_000, 600_000
	p.Opt.DisableCache = r.IntN(2) == 0
	p.Opt.DisableRetry = true
	if variant == "resp2" {
		// RESP2: a subscribed connection accepts nothing but (un)subscribe commands, so the client keeps a second
		// connection for its subscriptions (pipe.r2p), dialled lazily under a lock that the lock seam of the hook
		// commits 3ef6acd / the r2p one hands to the scheduler
		p.Opt.RESP2, p.Opt.DisableCache = true, true
		p.X["resp2"] = true
		p.X["early_cancel"] = r.IntN(2) == 0
	}
	p.Sched = SchedSpec{CutProb: pick(r, 0.0, 0.4), MaxSteps: 8000, TickWeight: 0.3}
	nch := 3
	withClose := r.IntN(5) == 0
	nt := 2 + r.IntN(5)
	for ti := 0; ti < nt; ti++ {
		var calls []CallSpec
		for ci, n := 0, 1+r.IntN(4); ci < n; ci++ {
			uniq := fmt.Sprintf("u.t%d.c%d", ti, ci)
			var c CallSpec
			switch x := r.IntN(100); {
			case x < 45:
				kind := pick(r, "SUBSCRIBE", "SUBSCRIBE", "PSUBSCRIBE", "SSUBSCRIBE")
				argv := []string{kind}
				for k, m := 0, 1+r.IntN(2); k < m; k++ {
					if kind == "PSUBSCRIBE" {
						argv = append(argv, pick(r, "ch*", "ch0*", "ch[12]"))
					} else {
						argv = append(argv, "ch"+strconv.Itoa(r.IntN(nch)))
					}
				}
				argv = append(argv, uniq) // makes the subscribe command of this Receive attributable
				c = CallSpec{Kind: "recv", Cmds: []CmdSpec{{Argv: uniqStrs(argv)}}}
				switch y := r.IntN(10); {
				case y < 4:
					c.TimeoutMs = 50 + r.IntN(3000)
				case y < 7:
					c.Cancel, c.CancelAfter = true, 3+r.IntN(30)
				default:
					// ended by somebody's unsubscribe (or by the deadline below as a safety net)
					c.TimeoutMs = 20_000
				}
			case x < 60:
				kind := pick(r, "UNSUBSCRIBE", "UNSUBSCRIBE", "PUNSUBSCRIBE", "SUNSUBSCRIBE")
				argv := []string{kind}
				if kind == "PUNSUBSCRIBE" {
					argv = append(argv, pick(r, "ch*", "ch0*", "ch[12]"))
				} else if r.IntN(4) != 0 {
					argv = append(argv, "ch"+strconv.Itoa(r.IntN(nch)))
				} // else: wildcard unsubscribe of everything
				c = CallSpec{Kind: "unsub", Cmds: []CmdSpec{{Argv: argv}}}
			case x < 70:
				c = CallSpec{Kind: "hooks", Cmds: []CmdSpec{{Argv: []string{"SUBSCRIBE", "ch" + strconv.Itoa(r.IntN(nch)), uniq}}}, N: 1 + r.IntN(3)}
			default:
				c = CallSpec{Kind: "do", Cmds: []CmdSpec{{Argv: []string{"VTAG", fmt.Sprintf("t%d.c%d.k0", ti, ci), pick(r, "[sb]", "s", "{si}")}}}}
			}
			calls = append(calls, c)
		}
		if ec, _ := p.X["early_cancel"].(bool); ec && ti == 0 {
			// the first subscription of the run is given up at once: the lazy dial of the subscription connection then
			// meets a context that has ended, and the calls after it must dial again
			first := CallSpec{Kind: "recv", Cmds: []CmdSpec{{Argv: []string{"SUBSCRIBE", "ch0", "u.t0.early"}}}, Cancel: true, CancelAfter: r.IntN(3)}
			calls = append([]CallSpec{first}, calls...)
		}
		p.Tasks = append(p.Tasks, calls)
	}
	for i, ng := 0, 4+r.IntN(16); i < ng; i++ {
		kind := pick(r, "PUBLISH", "PUBLISH", "PUBLISH", "SPUBLISH")
		p.Ghosts = append(p.Ghosts, GhostSpec{Kind: "cmd", Argv: []string{kind, "ch" + strconv.Itoa(r.IntN(nch)), "m" + strconv.Itoa(i)}, MinStep: r.IntN(250)})
	}
	if withClose {
		p.X["close_at"] = 30 + r.IntN(200)
	}
	return p
}

func uniqStrs(a []string) []string {
	seen := map[string]bool{}
	var out []string
	for i, s := range a {
		if i > 0 && seen[s] {
			continue
		}
		seen[s] = true
		out = append(out, s)
	}
	return out
}

func execPubSub(t *testing.T, plan any, out *Outcome) {
	p := plan.(*Plan)
	closeAt, hasClose := planInt(p, "close_at")
	closeStart, closeEnd := -1, -1
	e := standardRun(t, out.Seed, p, out, runHooks{
		beforeClient: func(e *env) {
			if r2, _ := p.X["resp2"].(bool); r2 {
				rwLockSeam.Store(true)
			}
		},
		afterSetup: func(e *env) {
			if !hasClose {
				return
			}
			base := e.sim.Step
			closing := false
			e.sim.UserEvents = func(s *sched.Sim) []sched.Event {
				if closing || s.Step < base+closeAt {
					return nil
				}
				return []sched.Event{{Kind: "user", Key: "client.Close", Weight: 50, Do: func() {
					closing = true
					closeStart = s.Step
					go func() {
						nameGoroutine("closer-task")
						e.clients[0].Close()
						closeEnd = s.Step
					}()
				}}}
			}
		},
		extraCall: func(e *env, cl Client, cs CallSpec, ctx context.Context, rec *sched.CallRec) *CallResult {
			if cs.Kind != "hooks" {
				return nil
			}
			r := &CallResult{Kind: "hooks"}
			var errCh <-chan error
			err := cl.Dedicated(func(dc DedicatedClient) error {
				errCh = dc.SetPubSubHooks(PubSubHooks{OnMessage: func(m PubSubMessage) { r.Msgs = append(r.Msgs, m) }})
				res := dc.Do(ctx, buildSub(dc.B(), cs.Cmds[0].Argv))
				if res.Error() != nil {
					r.Notes = append(r.Notes, "subscribe:"+res.Error().Error())
				}
				for i := 0; i < cs.N; i++ {
					r.Res = append(r.Res, toRes(dc.Do(ctx, dc.B().Arbitrary("VTAG").Args(fmt.Sprintf("hk.%s.%d", cs.Cmds[0].Argv[len(cs.Cmds[0].Argv)-1], i), "s").Build())))
				}
				return nil
			})
			if err != nil {
				r.Err = err.Error()
			}
			// after release the channel must be closed, having carried at most one error
			n := 0
			if errCh != nil {
				for range errCh {
					n++
				}
			}
			r.Notes = append(r.Notes, fmt.Sprintf("hookerrs:%d", n))
			return r
		},
	})
	if out.HarnessErr != "" {
		return
	}
	checkCommon(e)
	checkRepliesOwnInOrder(e, "C26", !hasClose)
	w := e.sim.W
	// messages the model sent, per connection, in wire order, with the step at which the frame reached the client
	type sent struct {
		conn, seq    int
		kind         string
		pattern, ch  string
		payload      string
		delivered    int
	}
	var msgs []sent
	type ctl struct {
		conn, seq int
		kind, ch  string
		delivered int
	}
	var ctls []ctl
	for _, l := range e.sim.Links {
		var mine []*fakeredisPush
		for _, pu := range w.Pushes {
			if pu.Conn == l.ID {
				mine = append(mine, pu)
			}
		}
		off, pi := 0, 0
		for _, f := range l.S.OutLog {
			off += f.Bytes
			if !f.Push || pi >= len(mine) {
				continue
			}
			pu := mine[pi]
			pi++
			d := l.DeliveredStep(off)
			a := pu.Value.A
			switch pu.Kind {
			case "message", "smessage":
				msgs = append(msgs, sent{conn: l.ID, seq: pu.Seq, kind: pu.Kind, ch: a[1].S, payload: a[2].S, delivered: d})
			case "pmessage":
				msgs = append(msgs, sent{conn: l.ID, seq: pu.Seq, kind: pu.Kind, pattern: a[1].S, ch: a[2].S, payload: a[3].S, delivered: d})
			case "subscribe", "psubscribe", "ssubscribe", "unsubscribe", "punsubscribe", "sunsubscribe":
				ctls = append(ctls, ctl{conn: l.ID, seq: pu.Seq, kind: pu.Kind, ch: a[1].S, delivered: d})
			}
		}
	}
	recvs := 0
	e.eachCall(func(task int, spec CallSpec, rec *sched.CallRec, res *CallResult) {
		switch spec.Kind {
		case "hooks":
			if res == nil {
				return
			}
			for _, n := range res.Notes {
				if strings.HasPrefix(n, "hookerrs:") && n != "hookerrs:0" && n != "hookerrs:1" {
					out.violate("C26", "hook-channel-errors", "task %d call %d: the channel returned by SetPubSubHooks carried %s errors", task, rec.Index, strings.TrimPrefix(n, "hookerrs:"))
				}
			}
			out.probe("pubsub-hooks-session")
			return
		case "recv":
		default:
			return
		}
		if res == nil {
			out.violate("C26", "receive-never-returned", "task %d call %d Receive(%v) started at step %d never returned", task, rec.Index, spec.Cmds[0].Argv, rec.StartStep)
			return
		}
		recvs++
		argv := spec.Cmds[0].Argv
		uniq := argv[len(argv)-1]
		cmd := strings.ToLower(argv[0])
		msgKind := map[string]string{"subscribe": "message", "psubscribe": "pmessage", "ssubscribe": "smessage"}[cmd]
		subs := argv[1 : len(argv)-1]
		covers := func(m sent) bool {
			if m.kind != msgKind {
				return false
			}
			for _, c := range subs {
				if msgKind == "pmessage" && m.pattern == c {
					return true
				}
				if msgKind != "pmessage" && m.ch == c {
					return true
				}
			}
			return false
		}
		// which connection served it, and when was the subscription acknowledged
		conn, ackSeq, ackDelivered := -1, -1, -1
		for _, c := range ctls {
			if c.kind == cmd && c.ch == uniq {
				conn, ackSeq, ackDelivered = c.conn, c.seq, c.delivered
			}
		}
		// the end of the subscription as the server saw it: the first unsubscribe notification after the ack that covers one of its channels
		endSeq := 1 << 60
		endedByUnsub := false
		if conn >= 0 {
			for _, c := range ctls {
				if c.conn == conn && c.seq > ackSeq && c.kind == strings.Replace(cmd, "subscribe", "unsubscribe", 1) && c.delivered >= 0 && c.delivered <= rec.EndStep {
					for _, ch := range argv[1:] {
						if ch == c.ch && c.seq < endSeq {
							endSeq, endedByUnsub = c.seq, true
						}
					}
				}
			}
		}
		// received messages must be messages of this subscription on that connection, in order, without repetition or gaps
		var cand []sent
		for _, m := range msgs {
			if m.conn == conn && covers(m) {
				cand = append(cand, m)
			}
		}
		pos := -1
		first := -1
		for i, got := range res.Msgs {
			found := -1
			for j := pos + 1; j < len(cand); j++ {
				if cand[j].payload == got.Message && cand[j].ch == got.Channel && cand[j].pattern == got.Pattern {
					found = j
					break
				}
			}
			if found < 0 {
				out.violate("C26", "foreign-or-reordered-message", "task %d call %d Receive(%v) callback %d got {pattern %q channel %q message %q}, which the server did not send for this subscription on connection %d after the previous callback", task, rec.Index, argv, i, got.Pattern, got.Channel, got.Message, conn)
				return
			}
			if first < 0 {
				first = found
			} else if found != pos+1 {
				out.violate("C26", "message-skipped", "task %d call %d Receive(%v): message %q was delivered right after %q, skipping %d message(s) the server sent for this subscription in between", task, rec.Index, argv, got.Message, cand[pos].payload, found-pos-1)
				return
			}
			pos = found
		}
		// every message sent between the acknowledgement and the end must have been delivered to the callback
		if conn >= 0 && ackDelivered >= 0 {
			for j, m := range cand {
				if m.seq <= ackSeq || m.seq >= endSeq || m.delivered < 0 {
					continue
				}
				must := false
				switch {
				case endedByUnsub:
					must = true
				case rec.CancelStep >= 0:
					must = m.delivered < rec.CancelStep-1
				default:
					must = m.delivered < rec.EndStep-1 && (closeStart < 0 || m.delivered < closeStart-1) && (rec.Deadline.IsZero() || true)
				}
				if spec.TimeoutMs > 0 && !endedByUnsub {
					// ended by its deadline: the instant is not a scheduler step; only messages delivered well before the return are demanded
					must = m.delivered < rec.EndStep-2
				}
				if must && (first < 0 || j < first || j > pos) {
					out.violate("C26", "message-lost", "task %d call %d Receive(%v) on connection %d never got message %q on %q (sent at seq %d after the subscription was acknowledged at seq %d, delivered to the client at step %d; Receive ended at step %d)", task, rec.Index, argv, conn, m.payload, m.ch, m.seq, ackSeq, m.delivered, rec.EndStep)
					return
				}
			}
			out.judged("receive-judged")
		} else {
			out.notJudged("subscribe-not-acknowledged")
		}
		// return value
		switch {
		case endedByUnsub && res.Err != "":
			if !(res.ErrK == "ctx-deadline" || res.ErrK == "ctx-canceled" || res.ErrK == "closing") {
				out.violate("C26", "wrong-return", "task %d call %d Receive(%v) ended by an unsubscribe returned %q", task, rec.Index, argv, res.Err)
			}
		case !endedByUnsub && res.Err == "" && conn >= 0:
			// Known finding (DESIGN.md): Receive registers its channels before its SUBSCRIBE is sent, and unsubscribe
			// notifications are matched by channel name only; the notification answering an *earlier* UNSUBSCRIBE of the
			// same channel (by any caller) therefore ends this Receive with nil although the server processes the
			// subscription afterwards and keeps it.
			earlier := false
			for _, c := range ctls {
				if c.conn == conn && c.seq < ackSeq && c.kind == strings.Replace(cmd, "subscribe", "unsubscribe", 1) && c.delivered >= rec.StartStep && c.delivered <= rec.EndStep {
					for _, ch := range argv[1:] {
						if ch == c.ch {
							earlier = true
						}
					}
				}
			}
			if earlier {
				out.violate("C26", "nil-on-unsubscribe-preceding-own-subscribe", "task %d call %d Receive(%v) returned nil because of an unsubscribe notification that the server sent before it processed this Receive's subscribe (the subscription stays active on connection %d)", task, rec.Index, argv, conn)
				break
			}
			out.violate("C26", "wrong-return", "task %d call %d Receive(%v) returned nil although no unsubscribe covering it was delivered (cancel step %d, deadline set %v, close step %d)", task, rec.Index, argv, rec.CancelStep, spec.TimeoutMs > 0, closeStart)
		}
		// an error is the call's own context error, or ErrClosing after Close - never another caller's context error,
		// and (there are no connection faults in these plans) never anything else
		if res.Err != "" {
			early := spec.TimeoutMs > 0 && rec.Done && rec.EndAt.Sub(rec.StartAt) < time.Duration(spec.TimeoutMs)*time.Millisecond
			switch {
			case res.ErrK == "ctx-canceled" && rec.CancelStep < 0:
				out.violate("C26", "foreign-error", "task %d call %d Receive(%v) returned %q although its context was never cancelled (deadline set %v, close step %d)", task, rec.Index, argv, res.Err, spec.TimeoutMs > 0, closeStart)
			case res.ErrK == "ctx-deadline" && (spec.TimeoutMs == 0 || early):
				out.violate("C26", "foreign-error", "task %d call %d Receive(%v) returned %q %v after it started, its own deadline being %d ms (0 = none)", task, rec.Index, argv, res.Err, rec.EndAt.Sub(rec.StartAt), spec.TimeoutMs)
			case res.ErrK == "closing" && closeStart < 0:
				out.violate("C26", "foreign-error", "task %d call %d Receive(%v) returned %q although the client was never closed", task, rec.Index, argv, res.Err)
			case res.ErrK == "net" || res.ErrK == "other":
				out.violate("C26", "foreign-error", "task %d call %d Receive(%v) returned %q in a plan without connection faults (close step %d)", task, rec.Index, argv, res.Err, closeStart)
			default:
				out.judged("receive-error-is-its-own")
			}
		}
		if endedByUnsub && res.Err == "" {
			out.probe("receive-ended-by-unsubscribe")
		}
		if len(res.Msgs) > 0 {
			out.probe("messages-delivered")
		}
	})
	_ = closeEnd
	_ = path.Match
	out.Nontrivial = recvs > 0
}
