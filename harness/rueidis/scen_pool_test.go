//go:build verif

package rueidis

import (
	"context"
	"fmt"
	"sync"
	"sync/atomic"
	"testing"
	"time"

	"verifsim/sched"
)

// Engine B, unit level: pool.go alone with stub wires. Every acquisition of the pool lock is granted by the
// scheduler, and the yield seams of pool.go (entry, between the wait-condition check and cond.Wait, after a
// wake-up, around Store/Close/clean-up) are scheduling decisions.

func init() {
	registerScenario(&scenario{name: "pool-unit", gen: genPoolUnit, load: loadPoolPlan, exec: execPoolUnit})
}

type PoolOp struct {
	Kind      string `json:"kind"`                 // "use": Acquire, hold, Store
	TimeoutMs int    `json:"timeout_ms,omitempty"` // context deadline for the Acquire
	Cancel    bool   `json:"cancel,omitempty"`
	HoldMs    int    `json:"hold_ms,omitempty"` // fake time the wire is kept
	Break     bool   `json:"break,omitempty"`   // the wire fails while held (Store must discard it)
}

type PoolPlan struct {
	Scenario  string     `json:"scenario"`
	Cap       int        `json:"cap"`
	MinSize   int        `json:"min_size"`
	CleanupMs int        `json:"cleanup_ms"`
	FailDials int        `json:"fail_dials"` // the first n dials yield a wire that is already broken
	CloseAt   int        `json:"close_at"`   // step offset at which the pool is closed (0 = at the end)
	Tasks     [][]PoolOp `json:"tasks"`
	MaxSteps  int        `json:"max_steps"`
}

func loadPoolPlan(b []byte) (any, error) {
	p := &PoolPlan{}
	if err := jsonUnmarshal(b, p); err != nil {
		return nil, err
	}
	return p, nil
}

func genPoolUnit(seed uint64, tier, variant string) any {
	r := planRand(seed, 0xC24)
	p := &PoolPlan{Scenario: "pool-unit", Cap: pick(r, 1, 1, 2, 3), MinSize: pick(r, 0, 0, 1), CleanupMs: pick(r, 0, 0, 50, 500), FailDials: pick(r, 0, 0, 1, 2), MaxSteps: 20000}
	if r.IntN(3) == 0 {
		p.CloseAt = 5 + r.IntN(150)
	}
	nt := 2 + r.IntN(6)
	for i := 0; i < nt; i++ {
		var ops []PoolOp
		for j, n := 0, 1+r.IntN(4); j < n; j++ {
			op := PoolOp{Kind: "use", HoldMs: pick(r, 0, 1, 10, 100, 2000), Break: r.IntN(6) == 0}
			switch x := r.IntN(10); {
			case x < 3:
				op.TimeoutMs = pick(r, 1, 5, 50, 500)
			case x < 5:
				op.Cancel = true
			}
			ops = append(ops, op)
		}
		p.Tasks = append(p.Tasks, ops)
	}
	return p
}

// stubWire is a wire whose only behaviour is what the pool looks at.
type stubWire struct {
	id      int
	err     atomic.Pointer[error]
	closed  atomic.Int32
	holders atomic.Int32
	stored  atomic.Int32
}

func (w *stubWire) Do(ctx context.Context, cmd Completed) RedisResult { return RedisResult{} }
func (w *stubWire) DoCache(ctx context.Context, cmd Cacheable, ttl time.Duration) RedisResult {
	return RedisResult{}
}
func (w *stubWire) DoMulti(ctx context.Context, multi ...Completed) *redisresults { return nil }
func (w *stubWire) DoMultiCache(ctx context.Context, multi ...CacheableTTL) *redisresults {
	return nil
}
func (w *stubWire) Receive(ctx context.Context, subscribe Completed, fn func(message PubSubMessage)) error {
	return nil
}
func (w *stubWire) DoStream(ctx context.Context, pool *pool, cmd Completed) RedisResultStream {
	return RedisResultStream{}
}
func (w *stubWire) DoMultiStream(ctx context.Context, pool *pool, multi ...Completed) MultiRedisResultStream {
	return RedisResultStream{}
}
func (w *stubWire) Info() map[string]RedisMessage { return nil }
func (w *stubWire) Version() int                  { return 7 }
func (w *stubWire) AZ() string                    { return "" }
func (w *stubWire) Error() error {
	if e := w.err.Load(); e != nil {
		return *e
	}
	return nil
}
func (w *stubWire) Close()                                        { w.closed.Add(1) }
func (w *stubWire) CleanSubscriptions()                           {}
func (w *stubWire) SetPubSubHooks(hooks PubSubHooks) <-chan error { return nil }
func (w *stubWire) GetPubSubHooks() PubSubHooks                   { return PubSubHooks{} }
func (w *stubWire) SetOnCloseHook(fn func(error))                 {}
func (w *stubWire) StopTimer() bool                               { return true }
func (w *stubWire) ResetTimer() bool                              { return true }

func execPoolUnit(t *testing.T, plan any, out *Outcome) {
	p := plan.(*PoolPlan)
	out.Config = fmt.Sprintf("cap=%d,min=%d,cleanup=%d,faildials=%d,close=%d,tasks=%d", p.Cap, p.MinSize, p.CleanupMs, p.FailDials, p.CloseAt, len(p.Tasks))
	// time only advances when nothing else can run: a goroutine parked at a yield is runnable, and fake time passing
	// meanwhile would be the scheduler's doing, not the pool's
	w := sched.DefaultWeights
	w.Tick = 1e-9
	s := sched.New(out.Seed, sched.Config{MaxSteps: p.MaxSteps, KeepTape: *flagTape, DrainBound: 30 * time.Second, W: w})
	s.Identify = identifyGoroutine
	curSim.Store(s)
	fineSites.Store(true)
	defer fineSites.Store(false)
	var mu sync.Mutex
	var made []*stubWire
	dials := 0
	dead := &stubWire{id: -1}
	deadErr := error(ErrClosing)
	dead.err.Store(&deadErr)
	pl := newPool(p.Cap, dead, time.Duration(p.CleanupMs)*time.Millisecond, p.MinSize, func(ctx context.Context) wire {
		mu.Lock()
		defer mu.Unlock()
		w := &stubWire{id: len(made)}
		dials++
		if dials <= p.FailDials {
			e := fmt.Errorf("dial failed")
			w.err.Store(&e)
		}
		made = append(made, w)
		return w
	})
	verifPool(pl)
	var violations []string
	violate := func(rule, format string, a ...any) {
		if len(violations) < 10 {
			violations = append(violations, rule+"|"+fmt.Sprintf(format, a...))
		}
	}
	closed := atomic.Bool{}
	closedStep := -1
	type acq struct {
		task, idx           int
		deadline, cancelAt  time.Time
		returnedAt          time.Time
		gotCtxErr, gotDead  bool
		afterClose          bool
		wire                *stubWire
	}
	var acqs []*acq
	for ti, ops := range p.Tasks {
		ti, ops := ti, ops
		var calls []sched.Call
		for oi, op := range ops {
			oi, op := oi, op
			calls = append(calls, sched.Call{Name: "use", Timeout: time.Duration(op.TimeoutMs) * time.Millisecond, Cancelable: op.Cancel, CancelAfter: 2,
				Run: func(ctx context.Context, rec *sched.CallRec) any {
					nameGoroutine(fmt.Sprintf("t%d", ti))
					a := &acq{task: ti, idx: oi, deadline: rec.Deadline, afterClose: closed.Load()}
					w := pl.Acquire(ctx)
					a.returnedAt = time.Now()
					mu.Lock()
					acqs = append(acqs, a)
					mu.Unlock()
					sw, isStub := w.(*stubWire)
					if !isStub {
						// a dead pipe carrying the context's error; like every caller in rueidis, hand it back
						a.gotCtxErr = w.Error() != nil
						pl.Store(w)
						return a
					}
					if sw == dead {
						a.gotDead = true
						pl.Store(w)
						return a
					}
					a.wire = sw
					if n := sw.holders.Add(1); n != 1 {
						violate("double-hand-out", "wire %d was handed to task %d while %d other holder(s) still had it", sw.id, ti, n-1)
					}
					if closed.Load() && a.afterClose && sw.closed.Load() == 0 && sw.Error() == nil {
						violate("live-wire-after-close", "Acquire started after Close returned handed out the live wire %d", sw.id)
					}
					if op.HoldMs > 0 {
						time.Sleep(time.Duration(op.HoldMs) * time.Millisecond)
					}
					if op.Break {
						e := fmt.Errorf("broken while held")
						sw.err.Store(&e)
					}
					sw.holders.Add(-1)
					sw.stored.Add(1)
					pl.Store(sw)
					return a
				}})
		}
		s.AddTask(fmt.Sprintf("user%d", ti), calls)
	}
	closing := false
	s.UserEvents = func(s *sched.Sim) []sched.Event {
		if p.CloseAt == 0 || closing || s.Step < p.CloseAt {
			return nil
		}
		return []sched.Event{{Kind: "user", Key: "pool.Close", Weight: 30, Do: func() {
			closing = true
			go func() {
				nameGoroutine("closer")
				pl.Close()
				closed.Store(true)
				closedStep = s.Step
			}()
		}}}
	}
	// invariant after every step: size accounting and the bound
	s.OnStep = func(s *sched.Sim) error {
		if len(s.LockWaiters()) == 0 { // nobody is in the middle of a critical section that was interrupted by a grant
			inUse := 0
			mu.Lock()
			for _, w := range made {
				if w.holders.Load() > 0 {
					inUse++
				}
			}
			mu.Unlock()
			if inUse > p.Cap {
				violate("bound", "step %d: %d wires are in use at once, BlockingPoolSize is %d", s.Step, inUse, p.Cap)
			}
		}
		return nil
	}
	rr := s.Run(s.AllTasksDone)
	out.Reason = rr.Reason
	if rr.Reason != "done" {
		for ti, tk := range s.Tasks {
			if rec := tk.Running(); rec != nil {
				violate("acquire-hang", "task %d op %d: still inside Acquire/Store when the run ended (%s at step %d); deadline %v cancel step %d", ti, rec.Index, rr.Reason, s.Step, rec.Deadline.Sub(s.Start), rec.CancelStep)
			}
		}
	}
	// waiters whose context is done return promptly
	for _, tk := range s.Tasks {
		for _, rec := range tk.Recs {
			a, _ := rec.Result.(*acq)
			if a == nil {
				continue
			}
			var limit time.Time
			switch {
			case !rec.Deadline.IsZero():
				limit = rec.Deadline
			case rec.CancelStep >= 0:
				limit = rec.CancelAt
			default:
				continue
			}
			if a.wire == nil && a.returnedAt.After(limit.Add(time.Second)) {
				violate("ctx-not-prompt", "task %d op %d: context ended at +%v but Acquire returned at +%v", a.task, a.idx, limit.Sub(s.Start), a.returnedAt.Sub(s.Start))
			}
		}
	}
	// nothing is running now: unless the pool was closed meanwhile, every slot is idle or free
	if rr.Reason == "done" && !closing {
		if pl.size != len(pl.list) || pl.size < 0 || pl.size > p.Cap {
			violate("accounting", "with no wire in use the pool accounts size=%d, idle=%d (cap %d)", pl.size, len(pl.list), p.Cap)
		}
	}
	// drain: close the pool, every made wire must end up closed or idle in the pool exactly once
	if !closing {
		done := atomic.Bool{}
		go func() { nameGoroutine("closer"); pl.Close(); done.Store(true) }()
		s.Cfg.MaxSteps = s.Step + 2000
		s.Run(func() bool { return done.Load() })
	} else {
		s.Cfg.MaxSteps = s.Step + 2000
		s.Run(func() bool { return closed.Load() })
	}
	if rr.Reason == "done" {
		mu.Lock()
		for _, w := range made {
			if w.closed.Load() == 0 {
				violate("wire-leaked", "wire %d was made by the pool but is neither closed nor handed back when the pool is closed (stored %d times)", w.id, w.stored.Load())
			}
		}
		mu.Unlock()
	}
	for _, v := range violations {
		i := 0
		for i < len(v) && v[i] != '|' {
			i++
		}
		out.violate("C24", v[:i], "%s", v[i+1:])
	}
	out.Steps = s.Step
	out.FakeMs = s.Elapsed().Milliseconds()
	out.LogHash = s.LogHash()
	out.Stats = s.Stats
	if *flagTape {
		out.Tape = s.Tape
	}
	waited := s.Stats["ev.grant"] > 0
	if len(p.Tasks) > p.Cap {
		out.probe("more-users-than-connections")
	}
	if closedStep >= 0 {
		out.probe("closed-during-run")
	}
	out.Nontrivial = len(p.Tasks) > p.Cap && waited
	s.Shutdown()
	time.Sleep(3 * time.Second)
}
