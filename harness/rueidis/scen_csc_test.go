//go:build verif

package rueidis

import (
	"container/list"
	"context"
	"fmt"
	"math/rand/v2"
	"sort"
	"strconv"
	"strings"
	"testing"
	"time"

	"verifsim/resp"
	"verifsim/sched"
)

func init() {
	registerScenario(&scenario{name: "csc", gen: genCSC, load: loadPlan, exec: execCSC})
}

func cscRead(r *rand.Rand, nkeys int) CmdSpec {
	k := "k" + strconv.Itoa(r.IntN(nkeys))
	switch r.IntN(6) {
	case 0:
		return CmdSpec{Argv: []string{"HGET", "h" + k, "f" + strconv.Itoa(r.IntN(3))}, Keys: 1, Flag: "ro"}
	case 1:
		return CmdSpec{Argv: []string{"GETRANGE", k, "0", "-1"}, Keys: 1, Flag: "ro"}
	case 2:
		return CmdSpec{Argv: []string{"HGETALL", "h" + k}, Keys: 1, Flag: "ro"}
	default:
		return CmdSpec{Argv: []string{"GET", k}, Keys: 1, Flag: "ro"}
	}
}

// genAbandonedChain is the directed plan for the known finding C09-abandoned-flight-chain: one key, one command,
// a slow server, a cancelled owner, then more readers and a writer.
func genAbandonedChain(seed uint64) any {
	r := planRand(seed, 0xC09)
	p := &Plan{Scenario: "csc", Opt: genOpt(r), X: map[string]any{"nkeys": 1}}
	p.Opt.RESP2, p.Opt.Multiplex, p.Opt.OnInvalidations = false, -1, true
	p.Opt.KeepAliveMs, p.Opt.WriteTimeoutMs = 3600_000, 600_000
	p.Opt.Tracking, p.Opt.SimpleCache, p.Opt.CacheSize = nil, false, 0
	if p.Opt.Queue == "ring" && p.Opt.RingScale < 4 {
		p.Opt.RingScale = 4
	}
	p.Sched = SchedSpec{CutProb: 0, MaxSteps: 4000, TickWeight: 0.1}
	get := func() CallSpec {
		return CallSpec{Kind: "cache", TTLMs: 60_000, Cmds: []CmdSpec{{Argv: []string{"GET", "k0"}, Keys: 1, Flag: "ro"}}}
	}
	first := get()
	first.Cancel, first.CancelAfter = true, 3+r.IntN(4)
	p.Tasks = [][]CallSpec{{first}, {get(), get()}, {get(), get()}, {get(), get()}}
	for i := 0; i < 4; i++ {
		p.Ghosts = append(p.Ghosts, GhostSpec{Kind: "cmd", Argv: []string{"SET", "k0", fmt.Sprintf("g%d", i)}, MinStep: 8 + r.IntN(30)})
	}
	p.Faults = []FaultSpec{{Kind: "slow", AtStep: 2 + r.IntN(6), NeedInflight: true, DurMs: 200}}
	return p
}

func genCSC(seed uint64, tier, variant string) any {
	if variant == "abandoned-chain" {
		return genAbandonedChain(seed)
	}
	r := planRand(seed, 0xC06)
	p := &Plan{Scenario: "csc", Opt: genOpt(r), X: map[string]any{}}
	p.Opt.RESP2 = false
	p.Opt.Multiplex = -1 // one connection: invalidation callbacks are attributable to it (multiplexed caches: variant "batch")
	if variant == "batch" {
		p.Opt.Multiplex = pick(r, -1, 1, 2)
	}
	p.Opt.OnInvalidations = true
	p.Opt.KeepAliveMs = 3600_000
	p.Opt.WriteTimeoutMs = 600_000
	p.Opt.Tracking = pick(r, []string(nil), []string(nil), []string{"OPTOUT"}, []string{"BCAST"}, []string{"BCAST", "PREFIX", "k", "PREFIX", "hk"}, []string{"OPTIN", "NOLOOP"})
	p.Opt.SimpleCache = r.IntN(5) == 0
	p.Opt.CacheSize = pick(r, 0, 0, 2048, 4096, 8192)
	p.Opt.RetryDelaysMs = []int{1, 5}
	p.Sched = SchedSpec{CutProb: pick(r, 0.0, 0.3, 0.7), MaxSteps: 8000, TickWeight: pick(r, 0.2, 0.6)}
	nkeys := 2 + r.IntN(4)
	p.X["nkeys"] = nkeys
	ntasks := 2 + r.IntN(6)
	ttl := func() int { return pick(r, 60_000, 60_000, 60_000, 40, 200) }
	for ti := 0; ti < ntasks; ti++ {
		var calls []CallSpec
		for ci, n := 0, 2+r.IntN(7); ci < n; ci++ {
			var c CallSpec
			switch x := r.IntN(100); {
			case x < 40:
				c = CallSpec{Kind: "cache", TTLMs: ttl(), Cmds: []CmdSpec{cscRead(r, nkeys)}}
			case x < 60:
				c = CallSpec{Kind: "mcache", TTLMs: ttl()}
				for k, m := 0, 1+r.IntN(6); k < m; k++ {
					c.Cmds = append(c.Cmds, cscRead(r, nkeys))
				}
			case x < 75:
				c = CallSpec{Kind: "mgetcache", TTLMs: ttl()}
				argv := []string{"MGET"}
				for k, m := 0, 1+r.IntN(5); k < m; k++ {
					argv = append(argv, "k"+strconv.Itoa(r.IntN(nkeys)))
				}
				c.Cmds = []CmdSpec{{Argv: argv, Keys: len(argv) - 1, Flag: "ro"}}
			case x < 85:
				c = CallSpec{Kind: "mgethelper", TTLMs: ttl()}
				argv := []string{"MGET"}
				for k, m := 0, 1+r.IntN(5); k < m; k++ {
					argv = append(argv, "k"+strconv.Itoa(r.IntN(nkeys)))
				}
				c.Cmds = []CmdSpec{{Argv: argv, Keys: len(argv) - 1, Flag: "ro"}}
			case x < 93:
				// the client writes a key itself (invalidation of its own cache after its own reply)
				k := "k" + strconv.Itoa(r.IntN(nkeys))
				c = CallSpec{Kind: "do", Cmds: []CmdSpec{{Argv: []string{"SET", k, fmt.Sprintf("own.t%d.c%d.%s", ti, ci, strings.Repeat("x", pick(r, 0, 20, 300)))}, Keys: 1}}}
			default:
				c = CallSpec{Kind: "do", Cmds: []CmdSpec{{Argv: []string{"VTAG", fmt.Sprintf("t%d.c%d.k0", ti, ci), "[sb]"}}}}
			}
			if c.Kind != "do" {
				switch y := r.IntN(100); {
				case y < 8:
					c.Cancel = true
					c.CancelAfter = r.IntN(6)
				case y < 14:
					c.TimeoutMs = 20 + r.IntN(500)
				}
			}
			calls = append(calls, c)
		}
		p.Tasks = append(p.Tasks, calls)
	}
	for i, ng := 0, 3+r.IntN(12); i < ng; i++ {
		k := "k" + strconv.Itoa(r.IntN(nkeys))
		pad := strings.Repeat("p", pick(r, 0, 10, 100, 700, 1500))
		var g GhostSpec
		switch x := r.IntN(100); {
		case x < 45:
			g = GhostSpec{Kind: "cmd", Argv: []string{"SET", k, fmt.Sprintf("g%d.%s", i, pad)}}
		case x < 60:
			g = GhostSpec{Kind: "cmd", Argv: []string{"HSET", "h" + k, "f" + strconv.Itoa(r.IntN(3)), fmt.Sprintf("g%d.%s", i, pad)}}
		case x < 72:
			g = GhostSpec{Kind: "cmd", Argv: []string{"DEL", k, "h" + k}}
		case x < 82:
			g = GhostSpec{Kind: "cmd", Argv: []string{"PEXPIRE", k, strconv.Itoa(pick(r, 1, 30, 300, 5000))}}
		case x < 88:
			g = GhostSpec{Kind: "cmd", Argv: []string{"MSET", "k0", fmt.Sprintf("g%d.a", i), "k1", fmt.Sprintf("g%d.b", i)}}
		case x < 93:
			g = GhostSpec{Kind: "cmd", Argv: []string{"FLUSHALL"}}
		default:
			g = GhostSpec{Kind: "tick", DurMs: pick(r, 50, 250)}
		}
		g.MinStep = r.IntN(250)
		p.Ghosts = append(p.Ghosts, g)
	}
	if variant != "nofault" && r.IntN(3) == 0 {
		p.Faults = append(p.Faults, FaultSpec{Kind: pick(r, "reset", "eof", "eof-mid-reply", "reset-after-exec"), AtStep: 20 + r.IntN(150), NeedInflight: r.IntN(2) == 0, Pick: r.IntN(3), Arg: r.IntN(500)})
	}
	if r.IntN(4) == 0 {
		// a transaction abort or an error reply inside the caching transaction
		p.X["abort_nth"] = 1 + r.IntN(6)
		p.X["abort_kind"] = pick(r, "execabort", "cmd-error", "exec-nil")
	}
	return p
}

// tag parsing: "<argv>\x1f<epoch>\x1f<readseq>\x1f<value>"
type readTag struct {
	argv    string
	epoch   int
	readSeq int
	val     string
	ok      bool
}

func parseTag(s string) readTag {
	parts := strings.SplitN(s, "\x1f", 4)
	if len(parts) != 4 {
		return readTag{}
	}
	e, err1 := strconv.Atoi(parts[1])
	q, err2 := strconv.Atoi(parts[2])
	if err1 != nil || err2 != nil {
		return readTag{}
	}
	return readTag{argv: parts[0], epoch: e, readSeq: q, val: parts[3], ok: true}
}

// canonical identity of a cached read: GET k and one MGET element are the same entry by design
func canonRead(argv []string) string {
	if len(argv) == 2 && (argv[0] == "MGET" || argv[0] == "GET") {
		return "GET " + argv[1]
	}
	return strings.Join(argv, " ")
}

type leafRead struct {
	want string // canonical identity asked for
	key  string
	v    resp.Value
	hit  bool
	pos  string
}

// lruAudit recomputes the accounting of one built-in store.
func lruAudit(c *lru) (sum, size, max, completed, pending int, ok bool) {
	c.mu.Lock()
	defer c.mu.Unlock()
	if c.list == nil {
		return 0, 0, c.max, 0, 0, false
	}
	for ele := c.list.Front(); ele != nil; ele = ele.Next() {
		e := ele.Value.(*cacheEntry)
		if e.val.typ == 0 {
			pending++
		} else {
			completed++
			sum += e.size
		}
	}
	return sum, c.size, c.max, completed, pending, true
}

func pipesOf(cl Client) []*pipe {
	var out []*pipe
	for _, m := range muxOf(cl) {
		for i := range m.muxwires {
			if p, ok := m.muxwires[i].wire.Load().(*pipe); ok && p != nil && p.conn != nil {
				out = append(out, p)
			}
		}
	}
	return out
}

var _ = list.New

func execCSC(t *testing.T, plan any, out *Outcome) {
	p := plan.(*Plan)
	abortNth, _ := planInt(p, "abort_nth")
	abortKind, _ := p.X["abort_kind"].(string)
	execSeen := 0
	var sizeViolation string
	maxOver := 0
	e := standardRun(t, out.Seed, p, out, runHooks{
		beforeClient: func(e *env) {
			w := e.sim.W
			w.TagReads = true
			if abortNth > 0 {
				w.Intercept = func(sc *fakeredisConn, argv []string) (resp.Value, bool) {
					name := strings.ToUpper(argv[0])
					switch abortKind {
					case "execabort", "exec-nil":
						if name == "EXEC" {
							execSeen++
							if execSeen == abortNth {
								if abortKind == "exec-nil" {
									return resp.Nil(), false // handled below through WATCH-like abort is not available: fall through
								}
								return resp.Err("EXECABORT Transaction discarded because of previous errors."), true
							}
						}
					case "cmd-error":
						if name == "GET" || name == "HGET" || name == "MGET" {
							execSeen++
							if execSeen == abortNth {
								return resp.Err("ERR injected failure of the cached command"), true
							}
						}
					}
					return resp.Value{}, false
				}
			}
			// C10: audit every built-in store at every quiescent point
			e.sim.OnStep = func(s *sched.Sim) error {
				for _, cl := range e.clients {
					for _, pp := range pipesOf(cl) {
						c, ok := pp.cache.(*lru)
						if !ok {
							continue
						}
						sum, size, max, completed, _, live := lruAudit(c)
						if !live {
							continue
						}
						if sum != size && sizeViolation == "" {
							sizeViolation = fmt.Sprintf("accounting: step %d: accounted size %d but the %d completed entries retained sum to %d (CacheSizeEachConn %d)", s.Step, size, completed, sum, max)
						}
						if sum > max {
							if sum-max > maxOver {
								maxOver = sum - max
							}
							if sizeViolation == "" {
								sizeViolation = fmt.Sprintf("bound: step %d: %d completed entries retain %d bytes, more than CacheSizeEachConn %d", s.Step, completed, sum, max)
							}
						}
					}
				}
				return nil
			}
		},
		extraCall: func(e *env, cl Client, cs CallSpec, ctx context.Context, rec *sched.CallRec) *CallResult {
			switch cs.Kind {
			case "mgetcache":
				r := &CallResult{Kind: cs.Kind}
				c := cl.B().Mget().Key(cs.Cmds[0].Argv[1:]...).Cache()
				r.Res = []Res{toRes(cl.DoCache(ctx, c, time.Duration(cs.TTLMs)*time.Millisecond))}
				return r
			case "mgethelper":
				r := &CallResult{Kind: cs.Kind}
				m, err := MGetCache(cl, ctx, time.Duration(cs.TTLMs)*time.Millisecond, cs.Cmds[0].Argv[1:])
				if err != nil {
					r.Err, r.ErrK = err.Error(), errKind(err)
					return r
				}
				// present as an array in key order, remembering the key set
				arr := resp.Value{T: '*'}
				for _, k := range cs.Cmds[0].Argv[1:] {
					msg, ok := m[k]
					if !ok {
						r.Notes = append(r.Notes, "missing:"+k)
						arr.A = append(arr.A, resp.Value{T: 0})
						continue
					}
					arr.A = append(arr.A, msgToVal(&msg))
				}
				if len(m) != len(uniq(cs.Cmds[0].Argv[1:])) {
					r.Notes = append(r.Notes, fmt.Sprintf("keyset:%d!=%d", len(m), len(uniq(cs.Cmds[0].Argv[1:]))))
				}
				r.Res = []Res{{V: arr, Text: arr.String()}}
				return r
			}
			return nil
		},
	})
	if out.HarnessErr != "" {
		return
	}
	checkCommon(e)
	if sizeViolation != "" {
		rule := "cache-size-bound"
		if strings.HasPrefix(sizeViolation, "accounting") {
			rule = "cache-size-accounting"
		}
		out.violate("C10", rule, "%s (largest excess seen %d bytes)", sizeViolation, maxOver)
	}
	checkCSC(e)
}

type fakeredisConn = fakeredisSrvConn

func uniq(a []string) []string {
	m := map[string]bool{}
	var out []string
	for _, s := range a {
		if !m[s] {
			m[s] = true
			out = append(out, s)
		}
	}
	return out
}

// leavesOf flattens a cached-read result into tagged leaves with the identity each leaf must carry.
func leavesOf(spec CallSpec, res *CallResult) []leafRead {
	var out []leafRead
	add := func(want []string, v resp.Value, hit bool, pos string) {
		switch v.T {
		case '$', '+':
			out = append(out, leafRead{want: canonRead(want), key: want[1], v: v, hit: hit, pos: pos})
		case '%', '*':
			if want[0] == "HGETALL" {
				for i := 1; i < len(v.A); i += 2 {
					out = append(out, leafRead{want: canonRead(want), key: want[1], v: v.A[i], hit: hit, pos: pos})
				}
			}
		}
	}
	switch spec.Kind {
	case "cache", "mcache":
		for i, r := range res.Res {
			if r.Err != "" || i >= len(spec.Cmds) {
				continue
			}
			add(spec.Cmds[i].Argv, r.V, r.CacheHit, fmt.Sprintf("cmd %d", i))
		}
	case "mgetcache", "mgethelper":
		if len(res.Res) != 1 || res.Res[0].Err != "" {
			return nil
		}
		keys := spec.Cmds[0].Argv[1:]
		arr := res.Res[0].V
		for i, k := range keys {
			if i < len(arr.A) {
				// per-element hit information is not exposed for MGET; freshness is judged through the read sequence
				add([]string{"GET", k}, arr.A[i], res.Res[0].CacheHit, fmt.Sprintf("key %d", i))
			}
		}
	}
	return out
}

func checkCSC(e *env) {
	out := e.out
	w := e.sim.W
	single := e.plan.Opt.Multiplex <= 0
	// invalidation callbacks in order, paired with the pushes the model sent to the (only) caching connection(s)
	type inval struct {
		step   int
		seq    int // model sequence number of the modification (or of the moment of the disconnect)
		keys   map[string]bool
		flush  bool
		discon bool
	}
	var invs []inval
	{
		// Expected callbacks per connection: the invalidation pushes whose frames were delivered to the client, in order,
		// then one nil when the connection is lost. Callbacks are grouped by the goroutine that ran them (one reader
		// goroutine per connection) and every group must equal the expectation of exactly one connection.
		type expect struct {
			conn   int
			pushes []*fakeredisPush
			ended  bool
			byCli  bool
			used   bool
		}
		var exps []*expect
		for _, l := range e.sim.Links {
			ex := &expect{conn: l.ID, ended: l.EndStep > 0 || l.C.ClientClosed(), byCli: l.C.ClientClosed()}
			off := 0
			pi := 0
			var mine []*fakeredisPush
			for _, pu := range w.Pushes {
				if pu.Conn == l.ID {
					mine = append(mine, pu)
				}
			}
			for _, f := range l.S.OutLog {
				off += f.Bytes
				if !f.Push {
					continue
				}
				// OutLog push frames and w.Pushes of this connection are in the same order
				if pi < len(mine) {
					pu := mine[pi]
					pi++
					if pu.Kind == "invalidate" && l.DeliveredStep(off) >= 0 {
						ex.pushes = append(ex.pushes, pu)
					}
				}
			}
			if len(ex.pushes) > 0 || ex.ended {
				exps = append(exps, ex)
			}
		}
		groups := map[uint64][]invEvent{}
		var order []uint64
		for _, ev := range e.invLog {
			if _, ok := groups[ev.Goid]; !ok {
				order = append(order, ev.Goid)
			}
			groups[ev.Goid] = append(groups[ev.Goid], ev)
		}
		describe := func(evs []invEvent) string {
			var sb strings.Builder
			for _, ev := range evs {
				if ev.Nil {
					sb.WriteString("nil ")
				} else {
					sb.WriteString("[" + strings.Join(ev.Keys, ",") + "] ")
				}
			}
			return sb.String()
		}
		describeExp := func(ex *expect) string {
			var sb strings.Builder
			for _, pu := range ex.pushes {
				if pu.Flush {
					sb.WriteString("nil ")
				} else {
					sb.WriteString("[" + strings.Join(pu.Keys, ",") + "] ")
				}
			}
			if ex.ended {
				sb.WriteString("nil(loss)")
			}
			return sb.String()
		}
		matches := func(evs []invEvent, ex *expect) bool {
			n := len(ex.pushes)
			body := evs
			if ex.ended {
				if len(evs) == 0 || !evs[len(evs)-1].Nil {
					return false
				}
				body = evs[:len(evs)-1]
			}
			if len(body) > n || (len(body) < n && !ex.byCli) {
				return false // a connection closed by the client may not have read the last delivered frames
			}
			for i, ev := range body {
				pu := ex.pushes[i]
				if pu.Flush != ev.Nil || (!pu.Flush && strings.Join(pu.Keys, ",") != strings.Join(ev.Keys, ",")) || pu.Step > ev.Step {
					return false
				}
			}
			return true
		}
		bad := ""
		for _, g := range order {
			evs := groups[g]
			var hit *expect
			for _, ex := range exps {
				if !ex.used && matches(evs, ex) {
					hit = ex
					break
				}
			}
			if hit == nil {
				cands := ""
				for _, ex := range exps {
					if !ex.used {
						cands += fmt.Sprintf(" conn %d: %s;", ex.conn, describeExp(ex))
					}
				}
				bad = fmt.Sprintf("the callbacks of one connection were %s- no connection was sent exactly that (unmatched:%s)", describe(evs), truncStr(cands, 400))
				break
			}
			hit.used = true
			for i, ev := range evs {
				switch {
				case i < len(hit.pushes) && !(hit.ended && i == len(evs)-1 && ev.Nil && i >= len(hit.pushes)):
					pu := hit.pushes[i]
					ks := map[string]bool{}
					for _, k := range pu.Keys {
						ks[k] = true
					}
					invs = append(invs, inval{step: ev.Step, seq: pu.Seq, keys: ks, flush: pu.Flush})
				default:
					invs = append(invs, inval{step: ev.Step, seq: ev.Seq, discon: true})
				}
			}
		}
		if bad == "" {
			for _, ex := range exps {
				if !ex.used && (len(ex.pushes) > 0 && !ex.byCli) {
					bad = fmt.Sprintf("connection %d was sent %s but no callback sequence corresponds to it", ex.conn, describeExp(ex))
					break
				}
			}
		}
		if bad != "" {
			out.violate("C27", "callback-mismatch", "%s", bad)
		} else {
			out.judged("callbacks-match-pushes")
		}
		sort.SliceStable(invs, func(i, j int) bool { return invs[i].step < invs[j].step })
	}
	hits, staleChecked := 0, 0
	type fetchKey struct {
		conn int
		id   string
	}
	e.eachCall(func(task int, spec CallSpec, rec *sched.CallRec, res *CallResult) {
		if res == nil {
			if (!rec.Done || rec.Hung) && spec.Kind != "do" {
				// a cached read that never returns is waiting on a flight nobody will ever complete or cancel
				out.violate("C09", "cached-read-never-returned", "task %d call %d (%s %q) started at step %d never returned although every fault was healed and the run drained (%s)", task, rec.Index, spec.Kind, truncArgv(firstArgv(spec)), rec.StartStep, out.Reason)
			}
			return
		}
		switch spec.Kind {
		case "mgethelper":
			for _, n := range res.Notes {
				out.violate("C11", "helper-keyset", "task %d call %d MGetCache(%v): %s", task, rec.Index, spec.Cmds[0].Argv[1:], n)
			}
		case "mgetcache":
			if len(res.Res) == 1 && res.Res[0].Err == "" && len(res.Res[0].V.A) != len(spec.Cmds[0].Argv)-1 {
				out.violate("C11", "mget-length", "task %d call %d DoCache(%v) returned %d elements", task, rec.Index, spec.Cmds[0].Argv, len(res.Res[0].V.A))
			}
		}
		for _, lf := range leavesOf(spec, res) {
			tg := parseTag(lf.v.S)
			if !tg.ok {
				out.violate("C06", "untagged-value", "task %d call %d %s: value %q does not come from the model", task, rec.Index, lf.pos, truncStr(lf.v.S, 60))
				continue
			}
			got := canonRead(strings.Split(tg.argv, " "))
			if got != lf.want {
				// positional / identity rule (C11 for batches, C06 for hits)
				prop := "C11"
				if spec.Kind == "cache" {
					prop = "C06"
				}
				out.violate(prop, "reply-of-another-command", "task %d call %d (%s) %s asked %q but received the reply to %q (hit=%v)", task, rec.Index, spec.Kind, lf.pos, lf.want, got, lf.hit)
				continue
			}
			out.judged("identity-ok")
			if !single {
				continue
			}
			if lf.hit {
				hits++
			}
			// freshness: the value was read at model sequence tg.readSeq. It is stale if, before this call started,
			// the connection's callback had reported an invalidation of the key (or a flush / disconnect) that was
			// issued after that read.
			for _, iv := range invs {
				if iv.step >= rec.StartStep {
					break
				}
				if iv.seq > tg.readSeq && (iv.flush || iv.discon || iv.keys[lf.key]) {
					what := "invalidation of " + lf.key
					if iv.flush {
						what = "flush"
					} else if iv.discon {
						what = "connection loss"
					}
					out.violate("C06", "stale-hit", "task %d call %d (%s) %s %q started at step %d and returned the value read at model seq %d (epoch %d, hit=%v) although the %s issued at seq %d had been processed by the connection at step %d", task, rec.Index, spec.Kind, lf.pos, lf.want, rec.StartStep, tg.readSeq, tg.epoch, lf.hit, what, iv.seq, iv.step)
					break
				}
			}
			staleChecked++
		}
	})
	// C09: per connection, two fetches of the same cached command must not be in flight together
	// unless the first one's owner had returned.
	type fetch struct {
		conn, seq, step int
		id          string
		done        int // step at which the reply (the EXEC frame containing it) had been delivered to the client, -1 if never
	}
	// end offset of every reply frame in each connection's output stream
	frameEnd := map[[2]int]int{}
	for _, l := range e.sim.Links {
		off := 0
		for _, f := range l.S.OutLog {
			off += f.Bytes
			if !f.Push {
				frameEnd[[2]int{l.ID, f.ConnSeq}] = off
			}
		}
	}
	var fetches []fetch
	for _, ex := range w.Log {
		if !ex.InExec || ex.Conn < 0 || ex.Reply.IsErr() {
			continue
		}
		switch strings.ToUpper(ex.Argv[0]) {
		case "GET", "HGET", "GETRANGE", "HGETALL":
			done := -1
			if l := e.sim.LinkOf(ex.Conn); l != nil {
				if end, ok := frameEnd[[2]int{ex.Conn, ex.ConnSeq}]; ok {
					done = l.DeliveredStep(end)
				}
			}
			fetches = append(fetches, fetch{ex.Conn, ex.Seq, ex.Step, strings.Join(ex.Argv, " "), done})
		}
	}
	ownerEnd := map[int]int{} // readSeq -> end step of the non-hit call that returned it
	ownerWho := map[int]string{}
	e.eachCall(func(task int, spec CallSpec, rec *sched.CallRec, res *CallResult) {
		if res == nil || spec.Kind != "cache" && spec.Kind != "mcache" {
			return
		}
		for _, lf := range leavesOf(spec, res) {
			if tg := parseTag(lf.v.S); tg.ok && !lf.hit {
				// HGETALL leaves share one exec: the max readSeq among them is the exec's; store all
				ownerEnd[tg.readSeq] = rec.EndStep
				ownerWho[tg.readSeq] = fmt.Sprintf("task %d call %d (%s, started step %d, cancel step %d, %s)", task, rec.Index, spec.Kind, rec.StartStep, rec.CancelStep, lf.pos)
			}
		}
	})
	for i := range fetches {
		for j := i + 1; j < len(fetches); j++ {
			a, b := fetches[i], fetches[j]
			if a.conn != b.conn || a.id != b.id {
				continue
			}
			// owner of a returned (with a's value) at step end; b was sent (executed) at step b.step
			_, ok := ownerEnd[a.seq]
			if !ok {
				out.notJudged("flight-owner-did-not-return-a-value")
				break
			}
			// the flight of a is over once its reply has been delivered (the reader fills the entry in that step)
			end := a.done
			if end < 0 {
				out.notJudged("flight-reply-never-delivered")
				break
			}
			if b.step < end {
				// Known finding (DESIGN.md): replies are attributed to cache entries by (key, command) only. When a flight is
				// abandoned after its request was written, its late reply completes the entry of the *next* flight of the
				// same command early, that flight's own reply completes the one after it, and so on; an invalidation in
				// between then lets another caller start a request although the previous one is still on the wire.
				rule := "duplicate-flight"
				e.eachCall(func(task int, spec CallSpec, rec *sched.CallRec, res *CallResult) {
					if res == nil || rec.EndStep < 0 || rec.EndStep > b.step {
						return
					}
					abandoned := rec.CancelStep >= 0 || res.ErrK == "ctx-deadline" || res.ErrK == "ctx-canceled"
					for _, r := range res.Res {
						if r.ErrKind == "ctx-deadline" || r.ErrKind == "ctx-canceled" {
							abandoned = true
						}
					}
					if !abandoned {
						return
					}
					for _, c := range spec.Cmds {
						if strings.Join(c.Argv, " ") == a.id || (c.Argv[0] == "MGET" && strings.HasPrefix(a.id, "GET ") && containsStr(c.Argv[1:], strings.TrimPrefix(a.id, "GET "))) {
							rule = "duplicate-flight-after-abandoned-flight"
						}
					}
				})
				out.violate("C09", rule, "connection %d: %q was fetched at step %d (seq %d) and again at step %d (seq %d) while the first request was still in flight (its reply reached the client only at step %d; owner %s)", a.conn, a.id, a.step, a.seq, b.step, b.seq, end, ownerWho[a.seq])
			} else {
				out.judged("flights-sequential")
			}
			break
		}
	}
	if hits > 0 {
		out.probe("cache-hit-served")
	}
	if len(invs) > 0 {
		out.probe("invalidation-processed")
	}
	for _, iv := range invs {
		if iv.discon {
			out.probe("connection-lost-with-cache")
		}
		if iv.flush {
			out.probe("flush-invalidation")
		}
		if len(iv.keys) > 1 {
			out.probe("multi-key-invalidation")
		}
	}
	out.Nontrivial = staleChecked > 0 && (len(invs) > 0 || hits > 0)
	if !single {
		out.Nontrivial = true
	}
}

func containsStr(a []string, s string) bool {
	for _, x := range a {
		if x == s {
			return true
		}
	}
	return false
}

// connDeadBefore reports whether connection id had ended by the given step.
func connDeadBefore(e *env, id, step int) bool {
	l := e.sim.LinkOf(id)
	if l == nil {
		return true
	}
	return l.EndStep > 0 && l.EndStep < step
}
