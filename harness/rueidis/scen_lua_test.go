//go:build verif

package rueidis

// Scenario "lua-exec" (property C30): Lua.Exec / Lua.ExecMulti against the model's script cache.
//
// Every Exec (and every LuaExec unit of an ExecMulti) carries a unique id as ARGV[1]; the script bodies push it to a
// list (writing scripts) or read the list's length (read-only scripts) and return {ARGV[1], n}. Observation points:
//   - the model's command log: every EVAL/EVALSHA(_RO) the server received, with its reply and Exec.ScriptRuns
//     (did a body start) and Exec.Sub (the redis.call's the body made);
//   - a pass-through Client ("spy") handed to Lua.Exec / Lua.ExecMulti, which records, per call, the commands lua.go
//     issued through Do / DoMulti / Nodes() and the results it got. It is needed for the commands that carry no id
//     (SCRIPT LOAD) and to tell the commands of an Exec from those of a concurrent ExecMulti of the same Lua object.
//
// Lua.sha1Mu (WithLoadSHA1) is held across the SCRIPT LOAD round trip; a goroutine blocked on a sync.RWMutex is not
// durably blocked for synctest. The scheduler therefore never starts a call on a load-SHA1 script whose SHA is still
// unknown while another call on the same Lua object is in flight (Task.Hold, decided at quiescence with TryRLock).
// Variant race does not hold back: there the lock is acquired through the lock seam of hook commit 3ef6acd (a scheduling
// point before the write lock is taken, waiters poll once per scheduling decision), so first calls overlap.
// On a cluster client an Exec of a load-SHA1 script whose SHA is unknown would send the key-less SCRIPT LOAD to the
// node Go's map iteration yields first (cluster._pick(InitSlot)): such calls are issued as a one-unit ExecMulti.

import (
	"context"
	"encoding/json"
	"fmt"
	"strconv"
	"strings"
	"sync"
	"testing"
	"testing/synctest"
	"time"

	"verifsim/fakeredis"
	"verifsim/sched"
)

func init() {
	registerScenario(&scenario{name: "lua-exec", gen: genLuaExec, load: loadPlan, exec: execLuaExec})
}

// ---- plan ----

type luaScriptSpec struct {
	Kind string `json:"kind"`                // plain | ro | nosha | ro-nosha | retryable | nosha-retryable
	Load bool   `json:"load_sha1,omitempty"` // WithLoadSHA1(true)
	Fail bool   `json:"fail,omitempty"`      // the body ends with an error reply of its own (see luaSource)
}

type luaX struct {
	Scripts  []luaScriptSpec `json:"scripts"`
	Shards   int             `json:"shards,omitempty"`   // 0 = one stand-alone node and a single-node client
	Replicas int             `json:"replicas,omitempty"` // the first Replicas shards get one replica each
	Preload  [][2]int        `json:"preload,omitempty"`  // [script, node]: loaded into that node's cache before the workload
	Race     bool            `json:"race,omitempty"`     // first calls of a load-SHA1 script may overlap (lock seam, no hold-back)
}

func (k luaScriptSpec) readOnly() bool { return k.Kind == "ro" || k.Kind == "ro-nosha" }
func (k luaScriptSpec) noSha() bool {
	return k.Kind == "nosha" || k.Kind == "ro-nosha" || k.Kind == "nosha-retryable"
}
func (k luaScriptSpec) markedRetryable() bool {
	return k.Kind == "retryable" || k.Kind == "nosha-retryable"
}

func luaXOf(p *Plan) (x luaX, err error) {
	b, err := json.Marshal(p.X["lua"])
	if err != nil {
		return x, err
	}
	err = json.Unmarshal(b, &x)
	return x, err
}

// luaSource is the text of script i. The leading comment makes the SHA of every Lua object of a run distinct.
func luaSource(i int, ro bool, fail ...bool) string {
	ret := "return {ARGV[1], n}"
	if len(fail) > 0 && fail[0] {
		// a body that does its work and then answers with an error of its own, whose text mentions NOSCRIPT somewhere
		// in the middle: an ordinary error reply, not the server's "script not cached"
		ret = "return redis.error_reply('ERR refused ' .. ARGV[1] .. ' after ' .. n .. ': mode NOSCRIPT is not supported')"
	}
	if ro {
		return fmt.Sprintf("-- L%d\nlocal n = redis.call('LLEN', KEYS[1])\n%s", i, ret)
	}
	return fmt.Sprintf("-- L%d\nlocal n = redis.call('RPUSH', KEYS[1], ARGV[1])\n%s", i, ret)
}

func luaNodeCount(x luaX) int {
	if x.Shards == 0 {
		return 1
	}
	return x.Shards + x.Replicas
}

func genLuaExec(seed uint64, tier, variant string) any {
	r := planRand(seed, 0xC30)
	p := &Plan{Scenario: "lua-exec", Opt: genOpt(r), X: map[string]any{}}
	p.Opt.DisableRetry = r.IntN(5) == 0
	p.Opt.RetryDelaysMs = pick(r, []int{0}, []int{1, 2, 4}, []int{10, 100})
	p.Opt.KeepAliveMs, p.Opt.WriteTimeoutMs, p.Opt.DialTimeoutMs = 3600_000, 10_000, 2000
	// MaxFlushDelay: when a pipe switches to its background writer (a second caller, or Close), whether the writer
	// goroutine finds the queued command at once or goes to sleep first and then delays the flush by 20 fake
	// microseconds is a race between two free-running goroutines; with a delay the bytes appear only after a tick
	p.Opt.MaxFlushDelayUs = 0
	// A queue that fills up (2-8 slots for up to 6 tasks) makes putters wait inside the queue; when the connection then
	// dies, the clean-up loop, the writer and the woken putters contend for slot locks while running freely, and who
	// finds a lock taken is the Go runtime's choice (full queues are C02's subject): at least 16 slots per connection.
	// (and at most 64: a cluster plan has up to 16 connections, each slot carries a scheduler-aware lock)
	p.Opt.RingScale = min(max(p.Opt.RingScale, 4), 6)
	p.Opt.ConnLifetimeMs = 0 // lifetime expiry re-sends commands (known finding under C03): not what this check is about
	p.Sched = SchedSpec{CutProb: pick(r, 0.0, 0.3), C2SCutProb: pick(r, 0.0, 0.3), MaxSteps: 8000, TickWeight: pick(r, 0.3, 1.0)}
	x := luaX{}
	if strings.HasPrefix(variant, "cluster") {
		x.Shards = 2 + r.IntN(2)
		x.Replicas = r.IntN(2) // at most 4 nodes in total (DESIGN.md 3.2: all are asked for the topology in one batch)
	}
	nodes := luaNodeCount(x)
	faulty := r.IntN(2) == 0
	ns := 1 + r.IntN(4)
	if variant == "race" {
		// variant race: a stand-alone node, one or two scripts that mostly ask the server for their SHA, and no
		// hold-back of overlapping first calls - the SHA lock of lua.go is acquired through the scheduler's lock seam
		x.Race = true
		ns = 1 + r.IntN(2)
		faulty = r.IntN(3) == 0
	}
	for i := 0; i < ns; i++ {
		sp := luaScriptSpec{Kind: pick(r, "plain", "plain", "ro", "nosha", "ro-nosha", "retryable", "retryable", "nosha-retryable")}
		if !sp.noSha() && r.IntN(3) == 0 {
			sp.Load = true
		}
		if x.Race {
			sp = luaScriptSpec{Kind: pick(r, "plain", "ro", "retryable"), Load: r.IntN(5) != 0}
		}
		sp.Fail = r.IntN(6) == 0
		x.Scripts = append(x.Scripts, sp)
		if r.IntN(3) == 0 {
			for n := 0; n < nodes; n++ {
				if nodes == 1 || r.IntN(2) == 0 {
					x.Preload = append(x.Preload, [2]int{i, n})
				}
			}
		}
	}
	nk := 2 + r.IntN(4)
	nt := 2 + r.IntN(5)
	for ti := 0; ti < nt; ti++ {
		var calls []CallSpec
		for ci, n := 0, 1+r.IntN(4); ci < n; ci++ {
			unit := func(k int) CmdSpec {
				return CmdSpec{Argv: []string{"lk" + strconv.Itoa(r.IntN(nk)), fmt.Sprintf("t%d.c%d.k%d", ti, ci, k)}}
			}
			c := CallSpec{Kind: "lexec", N: r.IntN(ns)}
			if r.IntN(10) < 3 {
				c.Kind = "lmulti"
				for k, m := 0, 1+r.IntN(4); k < m; k++ {
					c.Cmds = append(c.Cmds, unit(k))
				}
			} else {
				c.Cmds = []CmdSpec{unit(0)}
			}
			// No deadlines: a synchronous pipe arms the connection's read deadline and the context's own timer for the
			// same instant, and which of the two fires first (a context error, or a network error that is retried and
			// triggers a cluster refresh) is the Go runtime's choice. Deadlines are not part of this property.
			calls = append(calls, c)
		}
		p.Tasks = append(p.Tasks, calls)
	}
	for i, ng := 0, r.IntN(4); i < ng; i++ {
		p.Ghosts = append(p.Ghosts, GhostSpec{Kind: "script-flush", Node: r.IntN(nodes), MinStep: r.IntN(120)})
	}
	if faulty && r.IntN(3) == 0 {
		// a node that answers its next 1-3 commands with -LOADING (what a restarted server does): an error reply to
		// EVALSHA that is not NOSCRIPT
		p.Ghosts = append(p.Ghosts, GhostSpec{Kind: "loading", Node: r.IntN(nodes), Argv: []string{strconv.Itoa(1 + r.IntN(3))}, MinStep: r.IntN(120)})
	}
	if faulty {
		for i, nf := 0, 1+r.IntN(3); i < nf; i++ {
			f := FaultSpec{Kind: pick(r, "reset", "reset-after-exec", "reset-after-exec", "eof", "eof-mid-reply", "werr", "node-restart"), AtStep: r.IntN(150), NeedInflight: r.IntN(3) != 0, Pick: r.IntN(4), DurMs: pick(r, 100, 1500), Arg: r.IntN(500)}
			p.Faults = append(p.Faults, f)
			if f.Kind == "node-restart" {
				// A restart ends every connection to the node in one step. With several wires per node the callers of
				// different wires fail together, and whether one of them still finds another wire's dead pipe in its
				// slot (mux.pipe loads the slot before any yield) or the already reset slot is the Go runtime's choice:
				// one wire per node in plans that restart a node.
				p.Opt.Multiplex = -1
			}
		}
	}
	p.X["lua"] = x
	return p
}

// ---- observation ----

// luaDo is one command lua.go handed to the Client it was given.
type luaDo struct {
	Seq, EndSeq int    // positions in the run-wide order of "command handed over" / "result handed back" events
	Name        string // EVALSHA, EVAL, EVALSHA_RO, EVAL_RO, "SCRIPT LOAD", or the first word
	ID          string // ARGV[1] of an EVAL-family command
	Src         string // SCRIPT LOAD: the script text
	Node        string // "" = through the client itself; else the node client of Nodes() it was given to
	Batch       int    // 0 = Do; otherwise the DoMulti call it was part of
	Done        bool
	Res         Res
}

func (d *luaDo) evalFamily() bool {
	return d.Name == "EVAL" || d.Name == "EVALSHA" || d.Name == "EVAL_RO" || d.Name == "EVALSHA_RO"
}
func (d *luaDo) bySha() bool   { return d.Name == "EVALSHA" || d.Name == "EVALSHA_RO" }
func (d *luaDo) roName() bool  { return strings.HasSuffix(d.Name, "_RO") }
func (d *luaDo) ok() bool      { return d.Done && d.Res.Err == "" && d.Res.V.T != '-' && d.Res.V.T != '!' }
func (d *luaDo) noScript() bool { return d.Done && d.Res.Err == "" && d.Res.V.T == '-' && strings.HasPrefix(d.Res.V.S, "NOSCRIPT") }
func (d *luaDo) String() string {
	s := d.Name
	if d.Node != "" {
		s += "@" + d.Node
	}
	switch {
	case !d.Done:
		s += "->(no result)"
	case d.Res.Err != "":
		s += "->err(" + truncStr(d.Res.Err, 40) + ")"
	default:
		s += "->" + truncStr(d.Res.Text, 40)
	}
	return s
}

// luaObs is what the spy saw during one workload call.
type luaObs struct {
	dos     []*luaDo
	asMulti bool // an "lexec" issued as a one-unit ExecMulti (cluster client, load-SHA1 script, SHA not known yet)
}

func (o *luaObs) String() string {
	var parts []string
	for _, d := range o.dos {
		parts = append(parts, d.String())
	}
	return "[" + strings.Join(parts, ", ") + "]"
}

type luaEnv struct {
	*env
	x     luaX
	addrs []string // all nodes, in creation order
	lua   []*Lua
	mu    sync.Mutex // guards seq, batch and every luaObs.dos; never held across a call into rueidis
	seq   int
	batch int
	obs   [][]*luaObs // [task][call]
	spinners []chan struct{} // dead-pipe clean-up loops blocked in luaSpinPark
}

// luaSpy passes everything through to the wrapped client and records what lua.go asked for.
type luaSpy struct {
	Client
	le   *luaEnv
	obs  *luaObs
	node string
}

func luaNameOf(argv []string) (name, id, src string) {
	if len(argv) == 0 {
		return "", "", ""
	}
	name = strings.ToUpper(argv[0])
	switch name {
	case "EVAL", "EVALSHA", "EVAL_RO", "EVALSHA_RO":
		if len(argv) >= 3 {
			if nk, err := strconv.Atoi(argv[2]); err == nil && nk >= 0 && 3+nk < len(argv) {
				id = argv[3+nk]
			}
		}
	case "SCRIPT":
		if len(argv) >= 2 {
			name += " " + strings.ToUpper(argv[1])
		}
		if len(argv) >= 3 {
			src = strings.Clone(argv[2])
		}
	}
	return name, strings.Clone(id), src
}

func (s *luaSpy) begin(argv []string, batch int) *luaDo {
	d := &luaDo{Node: s.node, Batch: batch}
	d.Name, d.ID, d.Src = luaNameOf(argv)
	s.le.mu.Lock()
	s.le.seq++
	d.Seq = s.le.seq
	s.obs.dos = append(s.obs.dos, d)
	s.le.mu.Unlock()
	return d
}

func (s *luaSpy) end(d *luaDo, r RedisResult) {
	res := toRes(r)
	s.le.mu.Lock()
	s.le.seq++
	d.EndSeq, d.Done, d.Res = s.le.seq, true, res
	s.le.mu.Unlock()
}

func (s *luaSpy) Do(ctx context.Context, cmd Completed) RedisResult {
	d := s.begin(cmd.Commands(), 0) // copied now: a completed command is recycled by the client
	r := s.Client.Do(ctx, cmd)
	s.end(d, r)
	return r
}

func (s *luaSpy) DoMulti(ctx context.Context, multi ...Completed) []RedisResult {
	s.le.mu.Lock()
	s.le.batch++
	b := s.le.batch
	s.le.mu.Unlock()
	ds := make([]*luaDo, len(multi))
	for i, c := range multi {
		ds[i] = s.begin(c.Commands(), b)
	}
	rs := s.Client.DoMulti(ctx, multi...)
	for i, d := range ds {
		if i < len(rs) {
			s.end(d, rs[i])
		}
	}
	return rs
}

func (s *luaSpy) Nodes() map[string]Client {
	in := s.Client.Nodes()
	out := make(map[string]Client, len(in))
	for addr, n := range in {
		out[addr] = &luaSpy{Client: n, le: s.le, obs: s.obs, node: addr}
	}
	return out
}

// luaLoaded reports, without ever blocking, whether a load-SHA1 Lua object knows its SHA (false while a loader holds the lock).
func luaLoaded(l *Lua) bool {
	if !l.sha1Mu.TryRLock() {
		return false
	}
	v := l.sha1 != ""
	l.sha1Mu.RUnlock()
	return v
}

// Dead-pipe clean-up. The clean-up loop of a dead pipe spins (runtime.Gosched) while callers are still registered on it
// and nothing is ready to be handed to them; the verif hook in that branch lets the simulator intervene, and the shared
// glue turns every turn into a sleep of one fake millisecond. Whether the loop finds the in-flight callers' entries on
// its first turn or only after the writer goroutine has noticed the failure and exited is decided by the Go runtime
// (writer, reader, the wake-up PING and the callers all run freely after the connection died). With the sleep, callers
// are released in the fault's step at fake time T in one process and one millisecond and a scheduler tick later in
// another, and everything they do next (retry timers) shifts with it. In this scenario the loop therefore blocks at
// that hook on a channel instead (luaSpinPark), and before the scheduler looks at the outcome of a step it releases
// the blocked loops again and again, waiting for quiescence in between, until none is left or a bound is reached
// (luaSettle; a loop that waits for a caller parked at a yield point stays blocked and is tried again after every
// step). No fake time passes, and what a connection's death releases is released in the step in which it died.
func (le *luaEnv) luaSpinPark() {
	ch := make(chan struct{})
	le.mu.Lock()
	le.spinners = append(le.spinners, ch)
	le.mu.Unlock()
	<-ch
}

func (le *luaEnv) luaSettle() {
	for round := 0; round < 20; round++ {
		le.mu.Lock()
		ws := le.spinners
		le.spinners = nil
		le.mu.Unlock()
		if len(ws) == 0 {
			return
		}
		le.sim.Stats["lua.cleanup-loop-turns"] += len(ws)
		for _, ch := range ws {
			close(ch)
		}
		synctest.Wait()
	}
}

// ---- set-up ----

// luaClusterSetup builds a cluster of `shards` masters owning equal slot ranges; the first `replicas` shards get one replica.
func luaClusterSetup(w *fakeredis.World, shards, replicas int) {
	c := fakeredis.NewCluster(w)
	per := fakeredis.NumSlots / shards
	for i := 0; i < shards; i++ {
		lo, hi := i*per, (i+1)*per-1
		if i == shards-1 {
			hi = fakeredis.NumSlots - 1
		}
		var reps []string
		if i < replicas {
			reps = []string{fmt.Sprintf("10.0.1.%d:6379", i+1)}
		}
		c.AddShard(fmt.Sprintf("10.0.0.%d:6379", i+1), reps, [2]int{lo, hi})
	}
}

func (le *luaEnv) ownerOf(key string) string {
	if c := le.sim.W.Cluster; c != nil {
		return c.Owner(fakeredis.KeySlot(key)).Addr
	}
	return le.addr
}

func (le *luaEnv) call(cl Client, ti, ci int, cs CallSpec, ctx context.Context) *CallResult {
	obs := le.obs[ti][ci]
	spy := &luaSpy{Client: cl, le: le, obs: obs}
	l := le.lua[cs.N%len(le.lua)]
	r := &CallResult{Kind: cs.Kind}
	asMulti := cs.Kind == "lmulti"
	if !asMulti && le.x.Shards > 0 && l.loadSha1 {
		// nobody holds sha1Mu across I/O on a cluster client (see the file comment), so this read cannot park
		l.sha1Mu.RLock()
		asMulti = l.sha1 == ""
		l.sha1Mu.RUnlock()
		obs.asMulti = asMulti
	}
	if asMulti {
		units := make([]LuaExec, len(cs.Cmds))
		for i, c := range cs.Cmds {
			units[i] = LuaExec{Keys: []string{c.Argv[0]}, Args: []string{c.Argv[1]}}
		}
		for _, x := range l.ExecMulti(ctx, spy, units...) {
			r.Res = append(r.Res, toRes(x))
		}
		return r
	}
	c := cs.Cmds[0]
	r.Res = []Res{toRes(l.Exec(ctx, spy, []string{c.Argv[0]}, []string{c.Argv[1]}))}
	return r
}

func luaRun(t *testing.T, seed uint64, p *Plan, x luaX, out *Outcome) *luaEnv {
	le := &luaEnv{x: x}
	// keyed commands pick their wire of a multiplexer with util.FastRand; after a fault or a tick several callers draw in
	// the same step in an order the Go runtime decides: make the value a function of (seed, step, n)
	randState.stepMode.Store(true)
	defer randState.stepMode.Store(false)
	yield := VerifHooks.Yield
	VerifHooks.Yield = func(ctx context.Context, site string, obj any, cmd []string) {
		if site == "pipe.cleanup.spin" {
			if s := curSim.Load(); s != nil && !s.IsDown() && le.env != nil && le.sim == s {
				le.luaSpinPark()
				return
			}
		}
		if id := sched.TaskID(ctx); id != "" {
			// Lock waits are identified by the waiting goroutine's name. ExecMulti's fan-out (util.ParallelVals) and
			// the cluster client's DoMulti run one node on the caller's goroutine and the others on new goroutines, and
			// which node gets the caller's is Go map order: every goroutine that works for a task carries its name.
			nameGoroutine(id)
		}
		yield(ctx, site, obj, cmd)
	}
	defer func() { VerifHooks.Yield = yield }()
	p.Opt.Procs = 16
	bad := func(e *env, format string, a ...any) {
		if e.out.HarnessErr == "" {
			e.out.HarnessErr = "lua-exec: " + fmt.Sprintf(format, a...)
		}
	}
	standardRun(t, seed, p, out, runHooks{
		noDefaultNode: x.Shards > 0,
		// clusterClient.Close closes every node connection on a goroutine of its own, and the pool locks they take are
		// numbered in the order cluster._refresh created the multiplexers (Go map order): the close phase of a cluster
		// client cannot be replayed; the event-log hash is taken at the end of the workload phase
		hashMainPhase: x.Shards > 0,
		noClose:       x.Shards > 0,
		afterMain: func(e *env) {
			if x.Shards == 0 || len(e.clients) == 0 {
				return
			}
			// outside the hashed part of the run: close the cluster client and drive its per-node closers to their end,
			// so that the bubble does not finish with their goroutines (and everything they pin) left behind
			s := e.sim
			s.Heal()
			s.Cfg.MaxSteps = s.Step + 3000
			e.background("close", func(context.Context) { e.clients[0].Close() })
			s.Run(func() bool {
				for _, l := range s.Links {
					if !l.Dead {
						return false
					}
				}
				return true
			})
		},
		beforeClient: func(e *env) {
			le.env = e
			s := e.sim
			s.Cfg.TickEpsilon = time.Nanosecond // see sched.Config
			// queue hand-off yields are identified by task and connection, wires of the cluster client by the registry of
			// multiplexers: two tasks running the same script send commands that agree in their first 48 bytes, and
			// ExecMulti sends one SCRIPT LOAD to several nodes at once
			richIdent.Store(true)
			muxRegReset(16) // every multiplexer: at least as many workers as wires/nodes (fewer = Go map order decides)
			if x.Shards > 0 {
				luaClusterSetup(s.W, x.Shards, x.Replicas)
				e.addr = "10.0.0.1:6379"
			}
			le.addrs = s.W.NodeAddrs()
			for i, sp := range x.Scripts {
				src := luaSource(i, sp.readOnly(), sp.Fail)
				var opts []LuaOption
				if sp.Load {
					opts = append(opts, WithLoadSHA1(true))
				}
				var l *Lua
				switch sp.Kind {
				case "plain":
					l = NewLuaScript(src, opts...)
				case "ro":
					l = NewLuaScriptReadOnly(src, opts...)
				case "nosha":
					l = NewLuaScriptNoSha(src)
				case "ro-nosha":
					l = NewLuaScriptReadOnlyNoSha(src)
				case "retryable":
					l = NewLuaScriptRetryable(src, opts...)
				case "nosha-retryable":
					l = NewLuaScriptNoShaRetryable(src)
				default:
					bad(e, "unknown script kind %q", sp.Kind)
					l = NewLuaScript(src)
				}
				l.maxp = 16 // GOMAXPROCS-derived fan-out width of ExecMulti's SCRIPT LOAD: pinned (>= number of nodes)
				le.lua = append(le.lua, l)
			}
			for _, pl := range x.Preload {
				if pl[0] >= 0 && pl[0] < len(x.Scripts) && pl[1] >= 0 {
					s.W.Ghost(le.addrs[pl[1]%len(le.addrs)], "SCRIPT", "LOAD", luaSource(pl[0], x.Scripts[pl[0]].readOnly(), x.Scripts[pl[0]].Fail))
				}
			}
			le.obs = make([][]*luaObs, len(p.Tasks))
			for ti, calls := range p.Tasks {
				le.obs[ti] = make([]*luaObs, len(calls))
				for ci := range calls {
					le.obs[ti][ci] = &luaObs{}
				}
			}
		},
		newClient: func(e *env, i int) (Client, error) {
			opt := e.clientOption()
			opt.ForceSingleClient = x.Shards == 0
			return NewClient(opt)
		},
		afterSetup: func(e *env) {
			s := e.sim
			if _, ok := e.clients[0].(*clusterClient); ok != (x.Shards > 0) {
				bad(e, "unexpected client type %T for %d shards", e.clients[0], x.Shards)
			}
			s.Settle = func(*sched.Sim) { le.luaSettle() }
			// sha1Mu: see the file comment
			if x.Race {
				rwLockSeam.Store(true)
				return
			}
			s.OnStep = func(s *sched.Sim) error {
				running := make([]int, len(le.lua))
				for ti, t := range s.Tasks {
					if ti < len(p.Tasks) {
						if rec := t.Running(); rec != nil {
							running[p.Tasks[ti][rec.Index].N%len(le.lua)]++
						}
					}
				}
				for ti, t := range s.Tasks {
					if ti >= len(p.Tasks) {
						break
					}
					hold := false
					if next := len(p.Tasks[ti]) - t.Remaining(); t.Running() == nil && next < len(p.Tasks[ti]) {
						n := p.Tasks[ti][next].N % len(le.lua)
						hold = le.lua[n].loadSha1 && running[n] > 0 && !luaLoaded(le.lua[n])
					}
					if hold && !t.Hold {
						s.Stats["lua.first-exec-held-back"]++
					}
					t.Hold = hold
				}
				return nil
			}
		},
		ghost: func(e *env, g GhostSpec) func(*sched.Sim) {
			addr := le.addrs[g.Node%len(le.addrs)]
			switch g.Kind {
			case "script-flush":
				return func(s *sched.Sim) { s.W.Ghost(addr, "SCRIPT", "FLUSH") }
			case "loading":
				n := 1
				if len(g.Argv) > 0 {
					n, _ = strconv.Atoi(g.Argv[0])
				}
				return func(s *sched.Sim) { s.W.Nodes[addr].Loading = n }
			}
			bad(e, "unknown ghost kind %q", g.Kind)
			return func(*sched.Sim) {}
		},
		extraCall: func(e *env, cl Client, cs CallSpec, ctx context.Context, rec *sched.CallRec) *CallResult {
			if cs.Kind != "lexec" && cs.Kind != "lmulti" || len(cs.Cmds) == 0 {
				return &CallResult{Kind: cs.Kind, Err: "lua-exec: bad call spec"}
			}
			return le.call(cl, rec.Task, rec.Index, cs, ctx)
		},
	})
	return le
}

// ---- oracle ----

type luaUnit struct {
	task, call, unit int
	script           int
	multi            bool // issued through ExecMulti
	key, id          string
}

func execLuaExec(t *testing.T, plan any, out *Outcome) {
	p := plan.(*Plan)
	x, err := luaXOf(p)
	if err != nil || len(x.Scripts) == 0 {
		out.HarnessErr = fmt.Sprintf("lua-exec: bad plan extension: %v", err)
		return
	}
	le := luaRun(t, out.Seed, p, x, out)
	if out.HarnessErr != "" {
		return
	}
	checkCommon(le.env)
	checkLuaExec(le)
}

func checkLuaExec(le *luaEnv) {
	out, p, x, s := le.out, le.plan, le.x, le.sim
	const prop = "C30"
	proto := 3
	if p.Opt.RESP2 {
		proto = 2
	}
	// a plan is fault-free when nothing in it can make a call fail: no connection faults, no deadlines
	faultFree := len(p.Faults) == 0
	for _, calls := range p.Tasks {
		for _, c := range calls {
			if c.TimeoutMs > 0 || c.Cancel {
				faultFree = false
			}
		}
	}
	specOf := func(n int) luaScriptSpec { return x.Scripts[n%len(x.Scripts)] }

	// the server's view: EVAL-family commands per id, SCRIPT LOADs per script text
	byID := map[string][]*fakeredis.Exec{}
	for _, ex := range s.W.Log {
		if ex.Conn < 0 || len(ex.Argv) == 0 {
			continue
		}
		if name, id, _ := luaNameOf(ex.Argv); id != "" && (name == "EVAL" || name == "EVALSHA" || name == "EVAL_RO" || name == "EVALSHA_RO") {
			byID[id] = append(byID[id], ex)
		}
	}
	pushed := map[string]int{} // id -> times a body's RPUSH carried it (cross-check of ScriptRuns through the data path)
	for _, exs := range byID {
		for _, ex := range exs {
			for _, sub := range ex.Sub {
				if len(sub.Argv) == 3 && strings.ToUpper(sub.Argv[0]) == "RPUSH" && !sub.Reply.IsErr() {
					pushed[sub.Argv[2]]++
				}
			}
		}
	}
	describe := func(exs []*fakeredis.Exec) string {
		var parts []string
		for _, ex := range exs {
			parts = append(parts, fmt.Sprintf("step %d c%d@%s %s -> %s (body runs %d)", ex.Step, ex.Conn, ex.Node, strings.ToUpper(ex.Argv[0]), truncStr(ex.Reply.String(), 50), ex.ScriptRuns))
		}
		return strings.Join(parts, "; ")
	}

	fallbacks, multiUnitsDone, reexec := 0, 0, 0
	spansShards := false
	// per Lua object: SCRIPT LOADs issued by Exec calls, and the moments at which the SHA was demonstrably obtained
	type loadInfo struct {
		execLoads []*luaDo
		task      []int
		known     []int // EndSeq values after which the SHA is known to the Lua object
	}
	loads := make([]loadInfo, len(x.Scripts))

	for ti, t := range s.Tasks {
		if ti >= len(p.Tasks) {
			break
		}
		for _, rec := range t.Recs {
			spec := p.Tasks[ti][rec.Index]
			sp := specOf(spec.N)
			n := spec.N % len(x.Scripts)
			obs := le.obs[ti][rec.Index]
			multi := spec.Kind == "lmulti" || obs.asMulti
			finished := rec.Done && !rec.Hung
			var res *CallResult
			if finished {
				res, _ = rec.Result.(*CallResult)
			}
			if !finished {
				out.notJudged("call-did-not-return")
			}
			le.mu.Lock()
			dos := append([]*luaDo(nil), obs.dos...)
			le.mu.Unlock()
			where := fmt.Sprintf("task %d call %d (%s of script %d kind %s load-sha1=%v)", ti, rec.Index, spec.Kind, n, sp.Kind, sp.Load)

			// ---- per id: the server's log ----
			nodesHit := map[string]bool{}
			for ui, c := range spec.Cmds {
				id := c.Argv[1]
				exs := byID[id]
				runs := 0
				for _, ex := range exs {
					runs += ex.ScriptRuns
					nodesHit[ex.Node] = true
				}
				if !sp.readOnly() && pushed[id] != runs {
					out.HarnessErr = fmt.Sprintf("lua-exec: model inconsistency: id %s: %d body runs but %d RPUSHes", id, runs, pushed[id])
					return
				}
				// at most one body execution per Exec / per LuaExec
				retryAsked := !faultFree && !p.Opt.DisableRetry && (sp.markedRetryable() || sp.readOnly())
				switch {
				case runs <= 1:
					out.judged("at-most-once")
				case retryAsked:
					reexec++
					out.probe("retryable-script-re-executed-after-fault")
					out.notJudged("at-most-once:retries-asked-for")
				default:
					rule := "body-ran-more-than-once"
					if multi {
						rule = "multi-body-ran-more-than-once"
					}
					out.violate(prop, rule, "%s unit %d id %s: the script body ran %d times (fault-free plan=%v, DisableRetry=%v): %s", where, ui, id, runs, faultFree, p.Opt.DisableRetry, describe(exs))
				}
				noscriptSeen := false
				for _, ex := range exs {
					name := strings.ToUpper(ex.Argv[0])
					sha := name == "EVALSHA" || name == "EVALSHA_RO"
					if sha && ex.Reply.IsErr() && strings.HasPrefix(ex.Reply.S, "LOADING") {
						out.probe("evalsha-answered-with-another-error")
					}
					if sha && ex.Reply.IsErr() && strings.HasPrefix(ex.Reply.S, "NOSCRIPT") {
						noscriptSeen = true
					}
					if sp.noSha() && sha {
						out.violate(prop, "nosha-sent-evalsha", "%s unit %d id %s: the server received %s for a NoSha script: %s", where, ui, id, name, describe(exs))
					}
					if sp.readOnly() && !strings.HasSuffix(name, "_RO") {
						out.violate(prop, "readonly-used-write-command", "%s unit %d id %s: the server received %s for a read-only script: %s", where, ui, id, name, describe(exs))
					}
					if !sha && !sp.noSha() && !multi && !noscriptSeen {
						out.violate(prop, "eval-without-noscript", "%s id %s: the server received %s although it had not answered NOSCRIPT to an EVALSHA of this call: %s", where, id, name, describe(exs))
					}
				}
			}
			if len(nodesHit) > 1 {
				spansShards = true
			}

			// ---- what lua.go asked the client to do ----
			var evals []*luaDo
			for _, d := range dos {
				if d.evalFamily() {
					evals = append(evals, d)
					if sp.noSha() && d.bySha() {
						out.violate(prop, "nosha-sent-evalsha", "%s: lua.go issued %s for a NoSha script: %s", where, d.Name, obs)
					}
					if sp.readOnly() && !d.roName() {
						out.violate(prop, "readonly-used-write-command", "%s: lua.go issued %s for a read-only script: %s", where, d.Name, obs)
					}
				}
				if d.Name == "SCRIPT LOAD" && !multi {
					loads[n].execLoads = append(loads[n].execLoads, d)
					loads[n].task = append(loads[n].task, ti)
					if d.ok() {
						loads[n].known = append(loads[n].known, d.EndSeq)
					}
				}
			}
			if !multi {
				// Exec: EVALSHA first; EVAL only as the next step after this call's EVALSHA came back with NOSCRIPT
				switch {
				case sp.noSha():
					if len(evals) > 1 {
						out.violate(prop, "exec-command-sequence", "%s: one Exec of a NoSha script issued %d script commands: %s", where, len(evals), obs)
					} else {
						out.judged("exec-sequence")
					}
				default:
					bad := ""
					if len(evals) >= 1 && !evals[0].bySha() {
						bad = "evalsha-not-first"
					} else if len(evals) >= 2 && (evals[1].bySha() || !evals[0].noScript()) {
						bad = "eval-without-noscript"
					} else if len(evals) > 2 {
						bad = "exec-command-sequence"
					}
					if bad != "" {
						out.violate(prop, bad, "%s: commands issued by this Exec: %s", where, obs)
					} else {
						out.judged("exec-sequence")
					}
					if len(evals) == 2 && evals[0].noScript() {
						fallbacks++
						out.probe("noscript-then-eval")
					}
				}
			} else {
				// ExecMulti: SCRIPT LOAD on every node it was given, all succeeded -> a load-SHA1 object has its SHA once the
				// call has stored it, which it does (under the object's lock) before it issues its EVALSHA batch. The reply
				// of the last SCRIPT LOAD is too early a moment: an Exec that holds the lock for its own SCRIPT LOAD makes
				// the ExecMulti wait with storing (seen by `vp check` #3 in variant race, seed 1015841030).
				nLoads, allOK, stored := 0, true, 0
				for _, d := range dos {
					if d.Name == "SCRIPT LOAD" {
						nLoads++
						allOK = allOK && d.ok()
					} else if d.evalFamily() && stored == 0 {
						stored = d.Seq
					}
				}
				if sp.Load && nLoads > 0 && allOK && stored > 0 {
					loads[n].known = append(loads[n].known, stored)
				}
				if nLoads > 1 {
					out.probe("execmulti-loaded-script-on-several-nodes")
				}
				if finished && res != nil {
					if len(res.Res) != len(spec.Cmds) {
						out.violate(prop, "execmulti-result-count", "%s: %d results for %d LuaExec inputs: %s", where, len(res.Res), len(spec.Cmds), obs)
					} else {
						for i, r := range res.Res {
							id := spec.Cmds[i].Argv[1]
							if r.Err != "" {
								if faultFree {
									out.probe("execmulti-error-in-fault-free-plan")
								}
								out.notJudged("execmulti-result:client-side-error")
								continue
							}
							match := false
							for _, ex := range byID[id] {
								if valEqual(normalize(ex.Reply, proto), r.V) {
									match = true
									break
								}
							}
							if !match {
								out.violate(prop, "execmulti-result-misattributed", "%s: result %d is %s, which is not a reply the server gave to input %d (id %s, key %s); replies to that input: %s; all results: %s", where, i, truncStr(r.V.String(), 80), i, id, spec.Cmds[i].Argv[0], describe(byID[id]), luaResText(res.Res))
							} else {
								out.judged("execmulti-result-is-own-reply")
							}
						}
						if len(spec.Cmds) >= 2 {
							multiUnitsDone++
						}
					}
				}
			}
		}
	}

	// WithLoadSHA1: once the SHA has been obtained, no Exec asks for it again
	for n := range loads {
		li := loads[n]
		if !specOf(n).Load {
			continue
		}
		first := 0
		for _, k := range li.known {
			if first == 0 || k < first {
				first = k
			}
		}
		for i, d := range li.execLoads {
			out.probe("exec-requested-sha-with-script-load")
			if first != 0 && d.Seq > first {
				out.violate(prop, "script-load-after-success", "script %d (kind %s, WithLoadSHA1): an Exec of task %d issued SCRIPT LOAD (%s) after the SHA had already been obtained by an earlier successful SCRIPT LOAD of this Lua object", n, specOf(n).Kind, li.task[i], d)
			} else {
				out.judged("script-load-before-first-success")
			}
		}
	}

	// reach
	fired := 0
	for _, f := range s.Faults {
		if f.FiredStep > 0 {
			fired++
			if f.Kind == "node-restart" {
				out.probe("node-restart-lost-script-cache")
			}
		}
	}
	if fired > 0 {
		out.probe("fault-fired")
	}
	if s.Stats["fault.exec_unanswered_bytes"] > 0 {
		out.probe("executed-but-unanswered")
	}
	for _, g := range s.Ghosts {
		if g.Done && strings.HasPrefix(g.Name, "script-flush") {
			out.probe("ghost-script-flush")
			break
		}
	}
	if s.Stats["rwlock.write-wait"] > 0 {
		out.probe("first-execs-of-load-sha1-script-overlapped")
	}
	if s.Stats["lua.first-exec-held-back"] > 0 {
		out.probe("first-exec-of-load-sha1-script-started-alone")
	}
	if spansShards {
		out.probe("execmulti-spanned-nodes")
	}
	if faultFree {
		out.probe("fault-free-plan")
	}
	// cached script evicted between two Execs: some id got NOSCRIPT after an earlier body run of the same script text
	out.Nontrivial = fallbacks > 0 || multiUnitsDone > 0
}

func luaResText(rs []Res) string {
	var parts []string
	for _, r := range rs {
		if r.Err != "" {
			parts = append(parts, "err("+truncStr(r.Err, 30)+")")
		} else {
			parts = append(parts, truncStr(r.Text, 40))
		}
	}
	return "[" + strings.Join(parts, ", ") + "]"
}
