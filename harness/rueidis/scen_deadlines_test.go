//go:build verif

package rueidis

import (
	"context"
	"fmt"
	"strconv"
	"testing"
	"time"

	"verifsim/sched"
)

func init() {
	registerScenario(&scenario{name: "deadlines", gen: genDeadlines, load: loadPlan, exec: execDeadlines})
}

const deadlineSlack = 3 * time.Second // "shortly after": the scenario sets Dialer.Timeout to 1 s; injected stalls are >= 60 s

func genDeadlines(seed uint64, tier, variant string) any {
	r := planRand(seed, 0xC05)
	p := &Plan{Scenario: "deadlines", Opt: genOpt(r), X: map[string]any{}}
	p.Opt.RESP2 = false
	if p.Opt.Queue == "ring" && p.Opt.RingScale < 5 {
		p.Opt.RingScale = 5 // the ring cannot cancel a wait for a free slot (documented): keep it from filling
	}
	p.Opt.DialTimeoutMs = 1000
	p.Opt.KeepAliveMs = pick(r, 1000, 3600_000, 3600_000)
	p.Opt.WriteTimeoutMs = pick(r, 10_000, 600_000)
	p.Opt.PoolSize = pick(r, 1, 1, 2)
	p.Opt.RetryDelaysMs = pick(r, []int{1}, []int{30_000}, []int{500, 5000, 30_000})
	p.Opt.DisableRetry = r.IntN(4) == 0
	p.Sched = SchedSpec{CutProb: pick(r, 0.0, 0.3), MaxSteps: 8000, TickWeight: pick(r, 0.4, 1.0)}
	focus := pick(r, "pipeline", "pool", "cache", "retry", "mix")
	if variant != "" {
		focus = variant
	}
	p.X["focus"] = focus
	ntasks := 3 + r.IntN(5)
	for ti := 0; ti < ntasks; ti++ {
		var calls []CallSpec
		for ci, n := 0, 1+r.IntN(4); ci < n; ci++ {
			uid := func(k int) string { return fmt.Sprintf("t%d.c%d.k%d", ti, ci, k) }
			var c CallSpec
			f := focus
			if f == "mix" {
				f = pick(r, "pipeline", "pool", "cache", "retry")
			}
			switch f {
			case "pool":
				// long blocking calls exhaust the pool; others wait for a connection
				c = CallSpec{Kind: "do", Cmds: []CmdSpec{{Argv: []string{"BLPOP", "bl" + strconv.Itoa(r.IntN(2)), pick(r, "100", "200", "0")}, Keys: 1, Flag: "block"}}}
			case "cache":
				j := r.IntN(2)
				c = CallSpec{Kind: pick(r, "cache", "cache", "mcache"), TTLMs: 60_000, Cmds: []CmdSpec{{Argv: []string{"VKTAG", "ck" + strconv.Itoa(j), "K" + strconv.Itoa(j), "[sb]"}, Keys: 1, Flag: "ro"}}}
			case "retry":
				c = CallSpec{Kind: "do", Cmds: []CmdSpec{{Argv: []string{"VTAG", uid(0), "[sb]"}, Flag: "ro"}}}
			default:
				if r.IntN(8) == 0 {
					// a command without a reply of its own (its confirmation is a push): issued through Do it makes the
					// pipe start its background reader - also while another caller reads its reply synchronously under a
					// connection deadline taken from its context
					c = CallSpec{Kind: "unsub", Cmds: []CmdSpec{{Argv: []string{pick(r, "UNSUBSCRIBE", "PUNSUBSCRIBE"), "dl" + strconv.Itoa(r.IntN(2))}}}}
				} else if r.IntN(3) == 0 {
					c = CallSpec{Kind: "multi"}
					for k, m := 0, 2+r.IntN(3); k < m; k++ {
						c.Cmds = append(c.Cmds, CmdSpec{Argv: []string{"VTAG", uid(k), "[sb]"}})
					}
				} else {
					c = CallSpec{Kind: "do", Cmds: []CmdSpec{{Argv: []string{"VTAG", uid(0), "[sb]"}}}}
				}
			}
			y := r.IntN(100)
			if len(c.Cmds) == 1 && c.Cmds[0].Argv[0] == "BLPOP" && c.Cmds[0].Argv[2] == "0" && y >= 65 {
				y = r.IntN(65) // blocking forever only with a deadline or a cancellation
			}
			switch {
			case y < 45:
				c.TimeoutMs = pick(r, 50, 300, 1000, 3000, 8000)
			case y < 65:
				c.Cancel = true
				c.CancelAfter = r.IntN(10)
			case y < 72:
				c.S = "ctx-already-done"
				c.TimeoutMs = 1000
			case y < 82 && f != "pool":
				// a context that has a (far) deadline AND is cancelled by hand: the cancellation must be honoured as
				// promptly as for a context without a deadline
				c.TimeoutMs = pick(r, 20_000, 60_000)
				c.Cancel = true
				c.CancelAfter = r.IntN(10)
			}
			if len(c.Cmds) == 1 && c.Cmds[0].Argv[0] == "BLPOP" && c.TimeoutMs == 0 && !c.Cancel {
				// only the server-side timeout ends this call: keep it short, minutes of simulated keep-alives
				// would use up the step budget
				c.Cmds[0].Argv[2] = pick(r, "1", "2", "5")
			}
			calls = append(calls, c)
		}
		p.Tasks = append(p.Tasks, calls)
	}
	// long stalls, early, preferably with traffic in flight
	for i, nf := 0, 1+r.IntN(2); i < nf; i++ {
		p.Faults = append(p.Faults, FaultSpec{Kind: pick(r, "stall", "stall", "slow"), AtStep: r.IntN(40), NeedInflight: r.IntN(3) != 0, Pick: r.IntN(4), DurMs: pick(r, 60_000, 90_000, 120_000)})
	}
	if focus == "retry" || focus == "mix" {
		p.Faults = append(p.Faults, FaultSpec{Kind: pick(r, "reset", "eof"), AtStep: r.IntN(30), NeedInflight: true, Pick: r.IntN(4)})
	}
	return p
}

func execDeadlines(t *testing.T, plan any, out *Outcome) {
	p := plan.(*Plan)
	coarseSitesExtra.Store(&map[string]bool{"pool.Acquire.wait": true, "pool.Acquire.cancel": true})
	defer coarseSitesExtra.Store(nil)
	e := standardRun(t, out.Seed, p, out, runHooks{
		extraCall: func(e *env, cl Client, cs CallSpec, ctx context.Context, rec *sched.CallRec) *CallResult {
			if cs.S != "ctx-already-done" {
				return nil
			}
			dctx, cancel := context.WithCancel(ctx)
			cancel()
			c2 := cs
			c2.S = ""
			rec.Notes = map[string]any{"ctx-already-done": true}
			return e.execCall(cl, c2, dctx, rec)
		},
	})
	if out.HarnessErr != "" {
		return
	}
	checkCommon(e)
	checkRepliesOwnInOrder(e, "C01", false)
	judged := 0
	stalled := e.sim.Stats["fault.stall"]+e.sim.Stats["fault.slow"] > 0
	e.eachCall(func(task int, spec CallSpec, rec *sched.CallRec, res *CallResult) {
		if spec.S == "ctx-already-done" {
			// nothing of this call may reach any server
			for _, c := range spec.Cmds {
				if uid, ok := uidOf(c.Argv); ok {
					if _, _, _, isUID := parseUID(uid); !isUID {
						continue
					}
					for _, ex := range e.sim.W.Log {
						if u2, ok := uidOf(ex.Argv); ok && u2 == uid {
							out.violate("C05", "sent-with-done-context", "task %d call %d: command %q was sent although the context was already done", task, rec.Index, truncArgv(c.Argv))
						}
					}
				}
			}
			out.judged("already-done-context")
			return
		}
		var limit time.Time
		what := ""
		switch {
		case spec.TimeoutMs > 0 && rec.CancelStep >= 0 && rec.CancelAt.Before(rec.Deadline) && p.Opt.AlwaysPipelining:
			// (the property promises prompt manual cancellation for calls served by auto-pipelined connections: a
			// context with a deadline may otherwise be served synchronously, where only the deadline counts)
			limit, what = rec.CancelAt.Add(deadlineSlack), "cancellation"
			out.probe("cancelled-before-its-deadline")
		case spec.TimeoutMs > 0:
			limit, what = rec.Deadline.Add(deadlineSlack), "deadline"
		case rec.CancelStep >= 0:
			limit, what = rec.CancelAt.Add(deadlineSlack), "cancellation"
		default:
			return
		}
		judged++
		end := rec.EndAt
		if !rec.Done || rec.Hung {
			end = time.Now()
			if !end.After(limit) {
				return // the run ended before the bound: not judged
			}
			out.violate("C05", "deadline-ignored", "task %d call %d (%s %q) had its %s at +%v but had not returned by +%v (run end)", task, rec.Index, spec.Kind, truncArgv(firstArgv(spec)), what, limit.Add(-deadlineSlack).Sub(e.sim.Start), end.Sub(e.sim.Start))
			return
		}
		if end.After(limit) {
			out.violate("C05", "deadline-ignored", "task %d call %d (%s %q) had its %s at +%v but returned only at +%v (more than %v later)", task, rec.Index, spec.Kind, truncArgv(firstArgv(spec)), what, limit.Add(-deadlineSlack).Sub(e.sim.Start), end.Sub(e.sim.Start), deadlineSlack)
		} else {
			out.judged("returned-by-" + what)
			// was it actually waiting at that time?
			if res != nil && len(res.Res) > 0 && (res.Res[0].ErrKind == "ctx-deadline" || res.Res[0].ErrKind == "ctx-canceled") {
				out.probe("call-ended-by-its-" + what)
			}
		}
	})
	if stalled {
		out.probe("stall-fired")
	}
	out.Nontrivial = judged > 0 && stalled
}
