# source me: offline Go environment for the verification harness
export GOFLAGS=-mod=mod GOPROXY=off GOSUMDB=off GOTOOLCHAIN=local GONOSUMDB='*' GONOSUMCHECK=1 GOFLAGS="-mod=mod"
export GOCACHE=${GOCACHE:-/root/.cache/go-build}
G125=/root/go/pkg/mod/golang.org/toolchain@v0.0.1-go1.25.0.linux-amd64/bin/go
if [ -x "$G125" ]; then export VGO="$G125"; else export VGO="$(command -v go1.26.8)"; fi
