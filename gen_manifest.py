#!/usr/bin/env python3
"""Regenerates MANIFEST.json from checks.py, properties.jsonl and the not-applicable table."""
import json, subprocess, sys
sys.path.insert(0, '/verif')
from checks import CHECKS
props = [json.loads(l) for l in open('/verif/properties.jsonl')]
NA = {
 "C08": "pure function of the command text (no schedule, clock, fault or second party); its observable consequence is covered by the identity rule of the cache scenarios",
 "C15": "pure sequential functions of a reply value tree",
 "C16": "pure sequential functions of a reply value tree",
 "C17": "pure round-trip function of its input",
 "C18": "pure arithmetic over key bytes",
 "C22": "pure function of (node list, AZ, counter)",
 "C32": "static classification of generated builders",
 "C42": "pure function of arguments; go-redis is not available offline for comparison",
 "C43": "structural delegation, no nondeterminism involved",
 "C44": "pure function of the URL",
 "C45": "pure functions of their input",
 "C46": "pure sequential iteration over a caller-supplied page function",
}
LEVEL_TEXT = {
 "exploration": "seeded search over plans, schedules and (where stated) fault sequences of the real client code against an executable Redis model; a clean batch is evidence, not proof",
 "fault_enumeration": "for a set of seeded base schedules, one fault of each kind is placed at every event boundary (enumerated), plus seeded multi-fault runs; the boundary set is complete for the base schedules explored, the base schedules are sampled",
}
log = subprocess.run("git -C /repo log --format=%H%x09%s", shell=True, capture_output=True, text=True).stdout.strip().splitlines()
m = {
 "version": 1,
 "setup_cmd": "python3 vcheck.py build",
 "hooks": {"guard": "verif", "enable": "go test -tags verif (vcheck.py builds /repo's working tree with -tags verif and overlays the harness files of /verif/harness into the packages under test)",
           "baseline_off_cmd": "bash /verif/baseline_off.sh",
           "source_commits": [l.split('\t')[0] for l in log if l.split('\t')[1].startswith('verif:')], "add_only": True},
 "engines": [
   {"name": "netsim", "path": "/verif/sim + /verif/harness", "serves_properties": sorted(k for k, v in CHECKS.items() if v.get("engine", "netsim") == "netsim"),
    "kind_free_text": "seeded discrete-event simulation of the real client inside a testing/synctest bubble: scheduler-owned network, fake Redis model, fake clock, scheduler-granted locks, coarse yield seams"},
   {"name": "microsched", "path": "/verif/sim + /verif/harness", "serves_properties": sorted(k for k, v in CHECKS.items() if v.get("engine") == "microsched"),
    "kind_free_text": "same scheduler with the fine-grained yield seams of ring.go/flowbuffer.go/pool.go enabled: every lock, channel operation and wake-up of the queue and pool code is a scheduling decision"},
 ],
 "checks": [], "not_applicable": [],
 "notes": "Checks are registered in checks.py; MANIFEST.json is generated from it by gen_manifest.py. Properties without a check are listed under not_applicable with their reason (see DESIGN.md).",
}
for p in props:
    pid = p['id']
    if pid in CHECKS:
        c = CHECKS[pid]
        m["checks"].append({
          "property_id": pid,
          "quick_cmd": "python3 vcheck.py run %s --tier quick" % pid,
          "thorough_cmd": "python3 vcheck.py run %s --tier thorough" % pid,
          "evidence_file": "/verif/evidence/%s.json" % pid,
          "replay_cmd_template": "python3 vcheck.py replay {path}",
          "engine": c.get("engine", "netsim"),
          "level_claimed": {"category": c["level"], "text": c.get("level_text", LEVEL_TEXT[c["level"]]), "design_ref": "DESIGN.md section 10 (%s)" % pid},
          "level_note": c.get("level_note", "trusted base: verifsim (scheduler, simnet, fakeredis), testing/synctest, the verif seams in /repo; " + "; ".join(c.get("assumptions", []))[:600]),
          "technique": c.get("technique", "deterministic simulation with fault injection (seeded scheduler in a synctest bubble, simulated network, executable Redis model, history oracle)"),
        })
    elif pid in NA:
        m["not_applicable"].append({"property_id": pid, "reason": NA[pid]})
    else:
        m["not_applicable"].append({"property_id": pid, "reason": "check not built yet (planned, see DESIGN.md section 10)"})
json.dump(m, open('/verif/MANIFEST.json', 'w'), indent=1)
print("claimed:", len(m["checks"]), "not applicable:", len(m["not_applicable"]))
