"""Registry of the simulation checks: which scenarios decide which property, with run budgets."""

MODULES = {
    # name -> where the package under test lives in /repo and which harness directory is overlaid into it
    "rueidis": {"dir": ".", "harness": "rueidis"},
    "rueidiscompat": {"dir": "rueidiscompat", "harness": "rueidiscompat", "package": "rueidiscompat"},
}

REAL = ("all of package github.com/redis/rueidis built from /repo's working tree with -tags verif "
        "(pipe, ring/flowbuffer queues, mux, pools, cache, client front-ends, RESP reader/writer)")
STUBS = {
    "network": "verifsim/simnet (scheduler-driven byte delivery through ClientOption.DialCtxFn)",
    "redis server": "verifsim/fakeredis (single-threaded executable model, independent RESP codec)",
    "clock": "testing/synctest fake clock",
    "locks of ring slots and pools": "scheduler-granted lockers installed through the verif NewLocker seam",
    "internal/util random source": "hash(seed, counter) through the verif random seam",
}

CL_RULE = ("plans on a cluster client (NewClient against a simulated Redis Cluster of 2-4 shards with 0-2 replicas each, slot ranges cut at seeded points incl. "
           "slots 0, 1, 8192, 16383, single-slot ranges and unserved gaps; nodes answer CLUSTER SLOTS (6.x/7.x) or CLUSTER SHARDS (8.x) from their own, possibly stale, view; "
           "replicas with unknown ('?'), empty or NULL endpoints and fail/loading health; 1-3 InitAddress entries, PreferInitAddressRefresh, periodic refresh; SendToReplicas "
           "predicates, ReplicaOnly, replica/read-node selectors returning 0, last, slot-dependent, out-of-range and negative indices; MaxMovedRedirections 0-3; DisableRetry and "
           "logged RetryDelay functions): 2-6 tasks issuing keyed reads/writes with attributable replies through Do, DoMulti (2-8 commands over any slots), single-slot batches "
           "with a MULTI...EXEC block, DoCache, DoMultiCache and the multi-key helpers; variants: stable (no change, all views equal), change (slot moves, migrations with ASK, "
           "cancelled migrations, fail-overs with and without outage, stale bystanders, CLUSTERDOWN windows, LOADING nodes), faults (additionally resets, EOFs, lost replies, "
           "write errors, node restarts). ")

CHECKS = {
    "C01": {
        "level": "exploration",
        "rule": ("one run = one seeded plan (swarm configuration of queue type, ring size, multiplexing, buffers, pipelining mode, "
                 "RESP2/3; 2-10 tasks issuing Do/DoMulti/DoCache/DoMultiCache/Receive/blocking calls with attributable VTAG replies, "
                 "ghost PUBLISH/SET/RPUSH pushes, cancellations and deadlines) executed under one seeded schedule of starts, yields, "
                 "byte deliveries with cuts, and ticks; non-trivial = at least two calls of different tasks overlapped in time; "
                 "distinct = distinct SHA-256 of the full event log"),
        "parts": [
            {"module": "rueidis", "scenario": "pipe-mix", "quick": 24000, "thorough": 1200000},
            {"module": "rueidis", "scenario": "at-most-once", "variant": "lifetime", "quick": 3000, "thorough": 100000},
        ],
        "expected_probes": ["reply-split-across-reads", "cancel-during-call", "push-frames-on-wire"],
        "components": {"real": REAL, "stubs": STUBS},
        "assumptions": [
            "fakeredis and the VTAG reply generator are correct (replies are a pure function of argv, so attribution is by construction)",
            "ring configurations that can fill while the write buffer is small are excluded here (known finding under C02)",
            "runs whose plan contains deadlines or cancellations tolerate connection-level errors on other calls; plans without them do not",
        ],
    },
    "C19": {
        "level": "exploration",
        "rule": CL_RULE + ("oracle: (stable plans) right after the first refresh the in-package slot table maps every slot of a listed shard to that shard's primary and every other slot "
                 "to nothing; the first attempt of every keyed command arrives at the primary of its slot (or, when the caller opted in, a node of that shard) and nothing is "
                 "re-sent; (all plans, judged fault-free) an attempt that was answered MOVED/ASK is followed by an attempt at exactly the named node, after ASK with ASKING in front "
                 "of it on that connection (in front of MULTI for a block); a redirect is returned to the caller only when MaxMovedRedirections is exhausted, and never more than "
                 "that many are followed; the value returned is what the last node asked answered. non-trivial = at least one call judged; distinct = distinct event-log hash"),
        "parts": [
            {"module": "rueidis", "scenario": "cluster", "quick": 1200, "thorough": 150000},
            {"module": "rueidis", "scenario": "cluster", "variant": "stable", "quick": 800, "thorough": 100000},
            {"module": "rueidis", "scenario": "cluster", "variant": "change", "quick": 800, "thorough": 100000},
        ],
        "expected_probes": ["redirect-replies-sent", "ask-redirect", "stable-topology", "changing-topology", "unlisted-or-endpointless-node", "redirect-limit-reached"],
        "components": {"real": REAL, "stubs": STUBS},
        "assumptions": [
            "keyed commands only (slot-less commands are routed by Go map iteration order, which cannot be seeded)",
            "all nodes share one host; a MOVED/ASK naming a node with an empty host (':7004') is not generated: rueidis dials ':7004' literally (noted in DESIGN.md, outside this property's text)",
            "a read the caller sent to a replica may be bounced to the primary once (a replica connection opened as InitAddress never sent READONLY): not counted as a re-send",
            "malformed topology replies (wrong types, short arrays) are not generated: that clause is a pure function of the reply and is left to input fuzzing",
            "a primary that never comes back is not generated (DoMulti keeps retrying read-only commands against its dead address; no listed property covers that)",
        ],
    },
    "C20": {
        "level": "exploration",
        "rule": CL_RULE + ("oracle: DoMulti / DoMultiCache return exactly one result per command; result i is the reply to command i (replies carry the command's unique id; inside an opened "
                 "MULTI...EXEC block: OK, QUEUED..., and EXEC's array of the block's replies in order); every arrival of a command of a MULTI...EXEC block at any node - first "
                 "attempt, after MOVED, after ASK - happens inside a complete contiguous copy [ASKING] MULTI c1..cn EXEC of the block on one connection. "
                 "non-trivial = at least one call judged; distinct = distinct event-log hash"),
        "parts": [
            {"module": "rueidis", "scenario": "cluster", "quick": 1200, "thorough": 150000},
            {"module": "rueidis", "scenario": "cluster", "variant": "change", "quick": 1000, "thorough": 100000},
            {"module": "rueidis", "scenario": "cluster", "variant": "faults", "quick": 600, "thorough": 60000},
        ],
        "expected_probes": ["redirect-replies-sent", "ask-redirect", "changing-topology"],
        "components": {"real": REAL, "stubs": STUBS},
        "assumptions": [
            "a block whose MULTI the server itself refused (LOADING, CLUSTERDOWN) is not a transaction and is not judged",
            "a block cut by the loss of its connection is not judged for contiguity",
            "batches that mix slot-less commands (MULTI/EXEC) with several slots are not generated: rueidis panics on them by design",
        ],
    },
    "C21": {
        "level": "exploration",
        "rule": CL_RULE + ("oracle (cluster part): a command received by a node whose role is replica satisfies the SendToReplicas predicate of the plan (a pure function of the command) or the "
                 "client is ReplicaOnly; with a selector that returns an index outside the candidates every command lands on the primary; with an in-range replica selector and a "
                 "listed replica an opted-in command does not go to the primary; ReplicaOnly slot tables point at a listed replica of the shard when it has one. "
                 "non-trivial = at least one call judged; distinct = distinct event-log hash"),
        "parts": [
            {"module": "rueidis", "scenario": "cluster", "variant": "replicas", "quick": 1500, "thorough": 150000},
            {"module": "rueidis", "scenario": "cluster", "quick": 800, "thorough": 80000},
        ],
        "expected_probes": ["command-at-replica", "stable-topology"],
        "components": {"real": REAL, "stubs": STUBS},
        "assumptions": [
            "after a fail-over the client may still believe that the demoted node is the primary: arrivals at replicas are not judged from the first fail-over of a run on",
        ],
    },
    "C31": {
        "level": "exploration",
        "rule": CL_RULE + ("helper calls: MGet and MGetCache over 1-10 keys with duplicates spread over all shards, MDel over 1-7 keys with duplicates, MSet of one key (maps with several "
                 "entries are sent in Go map order, which would make the run unrepeatable); oracle: the returned map has exactly the distinct input keys; each entry is the value the "
                 "model stores for that key (stable plans: exactly; under topology change: that value or nil); a success reported by MDel/MSet is visible in the model (stable plans). "
                 "non-trivial = at least one call judged; distinct = distinct event-log hash"),
        "parts": [
            {"module": "rueidis", "scenario": "cluster", "variant": "helpers", "quick": 1200, "thorough": 120000},
            {"module": "rueidis", "scenario": "cluster", "quick": 800, "thorough": 80000},
        ],
        "expected_probes": ["stable-topology"],
        "components": {"real": REAL, "stubs": STUBS},
        "assumptions": [
            "cluster client only so far; JsonMGet/JsonMSet/JsonMGetCache/MSetNX and multi-entry MSet maps are not exercised",
        ],
    },
    "C12": {
        "level": "exploration",
        "rule": ("one run = one seeded plan of VTAG requests whose replies are value trees of every RESP2/RESP3 type (nulls, booleans, doubles, big "
                 "numbers, verbatim and streamed strings, blob errors, attributes, arrays/sets/maps/streamed aggregates to depth 6, binary payloads "
                 "with CR/LF up to 70 kB) delivered under a seeded schedule in which (almost) every delivery is a partial cut, in a quarter of the "
                 "runs 1-3 bytes at a time, into read buffers of 32..4096 bytes; replies are compared structurally with the generated tree, and "
                 "DoStream output with the payload a normal read returns; non-trivial = at least one reply was split across reads; "
                 "distinct = distinct event-log hash"),
        "parts": [
            {"module": "rueidis", "scenario": "resp-split", "quick": 6000, "thorough": 400000},
        ],
        "expected_probes": ["reply-split-across-reads", "streaming-read"],
        "components": {"real": REAL, "stubs": STUBS},
        "assumptions": [
            "claimed for read-boundary independence (the transport nondeterminism in the property); the 'all value trees' quantifier is sampled input generation",
            "the model's RESP encoder (verifsim/resp) is correct; it shares no code with rueidis",
        ],
    },
    "C14": {
        "level": "exploration",
        "rule": ("one run = one seeded plan of 1-6 pipelining tasks sending VARGS commands with 0..1001 arguments whose lengths sit on every decimal "
                 "digit-count boundary from 0 to 1000001 and whose bytes include CR, LF and NUL, through write buffers of 32 bytes..default and "
                 "(half the runs) a bounded socket send buffer, with client-to-server hand-over cut at arbitrary offsets; the model's independent "
                 "parser must decode exactly the argv each task built, once; every other netsim scenario contributes the 'malformed frame' invariant; "
                 "non-trivial = two calls overlapped; distinct = distinct event-log hash"),
        "parts": [
            {"module": "rueidis", "scenario": "cmd-framing", "quick": 5000, "thorough": 300000},
            {"module": "rueidis", "scenario": "pipe-mix", "quick": 4000, "thorough": 100000},
        ],
        "expected_probes": ["arg-len>=1000", "argc>=100", "frames-cut-on-the-wire"],
        "components": {"real": REAL, "stubs": STUBS},
        "assumptions": ["the model's command parser (verifsim/resp.ParseCommand) is strict and correct"],
    },
    "C33": {
        "level": "exploration",
        "rule": ("same plans as C14 (cmd-framing) with deadlines and cancellations on a third of the calls, tiny write buffers and a bounded socket "
                 "send buffer so that commands are still queued or half written when their caller abandons the call and immediately builds new "
                 "commands from the recycled pool; every frame the model decodes must be exactly an argv some task built; "
                 "non-trivial = two calls overlapped; distinct = distinct event-log hash"),
        "parts": [
            {"module": "rueidis", "scenario": "cmd-framing", "quick": 6000, "thorough": 300000},
        ],
        "expected_probes": ["call-abandoned-before-reply", "cancel-during-call"],
        "components": {"real": REAL, "stubs": STUBS},
        "assumptions": [
            "claimed for the schedule-dependent clause only (a command is never modified or recycled before it is completely written, even when the caller abandons the call); "
            "the formatting clause (base-10 integers, shortest floats, units) is a pure function of the input and is not decided here",
        ],
    },
    "C04": {
        "level": "fault_enumeration",
        "rule": ("base plans: 2-8 tasks with a pending mix of synchronous, pipelined, batched, cached (flight owners and waiters), Receive and blocking calls; "
                 "enumerated parts: for each base schedule one fault of one kind (peer EOF, reset, reset after the server executed the request, EOF in the "
                 "middle of a reply, write error, 30 s stall with keep-alive ping, or client.Close) is placed at every scheduler step boundary 0..255; "
                 "random part: 1-3 faults of all kinds (also node restart with refused dials), optional Close, deadlines and cancellations; then all faults "
                 "are healed and six fresh calls per path are issued; oracle: every call returns, a returned value is the call's own reply, the last fresh "
                 "call of each path is served (or fails with ErrClosing after Close and nothing reaches the server); "
                 "non-trivial = the fault or Close struck while a call was in flight; distinct = distinct event-log hash"),
        "parts": [
            {"module": "rueidis", "scenario": "breakage", "quick": 6000, "thorough": 400000},
            {"module": "rueidis", "scenario": "breakage", "variant": "enum:eof", "quick": 1024, "thorough": 25600},
            {"module": "rueidis", "scenario": "breakage", "variant": "enum:reset", "quick": 1024, "thorough": 25600},
            {"module": "rueidis", "scenario": "breakage", "variant": "enum:reset-after-exec", "quick": 1024, "thorough": 25600},
            {"module": "rueidis", "scenario": "breakage", "variant": "enum:eof-mid-reply", "quick": 1024, "thorough": 25600},
            {"module": "rueidis", "scenario": "breakage", "variant": "enum:werr", "quick": 1024, "thorough": 25600},
            {"module": "rueidis", "scenario": "breakage", "variant": "enum:stall", "quick": 1024, "thorough": 25600},
            {"module": "rueidis", "scenario": "breakage", "variant": "enum:close", "quick": 1024, "thorough": 25600},
        ],
        "expected_probes": ["fault-with-call-in-flight", "client-closed-during-run"],
        "components": {"real": REAL, "stubs": STUBS},
        "assumptions": [
            "with retries enabled a read-only call may legitimately be re-sent and succeed; 'returns an error' is therefore judged through 'a returned value must be the call's own reply'",
            "an idle connection that died silently is only noticed on use: the first fresh calls after healing may each burn one dead connection; the last of six must be served",
            "after Close a call may return its own context error instead of ErrClosing",
        ],
    },
    "C03": {
        "level": "fault_enumeration",
        "rule": ("plans: 2-5 tasks issuing non-retryable writes (VWTAG with a unique id) alone, in batches mixed with reads in any order and inside "
                 "MULTI...EXEC blocks, with retries enabled and eager RetryDelay, with and without ConnLifetime (1 s, 3 s); enumerated parts: one fault "
                 "(reset before delivery, reset after the server executed, EOF mid-reply, write error, slow server) at every step boundary 0..255 of "
                 "each base schedule; random part: 0-4 faults incl. node restart and latencies above and below the 1 s close grace; oracle: in the "
                 "model's execution log every write id is executed at most once (+ once per redirect reply sent for it); "
                 "non-trivial = the plan has writes and a fault fired or ConnLifetime is set; distinct = distinct event-log hash"),
        "parts": [
            {"module": "rueidis", "scenario": "at-most-once", "quick": 6000, "thorough": 400000},
            {"module": "rueidis", "scenario": "at-most-once", "variant": "lifetime", "quick": 2000, "thorough": 100000},
            {"module": "rueidis", "scenario": "at-most-once", "variant": "enum:reset-after-exec", "quick": 1024, "thorough": 25600},
            {"module": "rueidis", "scenario": "at-most-once", "variant": "enum:reset", "quick": 1024, "thorough": 25600},
            {"module": "rueidis", "scenario": "at-most-once", "variant": "enum:eof-mid-reply", "quick": 1024, "thorough": 25600},
            {"module": "rueidis", "scenario": "at-most-once", "variant": "enum:werr", "quick": 1024, "thorough": 25600},
            {"module": "rueidis", "scenario": "at-most-once", "variant": "enum:slow", "quick": 1024, "thorough": 25600},
            {"module": "rueidis", "scenario": "cluster", "variant": "faults", "quick": 800, "thorough": 80000},
            {"module": "rueidis", "scenario": "cluster", "variant": "change", "quick": 500, "thorough": 50000},
        ],
        "expected_probes": ["executed-but-unanswered", "request-lost", "conn-lifetime-configured"],
        "components": {"real": REAL, "stubs": STUBS},
        "assumptions": [
            "single-node and cluster front-ends (cluster: a non-retryable write is executed at most once however it is redirected, retried or cut by faults); standalone and sentinel front-ends not yet",
            "bytes the client wrote before closing a connection are still delivered to the server (as TCP does), so a re-sent command can overtake its original",
        ],
    },
    "C05": {
        "level": "exploration",
        "rule": ("plans: 3-7 tasks whose calls carry deadlines of 50 ms..8 s, manual cancellations at seeded steps, or an already-done context, while "
                 "connections are stalled for 60-120 s (both directions or replies only): waits in the pipeline (ring kept from filling, flow buffer "
                 "any size), on the synchronous path, for a blocking-pool connection (pool of 1-2 held by BLPOPs of 100-200 s; the scheduler may park "
                 "a waiter between its wait-condition check and cond.Wait while the context ends), on another caller's cache flight, and in retry "
                 "back-off (RetryDelay up to 30 s after a reset); oracle: a call returns within 3 s of fake time of its deadline/cancellation "
                 "(Dialer.Timeout is set to 1 s), and nothing of a call with an already-done context reaches the server; "
                 "non-trivial = a stall fired and at least one call with a deadline or cancellation was judged; distinct = distinct event-log hash"),
        "parts": [
            {"module": "rueidis", "scenario": "deadlines", "quick": 3000, "thorough": 200000},
            {"module": "rueidis", "scenario": "deadlines", "variant": "pool", "quick": 1500, "thorough": 100000},
            {"module": "rueidis", "scenario": "deadlines", "variant": "cache", "quick": 1000, "thorough": 100000},
            {"module": "rueidis", "scenario": "deadlines", "variant": "retry", "quick": 1000, "thorough": 100000},
            {"module": "rueidis", "scenario": "deadlines", "variant": "pipeline", "quick": 1000, "thorough": 100000},
        ],
        "expected_probes": ["stall-fired", "call-ended-by-its-deadline", "call-ended-by-its-cancellation"],
        "components": {"real": REAL, "stubs": STUBS},
        "assumptions": [
            "'shortly after' is taken as 3 s of fake time, with Dialer.Timeout = 1 s set by the scenario (a caller may wait for another caller's dial, which ignores its context) and the 1 s close grace of an aborted blocking connection",
            "ring-full waits are excluded for the ring queue (documented: the ring cannot cancel a wait for a slot); the flow buffer is exercised at every size",
        ],
    },
    "C06": {
        "level": "exploration",
        "rule": "plans on one caching client: 2-7 tasks issuing DoCache (GET/HGET/GETRANGE/HGETALL), DoMultiCache (1-6 commands with duplicates), DoCache on MGET and the MGetCache helper over 1-5 keys with duplicates, own writes, deadlines and cancellations; tracking modes OPTIN, OPTIN+NOLOOP, OPTOUT, BCAST and BCAST+PREFIX; built-in store with CacheSizeEachConn 2-8 KiB or default, or NewSimpleCacheAdapter; TTLs 40 ms..60 s; ghost writers SET/HSET/DEL/MSET/PEXPIRE/FLUSHALL with values up to 1.5 kB; optional connection loss and an injected EXECABORT or error reply in the caching transaction; every read reply of the model carries the command text and the model sequence number of the read; oracle: a value returned by a call that started after the connection processed (callback step) an invalidation of its key, a flush or a connection loss must have been read by the model after that modification; every value is the reply to exactly the command asked; non-trivial = freshness was judged and an invalidation was processed or a hit served; distinct = distinct event-log hash",
        "parts": [
                {
                        "module": "rueidis",
                        "scenario": "csc",
                        "quick": 8000,
                        "thorough": 600000
                },
                {
                        "module": "rueidis",
                        "scenario": "csc",
                        "variant": "batch",
                        "quick": 3000,
                        "thorough": 200000
                }
        ],
        "expected_probes": [
                "cache-hit-served",
                "invalidation-processed",
                "flush-invalidation",
                "connection-lost-with-cache"
        ],
        "components": {
                "real": REAL,
                "stubs": STUBS
        },
        "assumptions": [
                "freshness is judged on single-connection clients, where OnInvalidations callbacks are attributable to the caching connection; callbacks are paired one-to-one with the model's invalidation pushes (that pairing is itself checked as C27)",
                "argument vocabularies are fixed-width so command identities are unambiguous (the concatenation ambiguity of CacheKey is a pure-input matter, see C08)"
        ]
},
    "C09": {
        "level": "exploration",
        "rule": "plans on one caching client: 2-7 tasks issuing DoCache (GET/HGET/GETRANGE/HGETALL), DoMultiCache (1-6 commands with duplicates), DoCache on MGET and the MGetCache helper over 1-5 keys with duplicates, own writes, deadlines and cancellations; tracking modes OPTIN, OPTIN+NOLOOP, OPTOUT, BCAST and BCAST+PREFIX; built-in store with CacheSizeEachConn 2-8 KiB or default, or NewSimpleCacheAdapter; TTLs 40 ms..60 s; ghost writers SET/HSET/DEL/MSET/PEXPIRE/FLUSHALL with values up to 1.5 kB; optional connection loss and an injected EXECABORT or error reply in the caching transaction; every read reply of the model carries the command text and the model sequence number of the read; oracle: per connection, a second request for a cached command must not reach the server between the moment the first one was sent and the step in which its reply was delivered to the client, provided the first one's owner returned its value (not abandoned); non-trivial/distinct as C06",
        "parts": [
                {
                        "module": "rueidis",
                        "scenario": "csc",
                        "quick": 8000,
                        "thorough": 600000
                },
                {
                        "module": "rueidis",
                        "scenario": "csc",
                        "variant": "abandoned-chain",
                        "quick": 500,
                        "thorough": 20000
                }
        ],
        "expected_probes": [
                "cache-hit-served"
        ],
        "components": {
                "real": REAL,
                "stubs": STUBS
        },
        "assumptions": [
                "a flight whose owner did not return a value (cancelled, failed) is not judged; waiters receiving the owner's reply or error is judged through the identity rule of C06"
        ]
},
    "C10": {
        "level": "exploration",
        "rule": "plans on one caching client: 2-7 tasks issuing DoCache (GET/HGET/GETRANGE/HGETALL), DoMultiCache (1-6 commands with duplicates), DoCache on MGET and the MGetCache helper over 1-5 keys with duplicates, own writes, deadlines and cancellations; tracking modes OPTIN, OPTIN+NOLOOP, OPTOUT, BCAST and BCAST+PREFIX; built-in store with CacheSizeEachConn 2-8 KiB or default, or NewSimpleCacheAdapter; TTLs 40 ms..60 s; ghost writers SET/HSET/DEL/MSET/PEXPIRE/FLUSHALL with values up to 1.5 kB; optional connection loss and an injected EXECABORT or error reply in the caching transaction; every read reply of the model carries the command text and the model sequence number of the read; oracle (in-package monitor after every scheduler step): for every built-in store, the sizes of the completed entries retained sum to the accounted size, and that sum is at most CacheSizeEachConn; non-trivial/distinct as C06",
        "parts": [
                {
                        "module": "rueidis",
                        "scenario": "csc",
                        "quick": 8000,
                        "thorough": 600000
                },
                {
                        "module": "rueidis",
                        "scenario": "csc",
                        "variant": "batch",
                        "quick": 3000,
                        "thorough": 200000
                }
        ],
        "expected_probes": [
                "cache-hit-served"
        ],
        "components": {
                "real": REAL,
                "stubs": STUBS
        },
        "assumptions": [
                "the monitor runs at every quiescent point, i.e. after the goroutines that performed a cache update have run to their next blocking point",
                "eviction order (LRU-first) is not judged beyond the bound: hits refresh recency only every 1024th time by design"
        ]
},
    "C11": {
        "level": "exploration",
        "rule": "plans on one caching client: 2-7 tasks issuing DoCache (GET/HGET/GETRANGE/HGETALL), DoMultiCache (1-6 commands with duplicates), DoCache on MGET and the MGetCache helper over 1-5 keys with duplicates, own writes, deadlines and cancellations; tracking modes OPTIN, OPTIN+NOLOOP, OPTOUT, BCAST and BCAST+PREFIX; built-in store with CacheSizeEachConn 2-8 KiB or default, or NewSimpleCacheAdapter; TTLs 40 ms..60 s; ghost writers SET/HSET/DEL/MSET/PEXPIRE/FLUSHALL with values up to 1.5 kB; optional connection loss and an injected EXECABORT or error reply in the caching transaction; every read reply of the model carries the command text and the model sequence number of the read; oracle: the value at position i (or under key i) carries the text of command i (GET k and an MGET element are the same entry by design); MGetCache returns exactly the input key set; variant batch runs multiplexed connections (PipelineMultiplex 1-2); non-trivial/distinct as C06",
        "parts": [
                {
                        "module": "rueidis",
                        "scenario": "csc",
                        "variant": "batch",
                        "quick": 8000,
                        "thorough": 600000
                },
                {
                        "module": "rueidis",
                        "scenario": "csc",
                        "quick": 3000,
                        "thorough": 200000
                }
        ],
        "expected_probes": [
                "cache-hit-served"
        ],
        "components": {
                "real": REAL,
                "stubs": STUBS
        },
        "assumptions": [
                "cluster clients are not covered yet"
        ]
},
    "C27": {
        "level": "exploration",
        "rule": "plans on one caching client: 2-7 tasks issuing DoCache (GET/HGET/GETRANGE/HGETALL), DoMultiCache (1-6 commands with duplicates), DoCache on MGET and the MGetCache helper over 1-5 keys with duplicates, own writes, deadlines and cancellations; tracking modes OPTIN, OPTIN+NOLOOP, OPTOUT, BCAST and BCAST+PREFIX; built-in store with CacheSizeEachConn 2-8 KiB or default, or NewSimpleCacheAdapter; TTLs 40 ms..60 s; ghost writers SET/HSET/DEL/MSET/PEXPIRE/FLUSHALL with values up to 1.5 kB; optional connection loss and an injected EXECABORT or error reply in the caching transaction; every read reply of the model carries the command text and the model sequence number of the read; oracle: per caching connection the sequence of OnInvalidations callbacks equals the sequence of invalidation pushes the model sent on it (keys in order, nil for flush), never ahead of the model, plus nil at connection loss; non-trivial/distinct as C06",
        "parts": [
                {
                        "module": "rueidis",
                        "scenario": "csc",
                        "quick": 8000,
                        "thorough": 600000
                }
        ],
        "expected_probes": [
                "invalidation-processed",
                "multi-key-invalidation",
                "flush-invalidation",
                "connection-lost-with-cache"
        ],
        "components": {
                "real": REAL,
                "stubs": STUBS
        },
        "assumptions": [
                "dedicated clients with SetOnInvalidations (tracking off before reuse) are not covered yet"
        ]
},
    "C07": {
        "level": "exploration",
        "rule": ("plans on one caching client under the fake clock: keys with server expiry none / missing / 1 ms..20 s, 1-3 tasks issuing DoCache and DoMultiCache "
                 "(per-command client TTLs 1 ms..10 s, a quarter of the plans with static TTL), time advanced only by explicit jumps of 1 ms..3 s between the reads, "
                 "optionally a slow server so that request start and reply arrival differ by up to seconds; oracle: the CachePXAT of a filling reply lies in "
                 "min(request start + ttl, reply arrival + server PTTL) evaluated over the interval in which the request may have started (1 ms rounding), "
                 "every later hit on that entry reports the same CachePXAT, no call that started at or after it is served the entry as a hit, and "
                 "CachePTTL = CachePXAT - now; non-trivial = at least one expiry or hit was judged; distinct = distinct event-log hash"),
        "parts": [
            {"module": "rueidis", "scenario": "csc-ttl", "quick": 8000, "thorough": 600000},
        ],
        "expected_probes": ["hit-judged", "hit-within-5ms-of-expiry"],
        "components": {"real": REAL, "stubs": STUBS},
        "assumptions": [
            "a value delivered to a caller that was already waiting on the in-flight request is not judged as a stored hit even though it carries the cache mark",
            "cached nil replies (missing keys) carry no tag and are judged through the accessor consistency only",
        ],
    },
    "C02": {
        "level": "exploration",
        "engine": "microsched",
        "rule": ("unit part (queue-unit): newRing / newFlowBuffer with 2, 4 or 8 slots (ring counters optionally started just below 2^32 so the slot index wraps), "
                 "1-12 putters (up to 2*slots+2) each doing 1-4 PutOne / PutMulti(2-4) of uniquely tagged commands, one writer loop and one reader loop using "
                 "the queue exactly as pipe._backgroundWrite/_backgroundRead do; every lock acquisition, channel operation and wake-up of ring.go / flowbuffer.go "
                 "is a yield decided by the seeded scheduler and slot locks are scheduler-granted; oracle: every command reaches the writer exactly once, "
                 "per-putter order is kept, the reader is always handed the oldest written entry, each result reaches the putter that filled the slot, and the "
                 "run never ends with a putter waiting (deadlock). real part (queue-real): the real pipe over a simulated connection with the same fine yields, "
                 "more callers than slots, write buffers 32 B..default, C01 reply oracle and hang detection; "
                 "non-trivial = at least two putters/callers; distinct = distinct event-log hash"),
        "parts": [
            {"module": "rueidis", "scenario": "queue-unit", "quick": 16000, "thorough": 1500000},
            {"module": "rueidis", "scenario": "queue-real", "quick": 4000, "thorough": 300000},
            {"module": "rueidis", "scenario": "queue-real", "variant": "no-partial-flush", "quick": 2000, "thorough": 100000},
        ],
        "expected_probes": ["more-putters-than-slots", "slot-index-wrapped", "more-callers-than-slots"],
        "components": {"real": "ring.go and flowbuffer.go unmodified (unit part); all of package rueidis (real part)",
                       "stubs": {"writer/reader loops (unit part)": "harness loops following pipe's calling protocol", "slot locks": "scheduler-granted lockers through the verif NewLocker seam", "network/server (real part)": "simnet + fakeredis"}},
        "assumptions": [
            "no real-time order is demanded between different putters: a putter stalled between taking its ticket and locking its slot may be overtaken on that slot one lap later; queue order is slot order",
            "code between two yield points touches only goroutine-local state or state protected by a scheduler-granted lock",
        ],
    },
    "C24": {
        "level": "exploration",
        "engine": "microsched",
        "rule": ("unit part (pool-unit): newPool(cap 1-3) with stub wires, 2-7 users each doing 1-4 Acquire(context live / deadline 1-500 ms / cancelled at a seeded step) - hold "
                 "0-2 s of fake time - Store, wires that break while held, failing dials, idle clean-up timer, Close at a seeded step; every acquisition of the pool lock is "
                 "granted by the scheduler and all yield seams of pool.go are decisions (including the window between the wait-condition check and cond.Wait); oracle: at most "
                 "cap wires in use, no wire handed to two holders, every made wire closed by the time the pool is closed, Acquire returns within 1 s of its context's end "
                 "(time only advances when nothing can run), after Close no live wire is handed out, no Acquire/Store hangs. system part (pool-system): the real mux with "
                 "blocking commands, DoStream/DoMultiStream, Dedicated, deadlines, cancellations and connection faults; oracle: open connections <= 1 + 2*BlockingPoolSize, "
                 "after healing two rounds of 2*size+2 sequential calls per path are served, and in-package size == idle for both pools once nothing runs; "
                 "non-trivial = more users than connections (and a lock was contended); distinct = distinct event-log hash"),
        "parts": [
            {"module": "rueidis", "scenario": "pool-unit", "quick": 12000, "thorough": 1000000},
            {"module": "rueidis", "scenario": "pool-system", "quick": 5000, "thorough": 400000},
        ],
        "expected_probes": ["more-users-than-connections", "closed-during-run", "pool-probes-ran"],
        "components": {"real": "pool.go unmodified with stub wires (unit part); all of package rueidis (system part)",
                       "stubs": {"wires (unit part)": "stubWire implementing the wire interface", "pool lock": "scheduler-granted locker through the verif NewPoolLocker seam", "network/server (system part)": "simnet + fakeredis"}},
        "assumptions": ["cluster and sentinel front-ends use the same mux and pools and are not run separately"],
    },
    "C28": {
        "level": "exploration",
        "rule": ("plans: 2-6 tasks issuing read-only, retryable-marked and plain commands alone and in batches (uniform and mixed flags) whose replies are values, "
                 "ordinary errors or nil; the node answers its first 0-8 commands with LOADING; 1-4 connection faults (reset, EOF, reset after execution, EOF mid-reply, "
                 "write error, node restart with refused dials); RetryDelay is a logged harness function returning per-attempt delays of 0-2000 ms or a negative value "
                 "(stop); DisableRetry in a fifth of the plans; deadlines on a sixth of the calls; oracle from the model's per-command attempt log and the delay log: "
                 "more than one attempt only for read-only/retryable commands (for batches: all of them), never with DisableRetry, never more attempts than non-negative "
                 "delay answers + 1, none after a negative answer, none after the call's deadline; LOADING/ordinary errors/nil are returned unchanged; "
                 "non-trivial = a command was re-sent or the delay function was consulted; distinct = distinct event-log hash"),
        "parts": [
            {"module": "rueidis", "scenario": "retry-policy", "quick": 8000, "thorough": 600000},
            {"module": "rueidis", "scenario": "cluster", "variant": "change", "quick": 1000, "thorough": 100000},
            {"module": "rueidis", "scenario": "cluster", "variant": "faults", "quick": 600, "thorough": 60000},
        ],
        "expected_probes": ["command-sent-more-than-once", "retry-delay-said-stop", "loading-replies"],
        "components": {"real": REAL, "stubs": STUBS},
        "assumptions": ["single-node and cluster front-ends (cluster part: a command is re-sent after LOADING/TRYAGAIN/CLUSTERDOWN or a transport error only if it is read-only or retryable, never with DisableRetry, and at most as often as RetryDelay returned a non-negative delay for it); standalone and sentinel retry loops are not exercised yet"],
    },
    "C26": {
        "level": "exploration",
        "rule": ("plans on one RESP3 client: 2-6 tasks with overlapping Receive calls (SUBSCRIBE / PSUBSCRIBE / SSUBSCRIBE over 3 channels and 3 patterns, each with one "
                 "private marker channel so that its subscribe command is attributable), ended by deadlines, cancellations at seeded steps, (P|S)UNSUBSCRIBE of one "
                 "channel or of everything by any task, or client.Close; dedicated sessions with SetPubSubHooks; VTAG command traffic on the same connection; 4-19 ghost "
                 "PUBLISH / SPUBLISH; oracle from the model's push log with per-frame delivery steps: each callback sequence is a gap-free in-order run of the messages the "
                 "server sent for that subscription on that connection, contains every message sent after the subscribe was acknowledged and delivered before the "
                 "subscription ended, the return value is nil exactly after a covering unsubscribe / the context error / ErrClosing, hook error channels are closed with "
                 "at most one error, and command replies obey the C01 oracle; non-trivial = at least one Receive returned; distinct = distinct event-log hash"),
        "parts": [
            {"module": "rueidis", "scenario": "pubsub", "quick": 8000, "thorough": 600000},
        ],
        "expected_probes": ["messages-delivered", "receive-ended-by-unsubscribe", "pubsub-hooks-session"],
        "components": {"real": REAL, "stubs": STUBS},
        "assumptions": ["RESP3 only (the RESP2 side connection holds a mutex across its handshake, see DESIGN.md); re-subscription after connection loss is not exercised: no connection faults in this scenario",
                        "a Receive ended by its deadline is only required to have got the messages delivered at least two scheduler steps before it returned"],
    },
    "C13": {
        "level": "fault_enumeration",
        "rule": ("decoder part (resp-garbage): a well-formed RESP2/RESP3 reply stream of 1-3 value trees (all types, streamed strings and aggregates, payloads to 700 B) is damaged "
                 "by 1-2 faults - bit flip, byte overwrite with a protocol byte, truncation, type byte swap, insertion of an array header, a length field rewritten to one of "
                 "18 hostile values (-2, -2^31, -2^63, 2^63-1, 2^63, 10^20, 2^29..10^15, '-0', '+5', '1e3', empty) - and fed to readNextMessage / streamTo through a reader that "
                 "returns 1, 3, 7, 64 or all bytes per read; enumerated part: for single-frame streams every offset 0..511 for each fault kind; oracle: no panic (recover), "
                 "bytes allocated while decoding <= 64 x bytes received + 16 MiB; system part (garbage-system): the same damage applied to the pending reply stream of a live "
                 "connection of a real client under load: the process survives and every call returns; children run under a 16 GiB address-space limit; "
                 "non-trivial = a fault was applied; distinct = distinct damaged stream (decoder part) or event-log hash"),
        "parts": [
            {"module": "rueidis", "scenario": "resp-garbage", "quick": 120000, "thorough": 8000000},
            {"module": "rueidis", "scenario": "resp-garbage", "variant": "enum", "quick": 61440, "thorough": 1500000},
            {"module": "rueidis", "scenario": "garbage-system", "quick": 3000, "thorough": 200000},
        ],
        "expected_probes": ["mutation-len", "mutation-trunc", "stream-corrupted-in-flight"],
        "components": {"real": "resp.go decoder (readNextMessage, streamTo) called in-package; all of package rueidis in the system part", "stubs": STUBS},
        "assumptions": ["'far beyond the bytes received' is taken as more than 64 x received + 16 MiB", "the 'all byte sequences' quantifier is sampled input generation around well-formed streams"],
    },
    "C47": {
        "level": "fault_enumeration",
        "rule": ("plans: the product of credentials (none, password, user+password, dynamic through AuthCredentialsFn), client name, database, tracking options "
                 "(OPTIN, OPTIN+NOLOOP, OPTOUT, BCAST, BCAST+PREFIX, cache disabled), NO-TOUCH, NO-EVICT, library info (default, custom, disabled), AlwaysRESP2 and "
                 "servers without HELLO, on a model that enforces authentication; 2-4 tasks open the pipelined wire(s) and pooled connections; on the first one or two "
                 "connections one setup command (enumerated part: each of the setup steps 0..15; random part: a seeded one) is answered with an error or the connection is "
                 "dropped at that step; oracle: the session state the model recorded with the first user command of every connection equals the options (user, protocol, "
                 "name, database, tracking mode/prefixes/NOLOOP, NO-TOUCH, NO-EVICT, library info), RESP2 only when forced or HELLO is unknown, and no user command is sent "
                 "on a connection whose last attempt of a non-tolerated setup command failed; non-trivial = at least one connection served a user command; "
                 "distinct = distinct event-log hash"),
        "parts": [
            {"module": "rueidis", "scenario": "setup", "quick": 6000, "thorough": 400000},
            {"module": "rueidis", "scenario": "setup", "variant": "enum", "quick": 4096, "thorough": 131072},
        ],
        "expected_probes": ["setup-step-failed", "server-without-hello"],
        "components": {"real": REAL, "stubs": STUBS},
        "assumptions": ["single-node front-end; ReplicaOnly/READONLY and the sentinel options are not exercised", "credential refresh (RefreshAfter) is not exercised"],
    },
    "C25": {
        "level": "exploration",
        "rule": ("plans: 2-6 tasks mixing dedicated sessions (Dedicated(fn) and Dedicate()/cancel; optional SetPubSubHooks + SUBSCRIBE, plain SUBSCRIBE, or SetOnInvalidations + "
                 "CLIENT TRACKING ON; then WATCH, a keyed read, MULTI, 1-3 keyed writes, EXEC - every command a scheduling point) with shared-pipeline VTAG traffic and "
                 "blocking pops on a pool of 1-2 connections, ghost writers touching the watched keys, publishing and pushing; after release the retained handle is used "
                 "again (Do, DoMulti, Receive); oracle from the model's per-connection command log: between the first and last command of a session only that session's "
                 "commands appear on its connection, all of them on one connection; every use after release fails with ErrDedicatedClientRecycled; before the next user's "
                 "first command the model saw UNSUBSCRIBE if the session had subscribed and CLIENT TRACKING OFF (and no tracking state) if it had installed an invalidation "
                 "callback; non-trivial = at least one session; distinct = distinct event-log hash"),
        "parts": [
            {"module": "rueidis", "scenario": "dedicated", "quick": 6000, "thorough": 500000},
        ],
        "expected_probes": ["session-with-hooks", "session-with-inval", "session-with-subscribe"],
        "components": {"real": REAL, "stubs": STUBS},
        "assumptions": ["single-node front-end (the cluster and sentinel dedicated clients wrap the same wire)", "a session that leaves MULTI open is not part of the property and is not generated"],
    },
    "C29": {
        "level": "fault_enumeration",
        "rule": ("plans: 1-3 tasks issuing DoStream / DoMultiStream(2-4) of simple, bulk, integer, double, verbatim, streamed-string, nil and error replies with payloads of "
                 "0 B..200 kB through read buffers of 32 B..default, (almost) every delivery cut; a fifth of the calls use an io.Writer that fails after 1..5000 bytes; random "
                 "part: EOF mid-reply, reset, write error placed inside in-flight replies; enumerated part: EOF-mid-reply / reset at every scheduler step 0..255 of single-task "
                 "base schedules with a seeded byte offset; oracle: each WriteTo consumes exactly one reply, the bytes written are exactly the payload (a prefix of it when the "
                 "writer or the connection fails), nil and error replies surface as errors, a WriteTo after the end consumes nothing, in-package pool accounting is back to "
                 "size == idle with no connection stored twice, and after a reply that could not be consumed completely the connection is closed and never carries another "
                 "command; non-trivial = at least one stream call returned; distinct = distinct event-log hash"),
        "parts": [
            {"module": "rueidis", "scenario": "stream", "quick": 6000, "thorough": 400000},
            {"module": "rueidis", "scenario": "stream", "variant": "enum", "quick": 2048, "thorough": 65536},
        ],
        "expected_probes": ["writer-failed-midway", "partial-consumption", "reply-split-across-reads"],
        "components": {"real": REAL, "stubs": STUBS},
        "assumptions": ["a failing io.Writer alone does not count as 'could not be consumed completely': the rest of that reply is discarded and the connection stays usable"],
    },
    "C30": {
        "level": "exploration",
        "rule": ("plans: 1-4 Lua objects of the kinds NewLuaScript / ReadOnly / NoSha / ReadOnlyNoSha / Retryable / NoShaRetryable (a third of the SHA kinds with "
                 "WithLoadSHA1), each with its own script text; 2-6 tasks of 1-4 Lua.Exec or Lua.ExecMulti(1-4 units) calls on the same and on different objects, every "
                 "unit carrying a unique id as ARGV[1] that the body pushes to a list (read-only bodies: reads the list) and returns; script-cache states: scripts preloaded "
                 "on some nodes or on none, 0-3 ghost SCRIPT FLUSH at seeded steps, node restarts that lose the cache; half of the plans fault-free, the others with 1-3 "
                 "connection faults (reset, reset after execution, EOF, EOF mid-reply, write error, node restart with refused dials) and, in a third of them, a node that "
                 "answers its next 1-3 commands with -LOADING; "
                 "DisableRetry in a fifth of the plans; part 1 a single-node client, part 2 a cluster client over 2-3 shards (+0-1 replica) where ExecMulti loads the script "
                 "on every node through Nodes(). oracle, from the model's command log (per id: every EVAL/EVALSHA(_RO) received, its reply, whether a body ran) and from a "
                 "pass-through Client handed to lua.go that records the commands each call issued and the results it got: (1) per id the body ran at most once -- judged in "
                 "fault-free plans for every script and under faults for scripts that are neither marked retryable nor read-only, or when DisableRetry is set; (2) an Exec "
                 "of a SHA script issues EVALSHA(_RO) first and EVAL(_RO) only as its next command after that EVALSHA came back with NOSCRIPT, and the server sees an EVAL "
                 "for an id only after it answered NOSCRIPT to an EVALSHA of that id; (3) NoSha objects never cause EVALSHA(_RO); (4) read-only objects only cause _RO "
                 "commands; (5) WithLoadSHA1: no Exec issues SCRIPT LOAD after an Exec-issued SCRIPT LOAD of that object succeeded (or an ExecMulti whose loads all "
                 "succeeded returned); (6) ExecMulti returns exactly one result per LuaExec and result i is a reply the server gave to the command carrying id i; "
                 "non-trivial = an Exec went through NOSCRIPT -> EVAL or an ExecMulti of >= 2 units returned; distinct = distinct event-log hash"),
        "parts": [
            {"module": "rueidis", "scenario": "lua-exec", "quick": 20000, "thorough": 800000},
            {"module": "rueidis", "scenario": "lua-exec", "variant": "cluster", "quick": 12000, "thorough": 400000},
        ],
        "expected_probes": ["noscript-then-eval", "ghost-script-flush", "node-restart-lost-script-cache", "executed-but-unanswered",
                            "retryable-script-re-executed-after-fault", "exec-requested-sha-with-script-load", "first-exec-of-load-sha1-script-started-alone",
                            "execmulti-loaded-script-on-several-nodes", "execmulti-spanned-nodes", "fault-free-plan",
                            "evalsha-answered-with-another-error"],
        "components": {"real": REAL, "stubs": STUBS},
        "assumptions": [
            "fakeredis' script cache, NOSCRIPT replies and Exec.ScriptRuns are correct (cross-checked per id against the RPUSHes the bodies made; a mismatch is a harness error)",
            "a re-execution after a transport error is what the caller asked for when the script is marked retryable or read-only (the client retries read-only commands) and "
            "retries are enabled: 'at most once' is not judged for those under faults",
            "Lua.sha1Mu is held across the SCRIPT LOAD round trip and a goroutine blocked on a sync.RWMutex is not durably blocked under synctest: a call on a load-SHA1 object "
            "whose SHA is still unknown is only started while no other call on that object is in flight, so concurrent first Execs waiting on the mutex are not explored",
            "cluster part: keyed commands only; an Exec of a load-SHA1 object whose SHA is unknown would send the key-less SCRIPT LOAD to the node Go's map iteration yields "
            "first, so such calls are issued as a one-unit ExecMulti; rule (5) is therefore exercised on the single-node part only; at most 4 nodes; no slot migration; "
            "Lua.maxp and every multiplexer's parallelism are pinned to 16",
            "ConnLifetime is not set (its re-send of outstanding commands is the known finding under C03)",
        ],
    },
    "C41": {
        "level": "exploration",
        "rule": ("plans: 1-4 tasks, each 1-3 Pipeline / TxPipeline / Watch+TxPipeline sessions of the go-redis adapter on one shared client, 1-6 queued "
                 "methods each, Discard at a seeded point, deadlines, connection faults. echo part: methods are drawn from ALL of CoreCmdable and called through "
                 "reflection with arguments generated from the plan; the model answers every command with an error naming its global sequence number, so a "
                 "result is attributable to one command whatever its reply type. real part: typed string/hash/list/counter commands against the model, WATCH "
                 "sessions raced by ghost writers. oracle: every queued method adds exactly one command and one result; Exec returns the results in queue "
                 "order; result i carries the reply of the i-th command of the batch (element i of EXEC for transactions); the batch is contiguous on one "
                 "connection with MULTI first and EXEC last; the returned error is the first result error; EXEC answering nil is reported as TxFailedErr and "
                 "only then; after Discard nothing of the discarded part reaches the server; no panic in Exec. non-trivial = at least one batch judged; "
                 "distinct = distinct event-log hash"),
        "parts": [
            {"module": "rueidiscompat", "scenario": "compat", "quick": 4000, "thorough": 300000},
            {"module": "rueidiscompat", "scenario": "compat", "variant": "real", "quick": 3000, "thorough": 200000},
        ],
        "expected_probes": ["tx-batch", "discard-then-requeue", "watch-aborted", "watch-committed", "generated-args-rejected"],
        "components": {"real": "packages github.com/redis/rueidis/rueidiscompat and github.com/redis/rueidis built from /repo's working tree with -tags verif", "stubs": STUBS},
        "assumptions": ["arguments a go-redis program could not pass (odd key/value lists, wrongly typed variadics) may make the adapter panic while queuing; that is not judged",
                        "when Exec itself reports a transport or context error the individual results are not judged"],
    },
}
