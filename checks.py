"""Registry of the simulation checks: which scenarios decide which property, with run budgets."""

MODULES = {
    # name -> where the package under test lives in /repo and which harness directory is overlaid into it
    "rueidis": {"dir": ".", "harness": "rueidis"},
}

REAL = ("all of package github.com/redis/rueidis built from /repo's working tree with -tags verif "
        "(pipe, ring/flowbuffer queues, mux, pools, cache, client front-ends, RESP reader/writer)")
STUBS = {
    "network": "verifsim/simnet (scheduler-driven byte delivery through ClientOption.DialCtxFn)",
    "redis server": "verifsim/fakeredis (single-threaded executable model, independent RESP codec)",
    "clock": "testing/synctest fake clock",
    "locks of ring slots and pools": "scheduler-granted lockers installed through the verif NewLocker seam",
    "internal/util random source": "hash(seed, counter) through the verif random seam",
}

CHECKS = {
    "C01": {
        "level": "exploration",
        "rule": ("one run = one seeded plan (swarm configuration of queue type, ring size, multiplexing, buffers, pipelining mode, "
                 "RESP2/3; 2-10 tasks issuing Do/DoMulti/DoCache/DoMultiCache/Receive/blocking calls with attributable VTAG replies, "
                 "ghost PUBLISH/SET/RPUSH pushes, cancellations and deadlines) executed under one seeded schedule of starts, yields, "
                 "byte deliveries with cuts, and ticks; non-trivial = at least two calls of different tasks overlapped in time; "
                 "distinct = distinct SHA-256 of the full event log"),
        "parts": [
            {"module": "rueidis", "scenario": "pipe-mix", "quick": 24000, "thorough": 1200000},
        ],
        "expected_probes": ["reply-split-across-reads", "cancel-during-call", "push-frames-on-wire"],
        "components": {"real": REAL, "stubs": STUBS},
        "assumptions": [
            "fakeredis and the VTAG reply generator are correct (replies are a pure function of argv, so attribution is by construction)",
            "ring configurations that can fill while the write buffer is small are excluded here (known finding under C02)",
            "runs whose plan contains deadlines or cancellations tolerate connection-level errors on other calls; plans without them do not",
        ],
    },
}
