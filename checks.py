"""Registry of the simulation checks: which scenarios decide which property, with run budgets."""

MODULES = {
    # name -> where the package under test lives in /repo and which harness directory is overlaid into it
    "rueidis": {"dir": ".", "harness": "rueidis"},
    "rueidiscompat": {"dir": "rueidiscompat", "harness": "rueidiscompat", "package": "rueidiscompat"},
    "rueidisaside": {"dir": "rueidisaside", "harness": "rueidisaside", "package": "rueidisaside"},
    "rueidislock": {"dir": ".", "pkgdir": "rueidislock", "harness": "rueidislock", "package": "rueidislock"},
    "om": {"dir": "om", "harness": "om", "package": "om"},
    "rueidislimiter": {"dir": "rueidislimiter", "harness": "rueidislimiter", "package": "rueidislimiter",
                       "extra_mod": ["require github.com/anishathalye/porcupine v1.3.0"]},
    "rueidisprob": {"dir": "rueidisprob", "harness": "rueidisprob", "package": "rueidisprob"},
}

REAL = ("all of package github.com/redis/rueidis built from /repo's working tree with -tags verif "
        "(pipe, ring/flowbuffer queues, mux, pools, cache, client front-ends, RESP reader/writer)")
STUBS = {
    "network": "verifsim/simnet (scheduler-driven byte delivery through ClientOption.DialCtxFn)",
    "redis server": "verifsim/fakeredis (single-threaded executable model, independent RESP codec)",
    "clock": "testing/synctest fake clock",
    "locks of ring slots and pools": "scheduler-granted lockers installed through the verif NewLocker seam",
    "internal/util random source": "hash(seed, counter) through the verif random seam",
}

CL_RULE = ("plans on a cluster client (NewClient against a simulated Redis Cluster of 2-4 shards with 0-2 replicas each, slot ranges cut at seeded points incl. "
           "slots 0, 1, 8192, 16383, single-slot ranges and unserved gaps; nodes answer CLUSTER SLOTS (6.x/7.x) or CLUSTER SHARDS (8.x) from their own, possibly stale, view; "
           "replicas with unknown ('?'), empty or NULL endpoints and fail/loading health; 1-3 InitAddress entries, PreferInitAddressRefresh, periodic refresh; SendToReplicas "
           "predicates, ReplicaOnly, replica/read-node selectors returning 0, last, slot-dependent, out-of-range and negative indices; MaxMovedRedirections 0-3; DisableRetry and "
           "logged RetryDelay functions): 2-6 tasks issuing keyed reads/writes with attributable replies through Do, DoMulti (2-8 commands over any slots), single-slot batches "
           "with a MULTI...EXEC block, DoCache, DoMultiCache and the multi-key helpers; variants: stable (no change, all views equal), change (slot moves, migrations with ASK, "
           "cancelled migrations, fail-overs with and without outage, stale bystanders, CLUSTERDOWN windows, LOADING nodes), faults (additionally resets, EOFs, lost replies, "
           "write errors, node restarts). ")

CHECKS = {
    "C01": {
        "level": "exploration",
        "rule": ("one run = one seeded plan (swarm configuration of queue type, ring size, multiplexing, buffers, pipelining mode, "
                 "RESP2/3; 2-10 tasks issuing Do/DoMulti/DoCache/DoMultiCache/Receive/blocking calls with attributable VTAG replies, "
                 "ghost PUBLISH/SET/RPUSH pushes, cancellations and deadlines) executed under one seeded schedule of starts, yields, "
                 "byte deliveries with cuts, and ticks; non-trivial = at least two calls of different tasks overlapped in time; "
                 "distinct = distinct SHA-256 of the full event log"),
        "parts": [
            {"module": "rueidis", "scenario": "pipe-mix", "quick": 24000, "thorough": 1200000},
            {"module": "rueidis", "scenario": "at-most-once", "variant": "lifetime", "quick": 3000, "thorough": 100000},
            {"module": "rueidis", "scenario": "queue-real", "quick": 4000, "thorough": 300000},
        ],
        "expected_probes": ["reply-split-across-reads", "cancel-during-call", "push-frames-on-wire"],
        "components": {"real": REAL, "stubs": STUBS},
        "assumptions": [
            "fakeredis and the VTAG reply generator are correct (replies are a pure function of argv, so attribution is by construction)",
            "ring configurations that can fill while the write buffer is small are excluded from pipe-mix (known finding under C02); the queue-real part (whole pipe under line-by-line scheduling of ring.go / flowbuffer.go, more callers than slots) applies the same reply oracle",
            "runs whose plan contains deadlines or cancellations tolerate connection-level errors on other calls; plans without them do not",
        ],
    },
    "C19": {
        "level": "exploration",
        "rule": CL_RULE + ("oracle: (stable plans) right after the first refresh the in-package slot table maps every slot of a listed shard to that shard's primary and every other slot "
                 "to nothing; the first attempt of every keyed command arrives at the primary of its slot (or, when the caller opted in, a node of that shard) and nothing is "
                 "re-sent; (all plans, judged fault-free) an attempt that was answered MOVED/ASK is followed by an attempt at exactly the named node, after ASK with ASKING in front "
                 "of it on that connection (in front of MULTI for a block); a redirect is returned to the caller only when MaxMovedRedirections is exhausted, and never more than "
                 "that many are followed; the value returned is what the last node asked answered. non-trivial = at least one call judged; distinct = distinct event-log hash"),
        "parts": [
            {"module": "rueidis", "scenario": "cluster", "quick": 1200, "thorough": 150000},
            {"module": "rueidis", "scenario": "cluster", "variant": "stable", "quick": 800, "thorough": 100000},
            {"module": "rueidis", "scenario": "cluster", "variant": "change", "quick": 800, "thorough": 100000},
        ],
        "expected_probes": ["redirect-replies-sent", "ask-redirect", "stable-topology", "changing-topology", "unlisted-or-endpointless-node", "redirect-limit-reached"],
        "components": {"real": REAL, "stubs": STUBS},
        "assumptions": [
            "keyed commands only (slot-less commands are routed by Go map iteration order, which cannot be seeded)",
            "all nodes share one host, so that the fallback for endpoint-less entries and host-less redirects (host of the answering node + listed port) is a real address",
            "a read the caller sent to a replica may be bounced to the primary once (a replica connection opened as InitAddress never sent READONLY): not counted as a re-send",
            "malformed topology replies (wrong types, short arrays) are not generated: that clause is a pure function of the reply and is left to input fuzzing",
            "a primary that never comes back is not generated (DoMulti keeps retrying read-only commands against its dead address; no listed property covers that)",
        ],
    },
    "C20": {
        "level": "exploration",
        "rule": CL_RULE + ("oracle: DoMulti / DoMultiCache return exactly one result per command; result i is the reply to command i (replies carry the command's unique id; inside an opened "
                 "MULTI...EXEC block: OK, QUEUED..., and EXEC's array of the block's replies in order); every arrival of a command of a MULTI...EXEC block at any node - first "
                 "attempt, after MOVED, after ASK - happens inside a complete contiguous copy [ASKING] MULTI c1..cn EXEC of the block on one connection, and "
                 "a block is executed at most once per call; an error reply handed to the caller of a cached read is one the cluster gave to that very command "
                 "(EXECABORT only when the command itself was not refused); variant askpair: batches of cached reads over two slots that migrate to one shard "
                 "again and again while one of the two migrations is cancelled. "
                 "non-trivial = at least one call judged; distinct = distinct event-log hash"),
        "parts": [
            {"module": "rueidis", "scenario": "cluster", "quick": 1200, "thorough": 150000},
            {"module": "rueidis", "scenario": "cluster", "variant": "change", "quick": 1000, "thorough": 100000},
            {"module": "rueidis", "scenario": "cluster", "variant": "faults", "quick": 600, "thorough": 60000},
            {"module": "rueidis", "scenario": "cluster", "variant": "askpair", "quick": 700, "thorough": 70000},
            {"module": "rueidis", "scenario": "cluster", "variant": "gapfill", "quick": 600, "thorough": 60000},
        ],
        "expected_probes": ["redirect-replies-sent", "ask-redirect", "changing-topology"],
        "components": {"real": REAL, "stubs": STUBS},
        "assumptions": [
            "a block whose MULTI the server itself refused (LOADING, CLUSTERDOWN) is not a transaction and is not judged",
            "a block cut by the loss of its connection is not judged for contiguity",
            "batches that mix slot-less commands (MULTI/EXEC) with several slots are not generated: rueidis panics on them by design",
        ],
    },
    "C21": {
        "level": "exploration",
        "rule": CL_RULE + ("oracle (cluster part): a command received by a node whose role is replica satisfies the SendToReplicas predicate of the plan (a pure function of the command) or the "
                 "client is ReplicaOnly; with a selector that returns an index outside the candidates every command lands on the primary; with an in-range replica selector and a "
                 "listed replica an opted-in command does not go to the primary; ReplicaOnly slot tables point at a listed replica of the shard when it has one. "
                 "non-trivial = at least one call judged; distinct = distinct event-log hash"),
        "parts": [
            {"module": "rueidis", "scenario": "cluster", "variant": "replicas", "quick": 1500, "thorough": 150000},
            {"module": "rueidis", "scenario": "cluster", "quick": 800, "thorough": 80000},
        ],
        "expected_probes": ["command-at-replica", "stable-topology"],
        "components": {"real": REAL, "stubs": STUBS},
        "assumptions": [
            "after a fail-over the client may still believe that the demoted node is the primary: arrivals at replicas are not judged from the first fail-over of a run on",
        ],
    },
    "C31": {
        "level": "exploration",
        "rule": CL_RULE + ("helper calls: MGet and MGetCache over 1-10 keys with duplicates spread over all shards, MDel over 1-7 keys with duplicates, MSet of one key (maps with several "
                 "entries are sent in Go map order, which would make the run unrepeatable); oracle: the returned map has exactly the distinct input keys; each entry is the value the "
                 "model stores for that key (stable plans: exactly; under topology change: that value or nil); a success reported by MDel/MSet is visible in the model (stable plans). "
                 "non-trivial = at least one call judged; distinct = distinct event-log hash"),
        "parts": [
            {"module": "rueidis", "scenario": "cluster", "variant": "helpers", "quick": 1200, "thorough": 120000},
            {"module": "rueidis", "scenario": "cluster", "variant": "helpers2", "quick": 1000, "thorough": 100000},
            {"module": "rueidis", "scenario": "cluster", "quick": 600, "thorough": 60000},
            {"module": "rueidis", "scenario": "helpers-single", "quick": 2500, "thorough": 200000},
        ],
        "expected_probes": ["stable-topology", "single-node-helpers"],
        "components": {"real": REAL, "stubs": STUBS},
        "assumptions": [
            "cluster client, and the single-node client (scenario helpers-single: all eight helpers, duplicates, missing keys, an atomic MSETNX that meets an existing key, cache enabled and disabled); the standalone and sentinel clients take the single-node client's code path for these helpers (helper.go switches on the client type) and are not run separately",
            "variant helpers2: MSet / MSetNX / JsonMSet with 1-6 entries (the library sends them in Go map order: those runs log request lengths instead of request bytes and yield identities without command text, so that the event log stays a function of the seed), JsonMGet / JsonMGetCache over preloaded documents; an existing key given to MSetNX must come back with the nil reply of its own SET NX and keep its value",
        ],
    },
    "C12": {
        "level": "exploration",
        "rule": ("one run = one seeded plan of VTAG requests whose replies are value trees of every RESP2/RESP3 type (nulls, booleans, doubles, big "
                 "numbers, verbatim and streamed strings, blob errors, attributes, arrays/sets/maps/streamed aggregates to depth 6, binary payloads "
                 "with CR/LF up to 70 kB) delivered under a seeded schedule in which (almost) every delivery is a partial cut, in a quarter of the "
                 "runs 1-3 bytes at a time, into read buffers of 32..4096 bytes; replies are compared structurally with the generated tree, and "
                 "DoStream output with the payload a normal read returns; non-trivial = at least one reply was split across reads; "
                 "distinct = distinct event-log hash"),
        "parts": [
            {"module": "rueidis", "scenario": "resp-split", "quick": 6000, "thorough": 400000},
        ],
        "expected_probes": ["reply-split-across-reads", "streaming-read"],
        "components": {"real": REAL, "stubs": STUBS},
        "assumptions": [
            "claimed for read-boundary independence (the transport nondeterminism in the property); the 'all value trees' quantifier is sampled input generation",
            "the model's RESP encoder (verifsim/resp) is correct; it shares no code with rueidis",
        ],
    },
    "C14": {
        "level": "exploration",
        "rule": ("one run = one seeded plan of 1-6 pipelining tasks sending VARGS commands with 0..1001 arguments whose lengths sit on every decimal "
                 "digit-count boundary from 0 to 1000001 and whose bytes include CR, LF and NUL, through write buffers of 32 bytes..default and "
                 "(half the runs) a bounded socket send buffer, with client-to-server hand-over cut at arbitrary offsets; the model's independent "
                 "parser must decode exactly the argv each task built, once; every other netsim scenario contributes the 'malformed frame' invariant; "
                 "non-trivial = two calls overlapped; distinct = distinct event-log hash"),
        "parts": [
            {"module": "rueidis", "scenario": "cmd-framing", "quick": 5000, "thorough": 300000},
            {"module": "rueidis", "scenario": "pipe-mix", "quick": 4000, "thorough": 100000},
        ],
        "expected_probes": ["command-written-more-than-once", "arg-len>=1000", "argc>=100", "frames-cut-on-the-wire"],
        "components": {"real": REAL, "stubs": STUBS},
        "assumptions": ["the model's command parser (verifsim/resp.ParseCommand) is strict and correct"],
    },
    "C33": {
        "level": "exploration",
        "rule": ("same plans as C14 (cmd-framing; half of the RESP3 plans also issue cached MGETs, whose CLIENT CACHING / MULTI / PTTL / rewritten MGET / EXEC commands the client builds itself from the same pool) with deadlines and cancellations on a third of the calls, tiny write buffers and a bounded socket "
                 "send buffer so that commands are still queued or half written when their caller abandons the call and immediately builds new "
                 "commands from the recycled pool; every frame the model decodes must be exactly an argv some task built; "
                 "non-trivial = two calls overlapped; distinct = distinct event-log hash"),
        "parts": [
            {"module": "rueidis", "scenario": "cmd-framing", "quick": 6000, "thorough": 300000},
            {"module": "rueidis", "scenario": "cluster", "variant": "cancel", "quick": 1500, "thorough": 150000},
        ],
        "expected_probes": ["call-abandoned-before-reply", "cancel-during-call"],
        "components": {"real": REAL, "stubs": STUBS},
        "assumptions": [
            "cluster part (variant cancel): single commands and batches over several nodes are cancelled at seeded steps while their commands sit behind a bounded socket send buffer and a small write buffer; every VKTAG/VWTAG frame a node decodes must be an argv the plan built and no node may see a malformed or emptied frame",
            "claimed for the schedule-dependent clause only (a command is never modified or recycled before it is completely written, even when the caller abandons the call); "
            "the formatting clause (base-10 integers, shortest floats, units) is a pure function of the input and is not decided here",
        ],
    },
    "C04": {
        "level": "fault_enumeration",
        "rule": ("base plans: 2-8 tasks with a pending mix of synchronous, pipelined, batched, cached (flight owners and waiters), Receive and blocking calls; "
                 "enumerated parts: for each base schedule one fault of one kind (peer EOF, reset, reset after the server executed the request, EOF in the "
                 "middle of a reply, write error, 30 s stall with keep-alive ping, or client.Close) is placed at every scheduler step boundary 0..255; "
                 "random part: 1-3 faults of all kinds (also node restart with refused dials), optional Close, deadlines and cancellations; then all faults "
                 "are healed and six fresh calls per path are issued; oracle: every call returns, a returned value is the call's own reply, the last fresh "
                 "call of each path is served (or fails with ErrClosing after Close and nothing reaches the server); "
                 "non-trivial = the fault or Close struck while a call was in flight; distinct = distinct event-log hash"),
        "parts": [
            {"module": "rueidis", "scenario": "breakage", "quick": 6000, "thorough": 400000},
            {"module": "rueidis", "scenario": "breakage", "variant": "enum:eof", "quick": 1024, "thorough": 25600},
            {"module": "rueidis", "scenario": "breakage", "variant": "enum:reset", "quick": 1024, "thorough": 25600},
            {"module": "rueidis", "scenario": "breakage", "variant": "enum:reset-after-exec", "quick": 1024, "thorough": 25600},
            {"module": "rueidis", "scenario": "breakage", "variant": "enum:eof-mid-reply", "quick": 1024, "thorough": 25600},
            {"module": "rueidis", "scenario": "breakage", "variant": "enum:werr", "quick": 1024, "thorough": 25600},
            {"module": "rueidis", "scenario": "breakage", "variant": "enum:stall", "quick": 1024, "thorough": 25600},
            {"module": "rueidis", "scenario": "breakage", "variant": "enum:close", "quick": 1024, "thorough": 25600},
        ],
        "expected_probes": ["silent-peer-detected-by-keep-alive", "fault-with-call-in-flight", "client-closed-during-run"],
        "components": {"real": REAL, "stubs": STUBS},
        "assumptions": [
            "a peer that goes silent (no EOF, no error): in half of the plans that contain one, the dedicated connection of a Receive that follows a blocking pop answered with nil is stalled for a minute once its subscription is confirmed; with KeepAlive 1 s the keep-alive ping must end that Receive with an error within KeepAlive + ConnWriteTimeout + 5 s of fake time (rule silent-peer-not-detected), its own deadline being 40 s",
            "with retries enabled a read-only call may legitimately be re-sent and succeed; 'returns an error' is therefore judged through 'a returned value must be the call's own reply'",
            "an idle connection that died silently is only noticed on use: the first fresh calls after healing may each burn one dead connection; the last of six must be served",
            "after Close a call may return its own context error instead of ErrClosing",
        ],
    },
    "C03": {
        "level": "fault_enumeration",
        "rule": ("plans: 2-5 tasks issuing non-retryable writes (VWTAG with a unique id) alone, in batches mixed with reads in any order and inside "
                 "MULTI...EXEC blocks, with retries enabled and eager RetryDelay, with and without ConnLifetime (1 s, 3 s); enumerated parts: one fault "
                 "(reset before delivery, reset after the server executed, EOF mid-reply, write error, slow server) at every step boundary 0..255 of "
                 "each base schedule; random part: 0-4 faults incl. node restart and latencies above and below the 1 s close grace; oracle: in the "
                 "model's execution log every write id is executed at most once (+ once per redirect reply sent for it); "
                 "non-trivial = the plan has writes and a fault fired or ConnLifetime is set; distinct = distinct event-log hash"),
        "parts": [
            {"module": "rueidis", "scenario": "at-most-once", "quick": 6000, "thorough": 400000},
            {"module": "rueidis", "scenario": "at-most-once", "variant": "lifetime", "quick": 2000, "thorough": 100000},
            {"module": "rueidis", "scenario": "at-most-once", "variant": "enum:reset-after-exec", "quick": 1024, "thorough": 25600},
            {"module": "rueidis", "scenario": "at-most-once", "variant": "enum:reset", "quick": 1024, "thorough": 25600},
            {"module": "rueidis", "scenario": "at-most-once", "variant": "enum:eof-mid-reply", "quick": 1024, "thorough": 25600},
            {"module": "rueidis", "scenario": "at-most-once", "variant": "enum:werr", "quick": 1024, "thorough": 25600},
            {"module": "rueidis", "scenario": "at-most-once", "variant": "enum:slow", "quick": 1024, "thorough": 25600},
            {"module": "rueidis", "scenario": "cluster", "variant": "faults", "quick": 800, "thorough": 80000},
            {"module": "rueidis", "scenario": "cluster", "variant": "change", "quick": 500, "thorough": 50000},
            {"module": "rueidis", "scenario": "sentinel-follow", "quick": 2000, "thorough": 150000},
            {"module": "rueidis", "scenario": "sentinel-follow", "variant": "lifetime", "quick": 2500, "thorough": 200000},
            {"module": "rueidis", "scenario": "cluster", "variant": "lifetime", "quick": 1500, "thorough": 100000},
            {"module": "rueidis", "scenario": "standalone-route", "quick": 2000, "thorough": 150000},
        ],
        "expected_probes": ["executed-but-unanswered", "request-lost", "conn-lifetime-configured", "connection-reached-its-lifetime"],
        "components": {"real": REAL, "stubs": STUBS},
        "assumptions": [
            "all four front-ends: single node; cluster (a non-retryable write is executed at most once however it is redirected, retried or cut by faults); sentinel and standalone with replicas (connection resets incl. reset-after-execution, fail-overs, role flips: per command id the model executed a write that is neither read-only nor retryable at most once); EnableRedirect is not exercised; ConnLifetime is exercised on the single-node client (at-most-once) and on the sentinel client (sentinel-follow variant lifetime: an unchanging deployment, lifetimes of 60 ms - 1 s, a server that answers slowly around the end of a lifetime, batches with MULTI ... EXEC blocks - some refused with EXECABORT - followed by further writes); beyond the known finding (a write still unanswered when its connection expired is sent again) those variants judge, with AlwaysPipelining, that a write whose reply the client had read from the connection is not executed again; the cluster client gets the same treatment (cluster variant lifetime: unchanging topology, the cluster scenario's mix of single commands, multi-slot batches and transaction blocks); not on the standalone client",
            "bytes the client wrote before closing a connection are still delivered to the server (as TCP does), so a re-sent command can overtake its original",
        ],
    },
    "C05": {
        "level": "exploration",
        "rule": ("plans: 3-7 tasks whose calls carry deadlines of 50 ms..8 s, manual cancellations at seeded steps, or an already-done context, while "
                 "connections are stalled for 60-120 s (both directions or replies only): waits in the pipeline (ring kept from filling, flow buffer "
                 "any size), on the synchronous path, for a blocking-pool connection (pool of 1-2 held by BLPOPs of 100-200 s; the scheduler may park "
                 "a waiter between its wait-condition check and cond.Wait while the context ends), on another caller's cache flight, and in retry "
                 "back-off (RetryDelay up to 30 s after a reset); oracle: a call returns within 3 s of fake time of its deadline/cancellation "
                 "(Dialer.Timeout is set to 1 s), and nothing of a call with an already-done context reaches the server; "
                 "non-trivial = a stall fired and at least one call with a deadline or cancellation was judged; distinct = distinct event-log hash"),
        "parts": [
            {"module": "rueidis", "scenario": "deadlines", "quick": 3000, "thorough": 200000},
            {"module": "rueidis", "scenario": "deadlines", "variant": "pool", "quick": 1500, "thorough": 100000},
            {"module": "rueidis", "scenario": "deadlines", "variant": "cache", "quick": 1000, "thorough": 100000},
            {"module": "rueidis", "scenario": "deadlines", "variant": "retry", "quick": 1000, "thorough": 100000},
            {"module": "rueidis", "scenario": "deadlines", "variant": "pipeline", "quick": 1000, "thorough": 100000},
        ],
        "expected_probes": ["stall-fired", "call-ended-by-its-deadline", "call-ended-by-its-cancellation"],
        "components": {"real": REAL, "stubs": STUBS},
        "assumptions": [
            "'shortly after' is taken as 3 s of fake time, with Dialer.Timeout = 1 s set by the scenario (a caller may wait for another caller's dial, which ignores its context) and the 1 s close grace of an aborted blocking connection",
            "ring-full waits are excluded for the ring queue (documented: the ring cannot cancel a wait for a slot); the flow buffer is exercised at every size",
        ],
    },
    "C06": {
        "level": "exploration",
        "rule": "plans on one caching client: 2-7 tasks issuing DoCache (GET/HGET/GETRANGE/HGETALL), DoMultiCache (1-6 commands with duplicates), DoCache on MGET and the MGetCache helper over 1-5 keys with duplicates, own writes, deadlines and cancellations; tracking modes OPTIN, OPTIN+NOLOOP, OPTOUT, BCAST and BCAST+PREFIX; built-in store with CacheSizeEachConn 2-8 KiB or default, or NewSimpleCacheAdapter; TTLs 40 ms..60 s; ghost writers SET/HSET/DEL/MSET/PEXPIRE/FLUSHALL with values up to 1.5 kB; optional connection loss and an injected EXECABORT or error reply in the caching transaction; every read reply of the model carries the command text and the model sequence number of the read; oracle: a value returned by a call that started after the connection processed (callback step) an invalidation of its key, a flush or a connection loss must have been read by the model after that modification; every value is the reply to exactly the command asked; non-trivial = freshness was judged and an invalidation was processed or a hit served; distinct = distinct event-log hash",
        "parts": [
                {
                        "module": "rueidis",
                        "scenario": "csc",
                        "quick": 8000,
                        "thorough": 600000
                },
                {
                        "module": "rueidis",
                        "scenario": "csc",
                        "variant": "batch",
                        "quick": 3000,
                        "thorough": 200000
                }
        ],
        "expected_probes": [
                "cache-hit-served",
                "invalidation-processed",
                "flush-invalidation",
                "connection-lost-with-cache"
        ],
        "components": {
                "real": REAL,
                "stubs": STUBS
        },
        "assumptions": [
                "freshness is judged on single-connection clients, where OnInvalidations callbacks are attributable to the caching connection; callbacks are paired one-to-one with the model's invalidation pushes (that pairing is itself checked as C27)",
                "argument vocabularies are fixed-width so command identities are unambiguous (the concatenation ambiguity of CacheKey is a pure-input matter, see C08)"
        ]
},
    "C09": {
        "level": "exploration",
        "rule": "plans on one caching client: 2-7 tasks issuing DoCache (GET/HGET/GETRANGE/HGETALL), DoMultiCache (1-6 commands with duplicates), DoCache on MGET and the MGetCache helper over 1-5 keys with duplicates, own writes, deadlines and cancellations; tracking modes OPTIN, OPTIN+NOLOOP, OPTOUT, BCAST and BCAST+PREFIX; built-in store with CacheSizeEachConn 2-8 KiB or default, or NewSimpleCacheAdapter; TTLs 40 ms..60 s; ghost writers SET/HSET/DEL/MSET/PEXPIRE/FLUSHALL with values up to 1.5 kB; optional connection loss and an injected EXECABORT or error reply in the caching transaction; every read reply of the model carries the command text and the model sequence number of the read; oracle: per connection, a second request for a cached command must not reach the server between the moment the first one was sent and the step in which its reply was delivered to the client, provided the first one's owner returned its value (not abandoned); non-trivial/distinct as C06",
        "parts": [
                {
                        "module": "rueidis",
                        "scenario": "csc",
                        "quick": 8000,
                        "thorough": 600000
                },
                {
                        "module": "rueidis",
                        "scenario": "csc",
                        "variant": "abandoned-chain",
                        "quick": 500,
                        "thorough": 20000
                }
        ],
        "expected_probes": [
                "cache-hit-served"
        ],
        "components": {
                "real": REAL,
                "stubs": STUBS
        },
        "assumptions": [
                "a flight whose owner did not return a value (cancelled, failed) is not judged; waiters receiving the owner's reply or error is judged through the identity rule of C06"
        ]
},
    "C10": {
        "level": "exploration",
        "rule": "plans on one caching client: 2-7 tasks issuing DoCache (GET/HGET/GETRANGE/HGETALL), DoMultiCache (1-6 commands with duplicates), DoCache on MGET and the MGetCache helper over 1-5 keys with duplicates, own writes, deadlines and cancellations; tracking modes OPTIN, OPTIN+NOLOOP, OPTOUT, BCAST and BCAST+PREFIX; built-in store with CacheSizeEachConn 2-8 KiB or default, or NewSimpleCacheAdapter; TTLs 40 ms..60 s; ghost writers SET/HSET/DEL/MSET/PEXPIRE/FLUSHALL with values up to 1.5 kB; optional connection loss and an injected EXECABORT or error reply in the caching transaction; every read reply of the model carries the command text and the model sequence number of the read; oracle (in-package monitor after every scheduler step): for every built-in store, the sizes of the completed entries retained sum to the accounted size, and that sum is at most CacheSizeEachConn; non-trivial/distinct as C06",
        "parts": [
                {
                        "module": "rueidis",
                        "scenario": "csc",
                        "quick": 8000,
                        "thorough": 600000
                },
                {
                        "module": "rueidis",
                        "scenario": "csc",
                        "variant": "batch",
                        "quick": 3000,
                        "thorough": 200000
                }
        ],
        "expected_probes": [
                "cache-hit-served"
        ],
        "components": {
                "real": REAL,
                "stubs": STUBS
        },
        "assumptions": [
                "the monitor runs at every quiescent point, i.e. after the goroutines that performed a cache update have run to their next blocking point",
                "eviction order (LRU-first) is not judged beyond the bound: hits refresh recency only every 1024th time by design"
        ]
},
    "C11": {
        "level": "exploration",
        "rule": "plans on one caching client: 2-7 tasks issuing DoCache (GET/HGET/GETRANGE/HGETALL), DoMultiCache (1-6 commands with duplicates), DoCache on MGET and the MGetCache helper over 1-5 keys with duplicates, own writes, deadlines and cancellations; tracking modes OPTIN, OPTIN+NOLOOP, OPTOUT, BCAST and BCAST+PREFIX; built-in store with CacheSizeEachConn 2-8 KiB or default, or NewSimpleCacheAdapter; TTLs 40 ms..60 s; ghost writers SET/HSET/DEL/MSET/PEXPIRE/FLUSHALL with values up to 1.5 kB; optional connection loss and an injected EXECABORT or error reply in the caching transaction; every read reply of the model carries the command text and the model sequence number of the read; oracle: the value at position i (or under key i) carries the text of command i (GET k and an MGET element are the same entry by design); MGetCache returns exactly the input key set; variant batch runs multiplexed connections (PipelineMultiplex 1-2); non-trivial/distinct as C06",
        "parts": [
                {
                        "module": "rueidis",
                        "scenario": "csc",
                        "variant": "batch",
                        "quick": 8000,
                        "thorough": 600000
                },
                {
                        "module": "rueidis",
                        "scenario": "csc",
                        "quick": 3000,
                        "thorough": 200000
                },
                {
                        "module": "rueidis",
                        "scenario": "cluster",
                        "quick": 800,
                        "thorough": 80000
                },
                {
                        "module": "rueidis",
                        "scenario": "cluster",
                        "variant": "helpers2",
                        "quick": 600,
                        "thorough": 60000
                }
        ],
        "expected_probes": [
                "cache-hit-served"
        ],
        "components": {
                "real": REAL,
                "stubs": STUBS
        },
        "assumptions": [
                "cluster parts: DoMultiCache batches over several nodes (also redirected with MOVED/ASK), MGetCache and JsonMGetCache; the positional rules of those calls (result i is the reply to command i, exactly the input keys, each key its own value) are the ones reported under C20 and C31 and are reported under C11 as well"
        ]
},
    "C27": {
        "level": "exploration",
        "rule": "plans on one caching client: 2-7 tasks issuing DoCache (GET/HGET/GETRANGE/HGETALL), DoMultiCache (1-6 commands with duplicates), DoCache on MGET and the MGetCache helper over 1-5 keys with duplicates, own writes, deadlines and cancellations; tracking modes OPTIN, OPTIN+NOLOOP, OPTOUT, BCAST and BCAST+PREFIX; built-in store with CacheSizeEachConn 2-8 KiB or default, or NewSimpleCacheAdapter; TTLs 40 ms..60 s; ghost writers SET/HSET/DEL/MSET/PEXPIRE/FLUSHALL with values up to 1.5 kB; optional connection loss and an injected EXECABORT or error reply in the caching transaction; every read reply of the model carries the command text and the model sequence number of the read; oracle: per caching connection the sequence of OnInvalidations callbacks equals the sequence of invalidation pushes the model sent on it (keys in order, nil for flush), never ahead of the model, plus nil at connection loss; non-trivial/distinct as C06",
        "parts": [
                {
                        "module": "rueidis",
                        "scenario": "csc",
                        "quick": 8000,
                        "thorough": 600000
                },
                {
                        "module": "rueidis",
                        "scenario": "dedicated",
                        "quick": 4000,
                        "thorough": 300000
                }
        ],
        "expected_probes": [
                "invalidation-processed",
                "multi-key-invalidation",
                "flush-invalidation",
                "connection-lost-with-cache",
                "dedicated-callback-received-invalidation"
        ],
        "components": {
                "real": REAL,
                "stubs": STUBS
        },
        "assumptions": [
                "dedicated part: before the next user's first command on a connection whose previous dedicated session had installed an invalidation callback, the model saw CLIENT TRACKING OFF and holds no tracking state for it (also reported under C25); and the callback a session installs with SetOnInvalidations (sessions that turn on BCAST tracking and then write the watched key; half of the plans also have a client-wide OnInvalidations callback) saw exactly the invalidations the server sent on that connection, in order - all those written before a reply the session received, and nothing the server did not send"
        ]
},
    "C07": {
        "level": "exploration",
        "rule": ("plans on one caching client under the fake clock: keys with server expiry none / missing / 1 ms..20 s, 1-3 tasks issuing DoCache and DoMultiCache "
                 "(per-command client TTLs 1 ms..10 s, a quarter of the plans with static TTL), time advanced only by explicit jumps of 1 ms..3 s (some of them not a whole number of milliseconds, so that a key is also read in its last millisecond: server PTTL 0) between the reads, "
                 "optionally a slow server so that request start and reply arrival differ by up to seconds; oracle: the CachePXAT of a filling reply lies in "
                 "min(request start + ttl, reply arrival + server PTTL) evaluated over the interval in which the request may have started (1 ms rounding), "
                 "every later hit on that entry reports the same CachePXAT, no call that started at or after it is served the entry as a hit, and "
                 "CachePTTL = CachePXAT - now; non-trivial = at least one expiry or hit was judged; distinct = distinct event-log hash"),
        "parts": [
            {"module": "rueidis", "scenario": "csc-ttl", "quick": 8000, "thorough": 600000},
        ],
        "expected_probes": ["hit-judged", "hit-within-5ms-of-expiry", "server-pttl-zero"],
        "components": {"real": REAL, "stubs": STUBS},
        "assumptions": [
            "a value delivered to a caller that was already waiting on the in-flight request is not judged as a stored hit even though it carries the cache mark",
            "cached nil replies (missing keys) carry no tag and are judged through the accessor consistency only",
        ],
    },
    "C02": {
        "level": "exploration",
        "engine": "microsched",
        "rule": ("unit part (queue-unit): newRing / newFlowBuffer with 2, 4 or 8 slots (ring counters optionally started just below 2^32 so the slot index wraps), "
                 "1-12 putters (up to 2*slots+2) each doing 1-4 PutOne / PutMulti(2-4) of uniquely tagged commands, one writer loop and one reader loop using "
                 "the queue exactly as pipe._backgroundWrite/_backgroundRead do; every lock acquisition, channel operation and wake-up of ring.go / flowbuffer.go "
                 "is a yield decided by the seeded scheduler and slot locks are scheduler-granted; oracle: every command reaches the writer exactly once, "
                 "per-putter order is kept, the reader is always handed the oldest written entry, each result reaches the putter that filled the slot, and the "
                 "run never ends with a putter waiting (deadlock). real part (queue-real): the real pipe over a simulated connection with the same fine yields, "
                 "more callers than slots, write buffers 32 B..default, C01 reply oracle and hang detection; "
                 "non-trivial = at least two putters/callers; distinct = distinct event-log hash"),
        "parts": [
            {"module": "rueidis", "scenario": "queue-unit", "quick": 16000, "thorough": 1500000},
            {"module": "rueidis", "scenario": "queue-real", "quick": 4000, "thorough": 300000},
            {"module": "rueidis", "scenario": "queue-real", "variant": "no-partial-flush", "quick": 2000, "thorough": 100000},
        ],
        "expected_probes": ["more-putters-than-slots", "slot-index-wrapped", "more-callers-than-slots"],
        "components": {"real": "ring.go and flowbuffer.go unmodified (unit part); all of package rueidis (real part)",
                       "stubs": {"writer/reader loops (unit part)": "harness loops following pipe's calling protocol", "slot locks": "scheduler-granted lockers through the verif NewLocker seam", "network/server (real part)": "simnet + fakeredis"}},
        "assumptions": [
            "no real-time order is demanded between different putters: a putter stalled between taking its ticket and locking its slot may be overtaken on that slot one lap later; queue order is slot order",
            "code between two yield points touches only goroutine-local state or state protected by a scheduler-granted lock",
        ],
    },
    "C24": {
        "level": "exploration",
        "engine": "microsched",
        "rule": ("unit part (pool-unit): newPool(cap 1-3) with stub wires, 2-7 users each doing 1-4 Acquire(context live / deadline 1-500 ms / cancelled at a seeded step) - hold "
                 "0-2 s of fake time - Store, wires that break while held, failing dials, idle clean-up timer, Close at a seeded step; every acquisition of the pool lock is "
                 "granted by the scheduler and all yield seams of pool.go are decisions (including the window between the wait-condition check and cond.Wait); oracle: at most "
                 "cap wires in use, no wire handed to two holders, every made wire closed by the time the pool is closed, Acquire returns within 1 s of its context's end "
                 "(time only advances when nothing can run), after Close no live wire is handed out, no Acquire/Store hangs. system part (pool-system): the real mux with "
                 "blocking commands, DoStream/DoMultiStream, Dedicated, deadlines, cancellations and connection faults; oracle: open connections <= 1 + 2*BlockingPoolSize, "
                 "after healing two rounds of 2*size+2 sequential calls per path are served, and in-package size == idle for both pools once nothing runs; "
                 "non-trivial = more users than connections (and a lock was contended); distinct = distinct event-log hash"),
        "parts": [
            {"module": "rueidis", "scenario": "pool-unit", "quick": 12000, "thorough": 1000000},
            {"module": "rueidis", "scenario": "pool-system", "quick": 5000, "thorough": 400000},
        ],
        "expected_probes": ["more-users-than-connections", "closed-during-run", "pool-probes-ran"],
        "components": {"real": "pool.go unmodified with stub wires (unit part); all of package rueidis (system part)",
                       "stubs": {"wires (unit part)": "stubWire implementing the wire interface", "pool lock": "scheduler-granted locker through the verif NewPoolLocker seam", "network/server (system part)": "simnet + fakeredis"}},
        "assumptions": ["cluster and sentinel front-ends use the same mux and pools and are not run separately"],
    },
    "C28": {
        "level": "exploration",
        "rule": ("plans: 2-6 tasks issuing read-only, retryable-marked and plain commands alone and in batches (uniform and mixed flags) whose replies are values, "
                 "ordinary errors or nil; the node answers its first 0-8 commands with LOADING; 1-4 connection faults (reset, EOF, reset after execution, EOF mid-reply, "
                 "write error, node restart with refused dials); RetryDelay is a logged harness function returning per-attempt delays of 0-2000 ms or a negative value "
                 "(stop); DisableRetry in a fifth of the plans; deadlines on a sixth of the calls; oracle from the model's per-command attempt log and the delay log: "
                 "more than one attempt only for read-only/retryable commands (for batches: all of them), never with DisableRetry, never more attempts than non-negative "
                 "delay answers + 1, none after a negative answer, none after the call's deadline; LOADING/ordinary errors/nil are returned unchanged; "
                 "non-trivial = a command was re-sent or the delay function was consulted; distinct = distinct event-log hash"),
        "parts": [
            {"module": "rueidis", "scenario": "retry-policy", "quick": 8000, "thorough": 600000},
            {"module": "rueidis", "scenario": "cluster", "variant": "change", "quick": 1000, "thorough": 100000},
            {"module": "rueidis", "scenario": "cluster", "variant": "faults", "quick": 600, "thorough": 60000},
            {"module": "rueidis", "scenario": "sentinel-follow", "quick": 2000, "thorough": 150000},
            {"module": "rueidis", "scenario": "standalone-route", "quick": 2000, "thorough": 150000},
            {"module": "rueidis", "scenario": "standalone-redirect", "quick": 2000, "thorough": 150000},
        ],
        "expected_probes": ["command-sent-more-than-once", "retry-delay-said-stop", "loading-replies", "traffic-on-redirect-target"],
        "components": {"real": REAL, "stubs": STUBS},
        "assumptions": ["single-node and cluster front-ends (cluster part: a command is re-sent after LOADING/TRYAGAIN/CLUSTERDOWN or a transport error only if it is read-only or retryable, never with DisableRetry, and at most as often as RetryDelay returned a non-negative delay for it); sentinel and standalone parts: a command is sent again after a non-redirect answer only if it is read-only or retryable (a batch: all of them) and never with DisableRetry; the RetryDelay bookkeeping is judged on the single-node and cluster clients only; standalone-redirect: a standalone client with EnableRedirect whose primary is demoted in favour of its replica during the run (writes answered with -REDIRECT, the client builds a new primary client for the target), connection faults before and after the switch - the same attempt-log rules, a batch that is sent on because one member was redirected is not counted as a retry"],
    },
    "C26": {
        "level": "exploration",
        "rule": ("plans on one RESP3 client: 2-6 tasks with overlapping Receive calls (SUBSCRIBE / PSUBSCRIBE / SSUBSCRIBE over 3 channels and 3 patterns, each with one "
                 "private marker channel so that its subscribe command is attributable), ended by deadlines, cancellations at seeded steps, (P|S)UNSUBSCRIBE of one "
                 "channel or of everything by any task, or client.Close; dedicated sessions with SetPubSubHooks; VTAG command traffic on the same connection; 4-19 ghost "
                 "PUBLISH / SPUBLISH; oracle from the model's push log with per-frame delivery steps: each callback sequence is a gap-free in-order run of the messages the "
                 "server sent for that subscription on that connection, contains every message sent after the subscribe was acknowledged and delivered before the "
                 "subscription ended, the return value is nil exactly after a covering unsubscribe / the context error / ErrClosing, hook error channels are closed with "
                 "at most one error, and command replies obey the C01 oracle; non-trivial = at least one Receive returned; distinct = distinct event-log hash"),
        "parts": [
            {"module": "rueidis", "scenario": "pubsub", "quick": 8000, "thorough": 600000},
            {"module": "rueidis", "scenario": "pubsub", "variant": "resp2", "quick": 3000, "thorough": 200000},
        ],
        "expected_probes": ["messages-delivered", "receive-ended-by-unsubscribe", "pubsub-hooks-session"],
        "components": {"real": REAL, "stubs": STUBS},
        "assumptions": [
            "part 2 (variant resp2): AlwaysRESP2, where the client keeps a second connection for its subscriptions and dials it lazily under a sync.RWMutex (pipe.r2p); that lock is acquired through the lock seam (hook commits 3ef6acd and 8d886e0) because a goroutine waiting for it is not durably blocked for synctest; same plans and oracle as part 1 (1 of 80 seeds diverged between processes in the determinism self-test)","re-subscription after connection loss is not exercised: no connection faults in this scenario",
                        "a Receive ended by its deadline is only required to have got the messages delivered at least two scheduler steps before it returned"],
    },
    "C13": {
        "level": "fault_enumeration",
        "rule": ("decoder part (resp-garbage): a well-formed RESP2/RESP3 reply stream of 1-3 value trees (all types, streamed strings and aggregates, payloads to 700 B) is damaged "
                 "by 1-2 faults - bit flip, byte overwrite with a protocol byte, truncation, type byte swap, insertion of an array header, a length field rewritten to one of "
                 "18 hostile values (-2, -2^31, -2^63, 2^63-1, 2^63, 10^20, 2^29..10^15, '-0', '+5', '1e3', empty) - and fed to readNextMessage / streamTo through a reader that "
                 "returns 1, 3, 7, 64 or all bytes per read; enumerated part: for single-frame streams every offset 0..511 for each fault kind; oracle: no panic (recover), "
                 "bytes allocated while decoding <= 64 x bytes received + 16 MiB; system part (garbage-system): the same damage applied to the pending reply stream of a live "
                 "connection of a real client under load: the process survives and every call returns; children run under a 16 GiB address-space limit; "
                 "non-trivial = a fault was applied; distinct = distinct damaged stream (decoder part) or event-log hash"),
        "parts": [
            {"module": "rueidis", "scenario": "resp-garbage", "quick": 120000, "thorough": 8000000},
            {"module": "rueidis", "scenario": "resp-garbage", "variant": "enum", "quick": 61440, "thorough": 1500000},
            {"module": "rueidis", "scenario": "garbage-system", "quick": 3000, "thorough": 200000},
        ],
        "expected_probes": ["mutation-len", "mutation-trunc", "stream-corrupted-in-flight"],
        "components": {"real": "resp.go decoder (readNextMessage, streamTo) called in-package; all of package rueidis in the system part", "stubs": STUBS},
        "assumptions": ["'far beyond the bytes received' is taken as more than 64 x received + 16 MiB", "the 'all byte sequences' quantifier is sampled input generation around well-formed streams"],
    },
    "C47": {
        "level": "fault_enumeration",
        "rule": ("plans: the product of credentials (none, password, user+password, dynamic through AuthCredentialsFn), client name, database, availability-zone discovery (off, from HELLO, from an extra INFO step), tracking options "
                 "(OPTIN, OPTIN+NOLOOP, OPTOUT, BCAST, BCAST+PREFIX, cache disabled), NO-TOUCH, NO-EVICT, library info (default, custom, disabled), AlwaysRESP2 and "
                 "servers without HELLO, on a model that enforces authentication; 2-4 tasks open the pipelined wire(s) and pooled connections; on the first one or two "
                 "connections one setup command (enumerated part: each of the setup steps 0..15; random part: a seeded one) is answered with an error or the connection is "
                 "dropped at that step; oracle: the session state the model recorded with the first user command of every connection equals the options (user, protocol, "
                 "name, database, tracking mode/prefixes/NOLOOP, NO-TOUCH, NO-EVICT, library info), RESP2 only when forced or HELLO is unknown, and no user command is sent "
                 "on a connection whose last attempt of a non-tolerated setup command failed; non-trivial = at least one connection served a user command; "
                 "distinct = distinct event-log hash"),
        "parts": [
            {"module": "rueidis", "scenario": "setup", "quick": 6000, "thorough": 400000},
            {"module": "rueidis", "scenario": "setup", "variant": "enum", "quick": 4096, "thorough": 131072},
            {"module": "rueidis", "scenario": "sentinel-follow", "quick": 1500, "thorough": 100000},
        ],
        "expected_probes": ["setup-step-failed", "server-without-hello", "sentinel-connection-with-own-settings"],
        "components": {"real": REAL, "stubs": STUBS},
        "assumptions": ["parts 1 and 2: single-node front-end. Part 3 (sentinel-follow, see C23): data nodes and sentinels take different credentials (none / password / user+password) and client names, a database is selected on data nodes; the first command after the setup exchange on every connection must find the session its class asks for (sentinel.go newSentinelOpt) and no SELECT may reach a sentinel; setup-step failures are not injected there. READONLY is judged by the cluster scenario (C21)", "credential refresh (RefreshAfter) is not exercised"],
    },
    "C25": {
        "level": "exploration",
        "rule": ("plans: 2-6 tasks mixing dedicated sessions (Dedicated(fn) and Dedicate()/cancel; optional SetPubSubHooks + SUBSCRIBE, plain SUBSCRIBE, or SetOnInvalidations + "
                 "CLIENT TRACKING ON; then WATCH, a keyed read, MULTI, 1-3 keyed writes, EXEC - every command a scheduling point) with shared-pipeline VTAG traffic and "
                 "blocking pops on a pool of 1-2 connections, ghost writers touching the watched keys, publishing and pushing; after release the retained handle is used "
                 "again (Do, DoMulti, Receive); oracle from the model's per-connection command log: between the first and last command of a session only that session's "
                 "commands appear on its connection, all of them on one connection; every use after release fails with ErrDedicatedClientRecycled; before the next user's "
                 "first command the model saw UNSUBSCRIBE if the session had subscribed and CLIENT TRACKING OFF (and no tracking state) if it had installed an invalidation "
                 "callback; non-trivial = at least one session; distinct = distinct event-log hash"),
        "parts": [
            {"module": "rueidis", "scenario": "dedicated", "quick": 6000, "thorough": 500000},
            {"module": "rueidis", "scenario": "cluster", "variant": "dedicated", "quick": 1200, "thorough": 100000},
        ],
        "expected_probes": ["session-with-hooks", "session-with-inval", "session-with-subscribe"],
        "components": {"real": REAL, "stubs": STUBS},
        "assumptions": ["single-node front-end, plus the cluster front-end's dedicated client (cluster part: Dedicate()/Dedicated(fn) sessions of 1-4 keyed commands on one slot, then Do and DoMulti through the retained handle: the session's commands arrive on one connection, calls after release fail with ErrDedicatedClientRecycled and reach no node); the sentinel dedicated client wraps the same wire as the single one", "a session that leaves MULTI open is not part of the property and is not generated"],
    },
    "C29": {
        "level": "fault_enumeration",
        "rule": ("plans: 1-3 tasks issuing DoStream / DoMultiStream(2-4) of simple, bulk, integer, double, verbatim, streamed-string, nil and error replies with payloads of "
                 "0 B..200 kB through read buffers of 32 B..default, (almost) every delivery cut; a fifth of the calls use an io.Writer that fails after 1..5000 bytes; random "
                 "part: EOF mid-reply, reset, write error placed inside in-flight replies; enumerated part: EOF-mid-reply / reset at every scheduler step 0..255 of single-task "
                 "base schedules with a seeded byte offset; oracle: each WriteTo consumes exactly one reply, the bytes written are exactly the payload (a prefix of it when the "
                 "writer or the connection fails), nil and error replies surface as errors, a WriteTo after the end consumes nothing, in-package pool accounting is back to "
                 "size == idle with no connection stored twice, and after a reply that could not be consumed completely the connection is closed and never carries another "
                 "command; non-trivial = at least one stream call returned; distinct = distinct event-log hash"),
        "parts": [
            {"module": "rueidis", "scenario": "stream", "quick": 6000, "thorough": 400000},
            {"module": "rueidis", "scenario": "stream", "variant": "enum", "quick": 2048, "thorough": 65536},
        ],
        "expected_probes": ["empty-bulk-string-streamed", "writer-failed-midway", "partial-consumption", "reply-split-across-reads"],
        "components": {"real": REAL, "stubs": STUBS},
        "assumptions": ["a failing io.Writer alone does not count as 'could not be consumed completely': the rest of that reply is discarded and the connection stays usable"],
    },
    "C35": {
        "level": "exploration",
        "rule": ("one run = one seeded plan: a configuration (expected items, false-positive rate) drawn from typical values and from the edges of what "
                 "NewBloomFilter accepts (rates from 5e-324 to the largest double below 1, 1 .. 4e9 items, bitmaps up to the 2^32-bit limit, filters of one bit; "
                 "rejected configurations are counted, not judged), 1-2 rueidis clients with one BloomFilter object each on the same key, 2-5 tasks issuing "
                 "Add/AddMulti/Exists/ExistsMulti/Count (Reset/Delete in 30% of the plans) with item lists that mix added and never-added items at seeded "
                 "positions; a SCRIPT FLUSH by another client (NOSCRIPT fallback); in 35% of the plans one connection fault (reset, eof, executed-but-unanswered, "
                 "eof inside a reply, or a stall of 0.2-30 s) placed while traffic is in flight. The real Go code runs against the model, which executes the "
                 "Lua scripts the client sends (lualite) on a sparse bitmap. oracle: an Exists/ExistsMulti that was started after an Add/AddMulti of the item "
                 "had returned nil, with no Reset/Delete that can have taken effect in between, reports the item present, one answer per key in key order; "
                 "of two non-overlapping Count calls with no Reset/Delete in between the later is not smaller. An add that returned an error is not an add; a "
                 "query that returned an error is judged only in plans without a fault. non-trivial = at least one answer judged; distinct = "
                 "distinct event-log hash"),
        "parts": [
            {"module": "rueidisprob", "scenario": "bloom", "quick": 5000, "thorough": 250000},
        ],
        "expected_probes": ["configuration-accepted", "configuration-rejected", "add-and-query-by-different-tasks", "add-and-query-by-different-clients",
                            "multi-answer-mixes-present-and-absent", "noscript-after-script-flush", "reset-or-delete-near-query", "count-positive",
                            "hash-functions>=300", "bitmap-beyond-2^31-bits"],
        "components": {"real": "package github.com/redis/rueidis/rueidisprob (sizing, murmur3 indexes, argument building, result aggregation, its Lua scripts as sent) and "
                               "github.com/redis/rueidis built from /repo's working tree with -tags verif",
                       "stubs": dict(STUBS, **{"lua": "verifsim/lualite interprets the scripts the client sends", "bitmaps": "verifsim/fakeredis cmd_prob.go: sparse pages, whole 2^32-bit range"})},
        "assumptions": [
            "fakeredis (BITFIELD/BITFIELD_RO u1 GET/SET, INCRBY, SET, DEL, GET, EVAL/EVALSHA(_RO), SCRIPT FLUSH) and lualite are correct; both have unit tests, including the shipped scripts as fixtures",
            "the quantifier over configurations and histories is sampled, not enumerated; memory stays small because bitmaps are sparse (64-byte pages), the log of sub-commands is the largest structure (<= ~30 MB in runs with ~1000 hash functions)",
            "a Reset/Delete that failed or never returned is assumed to be able to take effect at any later time",
            "restrictions that keep runs a function of their seed (each was found by the determinism self-test): one multiplexed wire per client (with several, rueidis draws the wire from util.FastRand, which the verif seam serves from one shared counter); a retry delay without jitter (same reason); one fault per plan (a second one can hit the replacement connection inside its HELLO handshake, where a polling clean-up goroutine decides when the waiting caller gets on); no socket send-buffer limit; no call deadlines (see next item)",
            "call deadlines are exercised only by the unregistered variant 'deadline' (-verif.variant=deadline): rueidisprob passes rueidis.BinaryString views of a pooled buffer as arguments and returns the buffer (zeroed) to its sync.Pool when the call returns, so a command still queued when its caller's context ends is written later with zeroed or reused arguments; what is then on the wire depends on sync.Pool and does not replay. The variant reports it as rule arguments-changed-after-return",
            "the number of hash functions and the bitmap size are read from the filter object for labels and probes only; no verdict depends on them",
        ],
    },
    "C36": {
        "level": "exploration",
        "rule": ("one run = one seeded plan on a counting Bloom filter (configurations as for C35 plus sizes up to 2^63 counters, since this constructor has no upper "
                 "limit): 2-5 tasks issuing Add/AddMulti/Remove/RemoveMulti/Exists/ExistsMulti/ItemMinCount/ItemMinCountMulti on 1-2 clients, SCRIPT FLUSH ghost, "
                 "faults as for C35. Every task removes only what its own earlier successful adds cover (per-task ledger, decided at run time), so "
                 "every removal reaching the server is paired with an earlier completed add whatever the interleaving. oracle (part 1): with L = adds of x "
                 "returned before the query started minus removals of x started before the query returned, L > 0 implies Exists reports x present and "
                 "ItemMinCount >= L, per key in order. oracle (both parts): the model's command log is replayed on the filter's hash: no HINCRBY leaves a counter "
                 "below zero, and every execution of the removal script changes the hash by exactly the complete decrements of some subset of the items it was "
                 "given, keeping all counters >= 0 - so an item whose removal would go negative changes nothing. part 2 (variant impossible) also removes items "
                 "never added and items more often than added (tiny filters in half of the plans so that counters are shared); presence is not judged there. "
                 "non-trivial = at least one query judged with L > 0, or one removal that would go negative observed; distinct = distinct event-log hash"),
        "parts": [
            {"module": "rueidisprob", "scenario": "cbloom", "quick": 3000, "thorough": 200000},
            {"module": "rueidisprob", "scenario": "cbloom", "variant": "impossible", "quick": 2000, "thorough": 100000},
        ],
        "expected_probes": ["configuration-accepted", "configuration-rejected", "add-and-query-by-different-tasks", "multiplicity>1", "noscript-after-script-flush",
                            "removal-that-would-go-negative", "removal-call-mixes-possible-and-impossible", "hash-functions>=300"],
        "components": {"real": "package github.com/redis/rueidis/rueidisprob and github.com/redis/rueidis built from /repo's working tree with -tags verif",
                       "stubs": dict(STUBS, **{"lua": "verifsim/lualite interprets the scripts the client sends"})},
        "assumptions": [
            "fakeredis (HINCRBY, HGET, HMGET, INCRBY, DECRBY, EVAL/EVALSHA) and lualite are correct; the shipped removal script is a unit-test fixture of the model",
            "the property does not say that a possible removal must take effect, nor anything about Count or Delete: not demanded",
            "restrictions that keep runs a function of their seed (each was found by the determinism self-test): one multiplexed wire per client (with several, rueidis draws the wire from util.FastRand, which the verif seam serves from one shared counter); a retry delay without jitter (same reason); one fault per plan (a second one can hit the replacement connection inside its HELLO handshake, where a polling clean-up goroutine decides when the waiting caller gets on); no socket send-buffer limit; no call deadlines (see next item)",
            "call deadlines are exercised only by the unregistered variant 'deadline' (-verif.variant=deadline): rueidisprob passes rueidis.BinaryString views of a pooled buffer as arguments and returns the buffer (zeroed) to its sync.Pool when the call returns, so a command still queued when its caller's context ends is written later with zeroed or reused arguments; what is then on the wire depends on sync.Pool and does not replay. The variant reports it as rule arguments-changed-after-return",
            "with zero hash functions (accepted by the constructor for rates above ~0.71) Remove is not issued: the shipped script would loop forever in Lua 5.1 (zero loop step); the model would report its step budget as a harness gap",
            "the removal script is recognised by the SHA-1 / text of the package's own script constant; its items are the consecutive ARGV groups of the size the client sent",
        ],
    },
    "C37": {
        "level": "exploration",
        "rule": ("one run = one seeded plan on a sliding-window Bloom filter: configurations as for C35, windows of 1 s .. 1 h including odd numbers of milli- and "
                 "microseconds, a constant server clock offset, 2-5 tasks issuing Add/AddMulti/Exists/ExistsMulti (Reset/Delete in 20% of the plans) on 1-2 clients; "
                 "the scheduler advances the fake clock in steps of window/100 .. window/2 - 1.5 ms (and 0.1 / 1 ms) between and inside calls, half of the plans have a watcher task that adds one item and keeps asking about it, so rotations (an expiring lock key "
                 "in the model) race with adds and queries; SCRIPT FLUSH ghost, faults as for C35. oracle: an Exists/ExistsMulti that was started "
                 "after an Add/AddMulti of the item had returned nil and that returned before start(add) + window/2 - 1 ms of fake time reports the item present, per key "
                 "in order, absent a Reset/Delete that can have taken effect in between (sound for any server-side instants: the add took effect no earlier than "
                 "its start, the query was evaluated no later than its return). non-trivial = at least one answer judged; distinct = distinct event-log hash"),
        "parts": [
            {"module": "rueidisprob", "scenario": "sbloom", "quick": 5000, "thorough": 250000},
        ],
        "expected_probes": ["configuration-accepted", "configuration-rejected", "rotated", "rotated>2", "judged-across-a-rotation", "judged-in-last-quarter-of-half-window",
                            "added-item-reported-absent-after-its-window", "add-and-query-by-different-clients", "noscript-after-script-flush"],
        "components": {"real": "package github.com/redis/rueidis/rueidisprob and github.com/redis/rueidis built from /repo's working tree with -tags verif",
                       "stubs": dict(STUBS, **{"lua": "verifsim/lualite interprets the scripts the client sends", "bitmaps": "verifsim/fakeredis cmd_prob.go"})},
        "assumptions": [
            "fakeredis (TIME, SET PX NX with expiry on the simulated clock, RENAME, MSET, EXISTS, BITFIELD) and lualite are correct; the shipped add script is a unit-test fixture of the model",
            "the clock is the fake clock of the run; client and server share it up to a constant offset (clock jumps are outside the property)",
            "restrictions that keep runs a function of their seed (each was found by the determinism self-test): one multiplexed wire per client (with several, rueidis draws the wire from util.FastRand, which the verif seam serves from one shared counter); a retry delay without jitter (same reason); one fault per plan (a second one can hit the replacement connection inside its HELLO handshake, where a polling clean-up goroutine decides when the waiting caller gets on); no socket send-buffer limit; no call deadlines (see next item)",
            "call deadlines are exercised only by the unregistered variant 'deadline' (-verif.variant=deadline): rueidisprob passes rueidis.BinaryString views of a pooled buffer as arguments and returns the buffer (zeroed) to its sync.Pool when the call returns, so a command still queued when its caller's context ends is written later with zeroed or reused arguments; what is then on the wire depends on sync.Pool and does not replay. The variant reports it as rule arguments-changed-after-return",
            "window/2 is half of the Duration passed to the constructor; the last millisecond before the boundary is not judged (resolution of a Redis clock and of PX; the model itself keeps nanoseconds)",
        ],
    },
    "C30": {
        "level": "exploration",
        "rule": ("plans: 1-4 Lua objects of the kinds NewLuaScript / ReadOnly / NoSha / ReadOnlyNoSha / Retryable / NoShaRetryable (a third of the SHA kinds with "
                 "WithLoadSHA1), each with its own script text; 2-6 tasks of 1-4 Lua.Exec or Lua.ExecMulti(1-4 units) calls on the same and on different objects, every "
                 "unit carrying a unique id as ARGV[1] that the body pushes to a list (read-only bodies: reads the list) and returns; script-cache states: scripts preloaded "
                 "on some nodes or on none, 0-3 ghost SCRIPT FLUSH at seeded steps, node restarts that lose the cache; half of the plans fault-free, the others with 1-3 "
                 "connection faults (reset, reset after execution, EOF, EOF mid-reply, write error, node restart with refused dials) and, in a third of them, a node that "
                 "answers its next 1-3 commands with -LOADING; "
                 "DisableRetry in a fifth of the plans; part 1 a single-node client, part 2 a cluster client over 2-3 shards (+0-1 replica) where ExecMulti loads the script "
                 "on every node through Nodes(). oracle, from the model's command log (per id: every EVAL/EVALSHA(_RO) received, its reply, whether a body ran) and from a "
                 "pass-through Client handed to lua.go that records the commands each call issued and the results it got: (1) per id the body ran at most once -- judged in "
                 "fault-free plans for every script and under faults for scripts that are neither marked retryable nor read-only, or when DisableRetry is set; (2) an Exec "
                 "of a SHA script issues EVALSHA(_RO) first and EVAL(_RO) only as its next command after that EVALSHA came back with NOSCRIPT, and the server sees an EVAL "
                 "for an id only after it answered NOSCRIPT to an EVALSHA of that id; (3) NoSha objects never cause EVALSHA(_RO); (4) read-only objects only cause _RO "
                 "commands; (5) WithLoadSHA1: no Exec issues SCRIPT LOAD after an Exec-issued SCRIPT LOAD of that object succeeded (or an ExecMulti whose loads all "
                 "succeeded returned); (6) ExecMulti returns exactly one result per LuaExec and result i is a reply the server gave to the command carrying id i; "
                 "non-trivial = an Exec went through NOSCRIPT -> EVAL or an ExecMulti of >= 2 units returned; distinct = distinct event-log hash"),
        "parts": [
            {"module": "rueidis", "scenario": "lua-exec", "quick": 20000, "thorough": 800000},
            {"module": "rueidis", "scenario": "lua-exec", "variant": "cluster", "quick": 12000, "thorough": 400000},
            {"module": "rueidis", "scenario": "lua-exec", "variant": "race", "quick": 8000, "thorough": 400000},
        ],
        "expected_probes": ["noscript-then-eval", "ghost-script-flush", "node-restart-lost-script-cache", "executed-but-unanswered",
                            "retryable-script-re-executed-after-fault", "exec-requested-sha-with-script-load", "first-exec-of-load-sha1-script-started-alone", "first-execs-of-load-sha1-script-overlapped",
                            "execmulti-loaded-script-on-several-nodes", "execmulti-spanned-nodes", "fault-free-plan",
                            "evalsha-answered-with-another-error"],
        "components": {"real": REAL, "stubs": STUBS},
        "assumptions": [
            "fakeredis' script cache, NOSCRIPT replies and Exec.ScriptRuns are correct (cross-checked per id against the RPUSHes the bodies made; a mismatch is a harness error)",
            "a re-execution after a transport error is what the caller asked for when the script is marked retryable or read-only (the client retries read-only commands) and "
            "retries are enabled: 'at most once' is not judged for those under faults",
            "Lua.sha1Mu is held across the SCRIPT LOAD round trip and a goroutine blocked on a sync.RWMutex is not durably blocked under synctest: a call on a load-SHA1 object "
            "whose SHA is still unknown is only started while no other call on that object is in flight in parts 1 and 2; part 3 (variant race: stand-alone node, 1-2 scripts "
            "that mostly use WithLoadSHA1) acquires that mutex through the lock seam of hook commit 3ef6acd instead - a scheduling point before the write lock is taken, "
            "waiters poll once per scheduling decision - so that first Execs that both read an empty SHA overlap and rule (5) is judged for them",
            "cluster part: keyed commands only; an Exec of a load-SHA1 object whose SHA is unknown would send the key-less SCRIPT LOAD to the node Go's map iteration yields "
            "first, so such calls are issued as a one-unit ExecMulti; rule (5) is therefore exercised on the single-node part only; at most 4 nodes; no slot migration; "
            "Lua.maxp and every multiplexer's parallelism are pinned to 16",
            "ConnLifetime is not set (its re-send of outstanding commands is the known finding under C03)",
            "restrictions that keep a run a function of its seed (each found by the determinism self-test): no call deadlines (a synchronous pipe arms the connection's "
            "read deadline and the context's timer for the same instant); MaxFlushDelay 0; queues of 16-64 slots (never full); one wire per node in plans that restart a "
            "node; the dead-pipe clean-up loop is run to its end inside the step in which the connection died (sched.Sim.Settle) instead of sleeping a fake millisecond "
            "per turn; util.FastRand is a function of (seed, step, n); scheduler sleeps are 1 ns longer than announced (sched.Config.TickEpsilon); for cluster plans the "
            "event-log hash is taken at the end of the workload phase (clusterClient.Close is asynchronous)",
        ],
    },
    "C41": {
        "level": "exploration",
        "rule": ("plans: 1-4 tasks, each 1-3 Pipeline / TxPipeline / Watch+TxPipeline sessions of the go-redis adapter on one shared client, 1-6 queued "
                 "methods each, Discard at a seeded point, deadlines, connection faults. echo part: methods are drawn from ALL of CoreCmdable and called through "
                 "reflection with arguments generated from the plan; the model answers every command with an error naming its global sequence number, so a "
                 "result is attributable to one command whatever its reply type. real part: typed string/hash/list/counter commands against the model, WATCH "
                 "sessions raced by ghost writers. oracle: every queued method adds exactly one command and one result; Exec returns the results in queue "
                 "order; result i carries the reply of the i-th command of the batch (element i of EXEC for transactions); the batch is contiguous on one "
                 "connection with MULTI first and EXEC last; the returned error is the first result error; EXEC answering nil is reported as TxFailedErr and "
                 "only then; after Discard nothing of the discarded part reaches the server; no panic in Exec. non-trivial = at least one batch judged; "
                 "distinct = distinct event-log hash"),
        "parts": [
            {"module": "rueidiscompat", "scenario": "compat", "quick": 4000, "thorough": 300000},
            {"module": "rueidiscompat", "scenario": "compat", "variant": "real", "quick": 3000, "thorough": 200000},
        ],
        "expected_probes": ["tx-batch", "discard-then-requeue", "watch-aborted", "watch-committed", "generated-args-rejected"],
        "components": {"real": "packages github.com/redis/rueidis/rueidiscompat and github.com/redis/rueidis built from /repo's working tree with -tags verif", "stubs": STUBS},
        "assumptions": ["arguments a go-redis program could not pass (odd key/value lists, wrongly typed variadics) may make the adapter panic while queuing; that is not judged",
                        "when Exec itself reports a transport or context error the individual results are not judged"],
    },
    "C23": {
        "level": "exploration",
        "rule": ("one run = one real sentinelClient (primary only / SendToReplicas split / ReplicaOnly) against three model sentinels and three data nodes "
                 "(one master, two replicas sharing its data) under one seeded schedule; 2-5 tasks issue attributable Do/DoMulti/DoStream/DoMultiStream/DoCache "
                 "traffic while a seeded story unfolds: failovers with +switch-master announced by each sentinel in its own time (roles first, or announcement "
                 "first so that the ROLE check meets a node that is not a master yet), role flips nobody announces, sentinels with stale or diverging views "
                 "(also before the client exists), +slave/+sdown/-sdown/+reboot/+sentinel events, loss and return of a data node or a sentinel, resets/EOFs of "
                 "single sentinel, master and replica connections (also after the server executed); then faults stop, every sentinel agrees on a final master, "
                 "+switch-master to it is delivered, the client is left to settle and four fresh writes are issued. The client's connections are labelled (in-package "
                 "connFn) with the role it opened them for. Oracle from the model's logs: every user command on the primary path (mode and SendToReplicas "
                 "predicate of the plan) arrived on a logical connection whose most recent ROLE answer the client had received before writing the command was "
                 "'master' ('slave' for the replica path), at an address some sentinel had named as master to this client before (GET-MASTER-ADDR-BY-NAME reply, "
                 "+switch-master or +reboot master event); no command without a received ROLE answer; after the delivered final +switch-master and the quiet "
                 "period every fresh write that reaches a node reaches the final master and the last one does reach it; "
                 "non-trivial = commands were judged and a +switch-master was delivered or a ROLE check refused a node; distinct = distinct event-log hash"),
        "parts": [
            {"module": "rueidis", "scenario": "sentinel-follow", "quick": 5000, "thorough": 400000},
            {"module": "rueidis", "scenario": "sentinel-follow", "variant": "calm", "quick": 1000, "thorough": 100000},
        ],
        "expected_probes": ["foreign-master-set-switch-announced", "switch-master-delivered", "role-check-refused-node", "sentinels-named-different-masters", "event-deferred-while-mutex-busy",
                            "primary-traffic-met-demoted-node", "sentinel-lost", "node-lost", "connection-lost", "liveness-judged"],
        "components": {"real": REAL, "stubs": STUBS},
        "assumptions": [
            "'that connection' is the client's logical connection to an address (one multiplexer: its pipelined connection plus its pooled connections, including "
            "connections the multiplexer re-dials to the same address without a new ROLE check); the ROLE answer counts from the step in which its last byte was delivered to the client",
            "sentinelClient.mu is a sync.Mutex held across network I/O: while a refresh is in flight or the mutex is held (both observed in-package at quiescence) sentinel events "
            "are not published, Close is not started and sentinel connections are broken only if the holder is a refresh; while a subscription goroutine has not yet sent its "
            "SUBSCRIBE, events are deferred too (two live subscriptions would run two callbacks for one event, the second blocking on the held mutex); deferred operations are never dropped; "
            "events are delivered in the step in which they are published. Role flips, view changes, node loss and data-connection faults are not gated",
            "a refresh that cannot succeed retries without pause: the main phase is cut 1200 scheduler steps after the last planned operation, then the world is repaired",
            "liveness is judged only when the final +switch-master reached a live subscription of the client and the client settled (no refresh in flight, nothing pending) within "
            "4000 scheduler steps / 30 s of idle fake time; ReplicaOnly clients and SendToReplicas=always have no primary path and are not judged for it",
            "dedicated clients and blocking commands are not part of the workload (a dedicated connection stays pinned to its node by design); RESP3 only; one wire per multiplexer",
            "pickReplica draws from the seeded util.FastRand seam",
            "determinism self-test (vcheck.py selftest determinism sentinel-follow): variant calm 200 seeds x 9 processes 0 divergent; default variant 1 of 200 seeds divergent "
            "(seed 424365, 6 of 96 repetitions under load). Source: the clean-up loop of a dead pipe (one fake millisecond per turn) races with the exit of that pipe's writer "
            "goroutine, so a caller of a connection that was reset during its HELLO is released at T or T+1 ms and one idle tick appears or not before the next lock grant; "
            "verdicts did not differ. No barrier was added here (the scheduler-level Settle barrier is to be switched on for this scenario by the lead)",
        ],
    },
    "C39": {
        "level": "exploration",
        "rule": ("plans: 2-3 real CacheAsideClients (each with its own rueidis client on one pipelined connection; lock variant per client: plain SET NX GET PX or the "
                 "UseLuaLock script, mixed within a run; ClientTTL 1/2/4 s) share one simulated Redis; 2-8 tasks issue 1-4 calls each: Get (plain or through "
                 "TypedCacheAsideClient) on 1-3 shared keys with TTLs of 2-8 s of fake time and a loader that returns a value unique to the invocation (instantly, or after "
                 "50 ms..2.5 s of fake time, optionally with OverrideCacheTTL) or fails with a unique error, and Del; the environment: ghost SET / DEL of the data keys, "
                 "a placeholder left by a process that never existed, SCRIPT FLUSH, reply cuts at any byte, connection faults (reset, EOF, reset after the server executed, "
                 "EOF mid-reply), and the silent death of one client (nothing moves on its connections any more in either direction and nobody is told, its dials are "
                 "refused, its tasks are abandoned, no Close) - in 70% of those plans at a moment when its placeholder is stored under a data key; in half of the runs fake "
                 "time only advances when nothing else can happen (tight clock). The package's three Lua scripts execute in fakeredis + lualite. After the workload every "
                 "fault is healed, max(ClientTTL) of fake time passes, and every live client issues one fresh Get per key (probe). "
                 "Oracle, from the results of all Gets, the record of all loader invocations and the model's history of every key (value after each modification, writer, "
                 "step, fake time): (1) no Get returns, with a nil error, a value carrying PlaceholderPrefix; (2) every value returned with a nil error was produced by a "
                 "loader invocation for that key, or stored under that key by the ghost writer, before the Get returned; (3) load once: every loader invocation is covered by "
                 "a lock acquisition of its own client on that key made during its Get and not needed by another invocation - one that is not, and runs while another "
                 "holder's placeholder is in place, that holder alive (liveness key present, client not killed) and loading itself, is a violation; and (tight clock only) two "
                 "loaders for one key never run at the same time because a client removed the placeholder of a holder that never lost a connection and was not killed; "
                 "(4) a Get does not give up with its context error, without having run its loader, on a healthy client, when for the last 3 s of fake time before that the "
                 "key was not locked by a live holder (it held a value, nothing, or a placeholder whose liveness key did not exist): waiters get the loaded result, and a dead "
                 "client's lock (liveness key lapsed by ClientTTL in the model) is taken over; every probe Get succeeds; (5) a Get that returns its loader's error on a healthy "
                 "client has removed its placeholder by the time it returns; (6) every Get of a client that was not killed returns. "
                 "non-trivial = two Gets of different clients on one key overlapped in time and a loader ran, or a waiter returned another call's loaded value; "
                 "distinct = distinct SHA-256 of the event log"),
        "parts": [
            {"module": "rueidisaside", "scenario": "aside", "quick": 4000, "thorough": 240000},
            {"module": "rueidisaside", "scenario": "aside", "variant": "calm", "quick": 1500, "thorough": 80000},
        ],
        "expected_probes": ["gets-of-two-clients-overlapped", "waiter-on-another-client-got-the-result", "waiter-on-same-client-got-the-result",
                            "client-died-holding-a-lock", "dead-clients-lock-released-by-another-client", "foreign-placeholder-removed", "loader-failed",
                            "lua-lock-client", "setnx-lock-client", "two-loaders-ran-concurrently-for-one-key", "get-gave-up-waiting", "script-flush-planned"],
        "components": {"real": "packages github.com/redis/rueidis/rueidisaside (aside.go, typed_aside.go, its Lua scripts) and github.com/redis/rueidis built from /repo's working tree with -tags verif",
                       "stubs": dict(STUBS, **{"Lua interpreter": "verifsim/lualite inside fakeredis (EVAL / EVALSHA / SCRIPT FLUSH)",
                                               "math/rand (client ids)": "global source seeded per run by the driver; draws serialised by the scheduler (see assumptions)"})},
        "assumptions": [
            "client ids come from the global math/rand source (aside.go randStr), not from the seeded util seam: the driver seeds it per run, and the scenario gives every client a "
            "rueidis.Client wrapper (public ClientBuilder option) that parks the caller after a DoCache miss on a data key and after the reply to a SET of a liveness key, so that "
            "concurrent draws and the choice of the winning id are scheduler decisions; the wrapper also names the calling task on the context.Background() calls the package "
            "makes (lock release), a value-only context with a nil Done channel",
            "one pipelined connection per client (PipelineMultiplex -1) and a jitter-free RetryDelay: with several wires rueidis picks the wire through util.FastRand, whose seeded seam "
            "hands out values by a global counter, and the liveness refreshes of several clients fire in the same fake instant",
            "'alive' in rule 3 means: the client was not killed and, for the first half, its liveness key exists in the model; the second half (a live holder is never taken for dead) is "
            "judged only in tight-clock runs and only for holders that never lost a connection, because otherwise a refresh delayed by the scheduler by ClientTTL/2 is a legitimate lapse",
            "the 3 s in rule 4 is a scheduling allowance of this harness (a handful of round trips, each delayable by a few ticks of at most 300 ms), not a constant of the implementation; "
            "Gets with a TTL below 3 s are therefore never judged by rule 4",
            "external removal of a lock (ghost DEL / SET, Del by a caller, the placeholder's own TTL running out under a slow loader) legitimately lets a second loader run: such "
            "pairs are counted as not judged",
            "a Get whose context ends between the server executing its lock acquisition and the reply leaves a placeholder of a live holder until its TTL; the property does not "
            "speak about it: probes that meet a live holder's placeholder are not judged",
            "freshness of returned values (client-side caching may serve a value until its invalidation arrives) and the setkey ownership check (a late loader must not overwrite a "
            "newer lock) are outside the property as stated: a setkey without the comparison is not detected",
            "loaders ignore their context (a select between a timer and ctx.Done() that become ready in the same fake instant would be resolved by the Go runtime)",
        ],
    },
    "C34": {
        "level": "exploration",
        "rule": ("plans: 1-3 Lockers of package rueidislock, each on its own rueidis client and connection to one model node (tracking OPTOUT+NOLOOP, "
                 "KeyMajority 2-3 = 3-5 keys per name, KeyValidity 1/2/5 s of fake time, ExtendInterval default or a quarter of the validity, SET PXAT or "
                 "FallbackSETPX), 2-5 tasks running 1-3 sessions 'WithContext / TryWithContext (variant force: also ForceWithContext) - hold 0..8 validities "
                 "or until the lock context ends - cancel()' on one or two lock names; half of the plans are clean, the others add ghost clients (DEL of some "
                 "or all keys of a name, PEXPIRE 1 ms, SET of a foreign value, FLUSHALL) and faults (connection reset / EOF / reset after the server "
                 "executed, stalls of a third to five validities, node restart with refused dials and script cache lost). The Lua scripts the client "
                 "sends are executed by the model (lualite); lock values come from a per-task counter behind the RandomBytes seam, so every key value "
                 "names the attempt that wrote it. A mirror of the lock keys is replayed from the model's execution log and compared with the model's "
                 "dataset after every step. For a holder H (a call that returned a context), 'owns' = keys carrying H's value; 'lost' = a key carrying "
                 "H's value expired or was deleted/overwritten by a ghost, a forced takeover or an extension that arrived after its own deadline. "
                 "Rules, evaluated at every quiescent point (every goroutine durably blocked): two-live-holders = two holders of one name have live "
                 "contexts and neither is 'lost' (names with ForceWithContext not judged); success-without-majority / released-while-live / "
                 "gave-up-keys-while-live / keys-taken-while-live = a live holder that is not 'lost' owns fewer than KeyMajority keys; "
                 "loss-not-noticed = a live holder owns fewer than KeyMajority keys for longer than KeyValidity + ExtendInterval + KeyValidity/2 + 1 s; "
                 "loss-not-noticed-when-idle (no connection fault in the run) = a holder whose keys another client deleted or overwrote is still live below its majority when nothing "
                 "but the clock can make progress - every invalidation delivered, every goroutine asleep: the notification did not cancel it, only its next extension timer can "
                 "(-sibling-call: another call of the same Locker on the name was acquiring or holding meanwhile; the notification channels are shared per Locker, name and key index); "
                 "at the end of a run that went idle (only the clock left): waiter-* = a WithContext call whose context was never cancelled is still "
                 "waiting although nobody holds the name and a majority of its keys is free (sub-rules name the cause chain: asleep-after-own-failure, "
                 "not-woken-by-same-locker-release-under-noloop, stranded-behind-failed-attempt, missed-wakeup). "
                 "non-trivial = at least one holder and at least one attempt was refused because a key was held; distinct = distinct event-log hash"),
        "parts": [
            {"module": "rueidislock", "scenario": "lock", "quick": 900, "thorough": 40000, "procs": (1, 1, 2)},
            {"module": "rueidislock", "scenario": "lock", "variant": "force", "quick": 240, "thorough": 10000, "procs": (1, 1, 2)},
            {"module": "rueidislock", "scenario": "lock", "variant": "trynext", "quick": 120, "thorough": 6000, "procs": (1, 1, 2)},
            {"module": "rueidislock", "scenario": "lock", "variant": "fresh", "quick": 600, "thorough": 30000, "procs": (1,)},
        ],
        "expected_probes": ["acquire-refused-key-held", "waiter-acquired-after-waiting", "extension-executed", "ghost-del-of-live-holder-key",
                            "holder-key-expired", "loss-noticed", "key-overwritten", "fault-fired:stall", "fault-fired:node-restart",
                            "fault-fired:reset-after-exec", "noscript-fallback"],
        "components": {"real": "package github.com/redis/rueidis/rueidislock (NewLocker, With/Try/ForceWithContext, monitors, gates, the acquire/extend/delete Lua scripts) and "
                               "package github.com/redis/rueidis built from /repo's working tree with -tags verif",
                       "stubs": dict(STUBS, **{"Lua interpreter": "verifsim/lualite executing the scripts the client sends (EVALSHA / EVAL)",
                                               "lock values (util.RandomBytes)": "per-task counter installed by the harness through the verif random seam"})},
        "assumptions": [
            "NoLoopTracking only: without NOLOOP every extension invalidates the holder's own key and the monitors' select sees timer, context and invalidation together; "
            "which case runs is a coin toss of the Go runtime that no seed controls (determinism could not be kept), so the default tracking mode is not exercised",
            "KeyMajority 1 is excluded for the same reason: lock.go starts the monitor of a refused key before try() counts the failure, and with a single key the monitor "
            "may read the counter first (spurious gate token and a second w--); with three or more keys the counter is settled before the last monitor ends",
            "WithContext calls get no deadline and no cancellation (a cancellation landing while a wake-up token is pending is again a runtime coin toss); Try/Force calls do",
            "DisableCache (polling) mode is not exercised",
            "main part and variant force set TryNextAfter far above any latency the scheduler produces, so attempts do not fail on their own 20 ms time-outs; variant "
            "trynext uses the default 20 ms / 200 ms in clean plans (that is where waiter-asleep-after-own-failure shows without any fault)",
            "unregistered exploratory variants of the scenario (not reproducible run by run, hence not parts of the check): optout (default tracking mode), maj1 (KeyMajority 1), "
            "giveup (directed at gave-up-keys-while-live: caller deadlines 3 ms after an extension timer plus connection faults; about 2 % of its runs diverge between processes)",
            "'promptly' has two readings, both checked: with a clock, KeyValidity + ExtendInterval + KeyValidity/2 + 1 s of fake time (noticing a loss only at the next extension "
            "timer passes); without one, rule loss-not-noticed-when-idle - once the invalidation of a key another client took away has been delivered and nothing but the clock can "
            "run, the holder is done (in runs without connection faults, which lose pushes)",
            "s2c deliveries end at frame boundaries (one reply or push per step) and goroutines parked under one identical identity are released together: both are needed "
            "because rueidislock reacts to pushes on several goroutines at once. Variant fresh (another client deletes a key in the step after a Locker's script set it; clock "
            "only when idle) instead delivers the reply of an acquisition and the invalidation behind it in one read: which of the acquiring goroutine and the connection's "
            "reader reaches the key's notification channel first is then the Go runtime's choice (with GOMAXPROCS 1, which the part runs with, the reader finishes its read "
            "first); the code under test must handle both orders, so the oracle does not depend on it, only replay hashes may",
            "server and client share one clock (no clock offset between Lockers and Redis)",
        ],
    },
    "C40": {
        "level": "exploration",
        "rule": ("one run = one seeded plan on package om: a HashRepository or JSONRepository (entity structs with one field of every type conv.go accepts - string, int64, "
                 "bool, pointers to them, []byte, json.RawMessage, []float32, []float64, struct / *struct / []struct / time.Time / a json.Marshaler through encoding/json - "
                 "or, for JSON, every type encoding/json round-trips, plus key, version and expiry fields) on 1-2 real rueidis clients with or without client-side caching "
                 "(RESP3 or forced RESP2); 1-2 entities that exist or not at the start (first version 0..99999999999990); 2-6 tasks each doing 2-6 of Fetch / FetchCache (TTL 50 ms..60 s) / "
                 "Save, where Save regenerates EVERY field from a salt (edge values: empty and binary strings with CR LF NUL and RESP look-alikes, 't'/'f', 3 kB strings, min/max "
                 "integers, -0, max/min/denormal floats, NaN and infinities in hash vectors, nil vs empty slices and maps, nil pointers, zero and year-9999 times) on a copy of the "
                 "entity last fetched (so two Saves without a fetch in between are based on the same version), on the very object a previous Save advanced, or on a fresh "
                 "entity with version 0; 0-3 ghost writers (content change + version bump of 1-2, DEL, SCRIPT FLUSH); reply cuts; in a third of the plans 1-2 connection faults "
                 "(reset, EOF, reset after execution, EOF mid-reply, 30 s stall, node restart with lost script cache and refused dials) on connections that carry user traffic. The save scripts run for real in fakeredis+lualite; each execution is "
                 "attributed to its Save call by a unique tag. Reference: a versioned register per key advanced in the server's execution order. Oracle: (a) an execution on an "
                 "existing key succeeds iff stored version == version of the entity passed to Save; Save returns nil iff its execution succeeded and ErrVersionMismatch iff it was "
                 "refused; at most one Save returns nil per stored version instance; (b) a successful execution answers base+1, the entity passed to Save carries base+1 "
                 "afterwards, and the raw record read back after every step that ran a script, decoded with the repository's own decoder, equals the saved entity in every "
                 "field with version base+1; (c) Fetch returns an entity equal to a reference state current at some step of the call, FetchCache one equal to some reference "
                 "state, and once every reply and push is delivered and nothing runs both return the latest state; "
                 "non-trivial = at least one stored version instance had two or more Save executions against it; distinct = distinct event-log hash"),
        "parts": [
            {"module": "om", "scenario": "om", "variant": "json", "quick": 6000, "thorough": 500000},
            {"module": "om", "scenario": "om", "variant": "hash", "quick": 6000, "thorough": 500000},
            {"module": "om", "scenario": "om", "variant": "hash,clearptr", "quick": 400, "thorough": 15000},
            {"module": "om", "scenario": "om", "variant": "hash,alias", "quick": 400, "thorough": 15000},
        ],
        "expected_probes": ["contended-version", "version-mismatch-returned", "chained-save-on-advanced-version", "noscript-fallback", "script-flush-ghost",
                            "ghost-bumped-version", "ghost-deleted-entity", "cache-hit-served", "cached-read-older-than-current", "read-saw-a-workload-save",
                            "save-failed-but-applied", "save-failed-and-refused", "fault-fired", "reply-cut"],
        "components": {"real": "package github.com/redis/rueidis/om (repositories, converters, schema, both Lua save scripts) and github.com/redis/rueidis built from /repo's working tree with -tags verif",
                       "stubs": dict(STUBS, **{"lua interpreter": "verifsim/lualite runs the save scripts; RedisJSON subset of verifsim/fakeredis (JSON.GET/SET/NUMINCRBY)"})},
        "assumptions": [
            "a Save that returned a transport error is not judged for its return value; whether it was applied is taken from the server's log (both are allowed)",
            "a Save on a key that does not exist may succeed or be refused (the property speaks of saves based on a stored version); when it succeeds the version must still be base+1",
            "equality is field-by-field: floats equal when bit-identical or ==, times by Equal; nil and empty differ, except for top-level []byte / []float32 / []float64 of a hash record (a hash field cannot tell them apart and the package does not say which comes back)",
            "JSON entities: strings are valid UTF-8, floats finite (encoding/json refuses the rest), unsigned values <= MaxInt64 (the model keeps larger integers as floats); hash entities: nested struct fields obey the same limits, top-level strings and bytes are arbitrary",
            "HashRepository.toExec ranges over a Go map, so the argument order of a hash Save differs from process to process; nothing else does: the scheduler log omits the request content hash for hash plans (sched.Config.NoPayloadHash) and the scenario logs every script call in canonical (sorted) form instead",
            "versions stay below 1e14 in the registered parts: Lua formats larger numbers as 1e+14 (variant bigver demonstrates what happens then)",
            "FetchCache freshness while writes are in flight is C06's subject; here a cached read may be any stored state, and must be the latest one only at rest",
            "SaveMulti, verless entities, expiry that fires during the run and RediSearch calls are not exercised; ghost writers only ever increase the version (no ABA)",
            "part 3 (hash,clearptr) lets top-level pointer fields of a hash entity go from a value back to nil; the other parts keep the nil-ness of each such field fixed per run so that what part 3 shows (rule nil-pointer-field-kept-old-value) does not mask anything else",
            "part 4 (hash,alias) adds callers that edit the byte slices of a fetched entity in place before building their next Save from a copy (call kind scribble); what it shows is reported under rule fetched-entity-shares-memory-with-cache",
            "plans with connection faults run the clients on the flow-buffer queue, the others on the ring or the flow buffer; a connection is eligible for a fault once it has carried a user command; the clean-up loop of a dead pipe spins for real (bounded) before it polls in simulated time (rueidis.VerifCleanupSpinBudget); the default RetryDelay is replaced by a jitter-free one; the log hash covers set-up, workload and final reads but not client.Close - each of these removes a race inside rueidis' teardown paths that the Go runtime, not the scheduler, decides (see the comments in scen_om_test.go)",
        ],
    },
    "C38": {
        "level": "exploration",
        "rule": ("plans: 2-8 tasks calling Allow / AllowN(n in 0..limit+2) / Check on 1-3 rate limiter instances (own rueidis client and connection(s) each, normally one "
                 "key prefix so identifiers are shared), 1-3 identifiers, limits 1..20, windows 50 ms..5 s of fake time crossed by scheduler ticks (tick sizes w/10, w/2, w, w+1 "
                 "put calls before, exactly on and after window boundaries), per-call WithCustomRateLimit in a third of the plans, ghost SCRIPT FLUSH; variants: connection "
                 "faults (reset, eof, reset after execution, eof inside a reply, stall; on established connections), context deadlines, a server clock offset. The real rateLimitScript runs in the model (lualite) from the EVAL/EVALSHA the client sends. "
                 "oracle (a): per (key, ResetAtMs) the n of calls with n>0 that reported Allowed add up to <= the limit. oracle (b): the history of every key (<= 40 calls, Call/"
                 "Return = scheduler steps of start / observed return) is linearizable (porcupine v1.3.0, deterministic step budget instead of a wall-clock timeout; undecided = "
                 "not judged) against a sequential fixed-window counter written from the property text: windows are identified by ResetAtMs, Remaining == max(limit - units "
                 "requested so far in that window including this call and denied ones, 0), Check adds nothing, admitted units per window <= limit, a call is counted in window W "
                 "only if it began at or before W, leaves a window only if that window is over by the time the call ends (a call exactly on the boundary may go either way), and "
                 "the window it reports contains an instant of the call. Not demanded: that a fitting request is admitted, what Check's Allowed means. A call that returned an "
                 "error or never returned is not judged; in the model it may have been counted (with its own n, once) at any later time or not at all. Violations are named by "
                 "cause: over-admission-by-late-call / window-restarted-for-late-call when the history is explained by a window (same ResetAtMs) found at zero again by a call "
                 "answered after that window had ended; request-nobody-made-was-counted when the server executed the script with arguments no call had; over-admission / "
                 "not-a-fixed-window-counter otherwise. non-trivial = a key whose judged history had calls of different tasks overlapping; distinct = distinct event-log hash"),
        "parts": [
            {"module": "rueidislimiter", "scenario": "limiter", "quick": 1800, "thorough": 40000},
            {"module": "rueidislimiter", "scenario": "limiter", "variant": "faults", "quick": 1200, "thorough": 25000},
            {"module": "rueidislimiter", "scenario": "limiter", "variant": "skew", "quick": 400, "thorough": 10000},
            {"module": "rueidislimiter", "scenario": "limiter", "variant": "deadline", "quick": 1200, "thorough": 25000},
        ],
        "expected_probes": ["window-rollover", "concurrent-calls-on-one-identifier", "request-denied", "window-filled-exactly", "call-exactly-at-window-boundary",
                            "identifier-shared-by-limiter-instances", "custom-rate-limit-used", "noscript-fallback-to-eval", "errored-call-possibly-counted"],
        "components": {"real": "packages github.com/redis/rueidis/rueidislimiter (incl. its Lua script, interpreted by verifsim/lualite) and github.com/redis/rueidis built from /repo's working tree with -tags verif",
                       "stubs": STUBS},
        "assumptions": ["fakeredis models GET, SET ... PXAT, INCRBY and key expiry (lazy, also inside a script, and active) like Redis 7; lualite interprets the script like Lua 5.1",
                        "all limiter instances live in one process and read one (fake) clock; clock differences between client machines are not explored",
                        "the server clock is at most 400 ms ahead of the clients' clock in the skew part (it may be behind by any amount): a server clock further ahead expires the keys before "
                        "the window ends and the limiter then admits more than the limit (variant skew-ahead shows it; the property does not quantify over clocks, so it is not a registered part)",
                        "plans with context deadlines run with GOMAXPROCS=1, no garbage collection during the run and a fresh buffer pool, and every deadline expires at an instant of its own, because "
                        "rueidislimiter keeps its command arguments in a sync.Pool buffer whose reuse is otherwise decided by the Go runtime",
                        "every client uses one connection (PipelineMultiplex -1): with several, the wire of each command comes from util.FastRand, and callers woken by one delivery that "
                        "send a follow-up command (NOSCRIPT, then EVAL) draw from the seeded stand-in in an order chosen by the Go runtime; connections of different limiter instances still interleave",
                        "faults strike connections that have finished their handshake and carried workload commands, and in the faults part every task has a limiter instance (connection) of its own, so a "
                        "broken connection has at most one caller in flight; the log hash covers the workload phase, not the closing of the clients afterwards. Residual: the teardown of a broken pipe inside "
                        "rueidis (writer and reader contending for a ring slot) occasionally adds a lock-grant event: 2 divergent log hashes in 300 seeds x 9 processes of the faults part under heavy machine "
                        "load, none in 200 x 9 of each other part; verdicts do not depend on it, and a replay whose hash differs is reported by the driver as exit 2, never as a verdict",
                        "the step budget of the linearizability search (20000 model steps, at most 256 alternative states) is deterministic; porcupine's wall-clock timeout is not used because it would be a timer "
                        "of the fake clock of the bubble the check runs in; budget exhausted = verdict Unknown = counted as not judged (linearizability-undecided)"],
    },
}

# ---- C21: sentinel + standalone parts (builder ag-sentinel), added to the entry that holds the cluster part ----
_C21_SS = {
    "rule": ("standalone part (standalone-route): 1-3 standalone clients with 1-3 configured replicas (the model's primary and replicas share one dataset), SendToReplicas "
                 "predicates that are pure functions of the command (read-only flag, a marker in the arguments, always, never; every call is logged), with and without "
                 "EnableReplicaAZInfo (= non-empty / empty candidate list), with and without a constant ReadNodeSelector returning 0, an in-range replica index, one past the "
                 "end, far out or a negative number; 2-5 tasks issue Do, DoMulti (uniform and mixed opt-in), DoStream, DoMultiStream, DoCache and Receive with attributable "
                 "commands; a third of the plans reset connections. Oracle: a command the model received on a configured replica (role slave) belongs to a call for "
                 "which the predicate is true for every command; when the selector's result lies outside the candidate list it was given, every command of that client is "
                 "received by the primary. sentinel part (sentinel-follow, see C23): a command received on a connection the client opened as replica connection, or on a "
                 "node that had answered ROLE as slave on that connection, belongs to a call for which SendToReplicas is true for every command or the client is ReplicaOnly; "
                 "non-trivial = commands were judged and a replica served one, a batch had partial opt-in, or a selector result was out of range; distinct = distinct event-log hash"),
    "parts": [
        {"module": "rueidis", "scenario": "standalone-route", "quick": 5000, "thorough": 300000},
        {"module": "rueidis", "scenario": "sentinel-follow", "quick": 2500, "thorough": 100000},
        {"module": "rueidis", "scenario": "sentinel-follow", "variant": "lifetime", "quick": 2500, "thorough": 100000},
    ],
    "expected_probes": ["replica-served", "batch-with-partial-opt-in", "selector-negative", "selector-past-the-end", "selector-empty-candidate-list",
                        "selector-chose-replica", "stream-on-replica", "batch-on-replica", "streamed-batch-at-replica"],
    "assumptions": [
        "standalone part: standalone.pick uses the unseedable math/rand/v2 when several replicas are configured without a selector: such plans always carry a selector, and selectors are constant functions",
        "sentinel part: a node that was demoted after the client's ROLE check may receive primary-path commands until the client learns of it; that is counted, not judged",
        "standalone part: cached reads of the standalone client always go to the primary; that is allowed by the property (replicas only WITH opt-in, not always with opt-in)",
        "standalone part: EnableRedirect (which excludes ReplicaAddress) is not exercised",
    ],
}
if "C21" in CHECKS:
    CHECKS["C21"]["rule"] = CHECKS["C21"]["rule"] + " || " + _C21_SS["rule"]
    CHECKS["C21"]["parts"] = CHECKS["C21"]["parts"] + _C21_SS["parts"]
    CHECKS["C21"]["expected_probes"] = CHECKS["C21"].get("expected_probes", []) + _C21_SS["expected_probes"]
    CHECKS["C21"]["assumptions"] = CHECKS["C21"].get("assumptions", []) + _C21_SS["assumptions"]
else:
    CHECKS["C21"] = dict(_C21_SS, level="exploration", components={"real": REAL, "stubs": STUBS})
# ---- end of the ag-sentinel block ----
