// Package sched is the seeded scheduler of the simulation ("S"). It must run
// as the main goroutine of a testing/synctest bubble. It owns the PRNG; every
// choice (which task starts, which bytes move, when a fault strikes, when time
// advances) is drawn here, at quiescence, and logged.
package sched

import (
	"context"
	"crypto/sha256"
	"encoding/hex"
	"fmt"
	"io"
	"math/rand/v2"
	"os"
	"sort"
	"sync"
	"testing/synctest"
	"time"

	"verifsim/fakeredis"
	"verifsim/simnet"
)

// Weights of the event kinds when S chooses among enabled events.
type Weights struct {
	Start, Resume, C2S, S2C, Dial, Ghost, Cancel, Tick, SrvClose, User float64
}

// DefaultWeights is a reasonable mix.
var DefaultWeights = Weights{Start: 3, Resume: 4, C2S: 4, S2C: 4, Dial: 4, Ghost: 1.5, Cancel: 0.7, Tick: 0.4, SrvClose: 2, User: 2}

// Config tunes one run.
type Config struct {
	W          Weights
	CutProb    float64         // probability that an s2c delivery is a partial cut
	C2SCutProb float64         // probability that a c2s hand-over is partial
	MaxSteps   int             // hard cap on scheduler steps
	DrainBound time.Duration   // fake time S is willing to idle (only ticks enabled) before declaring the run stuck
	TickSizes  []time.Duration // tick durations to choose from
	KeepTape   bool            // keep the full event log in memory (replay files, debugging)
	DialRefuseProb float64     // probability that a pending dial is refused instead of accepted (fault configs)
	// TickEpsilon > 0 lengthens every sleep of the scheduler by that much (use 1 ns). Timers of the code under test
	// are armed at scheduler instants with durations that are multiples of a microsecond; without the offset a
	// scheduler tick regularly ends at exactly the instant such a timer is due (a 100 ms retry delay armed in the step
	// of a fault against ten idle ticks of 10 ms), and whether that timer's goroutine has run when synctest.Wait
	// returns to the scheduler is the Go runtime's choice. With the offset the scheduler's instants are never a
	// timer's instant (fewer than 1000 ticks per run), so every timer due before a tick's end has fired and its
	// goroutine has run to its next durable block before the scheduler looks.
	TickEpsilon time.Duration
	// S2CFrameWise makes every s2c delivery end at the latest at the end of the first undelivered frame (reply or
	// push), so that a client never receives two frames in one step. Scenarios whose client code reacts to pushes on
	// several goroutines (invalidation-driven wake-ups) need it for determinism. Off by default.
	S2CFrameWise bool
	// GroupResume releases all goroutines parked under one identical identity with a single resume event. Goroutines
	// with equal identities are interchangeable by definition, but which of them arrived first is decided by the Go
	// runtime: releasing "the i-th" would leak that order into the execution (several per-key goroutines of one lock
	// holder retrying through a dead connection). Off by default.
	GroupResume bool
	// NoPayloadHash leaves the content hash out of the c2s log lines (lengths stay). For code under test whose request
	// bytes depend on Go map iteration order while everything else does not; the scenario then logs the requests in a
	// canonical form itself.
	NoPayloadHash bool
}

// Link ties the client end and the server end of one connection.
type Link struct {
	ID        int
	C         *simnet.Conn
	S         *fakeredis.SrvConn
	StallS2C  time.Time // no s2c delivery before this instant
	StallC2S  time.Time
	SrvClosed bool // server side torn down
	CutAfter  int  // >=0: after this many more s2c bytes the server end closes (eof fault)
	CutKind   string
	Dead      bool // nothing more will ever move on this link
	// statistics
	S2CCuts   int // deliveries that ended inside a frame
	Delivered int
	lastPending int
	frameIdx    int // S2CFrameWise: first frame of S.OutLog that is not completely delivered
	frameEnd    int // S2CFrameWise: cumulative size of the frames before frameIdx plus that frame
	AcceptedAt         time.Time
	AcceptStep         int // scheduler step of the dial event that created the connection
	DeliveryLog        []Delivery // cumulative bytes delivered to the client after each s2c event
	ClientClosedAt     time.Time // when the server side noticed that the client had closed the connection
	UndeliveredAtClose int       // reply bytes the server still had to deliver at that moment
	EndedAt            time.Time // when the connection ended, whoever ended it
	EndStep            int       // scheduler step at which it ended (0 = still open)
	UndeliveredAtEnd   int       // reply bytes that were never delivered
}

// Delivery records the cumulative number of reply bytes delivered to the client by the end of a step.
type Delivery struct {
	Step, Cum int
	At        time.Time
}

// DeliveredStep returns the step at which the first n bytes of the server's output had been delivered (-1 if never).
// DeliveredAt returns the fake time at which the first n bytes of the server's output had been delivered.
func (l *Link) DeliveredAt(n int) (time.Time, bool) {
	for _, d := range l.DeliveryLog {
		if d.Cum >= n {
			return d.At, true
		}
	}
	return time.Time{}, false
}

func (l *Link) DeliveredStep(n int) int {
	for _, d := range l.DeliveryLog {
		if d.Cum >= n {
			return d.Step
		}
	}
	return -1
}

// Parked is a goroutine waiting at a yield point.
type Parked struct {
	ID  string
	seq int
	ch  chan struct{}
}

// Call is one API call of a workload task.
type Call struct {
	Name        string
	Run         func(ctx context.Context, rec *CallRec) any
	Timeout     time.Duration // context deadline relative to start (0 = none)
	Cancelable  bool          // S may cancel the context while the call is in flight
	CancelAfter int           // minimum steps after start before a cancel event is enabled
	Background  bool          // use context.Background() (no Done channel) unless Timeout/Cancelable
}

// CallRec records one executed call.
type CallRec struct {
	Task, Index int
	Name        string
	StartStep   int
	EndStep     int // step in which S observed the return (-1 while running)
	StartAt     time.Time
	EndAt       time.Time
	Deadline    time.Time
	CancelStep  int // step at which S cancelled the context (-1 = never)
	CancelAt    time.Time
	Result      any
	Done        bool
	Hung        bool // still running when the workload phase ended (after healing and the drain bound); set by the harness
	cancel      context.CancelFunc
	Ctx         context.Context
	Notes       map[string]any
}

// Task is a workload goroutine executing its calls in order, each when S says so.
type Task struct {
	ID      int
	Name    string
	Calls   []Call
	next    int
	cur     *CallRec
	Recs    []*CallRec
	startCh chan *CallRec
	exited  bool
	Hold    bool // while set, S does not start further calls of this task
}

// GhostOp is an action of the environment (another Redis client, an operator) applied directly to the model.
type GhostOp struct {
	Name     string
	Do       func(s *Sim)
	MinStep  int
	Done     bool
	DoneStep int
}

// Fault is a planned fault.
type Fault struct {
	Kind         string
	AtStep       int           // earliest step
	NeedInflight bool          // wait until some link has in-flight traffic
	Pick         int           // target selector (index modulo eligible targets)
	Dur          time.Duration // stall / slow / down duration
	Arg          int
	Fired        bool
	FiredStep    int
	FiredAt      time.Time // fake time at which it fired
	Target       string
	Note         string
}

type taskKey struct{}

// TaskID extracts the workload task identity carried by a context ("" if none).
func TaskID(ctx context.Context) string {
	if ctx == nil {
		return ""
	}
	if v, ok := ctx.Value(taskKey{}).(string); ok {
		return v
	}
	return ""
}

// WithTask tags a context with a task identity.
func WithTask(ctx context.Context, id string) context.Context {
	return context.WithValue(ctx, taskKey{}, id)
}

// Sim is one simulated execution.
type Sim struct {
	Seed   uint64
	R      *rand.Rand
	Cfg    Config
	W      *fakeredis.World
	Net    *simnet.Net
	Links  []*Link
	Tasks  []*Task
	Ghosts []*GhostOp
	Faults []*Fault
	Step   int
	Start  time.Time

	mu      sync.Mutex
	parked  []*Parked
	parkSeq int

	hash  interface{ io.Writer; Sum([]byte) []byte }
	Tape  []string
	Stats map[string]int

	// UserEvents lets a scenario contribute extra enabled events each step.
	UserEvents func(s *Sim) []Event
	// OnStep is called after every event, at quiescence (invariant checks).
	OnStep func(s *Sim) error
	// Settle, when set, is called at quiescence before the returns of the last step are collected. It may let fake
	// time pass (time.Sleep + synctest.Wait) so that work which free-running goroutines finish "a little later" in
	// some processes and at once in others belongs to the same step in all of them.
	Settle func(s *Sim)
	// OnAccept lets the scenario veto or decorate accepted connections.
	OnAccept func(s *Sim, l *Link)
	// DialPolicy decides about a pending dial: "accept", "refuse", "hang".
	DialPolicy func(s *Sim, d *simnet.Dial) string

	idleFor   time.Duration
	Stuck     bool
	StopReason string
	refuseDials int
	hangDials   int
	downUntil  map[string]time.Time
	Violations []string
	hung       []*simnet.Dial
	// ByteWise makes partial deliveries tiny (1-3 bytes) for small pending amounts.
	ByteWise bool
	down       bool
	lockers    []*Locker
	// Corrupt damages a pending reply stream (fault kind "corrupt"); set by the scenario.
	Corrupt func(out []byte, arg int) []byte
	// Identify names the calling goroutine for lock-wait identities (set by the harness).
	Identify func() string
	// SortLockers makes the scheduler look at lockers in the order of their names instead of their creation order.
	// For harnesses that rename lockers canonically because creation order is not a function of the seed (pools of
	// multiplexers that a cluster client creates in Go map order). Off by default.
	SortLockers bool
}

// Locker is a sync.Locker whose contended (or, with Always, every) acquisition is granted by the scheduler.
// A goroutine waiting for it is durably blocked on a channel, and who gets the lock next is an S decision.
type Locker struct {
	s       *Sim
	Name    string
	Always  bool
	held    bool
	waiters []*lockWaiter
}

type lockWaiter struct {
	id  string
	seq int
	ch  chan struct{}
}

// NewLocker creates a scheduler-aware locker. Lockers are named by creation order.
func (s *Sim) NewLocker(always bool) *Locker {
	s.mu.Lock()
	defer s.mu.Unlock()
	l := &Locker{s: s, Name: fmt.Sprintf("L%d", len(s.lockers)), Always: always}
	s.lockers = append(s.lockers, l)
	return l
}

func (l *Locker) Lock() {
	s := l.s
	s.mu.Lock()
	if !l.held && (!l.Always || s.down) {
		l.held = true
		s.mu.Unlock()
		return
	}
	s.mu.Unlock()
	id := "?"
	if s.Identify != nil {
		id = s.Identify()
	}
	s.mu.Lock()
	if !l.held && s.down {
		l.held = true
		s.mu.Unlock()
		return
	}
	w := &lockWaiter{id: id, seq: s.parkSeq, ch: make(chan struct{})}
	s.parkSeq++
	l.waiters = append(l.waiters, w)
	s.mu.Unlock()
	<-w.ch
}

func (l *Locker) Unlock() {
	s := l.s
	s.mu.Lock()
	l.held = false
	if s.down && len(l.waiters) > 0 {
		w := l.waiters[0]
		l.waiters = l.waiters[1:]
		l.held = true
		close(w.ch)
	}
	s.mu.Unlock()
}

var liveLog = os.Getenv("VERIF_LIVE") != ""

// LockWaiters lists, for every held locker that has waiters, the identities waiting for it.
func (s *Sim) LockWaiters() map[string][]string {
	s.mu.Lock()
	defer s.mu.Unlock()
	out := map[string][]string{}
	for _, l := range s.lockers {
		if l.held && len(l.waiters) > 0 {
			for _, w := range l.waiters {
				out[l.Name] = append(out[l.Name], w.id)
			}
		}
	}
	return out
}

// Event is one enabled scheduling choice.
type Event struct {
	Kind   string
	Key    string
	Weight float64
	Do     func()
}

// New creates a simulation. Must be called inside the bubble.
func New(seed uint64, cfg Config) *Sim {
	if cfg.MaxSteps == 0 {
		cfg.MaxSteps = 4000
	}
	if cfg.DrainBound == 0 {
		cfg.DrainBound = 5 * time.Minute
	}
	if len(cfg.TickSizes) == 0 {
		cfg.TickSizes = []time.Duration{time.Millisecond, 10 * time.Millisecond, 100 * time.Millisecond, 300 * time.Millisecond}
	}
	if cfg.W == (Weights{}) {
		cfg.W = DefaultWeights
	}
	s := &Sim{Seed: seed, R: rand.New(rand.NewPCG(seed, 0x9e3779b97f4a7c15)), Cfg: cfg, Net: simnet.NewNet(), Stats: map[string]int{}, Start: time.Now(), downUntil: map[string]time.Time{}}
	s.W = fakeredis.NewWorld(time.Now)
	s.Net.StepFn = func() int { return s.Step }
	s.hash = sha256.New()
	s.logf("seed %d", seed)
	return s
}

func (s *Sim) logf(format string, a ...any) {
	line := fmt.Sprintf(format, a...)
	io.WriteString(s.hash, line)
	io.WriteString(s.hash, "\n")
	if s.Cfg.KeepTape {
		s.Tape = append(s.Tape, line)
	}
	if liveLog {
		println("TAPE", line)
	}
}

// Logf adds a line to the event log (and therefore to the log hash).
func (s *Sim) Logf(format string, a ...any) { s.logf(format, a...) }

// LogHash returns the SHA-256 of the event log so far.
func (s *Sim) LogHash() string { return hex.EncodeToString(s.hash.Sum(nil)) }

// Elapsed is the fake time since the simulation started.
func (s *Sim) Elapsed() time.Duration { return time.Since(s.Start) }

// Intn draws from the scheduler's PRNG (only call from S's goroutine).
func (s *Sim) Intn(n int) int { return s.R.IntN(n) }

// Park blocks the calling goroutine until S resumes it. Called from yield hooks.
func (s *Sim) Park(id string) {
	p := &Parked{ID: id, ch: make(chan struct{})}
	s.mu.Lock()
	if s.down {
		s.mu.Unlock()
		return
	}
	p.seq = s.parkSeq
	s.parkSeq++
	s.parked = append(s.parked, p)
	s.mu.Unlock()
	<-p.ch
}

// AddTask registers a workload task and starts its goroutine.
func (s *Sim) AddTask(name string, calls []Call) *Task {
	t := &Task{ID: len(s.Tasks), Name: name, Calls: calls, startCh: make(chan *CallRec)}
	s.Tasks = append(s.Tasks, t)
	go func() {
		for rec := range t.startCh {
			c := t.Calls[rec.Index]
			res := c.Run(rec.Ctx, rec)
			s.mu.Lock()
			rec.Result = res
			rec.EndAt = time.Now()
			rec.Done = true
			s.mu.Unlock()
		}
		s.mu.Lock()
		t.exited = true
		s.mu.Unlock()
	}()
	return t
}

// AppendCalls adds calls to a task (S side).
func (t *Task) AppendCalls(c ...Call) { t.Calls = append(t.Calls, c...) }

// Remaining reports calls not yet started.
func (t *Task) Remaining() int { return len(t.Calls) - t.next }

// Running returns the in-flight call record, if any.
func (t *Task) Running() *CallRec { return t.cur }

func (s *Sim) startCall(t *Task) {
	c := t.Calls[t.next]
	rec := &CallRec{Task: t.ID, Index: t.next, Name: c.Name, StartStep: s.Step, EndStep: -1, CancelStep: -1, StartAt: time.Now()}
	t.next++
	base := context.Background()
	ctx := WithTask(base, fmt.Sprintf("t%d", t.ID))
	switch {
	case c.Timeout > 0:
		rec.Deadline = time.Now().Add(c.Timeout)
		ctx, rec.cancel = context.WithDeadline(ctx, rec.Deadline)
	case c.Cancelable:
		ctx, rec.cancel = context.WithCancel(ctx)
	}
	rec.Ctx = ctx
	t.cur = rec
	t.Recs = append(t.Recs, rec)
	t.startCh <- rec
}

// collect notices calls that returned during the last step.
func (s *Sim) collect() {
	s.mu.Lock()
	defer s.mu.Unlock()
	for _, t := range s.Tasks {
		if t.cur != nil && t.cur.Done {
			t.cur.EndStep = s.Step
			if t.cur.cancel != nil {
				t.cur.cancel()
			}
			s.logf("  ret t%d#%d", t.ID, t.cur.Index)
			t.cur = nil
		}
	}
}

// AllTasksDone reports whether every task has run all its calls.
func (s *Sim) AllTasksDone() bool {
	for _, t := range s.Tasks {
		if t.cur != nil || (t.next < len(t.Calls) && !t.Hold) {
			return false
		}
	}
	return true
}

// LinkOf returns the link of a connection id.
func (s *Sim) LinkOf(id int) *Link {
	if id >= 0 && id < len(s.Links) {
		return s.Links[id]
	}
	return nil
}

func (s *Sim) inflight(l *Link) bool {
	if l.Dead || l.SrvClosed {
		return false
	}
	return l.C.PendingWritten() > 0 || len(l.S.Out) > 0 || l.S.PendingInput() > 0
}

// enabled builds the canonical list of enabled events.
func (s *Sim) enabled() []Event {
	var evs []Event
	w := s.Cfg.W
	now := time.Now()
	for _, t := range s.Tasks {
		t := t
		if t.cur == nil && t.next < len(t.Calls) && !t.Hold {
			evs = append(evs, Event{Kind: "start", Key: fmt.Sprintf("t%d#%d", t.ID, t.next), Weight: w.Start, Do: func() { s.startCall(t) }})
		}
		if rec := t.cur; rec != nil && rec.cancel != nil && rec.CancelStep < 0 && t.Calls[rec.Index].Cancelable && s.Step >= rec.StartStep+t.Calls[rec.Index].CancelAfter {
			evs = append(evs, Event{Kind: "cancel", Key: fmt.Sprintf("t%d#%d", t.ID, rec.Index), Weight: w.Cancel, Do: func() {
				rec.CancelStep = s.Step
				rec.CancelAt = time.Now()
				rec.cancel()
			}})
		}
	}
	s.mu.Lock()
	parked := append([]*Parked(nil), s.parked...)
	s.mu.Unlock()
	sort.SliceStable(parked, func(i, j int) bool {
		if parked[i].ID != parked[j].ID {
			return parked[i].ID < parked[j].ID
		}
		return parked[i].seq < parked[j].seq
	})
	if s.Cfg.GroupResume {
		for i := 0; i < len(parked); {
			j := i
			for j < len(parked) && parked[j].ID == parked[i].ID {
				j++
			}
			group := parked[i:j]
			evs = append(evs, Event{Kind: "resume", Key: group[0].ID, Weight: w.Resume, Do: func() {
				s.mu.Lock()
				for _, p := range group {
					for k, q := range s.parked {
						if q == p {
							s.parked = append(s.parked[:k], s.parked[k+1:]...)
							break
						}
					}
				}
				s.mu.Unlock()
				for _, p := range group {
					close(p.ch)
				}
			}})
			i = j
		}
		parked = nil
	}
	for i, p := range parked {
		p := p
		key := p.ID
		if i > 0 && parked[i-1].ID == p.ID {
			key = fmt.Sprintf("%s~%d", p.ID, i)
		}
		evs = append(evs, Event{Kind: "resume", Key: key, Weight: w.Resume, Do: func() {
			s.mu.Lock()
			for j, q := range s.parked {
				if q == p {
					s.parked = append(s.parked[:j], s.parked[j+1:]...)
					break
				}
			}
			s.mu.Unlock()
			close(p.ch)
		}})
	}
	s.mu.Lock()
	lockers := s.lockers
	if s.SortLockers {
		lockers = append([]*Locker(nil), s.lockers...)
		sort.SliceStable(lockers, func(i, j int) bool { return lockers[i].Name < lockers[j].Name })
	}
	for _, l := range lockers {
		l := l
		if l.held || len(l.waiters) == 0 {
			continue
		}
		ws := append([]*lockWaiter(nil), l.waiters...)
		sort.SliceStable(ws, func(i, j int) bool {
			if ws[i].id != ws[j].id {
				return ws[i].id < ws[j].id
			}
			return ws[i].seq < ws[j].seq
		})
		for i, w := range ws {
			w := w
			evs = append(evs, Event{Kind: "grant", Key: fmt.Sprintf("%s>%s/%d", l.Name, w.id, i), Weight: s.Cfg.W.Resume, Do: func() {
				s.mu.Lock()
				for j, q := range l.waiters {
					if q == w {
						l.waiters = append(l.waiters[:j], l.waiters[j+1:]...)
						break
					}
				}
				l.held = true
				s.mu.Unlock()
				close(w.ch)
			}})
		}
	}
	s.mu.Unlock()
	dials := s.Net.PendingDials()
	sort.SliceStable(dials, func(i, j int) bool {
		if dials[i].Addr != dials[j].Addr {
			return dials[i].Addr < dials[j].Addr
		}
		if dials[i].Tag != dials[j].Tag {
			return dials[i].Tag < dials[j].Tag
		}
		return dials[i].Seq < dials[j].Seq
	})
	for i, d := range dials {
		d := d
		evs = append(evs, Event{Kind: "dial", Key: fmt.Sprintf("%s/%s/%d", d.Addr, d.Tag, i), Weight: w.Dial, Do: func() { s.decideDial(d) }})
	}
	for _, l := range s.Links {
		l := l
		if l.Dead {
			continue
		}
		if !l.SrvClosed {
			if n := l.C.PendingWritten(); n > 0 && !now.Before(l.StallC2S) {
				evs = append(evs, Event{Kind: "c2s", Key: fmt.Sprintf("c%d", l.ID), Weight: w.C2S, Do: func() { s.doC2S(l) }})
			}
			if len(l.S.Out) > 0 && !now.Before(l.StallS2C) && !l.C.ClientClosed() {
				evs = append(evs, Event{Kind: "s2c", Key: fmt.Sprintf("c%d", l.ID), Weight: w.S2C, Do: func() { s.doS2C(l) }})
			}
			if l.C.ClientClosed() && l.C.PendingWritten() == 0 {
				evs = append(evs, Event{Kind: "srvclose", Key: fmt.Sprintf("c%d", l.ID), Weight: w.SrvClose, Do: func() { s.closeServerSide(l) }})
			}
		}
	}
	for i, g := range s.Ghosts {
		g := g
		if !g.Done && s.Step >= g.MinStep {
			evs = append(evs, Event{Kind: "ghost", Key: fmt.Sprintf("g%d:%s", i, g.Name), Weight: w.Ghost, Do: func() {
				g.Done = true
				g.DoneStep = s.Step
				g.Do(s)
				s.flushAllBroadcast()
			}})
			break // ghost operations are applied in plan order
		}
	}
	if s.UserEvents != nil {
		for _, e := range s.UserEvents(s) {
			if e.Weight == 0 {
				e.Weight = w.User
			}
			evs = append(evs, e)
		}
	}
	return evs
}

func (s *Sim) flushAllBroadcast() {
	for _, a := range s.W.NodeAddrs() {
		s.W.Nodes[a].DBs.FlushBroadcast()
	}
}

func (s *Sim) decideDial(d *simnet.Dial) {
	decision := "accept"
	if s.DialPolicy != nil {
		decision = s.DialPolicy(s, d)
	}
	n := s.W.Nodes[d.Addr]
	if n == nil || n.Down || time.Now().Before(s.downUntil[d.Addr]) {
		decision = "refuse"
	}
	if decision == "accept" && s.refuseDials > 0 {
		s.refuseDials--
		decision = "refuse"
		s.Stats["fault.dial_refused"]++
	}
	if decision == "accept" && s.Cfg.DialRefuseProb > 0 && s.R.Float64() < s.Cfg.DialRefuseProb {
		decision = "refuse"
		s.Stats["fault.dial_refused"]++
	}
	switch decision {
	case "refuse":
		s.logf("  dial %s refused", d.Addr)
		s.Net.Refuse(d, simnet.ErrRefused)
	case "hang":
		// leave it pending: the dialer's context decides. Move it out of the enabled set by refusing later.
		s.logf("  dial %s hangs", d.Addr)
		s.Stats["fault.dial_hang"]++
		s.Net.Hang(d)
		s.hung = append(s.hung, d)
	default:
		c := s.Net.Accept(d)
		if c == nil {
			return
		}
		l := &Link{ID: c.ID, C: c, S: s.W.Accept(d.Addr, c.ID), CutAfter: -1, AcceptedAt: time.Now(), AcceptStep: s.Step}
		s.Links = append(s.Links, l)
		s.logf("  accept c%d -> %s", c.ID, d.Addr)
		if s.OnAccept != nil {
			s.OnAccept(s, l)
		}
	}
}

func (s *Sim) doC2S(l *Link) {
	max := 0
	if n := l.C.PendingWritten(); n > 1 && s.Cfg.C2SCutProb > 0 && s.R.Float64() < s.Cfg.C2SCutProb {
		max = 1 + s.R.IntN(n-1)
	}
	b := l.C.TakeWritten(max)
	if s.Cfg.NoPayloadHash {
		s.logf("  c2s c%d %d bytes", l.ID, len(b))
	} else {
		s.logf("  c2s c%d %d bytes %x", l.ID, len(b), shortHash(b))
	}
	s.W.Step = s.Step
	s.W.Feed(l.S, b)
}

func (s *Sim) doS2C(l *Link) {
	n := len(l.S.Out)
	m := n
	if n > 1 && s.Cfg.CutProb > 0 && s.R.Float64() < s.Cfg.CutProb {
		m = 1 + s.R.IntN(n-1)
		if s.ByteWise && n < 4096 {
			m = 1 + s.R.IntN(3)
			if m > n {
				m = n
			}
		}
		l.S2CCuts++
		s.Stats["s2c.partial"]++
	}
	if s.Cfg.S2CFrameWise {
		for l.frameEnd <= l.Delivered && l.frameIdx < len(l.S.OutLog) {
			l.frameEnd += l.S.OutLog[l.frameIdx].Bytes
			l.frameIdx++
		}
		if rest := l.frameEnd - l.Delivered; rest > 0 && m > rest {
			m = rest
		}
	}
	if l.CutAfter >= 0 && m >= l.CutAfter {
		m = l.CutAfter
	}
	b := l.S.Out[:m]
	l.C.Deliver(b)
	l.Delivered += m
	l.DeliveryLog = append(l.DeliveryLog, Delivery{s.Step, l.Delivered, time.Now()})
	l.S.Out = append([]byte(nil), l.S.Out[m:]...)
	s.logf("  s2c c%d %d/%d bytes", l.ID, m, n)
	if l.CutAfter >= 0 {
		l.CutAfter -= m
		if l.CutAfter <= 0 {
			s.breakLink(l, l.CutKind, false)
		}
	}
}

// closeServerSide: the server notices that the client closed the connection.
func (s *Sim) closeServerSide(l *Link) {
	l.ClientClosedAt = time.Now()
	l.UndeliveredAtClose = len(l.S.Out)
	l.EndedAt, l.UndeliveredAtEnd, l.EndStep = time.Now(), len(l.S.Out), s.Step
	l.SrvClosed = true
	l.Dead = true
	s.W.CloseConn(l.S)
	s.logf("  srvclose c%d", l.ID)
}

// BreakLink kills a connection from the server/network side.
// kind: "eof" (orderly close after pending data is discarded), "reset".
// execFirst: hand pending client bytes to the server first (executed but unanswered).
func (s *Sim) BreakLink(l *Link, kind string, execFirst bool) { s.breakLink(l, kind, execFirst) }

func (s *Sim) breakLink(l *Link, kind string, execFirst bool) {
	if l.Dead || l.SrvClosed {
		return
	}
	if l.C.ClientClosed() && l.ClientClosedAt.IsZero() {
		// the client had already closed its end; the server just had not noticed yet
		l.ClientClosedAt = time.Now()
		l.UndeliveredAtClose = len(l.S.Out)
	}
	if execFirst {
		if b := l.C.TakeWritten(0); len(b) > 0 {
			s.W.Step = s.Step
			s.W.Feed(l.S, b)
			s.Stats["fault.exec_unanswered_bytes"] += len(l.S.Out)
		}
	}
	if n := l.C.DropWritten(); n > 0 {
		s.Stats["fault.lost_request_bytes"] += n
	}
	if len(l.S.Out) > 0 {
		s.Stats["fault.lost_reply_bytes"] += len(l.S.Out)
	}
	l.EndedAt, l.UndeliveredAtEnd, l.EndStep = time.Now(), len(l.S.Out), s.Step
	l.S.Out = nil
	l.SrvClosed = true
	l.Dead = true
	s.W.CloseConn(l.S)
	if kind == "reset" {
		l.C.FailRead(simnet.ErrReset)
	} else {
		l.C.FailRead(io.EOF)
	}
	l.C.FailWrite(simnet.ErrPipe)
	s.logf("  break c%d %s exec=%v", l.ID, kind, execFirst)
}

func shortHash(b []byte) []byte {
	h := sha256.Sum256(b)
	return h[:4]
}

// LiveLinks returns links that are still connected, by id.
func (s *Sim) LiveLinks() []*Link {
	var out []*Link
	for _, l := range s.Links {
		if !l.Dead && !l.SrvClosed && !l.C.ClientClosed() {
			out = append(out, l)
		}
	}
	return out
}

// fireFaults applies planned faults whose trigger is reached. Returns true if one fired.
func (s *Sim) fireFaults() bool {
	for _, f := range s.Faults {
		if f.Fired || s.Step < f.AtStep {
			continue
		}
		if s.applyFault(f) {
			f.Fired = true
			f.FiredStep = s.Step
			f.FiredAt = time.Now()
			s.Stats["fault."+f.Kind]++
			s.logf("step %d fault %s target=%s", s.Step, f.Kind, f.Target)
			return true
		}
	}
	return false
}

func (s *Sim) applyFault(f *Fault) bool {
	pickLink := func() *Link {
		var el []*Link
		for _, l := range s.LiveLinks() {
			if f.NeedInflight && !s.inflight(l) {
				continue
			}
			el = append(el, l)
		}
		if len(el) == 0 {
			return nil
		}
		return el[f.Pick%len(el)]
	}
	switch f.Kind {
	case "eof", "reset":
		l := pickLink()
		if l == nil {
			return false
		}
		f.Target = fmt.Sprintf("c%d", l.ID)
		s.breakLink(l, f.Kind, false)
	case "reset-after-exec":
		l := pickLink()
		if l == nil {
			return false
		}
		f.Target = fmt.Sprintf("c%d", l.ID)
		s.breakLink(l, "reset", true)
	case "eof-mid-reply":
		l := pickLink()
		if l == nil || len(l.S.Out) < 2 {
			if l != nil && f.NeedInflight {
				return false
			}
			if l == nil {
				return false
			}
			f.Target = fmt.Sprintf("c%d", l.ID)
			s.breakLink(l, "eof", false)
			return true
		}
		f.Target = fmt.Sprintf("c%d", l.ID)
		l.CutAfter = 1 + f.Arg%(len(l.S.Out)-1)
		l.CutKind = "eof"
	case "werr":
		l := pickLink()
		if l == nil {
			return false
		}
		f.Target = fmt.Sprintf("c%d", l.ID)
		l.C.FailWrite(simnet.ErrPipe)
		l.C.FailRead(io.EOF)
		l.EndedAt, l.UndeliveredAtEnd, l.EndStep = time.Now(), len(l.S.Out), s.Step
		l.S.Out = nil
		l.SrvClosed, l.Dead = true, true
		s.W.CloseConn(l.S)
	case "stall":
		l := pickLink()
		if l == nil {
			return false
		}
		f.Target = fmt.Sprintf("c%d", l.ID)
		until := time.Now().Add(f.Dur)
		l.StallS2C, l.StallC2S = until, until
	case "slow":
		l := pickLink()
		if l == nil {
			return false
		}
		f.Target = fmt.Sprintf("c%d", l.ID)
		l.StallS2C = time.Now().Add(f.Dur)
	case "corrupt":
		// the peer (or the network) damages the reply stream at an arbitrary point
		var l *Link
		for _, x := range s.LiveLinks() {
			if len(x.S.Out) > 0 {
				l = x
				break
			}
		}
		if l == nil || s.Corrupt == nil {
			return false
		}
		f.Target = fmt.Sprintf("c%d", l.ID)
		before := len(l.S.Out)
		l.S.Out = s.Corrupt(l.S.Out, f.Arg)
		s.Stats["fault.corrupted_streams"]++
		s.logf("  corrupt c%d %d -> %d bytes", l.ID, before, len(l.S.Out))
	case "refuse-dial":
		s.refuseDials += 1 + f.Arg
	case "node-restart":
		addrs := s.W.NodeAddrs()
		if len(addrs) == 0 {
			return false
		}
		a := addrs[f.Pick%len(addrs)]
		f.Target = a
		any := false
		for _, l := range s.Links {
			if !l.Dead && !l.SrvClosed && l.S.Node.Addr == a {
				s.breakLink(l, "reset", false)
				any = true
			}
		}
		if !any && f.NeedInflight {
			return false
		}
		s.downUntil[a] = time.Now().Add(f.Dur)
		n := s.W.Nodes[a]
		for k := range n.Scripts {
			delete(n.Scripts, k)
		}
	default:
		panic("sched: unknown fault kind " + f.Kind)
	}
	return true
}

// RunResult summarises a run.
type RunResult struct {
	Steps    int
	Reason   string // "done", "maxsteps", "stuck", "invariant"
	Err      error
	FakeTime time.Duration
}

// Run drives the simulation until done() reports true, the step cap is hit or the run is stuck.
func (s *Sim) Run(done func() bool) RunResult {
	for {
		synctest.Wait()
		if s.Settle != nil {
			s.Settle(s)
		}
		s.collect()
		s.logState()
		s.W.Step = s.Step
		if s.OnStep != nil {
			if err := s.OnStep(s); err != nil {
				return RunResult{Steps: s.Step, Reason: "invariant", Err: err, FakeTime: s.Elapsed()}
			}
		}
		if done() {
			return RunResult{Steps: s.Step, Reason: "done", FakeTime: s.Elapsed()}
		}
		if s.Step >= s.Cfg.MaxSteps {
			return RunResult{Steps: s.Step, Reason: "maxsteps", FakeTime: s.Elapsed()}
		}
		s.Step++
		if s.fireFaults() {
			s.idleFor = 0
			continue
		}
		evs := s.enabled()
		if len(evs) == 0 {
			// only time can make progress
			if s.idleFor >= s.Cfg.DrainBound {
				s.Stuck = true
				return RunResult{Steps: s.Step, Reason: "stuck", FakeTime: s.Elapsed()}
			}
			d := s.idleTick()
			s.logf("step %d idle-tick %v", s.Step, d)
			time.Sleep(d + s.Cfg.TickEpsilon)
			s.idleFor += d
			s.W.Tick()
			s.Stats["ticks"]++
			continue
		}
		total := s.Cfg.W.Tick
		for _, e := range evs {
			total += e.Weight
		}
		x := s.R.Float64() * total
		chosen := -1
		for i, e := range evs {
			if x < e.Weight {
				chosen = i
				break
			}
			x -= e.Weight
		}
		if chosen < 0 {
			d := s.Cfg.TickSizes[s.R.IntN(len(s.Cfg.TickSizes))]
			s.logf("step %d tick %v", s.Step, d)
			time.Sleep(d + s.Cfg.TickEpsilon)
			s.W.Tick()
			s.Stats["ticks"]++
			continue
		}
		s.idleFor = 0
		e := evs[chosen]
		s.logf("step %d %s %s", s.Step, e.Kind, e.Key)
		s.Stats["ev."+e.Kind]++
		e.Do()
	}
}

// logState records, at quiescence, what the client has written and not yet handed to the server.
// It makes the event log sensitive to the order of bytes inside the next client write.
func (s *Sim) logState() {
	for _, l := range s.Links {
		if l.Dead {
			continue
		}
		if n := l.C.PendingWritten(); n != l.lastPending {
			l.lastPending = n
			s.logf("  pending c%d=%d", l.ID, n)
		}
	}
}

func (s *Sim) idleTick() time.Duration {
	switch {
	case s.idleFor < 100*time.Millisecond:
		return 10 * time.Millisecond
	case s.idleFor < 2*time.Second:
		return 100 * time.Millisecond
	case s.idleFor < 30*time.Second:
		return time.Second
	default:
		return 5 * time.Second
	}
}

// IdleFor returns how long only the clock has been able to make progress (0 while anything else was enabled at the
// last scheduling decision).
func (s *Sim) IdleFor() time.Duration { return s.idleFor }

// Heal lifts stalls, re-opens nodes and disables probabilistic faults (start of the drain phase).
func (s *Sim) Heal() {
	for _, l := range s.Links {
		l.StallC2S, l.StallS2C = time.Time{}, time.Time{}
	}
	for k := range s.downUntil {
		delete(s.downUntil, k)
	}
	for _, f := range s.Faults {
		f.Fired = true
	}
	s.refuseDials = 0
	s.Cfg.DialRefuseProb = 0
}

// Shutdown releases every goroutine the simulator owns so the bubble can end.
func (s *Sim) Shutdown() {
	for _, t := range s.Tasks {
		if t.cur == nil {
			close(t.startCh)
		}
	}
	for _, d := range s.Net.PendingDials() {
		s.Net.Refuse(d, simnet.ErrRefused)
	}
	for _, d := range s.hung {
		s.Net.Refuse(d, simnet.ErrRefused)
	}
	s.mu.Lock()
	s.down = true
	parked := s.parked
	s.parked = nil
	s.mu.Unlock()
	for _, p := range parked {
		close(p.ch)
	}
	s.mu.Lock()
	for _, l := range s.lockers {
		if !l.held && len(l.waiters) > 0 {
			w := l.waiters[0]
			l.waiters = l.waiters[1:]
			l.held = true
			close(w.ch)
		}
	}
	s.mu.Unlock()
}

// IsDown reports whether Shutdown has been called.
func (s *Sim) IsDown() bool {
	s.mu.Lock()
	defer s.mu.Unlock()
	return s.down
}

// LockWaiterIDs returns the identities of all goroutines waiting for a scheduler-granted locker, held or not.
func (s *Sim) LockWaiterIDs() []string {
	s.mu.Lock()
	defer s.mu.Unlock()
	var out []string
	for _, l := range s.lockers {
		for _, w := range l.waiters {
			out = append(out, w.id)
		}
	}
	return out
}

// ParkedIDs returns the identities of the goroutines waiting at yield points (unsorted copy).
func (s *Sim) ParkedIDs() []string {
	s.mu.Lock()
	defer s.mu.Unlock()
	out := make([]string, 0, len(s.parked))
	for _, p := range s.parked {
		out = append(out, p.ID)
	}
	return out
}

// ParkedCount returns the number of goroutines waiting at yield points.
func (s *Sim) ParkedCount() int {
	s.mu.Lock()
	defer s.mu.Unlock()
	return len(s.parked)
}
