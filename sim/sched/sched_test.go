package sched

import (
	"context"
	"sync/atomic"
	"testing"
	"testing/synctest"
)

// Three pipelined PINGs: without S2CFrameWise the three replies reach the client in one delivery, with it every
// delivery ends at a frame boundary, so the client sees one reply per read.
func TestS2CFrameWise(t *testing.T) {
	for _, fw := range []bool{false, true} {
		synctest.Test(t, func(t *testing.T) {
			s := New(7, Config{S2CFrameWise: fw})
			s.W.AddNode("n:1")
			var reads []string
			var done atomic.Bool
			go func() {
				defer done.Store(true)
				c, err := s.Net.DialContext(context.Background(), "n:1", "x")
				if err != nil {
					t.Error(err)
					return
				}
				ping := "*1\r\n$4\r\nPING\r\n"
				if _, err := c.Write([]byte(ping + ping + ping)); err != nil {
					t.Error(err)
					return
				}
				buf := make([]byte, 256)
				for total := 0; total < 21; {
					n, err := c.Read(buf)
					if err != nil {
						t.Error(err)
						return
					}
					total += n
					reads = append(reads, string(buf[:n]))
				}
			}()
			rr := s.Run(done.Load)
			if rr.Reason != "done" {
				t.Fatalf("frameWise=%v: run ended with %s", fw, rr.Reason)
			}
			s.Shutdown()
			if !fw {
				if len(reads) != 1 || reads[0] != "+PONG\r\n+PONG\r\n+PONG\r\n" {
					t.Fatalf("without frame-wise delivery: reads %q", reads)
				}
				return
			}
			if len(reads) != 3 {
				t.Fatalf("frame-wise delivery: reads %q", reads)
			}
			for _, r := range reads {
				if r != "+PONG\r\n" {
					t.Fatalf("frame-wise delivery: reads %q", reads)
				}
			}
		})
	}
}

// A partial cut inside a frame is still allowed under S2CFrameWise, but a delivery never crosses a frame boundary.
func TestS2CFrameWiseWithCuts(t *testing.T) {
	synctest.Test(t, func(t *testing.T) {
		s := New(11, Config{S2CFrameWise: true, CutProb: 0.7})
		s.W.AddNode("n:1")
		var done atomic.Bool
		go func() {
			defer done.Store(true)
			c, _ := s.Net.DialContext(context.Background(), "n:1", "x")
			echo := "*2\r\n$4\r\nECHO\r\n$10\r\n0123456789\r\n"
			c.Write([]byte(echo + echo + echo + echo))
			buf := make([]byte, 256)
			for total := 0; total < 4*17; {
				n, err := c.Read(buf)
				if err != nil {
					t.Error(err)
					return
				}
				total += n
			}
		}()
		if rr := s.Run(done.Load); rr.Reason != "done" {
			t.Fatalf("run ended with %s", rr.Reason)
		}
		s.Shutdown()
		l := s.Links[0]
		prev := 0
		for _, d := range l.DeliveryLog {
			if prev/17 != (d.Cum-1)/17 {
				t.Fatalf("delivery %d..%d crosses a frame boundary (frames are 17 bytes)", prev, d.Cum)
			}
			prev = d.Cum
		}
		if prev != 4*17 {
			t.Fatalf("delivered %d bytes", prev)
		}
	})
}

// Goroutines parked under one identity are released by one event under GroupResume, one by one otherwise.
func TestGroupResume(t *testing.T) {
	for _, group := range []bool{false, true} {
		synctest.Test(t, func(t *testing.T) {
			s := New(3, Config{GroupResume: group})
			var left atomic.Int32
			left.Store(4)
			for _, id := range []string{"same", "same", "same", "other"} {
				go func() {
					s.Park(id)
					left.Add(-1)
				}()
			}
			if rr := s.Run(func() bool { return left.Load() == 0 }); rr.Reason != "done" {
				t.Fatalf("group=%v: run ended with %s", group, rr.Reason)
			}
			s.Shutdown()
			want := 4
			if group {
				want = 2
			}
			if got := s.Stats["ev.resume"]; got != want {
				t.Fatalf("group=%v: %d resume events, want %d", group, got, want)
			}
		})
	}
}
