// Package simnet provides net.Conn implementations whose byte delivery is
// driven entirely by a scheduler. It is meant to run inside a
// testing/synctest bubble: every blocking operation blocks on channels or
// timers only (durably blocked), and no lock is held while blocked.
package simnet

import (
	"context"
	"errors"
	"io"
	"net"
	"os"
	"sync"
	"syscall"
	"time"
)

// Addr is a trivial net.Addr.
type Addr string

func (a Addr) Network() string { return "sim" }
func (a Addr) String() string  { return string(a) }

// Net is the registry of simulated connections and pending dials.
type Net struct {
	mu     sync.Mutex
	conns  []*Conn
	dials  []*Dial
	nextID int
	// StepFn, when set, tells the scheduler step in which something happens (recorded by Conn.Close).
	StepFn func() int
}

func NewNet() *Net { return &Net{} }

// Dial is a pending connection attempt waiting for the scheduler's decision.
type Dial struct {
	Seq   int
	Addr  string
	Tag   string // caller identity (from context), for canonical ordering
	res   chan dialResult
	done  bool
	ctx   context.Context
	Begun time.Time
}

type dialResult struct {
	c   *Conn
	err error
}

// DialContext is called by the system under test. It blocks until the
// scheduler accepts or refuses the dial, or ctx ends.
func (n *Net) DialContext(ctx context.Context, addr, tag string) (net.Conn, error) {
	d := &Dial{Addr: addr, Tag: tag, res: make(chan dialResult, 1), ctx: ctx, Begun: time.Now()}
	n.mu.Lock()
	d.Seq = n.nextID
	n.nextID++
	n.dials = append(n.dials, d)
	n.mu.Unlock()
	select {
	case r := <-d.res:
		if r.err != nil {
			return nil, r.err
		}
		return r.c, nil
	case <-ctx.Done():
		n.mu.Lock()
		if !d.done {
			d.done = true
			n.removeDial(d)
			n.mu.Unlock()
			return nil, ctx.Err()
		}
		n.mu.Unlock()
		// the scheduler decided concurrently; honour its decision to keep accounting exact
		r := <-d.res
		if r.err != nil {
			return nil, r.err
		}
		r.c.Close()
		return nil, ctx.Err()
	}
}

func (n *Net) removeDial(d *Dial) {
	for i, x := range n.dials {
		if x == d {
			n.dials = append(n.dials[:i], n.dials[i+1:]...)
			return
		}
	}
}

// Hang removes a dial from the pending set without completing it: it stays
// blocked until its context ends (or Refuse is called at shutdown).
func (n *Net) Hang(d *Dial) {
	n.mu.Lock()
	defer n.mu.Unlock()
	n.removeDial(d)
}

// PendingDials returns the dials waiting for a decision (scheduler side, at quiescence).
func (n *Net) PendingDials() []*Dial {
	n.mu.Lock()
	defer n.mu.Unlock()
	return append([]*Dial(nil), n.dials...)
}

// Accept completes a pending dial with a new connection.
func (n *Net) Accept(d *Dial) *Conn {
	n.mu.Lock()
	defer n.mu.Unlock()
	if d.done {
		return nil
	}
	d.done = true
	n.removeDial(d)
	c := &Conn{ID: len(n.conns), Addr: d.Addr, Tag: d.Tag, wake: make(chan struct{}, 1), wwake: make(chan struct{}, 1), stepFn: n.StepFn, ClosedStep: -1}
	n.conns = append(n.conns, c)
	d.res <- dialResult{c: c}
	return c
}

// Refuse completes a pending dial with an error.
func (n *Net) Refuse(d *Dial, err error) {
	n.mu.Lock()
	defer n.mu.Unlock()
	if d.done {
		return
	}
	d.done = true
	n.removeDial(d)
	d.res <- dialResult{err: err}
}

// Conns returns all connections ever accepted, by id.
func (n *Net) Conns() []*Conn {
	n.mu.Lock()
	defer n.mu.Unlock()
	return append([]*Conn(nil), n.conns...)
}

// ErrRefused is the default error of a refused dial.
var ErrRefused = &net.OpError{Op: "dial", Net: "sim", Err: syscall.ECONNREFUSED}

// ErrReset is delivered to a reader when the peer resets the connection.
var ErrReset = &net.OpError{Op: "read", Net: "sim", Err: syscall.ECONNRESET}

// ErrPipe is returned by Write after the peer has gone.
var ErrPipe = &net.OpError{Op: "write", Net: "sim", Err: syscall.EPIPE}

type timeoutErr struct{ op string }

func (e *timeoutErr) Error() string   { return e.op + " sim: i/o timeout" }
func (e *timeoutErr) Timeout() bool   { return true }
func (e *timeoutErr) Temporary() bool { return true }
func (e *timeoutErr) Unwrap() error   { return os.ErrDeadlineExceeded }

// Conn is the client end of a simulated connection.
type Conn struct {
	ID   int
	Addr string
	Tag  string

	mu     sync.Mutex
	rbuf   []byte
	rerr   error
	wbuf   []byte
	werr   error
	closed bool
	rdl    time.Time
	wdl    time.Time
	wake   chan struct{}
	wwake  chan struct{}
	wcap   int // 0 = unbounded send buffer

	// counters (scheduler side reads them at quiescence)
	NRead      int // bytes the client has consumed
	NWritten   int // bytes the client has written
	NDelivered int // bytes delivered into rbuf
	ReadErrs   int // Read calls that returned an error
	WriteErrs  int
	ReadCalls  int
	ClosedStep int // scheduler step in which the client closed the connection (-1: not closed)
	stepFn     func() int
}

func (c *Conn) poke(ch chan struct{}) {
	select {
	case ch <- struct{}{}:
	default:
	}
}

func (c *Conn) Read(b []byte) (int, error) {
	for {
		c.mu.Lock()
		c.ReadCalls++
		if c.closed {
			c.ReadErrs++
			c.mu.Unlock()
			return 0, net.ErrClosed
		}
		if len(c.rbuf) > 0 {
			n := copy(b, c.rbuf)
			c.rbuf = c.rbuf[n:]
			c.NRead += n
			c.mu.Unlock()
			return n, nil
		}
		if c.rerr != nil {
			err := c.rerr
			c.ReadErrs++
			c.mu.Unlock()
			return 0, err
		}
		dl := c.rdl
		c.mu.Unlock()
		if len(b) == 0 {
			return 0, nil
		}
		if dl.IsZero() {
			<-c.wake
			continue
		}
		d := time.Until(dl)
		if d <= 0 {
			c.mu.Lock()
			c.ReadErrs++
			c.mu.Unlock()
			return 0, &timeoutErr{"read"}
		}
		t := time.NewTimer(d)
		select {
		case <-c.wake:
			t.Stop()
		case <-t.C:
		}
	}
}

func (c *Conn) Write(b []byte) (int, error) {
	off := 0
	for {
		c.mu.Lock()
		if c.closed {
			c.WriteErrs++
			c.mu.Unlock()
			return off, net.ErrClosed
		}
		if c.werr != nil {
			err := c.werr
			c.WriteErrs++
			c.mu.Unlock()
			return off, err
		}
		if c.wcap == 0 {
			c.wbuf = append(c.wbuf, b[off:]...)
			c.NWritten += len(b) - off
			c.mu.Unlock()
			return len(b), nil
		}
		room := c.wcap - len(c.wbuf)
		if room > 0 {
			n := len(b) - off
			if n > room {
				n = room
			}
			c.wbuf = append(c.wbuf, b[off:off+n]...)
			c.NWritten += n
			off += n
			if off == len(b) {
				c.mu.Unlock()
				return len(b), nil
			}
		}
		dl := c.wdl
		c.mu.Unlock()
		if dl.IsZero() {
			<-c.wwake
			continue
		}
		d := time.Until(dl)
		if d <= 0 {
			c.mu.Lock()
			c.WriteErrs++
			c.mu.Unlock()
			return off, &timeoutErr{"write"}
		}
		t := time.NewTimer(d)
		select {
		case <-c.wwake:
			t.Stop()
		case <-t.C:
		}
	}
}

func (c *Conn) Close() error {
	c.mu.Lock()
	if c.closed {
		c.mu.Unlock()
		return net.ErrClosed
	}
	c.closed = true
	if c.stepFn != nil {
		c.ClosedStep = c.stepFn()
	}
	c.mu.Unlock()
	c.poke(c.wake)
	c.poke(c.wwake)
	return nil
}

func (c *Conn) LocalAddr() net.Addr  { return Addr("client") }
func (c *Conn) RemoteAddr() net.Addr { return Addr(c.Addr) }

func (c *Conn) SetDeadline(t time.Time) error {
	c.mu.Lock()
	c.rdl, c.wdl = t, t
	c.mu.Unlock()
	c.poke(c.wake)
	c.poke(c.wwake)
	return nil
}

func (c *Conn) SetReadDeadline(t time.Time) error {
	c.mu.Lock()
	c.rdl = t
	c.mu.Unlock()
	c.poke(c.wake)
	return nil
}

func (c *Conn) SetWriteDeadline(t time.Time) error {
	c.mu.Lock()
	c.wdl = t
	c.mu.Unlock()
	c.poke(c.wwake)
	return nil
}

// ---- scheduler side ----

// TakeWritten removes and returns up to max (0 = all) bytes the client has written.
func (c *Conn) TakeWritten(max int) []byte {
	c.mu.Lock()
	n := len(c.wbuf)
	if max > 0 && n > max {
		n = max
	}
	b := append([]byte(nil), c.wbuf[:n]...)
	c.wbuf = c.wbuf[n:]
	c.mu.Unlock()
	c.poke(c.wwake)
	return b
}

// PendingWritten is the number of bytes written by the client and not yet taken.
func (c *Conn) PendingWritten() int {
	c.mu.Lock()
	defer c.mu.Unlock()
	return len(c.wbuf)
}

// Unread is the number of delivered bytes the client has not consumed yet.
func (c *Conn) Unread() int {
	c.mu.Lock()
	defer c.mu.Unlock()
	return len(c.rbuf)
}

// Deliver makes b readable by the client.
func (c *Conn) Deliver(b []byte) {
	c.mu.Lock()
	c.rbuf = append(c.rbuf, b...)
	c.NDelivered += len(b)
	c.mu.Unlock()
	c.poke(c.wake)
}

// FailRead makes Read return err once the delivered bytes are consumed.
func (c *Conn) FailRead(err error) {
	c.mu.Lock()
	if c.rerr == nil {
		c.rerr = err
	}
	c.mu.Unlock()
	c.poke(c.wake)
}

// FailWrite makes every later Write return err.
func (c *Conn) FailWrite(err error) {
	c.mu.Lock()
	if c.werr == nil {
		c.werr = err
	}
	c.mu.Unlock()
	c.poke(c.wwake)
}

// DropWritten discards bytes written by the client that were not taken yet.
func (c *Conn) DropWritten() int {
	c.mu.Lock()
	n := len(c.wbuf)
	c.wbuf = nil
	c.mu.Unlock()
	return n
}

// SetSendBuffer bounds the bytes the client may have written but not yet taken (0 = unbounded).
func (c *Conn) SetSendBuffer(n int) {
	c.mu.Lock()
	c.wcap = n
	c.mu.Unlock()
}

// ClientClosed reports whether the client closed its end.
// ClientClosedStep returns the scheduler step in which the client closed the connection (-1 if it has not).
func (c *Conn) ClientClosedStep() int {
	c.mu.Lock()
	defer c.mu.Unlock()
	return c.ClosedStep
}

func (c *Conn) ClientClosed() bool {
	c.mu.Lock()
	defer c.mu.Unlock()
	return c.closed
}

// ReadFailed reports whether a read error has been set by the scheduler.
func (c *Conn) ReadFailed() bool {
	c.mu.Lock()
	defer c.mu.Unlock()
	return c.rerr != nil
}

// Stats returns a snapshot of the counters.
func (c *Conn) Stats() (nread, nwritten, ndelivered, readErrs, writeErrs int) {
	c.mu.Lock()
	defer c.mu.Unlock()
	return c.NRead, c.NWritten, c.NDelivered, c.ReadErrs, c.WriteErrs
}

var _ net.Conn = (*Conn)(nil)
var _ = io.EOF
var _ = errors.New
