module verifsim

go 1.25.0
