package fakeredis

import (
	"path"

	"verifsim/resp"
)

func init() {
	reg("MULTI", &cmdSpec{arity: 1, fn: func(w *World, sc *SrvConn, e *Exec, a []string) result {
		if sc.multi {
			return rv(resp.Err("ERR MULTI calls can not be nested"))
		}
		sc.multi = true
		sc.multiDirty = false
		sc.queued = nil
		return rv(resp.OK())
	}})
	reg("DISCARD", &cmdSpec{arity: 1, fn: func(w *World, sc *SrvConn, e *Exec, a []string) result {
		if !sc.multi {
			return rv(resp.Err("ERR DISCARD without MULTI"))
		}
		sc.multi = false
		sc.queued = nil
		sc.watching = nil
		sc.caching = 0
		return rv(resp.OK())
	}})
	reg("WATCH", &cmdSpec{arity: -2, first: 1, last: -1, noMulti: true, fn: func(w *World, sc *SrvConn, e *Exec, a []string) result {
		if sc.multi {
			return rv(resp.Err("ERR WATCH inside MULTI is not allowed"))
		}
		if sc.watching == nil {
			sc.watching = map[string]uint64{}
		}
		for _, k := range a[1:] {
			if _, ok := sc.watching[k]; !ok {
				sc.watching[k] = sc.Node.DBs.ver[k]
			}
		}
		return rv(resp.OK())
	}})
	reg("UNWATCH", &cmdSpec{arity: 1, fn: func(w *World, sc *SrvConn, e *Exec, a []string) result {
		sc.watching = nil
		return rv(resp.OK())
	}})
	reg("EXEC", &cmdSpec{arity: 1, fn: cmdExec})

	reg("SUBSCRIBE", &cmdSpec{arity: -2, pubsub: true, noMulti: true, fn: subFn("subscribe", func(sc *SrvConn) map[string]bool { return sc.subs })})
	reg("PSUBSCRIBE", &cmdSpec{arity: -2, pubsub: true, noMulti: true, fn: subFn("psubscribe", func(sc *SrvConn) map[string]bool { return sc.psubs })})
	reg("SSUBSCRIBE", &cmdSpec{arity: -2, first: 1, last: -1, pubsub: true, noMulti: true, fn: subFn("ssubscribe", func(sc *SrvConn) map[string]bool { return sc.ssubs })})
	reg("UNSUBSCRIBE", &cmdSpec{arity: -1, pubsub: true, noMulti: true, fn: unsubFn("unsubscribe", func(sc *SrvConn) map[string]bool { return sc.subs })})
	reg("PUNSUBSCRIBE", &cmdSpec{arity: -1, pubsub: true, noMulti: true, fn: unsubFn("punsubscribe", func(sc *SrvConn) map[string]bool { return sc.psubs })})
	reg("SUNSUBSCRIBE", &cmdSpec{arity: -1, pubsub: true, noMulti: true, fn: unsubFn("sunsubscribe", func(sc *SrvConn) map[string]bool { return sc.ssubs })})
	reg("PUBLISH", &cmdSpec{arity: 3, fn: func(w *World, sc *SrvConn, e *Exec, a []string) result {
		return rv(resp.Int(int64(w.Publish(sc.Node, a[1], a[2], false))))
	}})
	reg("SPUBLISH", &cmdSpec{arity: 3, first: 1, last: 1, fn: func(w *World, sc *SrvConn, e *Exec, a []string) result {
		return rv(resp.Int(int64(w.Publish(sc.Node, a[1], a[2], true))))
	}})
}

func cmdExec(w *World, sc *SrvConn, e *Exec, a []string) result {
	if !sc.multi {
		return rv(resp.Err("ERR EXEC without MULTI"))
	}
	queued := sc.queued
	dirty := sc.multiDirty
	watching := sc.watching
	sc.multi, sc.queued, sc.multiDirty, sc.watching = false, nil, false, nil
	defer func() { sc.caching = 0 }()
	if dirty {
		return rv(resp.Err("EXECABORT Transaction discarded because of previous errors."))
	}
	for k, v := range watching {
		sc.Node.DBs.expireIfNeeded(w, sc, k)
		if sc.Node.DBs.ver[k] != v {
			if sc.Sess.Proto >= 3 {
				return rv(resp.Nil())
			}
			return rv(resp.NullArr())
		}
	}
	out := resp.Arr()
	for _, q := range queued {
		spec := specs[up(q[0])]
		w.seq++
		sub := &Exec{Seq: w.seq, Conn: sc.ID, ConnSeq: e.ConnSeq, Node: sc.Node.Addr, Role: sc.Node.Role, Argv: q, At: w.Now(), Step: w.Step, InExec: true, Sess: e.Sess}
		w.Log = append(w.Log, sub)
		if sc.Node.Role == "slave" && spec.write {
			sub.Reply = resp.Err("READONLY You can't write against a read only replica.")
		} else {
			v, _ := w.run(sc, sub, spec, q)
			sub.Reply = v
		}
		out.A = append(out.A, sub.Reply)
	}
	return rv(out)
}

func subFn(kind string, set func(*SrvConn) map[string]bool) func(w *World, sc *SrvConn, e *Exec, a []string) result {
	return func(w *World, sc *SrvConn, e *Exec, a []string) result {
		for _, ch := range a[1:] {
			set(sc)[ch] = true
			cnt := len(sc.subs) + len(sc.psubs)
			if kind == "ssubscribe" {
				cnt = len(sc.ssubs)
			}
			sc.push(kind, pushOrArr(sc, resp.Bulk(kind), resp.Bulk(ch), resp.Int(int64(cnt))))
		}
		return result{}
	}
}

func unsubFn(kind string, set func(*SrvConn) map[string]bool) func(w *World, sc *SrvConn, e *Exec, a []string) result {
	return func(w *World, sc *SrvConn, e *Exec, a []string) result {
		chans := a[1:]
		if len(chans) == 0 {
			chans = sortedKeys(set(sc))
			if len(chans) == 0 {
				cnt := len(sc.subs) + len(sc.psubs)
				if kind == "sunsubscribe" {
					cnt = len(sc.ssubs)
				}
				sc.push(kind, pushOrArr(sc, resp.Bulk(kind), resp.Nil(), resp.Int(int64(cnt))))
				return result{}
			}
		}
		for _, ch := range chans {
			delete(set(sc), ch)
			cnt := len(sc.subs) + len(sc.psubs)
			if kind == "sunsubscribe" {
				cnt = len(sc.ssubs)
			}
			sc.push(kind, pushOrArr(sc, resp.Bulk(kind), resp.Bulk(ch), resp.Int(int64(cnt))))
		}
		return result{}
	}
}

func pushOrArr(sc *SrvConn, v ...resp.Value) resp.Value {
	return resp.Push(v...)
}

// Publish delivers a message to every subscriber on every node of the world
// (a cluster propagates PUBLISH to all nodes; SPUBLISH stays within the shard).
func (w *World) Publish(from *Node, channel, msg string, shard bool) int {
	n := 0
	for _, addr := range w.order {
		node := w.Nodes[addr]
		if shard && node.DBs != from.DBs {
			continue
		}
		if !shard && w.Cluster == nil && node.DBs != from.DBs {
			continue
		}
		for _, c := range node.Conns {
			if shard {
				if c.ssubs[channel] {
					c.push("smessage", resp.Push(resp.Bulk("smessage"), resp.Bulk(channel), resp.Bulk(msg)))
					n++
				}
				continue
			}
			if c.subs[channel] {
				c.push("message", resp.Push(resp.Bulk("message"), resp.Bulk(channel), resp.Bulk(msg)))
				n++
			}
			for _, p := range sortedKeys(c.psubs) {
				if ok, _ := path.Match(p, channel); ok {
					c.push("pmessage", resp.Push(resp.Bulk("pmessage"), resp.Bulk(p), resp.Bulk(channel), resp.Bulk(msg)))
					n++
				}
			}
		}
	}
	return n
}
