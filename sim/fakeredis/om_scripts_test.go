package fakeredis

// The two save scripts of github.com/redis/rueidis/om (om/hash.go hashSaveScript, om/json.go jsonSaveScript),
// verbatim, run against the model: what the C40 scenario relies on (HGET/HSET/PEXPIREAT with unpack and
// table.remove, JSON.GET/JSON.SET/JSON.NUMINCRBY with a legacy path, nil replies, tostring of a number).

import "testing"

const omHashSaveScript = `
if (ARGV[1] == '')
then
  local e = (#ARGV % 2 == 1) and table.remove(ARGV) or nil
  if redis.call('HSET',KEYS[1],unpack(ARGV))
  then
    if e then redis.call('PEXPIREAT',KEYS[1],e) end
  end
  return ARGV[2]
end
local v = redis.call('HGET',KEYS[1],ARGV[1])
if (not v or v == ARGV[2])
then
  ARGV[2] = tostring(tonumber(ARGV[2])+1)
  local e = (#ARGV % 2 == 1) and table.remove(ARGV) or nil
  if redis.call('HSET',KEYS[1],unpack(ARGV))
  then
    if e then redis.call('PEXPIREAT',KEYS[1],e) end
    return ARGV[2]
  end
end
return nil
`

const omJSONSaveScript = `
if (ARGV[1] == '')
then
  redis.call('JSON.SET',KEYS[1],'$',ARGV[3])
  if #ARGV == 4 then redis.call('PEXPIREAT',KEYS[1],ARGV[4]) end
  return ARGV[2]
end
local v = redis.call('JSON.GET',KEYS[1],ARGV[1])
if (not v or v == ARGV[2])
then
  redis.call('JSON.SET',KEYS[1],'$',ARGV[3])
  local v = redis.call('JSON.NUMINCRBY',KEYS[1],ARGV[1],1)
  if #ARGV == 4 then redis.call('PEXPIREAT',KEYS[1],ARGV[4]) end
  return v
end
return nil
`

func TestOmHashSaveScript(t *testing.T) {
	w, _ := newTestWorld()
	w.AddNode("n1")
	c := dial(t, w, "n1", 1)
	k := []string{"ent:1"}
	// a key that does not exist accepts any version and stores version+1
	c.wantEval(`"1"`, omHashSaveScript, k, "ver", "0", "key", "1", "str", "a\r\nb\x00", "empty", "")
	c.want(`"1"`, "HGET", "ent:1", "ver")
	c.want(`"a\r\nb\x00"`, "HGET", "ent:1", "str")
	c.want(`""`, "HGET", "ent:1", "empty")
	// stale version: refused, nothing written
	c.wantEval(`nil`, omHashSaveScript, k, "ver", "0", "key", "1", "str", "lost")
	c.want(`"a\r\nb\x00"`, "HGET", "ent:1", "str")
	// current version: accepted, advanced by one; fields that are not sent stay
	c.wantEval(`"2"`, omHashSaveScript, k, "ver", "1", "key", "1", "str", "won")
	c.want(`"won"`, "HGET", "ent:1", "str")
	c.want(`""`, "HGET", "ent:1", "empty")
	// an odd number of arguments: the last one is the expiry in unix milliseconds
	c.want(`:-1`, "PTTL", "ent:1")
	c.wantEval(`"3"`, omHashSaveScript, k, "ver", "2", "key", "1", "str", "ttl", "1700000100000")
	if v := c.do("PTTL", "ent:1"); v.I <= 0 {
		t.Fatalf("PTTL after a save with expiry: %s", v)
	}
	if v := c.do("HEXISTS", "ent:1", "1700000100000"); v.I != 0 {
		t.Fatalf("the expiry argument was stored as a field")
	}
	// verless entities: ARGV[1] is empty, the pair ('', '') is stored like Redis does, the version is echoed
	c.wantEval(`""`, omHashSaveScript, []string{"ent:2"}, "", "", "key", "2")
	// Lua formats numbers with %.14g: from 1e14 on the new version is no longer a decimal integer
	c.wantEval(`"99999999999999"`, omHashSaveScript, []string{"ent:3"}, "ver", "99999999999998", "key", "3")
	c.wantEval(`"1e+14"`, omHashSaveScript, []string{"ent:3"}, "ver", "99999999999999", "key", "3")
}

func TestOmJSONSaveScript(t *testing.T) {
	w, _ := newTestWorld()
	w.AddNode("n1")
	c := dial(t, w, "n1", 1)
	k := []string{"ent:1"}
	c.wantEval(`"1"`, omJSONSaveScript, k, "ver", "0", `{"key":"1","ver":0,"s":"a"}`)
	c.want(`"{\"key\":\"1\",\"ver\":1,\"s\":\"a\"}"`, "JSON.GET", "ent:1", ".")
	c.wantEval(`nil`, omJSONSaveScript, k, "ver", "0", `{"key":"1","ver":0,"s":"lost"}`)
	c.want(`"{\"key\":\"1\",\"ver\":1,\"s\":\"a\"}"`, "JSON.GET", "ent:1", ".")
	// the whole document is replaced (members that are not sent disappear), then the version is advanced in place
	c.wantEval(`"2"`, omJSONSaveScript, k, "ver", "1", `{"key":"1","ver":1}`)
	c.want(`"{\"key\":\"1\",\"ver\":2}"`, "JSON.GET", "ent:1", ".")
	c.wantEval(`"3"`, omJSONSaveScript, k, "ver", "2", `{"key":"1","ver":2}`, "1700000100000")
	if v := c.do("PTTL", "ent:1"); v.I <= 0 {
		t.Fatalf("PTTL after a save with expiry: %s", v)
	}
	c.wantEval(`""`, omJSONSaveScript, []string{"ent:2"}, "", "", `{"key":"2"}`)
	// a large version stays an integer
	c.wantEval(`"100000000000000"`, omJSONSaveScript, []string{"ent:3"}, "ver", "99999999999999", `{"key":"3","ver":99999999999999}`)
}
