package fakeredis

import (
	"strconv"
	"strings"
	"time"

	"verifsim/resp"
)

func init() {
	reg("GET", &cmdSpec{arity: 2, first: 1, last: 1, readonly: true, fn: cmdGet})
	reg("SET", &cmdSpec{arity: -3, first: 1, last: 1, write: true, fn: cmdSet})
	reg("SETNX", &cmdSpec{arity: 3, first: 1, last: 1, write: true, fn: func(w *World, sc *SrvConn, e *Exec, a []string) result {
		if sc.Node.DBs.get(sc, a[1]) != nil {
			return rv(resp.Int(0))
		}
		setString(w, sc, a[1], a[2], time.Time{})
		return rv(resp.Int(1))
	}})
	reg("SETEX", &cmdSpec{arity: 4, first: 1, last: 1, write: true, fn: func(w *World, sc *SrvConn, e *Exec, a []string) result {
		s, ok := atoi(a[2])
		if !ok || s <= 0 {
			return rv(resp.Err("ERR invalid expire time in 'setex' command"))
		}
		setString(w, sc, a[1], a[3], sc.Node.now().Add(time.Duration(s)*time.Second))
		return rv(resp.OK())
	}})
	reg("PSETEX", &cmdSpec{arity: 4, first: 1, last: 1, write: true, fn: func(w *World, sc *SrvConn, e *Exec, a []string) result {
		s, ok := atoi(a[2])
		if !ok || s <= 0 {
			return rv(resp.Err("ERR invalid expire time in 'psetex' command"))
		}
		setString(w, sc, a[1], a[3], sc.Node.now().Add(time.Duration(s)*time.Millisecond))
		return rv(resp.OK())
	}})
	reg("GETSET", &cmdSpec{arity: 3, first: 1, last: 1, write: true, fn: func(w *World, sc *SrvConn, e *Exec, a []string) result {
		old := cmdGet(w, sc, e, a[:2])
		if old.v.IsErr() {
			return old
		}
		setString(w, sc, a[1], a[2], time.Time{})
		return old
	}})
	reg("GETDEL", &cmdSpec{arity: 2, first: 1, last: 1, write: true, fn: func(w *World, sc *SrvConn, e *Exec, a []string) result {
		old := cmdGet(w, sc, e, a)
		if !old.v.IsErr() && old.v.T != '_' {
			sc.Node.DBs.del(w, sc, a[1])
		}
		return old
	}})
	reg("MGET", &cmdSpec{arity: -2, first: 1, last: -1, readonly: true, fn: func(w *World, sc *SrvConn, e *Exec, a []string) result {
		out := make([]resp.Value, 0, len(a)-1)
		for _, k := range a[1:] {
			en := sc.Node.DBs.get(sc, k)
			if en == nil || en.typ != "string" {
				out = append(out, resp.Nil())
			} else {
				out = append(out, w.tagRead(sc, []string{"MGET", k}, k, en.val(w)))
			}
		}
		return rv(resp.Arr(out...))
	}})
	reg("MSET", &cmdSpec{arity: -3, first: 1, last: -1, step: 2, write: true, fn: func(w *World, sc *SrvConn, e *Exec, a []string) result {
		if len(a)%2 != 1 {
			return rv(resp.Err("ERR wrong number of arguments for 'mset' command"))
		}
		for i := 1; i < len(a); i += 2 {
			setString(w, sc, a[i], a[i+1], time.Time{})
		}
		return rv(resp.OK())
	}})
	reg("MSETNX", &cmdSpec{arity: -3, first: 1, last: -1, step: 2, write: true, fn: func(w *World, sc *SrvConn, e *Exec, a []string) result {
		if len(a)%2 != 1 {
			return rv(resp.Err("ERR wrong number of arguments for 'msetnx' command"))
		}
		for i := 1; i < len(a); i += 2 {
			if sc.Node.DBs.get(sc, a[i]) != nil {
				return rv(resp.Int(0))
			}
		}
		for i := 1; i < len(a); i += 2 {
			setString(w, sc, a[i], a[i+1], time.Time{})
		}
		return rv(resp.Int(1))
	}})
	del := func(w *World, sc *SrvConn, e *Exec, a []string) result {
		n := int64(0)
		for _, k := range a[1:] {
			if sc.Node.DBs.del(w, sc, k) {
				n++
			}
		}
		return rv(resp.Int(n))
	}
	reg("DEL", &cmdSpec{arity: -2, first: 1, last: -1, write: true, fn: del})
	reg("UNLINK", &cmdSpec{arity: -2, first: 1, last: -1, write: true, fn: del})
	reg("EXISTS", &cmdSpec{arity: -2, first: 1, last: -1, readonly: true, fn: func(w *World, sc *SrvConn, e *Exec, a []string) result {
		n := int64(0)
		for _, k := range a[1:] {
			if sc.Node.DBs.get(sc, k) != nil {
				n++
			}
		}
		return rv(resp.Int(n))
	}})
	reg("TYPE", &cmdSpec{arity: 2, first: 1, last: 1, readonly: true, fn: func(w *World, sc *SrvConn, e *Exec, a []string) result {
		en := sc.Node.DBs.get(sc, a[1])
		if en == nil {
			return rv(resp.Simple("none"))
		}
		return rv(resp.Simple(en.typ))
	}})
	incr := func(delta func(a []string) (int64, bool)) func(w *World, sc *SrvConn, e *Exec, a []string) result {
		return func(w *World, sc *SrvConn, e *Exec, a []string) result {
			d, ok := delta(a)
			if !ok {
				return rv(errNotInt())
			}
			return rv(incrBy(w, sc, a[1], d))
		}
	}
	reg("INCR", &cmdSpec{arity: 2, first: 1, last: 1, write: true, fn: incr(func(a []string) (int64, bool) { return 1, true })})
	reg("DECR", &cmdSpec{arity: 2, first: 1, last: 1, write: true, fn: incr(func(a []string) (int64, bool) { return -1, true })})
	reg("INCRBY", &cmdSpec{arity: 3, first: 1, last: 1, write: true, fn: incr(func(a []string) (int64, bool) { return atoi(a[2]) })})
	reg("DECRBY", &cmdSpec{arity: 3, first: 1, last: 1, write: true, fn: incr(func(a []string) (int64, bool) { v, ok := atoi(a[2]); return -v, ok })})
	reg("APPEND", &cmdSpec{arity: 3, first: 1, last: 1, write: true, fn: func(w *World, sc *SrvConn, e *Exec, a []string) result {
		en := sc.Node.DBs.get(sc, a[1])
		if en != nil && en.typ != "string" {
			return rv(errWrongType())
		}
		s := a[2]
		exp := time.Time{}
		if en != nil {
			s = en.val(w) + a[2]
			exp = en.expireAt
		}
		setString(w, sc, a[1], s, exp)
		return rv(resp.Int(int64(len(s))))
	}})
	reg("STRLEN", &cmdSpec{arity: 2, first: 1, last: 1, readonly: true, fn: func(w *World, sc *SrvConn, e *Exec, a []string) result {
		en := sc.Node.DBs.get(sc, a[1])
		if en == nil {
			return rv(resp.Int(0))
		}
		if en.typ != "string" {
			return rv(errWrongType())
		}
		return rv(resp.Int(int64(len(en.val(w)))))
	}})
	reg("GETRANGE", &cmdSpec{arity: 4, first: 1, last: 1, readonly: true, fn: func(w *World, sc *SrvConn, e *Exec, a []string) result {
		en := sc.Node.DBs.get(sc, a[1])
		s, e2 := atoi(a[2])
		t, e3 := atoi(a[3])
		if !e2 || !e3 {
			return rv(errNotInt())
		}
		if en == nil {
			return rv(w.tagRead(sc, a, a[1], ""))
		}
		if en.typ != "string" {
			return rv(errWrongType())
		}
		l := int64(len(en.val(w)))
		if s < 0 {
			s += l
		}
		if t < 0 {
			t += l
		}
		if s < 0 {
			s = 0
		}
		if t >= l {
			t = l - 1
		}
		if l == 0 || s > t {
			return rv(w.tagRead(sc, a, a[1], ""))
		}
		return rv(w.tagRead(sc, a, a[1], en.val(w)[s:t+1]))
	}})

	// expiry
	expire := func(unit time.Duration, abs bool) func(w *World, sc *SrvConn, e *Exec, a []string) result {
		return func(w *World, sc *SrvConn, e *Exec, a []string) result {
			v, ok := atoi(a[2])
			if !ok {
				return rv(errNotInt())
			}
			if len(a) > 3 {
				w.gap("%s options %q not modelled", a[0], a[3:])
			}
			en := sc.Node.DBs.get(sc, a[1])
			if en == nil {
				return rv(resp.Int(0))
			}
			var at time.Time
			if abs {
				at = time.Unix(0, 0).Add(time.Duration(v) * unit)
			} else {
				at = sc.Node.now().Add(time.Duration(v) * unit)
			}
			if !at.After(sc.Node.now()) {
				sc.Node.DBs.del(w, sc, a[1])
				return rv(resp.Int(1))
			}
			en.expireAt = at
			sc.Node.DBs.touch(w, sc, a[1])
			return rv(resp.Int(1))
		}
	}
	reg("EXPIRE", &cmdSpec{arity: -3, first: 1, last: 1, write: true, fn: expire(time.Second, false)})
	reg("PEXPIRE", &cmdSpec{arity: -3, first: 1, last: 1, write: true, fn: expire(time.Millisecond, false)})
	reg("EXPIREAT", &cmdSpec{arity: -3, first: 1, last: 1, write: true, fn: expire(time.Second, true)})
	reg("PEXPIREAT", &cmdSpec{arity: -3, first: 1, last: 1, write: true, fn: expire(time.Millisecond, true)})
	reg("PERSIST", &cmdSpec{arity: 2, first: 1, last: 1, write: true, fn: func(w *World, sc *SrvConn, e *Exec, a []string) result {
		en := sc.Node.DBs.get(sc, a[1])
		if en == nil || en.expireAt.IsZero() {
			return rv(resp.Int(0))
		}
		en.expireAt = time.Time{}
		sc.Node.DBs.touch(w, sc, a[1])
		return rv(resp.Int(1))
	}})
	ttl := func(unit time.Duration) func(w *World, sc *SrvConn, e *Exec, a []string) result {
		return func(w *World, sc *SrvConn, e *Exec, a []string) result {
			en := sc.Node.DBs.get(sc, a[1])
			if en == nil {
				return rv(resp.Int(-2))
			}
			if en.expireAt.IsZero() {
				return rv(resp.Int(-1))
			}
			d := en.expireAt.Sub(sc.Node.now())
			if d < 0 {
				d = 0
			}
			// Redis rounds to the nearest unit for TTL and reports milliseconds exactly for PTTL
			if unit == time.Second {
				return rv(resp.Int(int64((d + 500*time.Millisecond) / time.Second)))
			}
			return rv(resp.Int(int64(d / unit)))
		}
	}
	reg("TTL", &cmdSpec{arity: 2, first: 1, last: 1, readonly: true, fn: ttl(time.Second)})
	reg("PTTL", &cmdSpec{arity: 2, first: 1, last: 1, readonly: true, fn: ttl(time.Millisecond)})

	// hashes
	reg("HSET", &cmdSpec{arity: -4, first: 1, last: 1, write: true, fn: cmdHSet})
	reg("HMSET", &cmdSpec{arity: -4, first: 1, last: 1, write: true, fn: func(w *World, sc *SrvConn, e *Exec, a []string) result {
		r := cmdHSet(w, sc, e, a)
		if r.v.IsErr() {
			return r
		}
		return rv(resp.OK())
	}})
	reg("HSETNX", &cmdSpec{arity: 4, first: 1, last: 1, write: true, fn: func(w *World, sc *SrvConn, e *Exec, a []string) result {
		en := sc.Node.DBs.get(sc, a[1])
		if en != nil && en.typ != "hash" {
			return rv(errWrongType())
		}
		if en != nil {
			if _, ok := en.hash[a[2]]; ok {
				return rv(resp.Int(0))
			}
		}
		return cmdHSet(w, sc, e, a)
	}})
	reg("HGET", &cmdSpec{arity: 3, first: 1, last: 1, readonly: true, fn: func(w *World, sc *SrvConn, e *Exec, a []string) result {
		en := sc.Node.DBs.get(sc, a[1])
		if en == nil {
			return rv(resp.Nil())
		}
		if en.typ != "hash" {
			return rv(errWrongType())
		}
		v, ok := en.hash[a[2]]
		if !ok {
			return rv(resp.Nil())
		}
		return rv(w.tagRead(sc, a, a[1], v))
	}})
	reg("HMGET", &cmdSpec{arity: -3, first: 1, last: 1, readonly: true, fn: func(w *World, sc *SrvConn, e *Exec, a []string) result {
		en := sc.Node.DBs.get(sc, a[1])
		if en != nil && en.typ != "hash" {
			return rv(errWrongType())
		}
		out := make([]resp.Value, 0, len(a)-2)
		for _, f := range a[2:] {
			if en == nil {
				out = append(out, resp.Nil())
			} else if v, ok := en.hash[f]; ok {
				out = append(out, w.tagRead(sc, a, a[1], v))
			} else {
				out = append(out, resp.Nil())
			}
		}
		return rv(resp.Arr(out...))
	}})
	reg("HGETALL", &cmdSpec{arity: 2, first: 1, last: 1, readonly: true, fn: func(w *World, sc *SrvConn, e *Exec, a []string) result {
		en := sc.Node.DBs.get(sc, a[1])
		if en != nil && en.typ != "hash" {
			return rv(errWrongType())
		}
		m := resp.Map()
		if en != nil {
			for _, f := range en.hkeys {
				m.A = append(m.A, resp.Bulk(f), w.tagRead(sc, a, a[1], en.hash[f]))
			}
		}
		return rv(m)
	}})
	// HSCAN key cursor [MATCH pattern] [COUNT n]: the whole hash in one page (cursor 0 -> "0"); MATCH is not modelled
	reg("HSCAN", &cmdSpec{arity: -3, first: 1, last: 1, readonly: true, fn: func(w *World, sc *SrvConn, e *Exec, a []string) result {
		en := sc.Node.DBs.get(sc, a[1])
		if en != nil && en.typ != "hash" {
			return rv(errWrongType())
		}
		for i := 3; i < len(a); i += 2 {
			if strings.ToUpper(a[i]) != "COUNT" {
				w.gap("HSCAN option %q not modelled", a[i])
			}
		}
		page := resp.Value{T: '*'}
		if en != nil {
			for _, f := range en.hkeys {
				page.A = append(page.A, resp.Bulk(f), resp.Bulk(en.hash[f]))
			}
		}
		return rv(resp.Value{T: '*', A: []resp.Value{resp.Bulk("0"), page}})
	}})
	reg("HDEL", &cmdSpec{arity: -3, first: 1, last: 1, write: true, fn: func(w *World, sc *SrvConn, e *Exec, a []string) result {
		en := sc.Node.DBs.get(sc, a[1])
		if en == nil {
			return rv(resp.Int(0))
		}
		if en.typ != "hash" {
			return rv(errWrongType())
		}
		n := int64(0)
		for _, f := range a[2:] {
			if _, ok := en.hash[f]; ok {
				delete(en.hash, f)
				for i, k := range en.hkeys {
					if k == f {
						en.hkeys = append(en.hkeys[:i], en.hkeys[i+1:]...)
						break
					}
				}
				n++
			}
		}
		if n > 0 {
			if len(en.hash) == 0 {
				sc.Node.DBs.del(w, sc, a[1])
			} else {
				sc.Node.DBs.touch(w, sc, a[1])
			}
		}
		return rv(resp.Int(n))
	}})
	reg("HEXISTS", &cmdSpec{arity: 3, first: 1, last: 1, readonly: true, fn: func(w *World, sc *SrvConn, e *Exec, a []string) result {
		en := sc.Node.DBs.get(sc, a[1])
		if en == nil {
			return rv(resp.Int(0))
		}
		if en.typ != "hash" {
			return rv(errWrongType())
		}
		if _, ok := en.hash[a[2]]; ok {
			return rv(resp.Int(1))
		}
		return rv(resp.Int(0))
	}})
	reg("HLEN", &cmdSpec{arity: 2, first: 1, last: 1, readonly: true, fn: func(w *World, sc *SrvConn, e *Exec, a []string) result {
		en := sc.Node.DBs.get(sc, a[1])
		if en == nil {
			return rv(resp.Int(0))
		}
		if en.typ != "hash" {
			return rv(errWrongType())
		}
		return rv(resp.Int(int64(len(en.hash))))
	}})
	reg("HINCRBY", &cmdSpec{arity: 4, first: 1, last: 1, write: true, fn: func(w *World, sc *SrvConn, e *Exec, a []string) result {
		d, ok := atoi(a[3])
		if !ok {
			return rv(errNotInt())
		}
		en := sc.Node.DBs.get(sc, a[1])
		if en != nil && en.typ != "hash" {
			return rv(errWrongType())
		}
		cur := int64(0)
		if en != nil {
			if s, ok := en.hash[a[2]]; ok {
				c, ok := atoi(s)
				if !ok {
					return rv(resp.Err("ERR hash value is not an integer"))
				}
				cur = c
			}
		}
		cur += d
		cmdHSet(w, sc, e, []string{"HSET", a[1], a[2], strconv.FormatInt(cur, 10)})
		return rv(resp.Int(cur))
	}})

	// lists
	push := func(left, onlyIfExists bool) func(w *World, sc *SrvConn, e *Exec, a []string) result {
		return func(w *World, sc *SrvConn, e *Exec, a []string) result {
			d := sc.Node.DBs
			en := d.get(sc, a[1])
			if en != nil && en.typ != "list" {
				return rv(errWrongType())
			}
			if en == nil {
				if onlyIfExists {
					return rv(resp.Int(0))
				}
				en = &entry{typ: "list"}
				d.db(sc.Sess.DB)[a[1]] = en
			}
			for _, v := range a[2:] {
				if left {
					en.list = append([]string{v}, en.list...)
				} else {
					en.list = append(en.list, v)
				}
			}
			n := int64(len(en.list))
			d.touch(w, sc, a[1])
			w.serveBlocked(sc.Node)
			return rv(resp.Int(n))
		}
	}
	reg("LPUSH", &cmdSpec{arity: -3, first: 1, last: 1, write: true, fn: push(true, false)})
	reg("RPUSH", &cmdSpec{arity: -3, first: 1, last: 1, write: true, fn: push(false, false)})
	reg("LPUSHX", &cmdSpec{arity: -3, first: 1, last: 1, write: true, fn: push(true, true)})
	reg("RPUSHX", &cmdSpec{arity: -3, first: 1, last: 1, write: true, fn: push(false, true)})
	pop := func(left bool) func(w *World, sc *SrvConn, e *Exec, a []string) result {
		return func(w *World, sc *SrvConn, e *Exec, a []string) result {
			if len(a) > 2 {
				w.gap("%s with count not modelled", a[0])
			}
			v, ok, wrong := popOne(w, sc, a[1], left)
			if wrong {
				return rv(errWrongType())
			}
			if !ok {
				return rv(resp.Nil())
			}
			return rv(resp.Bulk(v))
		}
	}
	reg("LPOP", &cmdSpec{arity: -2, first: 1, last: 1, write: true, fn: pop(true)})
	reg("RPOP", &cmdSpec{arity: -2, first: 1, last: 1, write: true, fn: pop(false)})
	bpop := func(left bool) func(w *World, sc *SrvConn, e *Exec, a []string) result {
		return func(w *World, sc *SrvConn, e *Exec, a []string) result {
			tf, err := strconv.ParseFloat(a[len(a)-1], 64)
			if err != nil || tf < 0 {
				return rv(resp.Err("ERR timeout is not a float or out of range"))
			}
			for _, k := range a[1 : len(a)-1] {
				v, ok, wrong := popOne(w, sc, k, left)
				if wrong {
					return rv(errWrongType())
				}
				if ok {
					return rv(resp.Arr(resp.Bulk(k), resp.Bulk(v)))
				}
			}
			if e.InExec {
				return rv(resp.NullArr())
			}
			if sc.blocked == nil || sc.blocked.exec != e {
				b := &blockedOp{argv: a, exec: e}
				if tf > 0 {
					b.deadline = sc.Node.now().Add(time.Duration(tf * float64(time.Second)))
				}
				sc.blocked = b
			}
			return result{blocked: true}
		}
	}
	reg("BLPOP", &cmdSpec{arity: -3, first: 1, last: -2, write: true, fn: bpop(true)})
	reg("BRPOP", &cmdSpec{arity: -3, first: 1, last: -2, write: true, fn: bpop(false)})
	reg("LLEN", &cmdSpec{arity: 2, first: 1, last: 1, readonly: true, fn: func(w *World, sc *SrvConn, e *Exec, a []string) result {
		en := sc.Node.DBs.get(sc, a[1])
		if en == nil {
			return rv(resp.Int(0))
		}
		if en.typ != "list" {
			return rv(errWrongType())
		}
		return rv(resp.Int(int64(len(en.list))))
	}})
	reg("LRANGE", &cmdSpec{arity: 4, first: 1, last: 1, readonly: true, fn: func(w *World, sc *SrvConn, e *Exec, a []string) result {
		s, ok1 := atoi(a[2])
		t, ok2 := atoi(a[3])
		if !ok1 || !ok2 {
			return rv(errNotInt())
		}
		en := sc.Node.DBs.get(sc, a[1])
		if en == nil {
			return rv(resp.Arr())
		}
		if en.typ != "list" {
			return rv(errWrongType())
		}
		l := int64(len(en.list))
		if s < 0 {
			s += l
		}
		if t < 0 {
			t += l
		}
		if s < 0 {
			s = 0
		}
		if t >= l {
			t = l - 1
		}
		out := resp.Arr()
		for i := s; i <= t; i++ {
			out.A = append(out.A, w.tagRead(sc, a, a[1], en.list[i]))
		}
		return rv(out)
	}})
	reg("LINDEX", &cmdSpec{arity: 3, first: 1, last: 1, readonly: true, fn: func(w *World, sc *SrvConn, e *Exec, a []string) result {
		i, ok := atoi(a[2])
		if !ok {
			return rv(errNotInt())
		}
		en := sc.Node.DBs.get(sc, a[1])
		if en == nil {
			return rv(resp.Nil())
		}
		if en.typ != "list" {
			return rv(errWrongType())
		}
		if i < 0 {
			i += int64(len(en.list))
		}
		if i < 0 || i >= int64(len(en.list)) {
			return rv(resp.Nil())
		}
		return rv(w.tagRead(sc, a, a[1], en.list[i]))
	}})

	// sets
	reg("SADD", &cmdSpec{arity: -3, first: 1, last: 1, write: true, fn: func(w *World, sc *SrvConn, e *Exec, a []string) result {
		d := sc.Node.DBs
		en := d.get(sc, a[1])
		if en != nil && en.typ != "set" {
			return rv(errWrongType())
		}
		if en == nil {
			en = &entry{typ: "set", set: map[string]bool{}}
			d.db(sc.Sess.DB)[a[1]] = en
		}
		n := int64(0)
		for _, m := range a[2:] {
			if !en.set[m] {
				en.set[m] = true
				n++
			}
		}
		if n > 0 {
			d.touch(w, sc, a[1])
		}
		return rv(resp.Int(n))
	}})
	reg("SREM", &cmdSpec{arity: -3, first: 1, last: 1, write: true, fn: func(w *World, sc *SrvConn, e *Exec, a []string) result {
		d := sc.Node.DBs
		en := d.get(sc, a[1])
		if en == nil {
			return rv(resp.Int(0))
		}
		if en.typ != "set" {
			return rv(errWrongType())
		}
		n := int64(0)
		for _, m := range a[2:] {
			if en.set[m] {
				delete(en.set, m)
				n++
			}
		}
		if n > 0 {
			if len(en.set) == 0 {
				d.del(w, sc, a[1])
			} else {
				d.touch(w, sc, a[1])
			}
		}
		return rv(resp.Int(n))
	}})
	reg("SISMEMBER", &cmdSpec{arity: 3, first: 1, last: 1, readonly: true, fn: func(w *World, sc *SrvConn, e *Exec, a []string) result {
		en := sc.Node.DBs.get(sc, a[1])
		if en == nil {
			return rv(resp.Int(0))
		}
		if en.typ != "set" {
			return rv(errWrongType())
		}
		if en.set[a[2]] {
			return rv(resp.Int(1))
		}
		return rv(resp.Int(0))
	}})
	reg("SCARD", &cmdSpec{arity: 2, first: 1, last: 1, readonly: true, fn: func(w *World, sc *SrvConn, e *Exec, a []string) result {
		en := sc.Node.DBs.get(sc, a[1])
		if en == nil {
			return rv(resp.Int(0))
		}
		if en.typ != "set" {
			return rv(errWrongType())
		}
		return rv(resp.Int(int64(len(en.set))))
	}})
	reg("SMEMBERS", &cmdSpec{arity: 2, first: 1, last: 1, readonly: true, fn: func(w *World, sc *SrvConn, e *Exec, a []string) result {
		en := sc.Node.DBs.get(sc, a[1])
		out := resp.Set()
		if en == nil {
			return rv(out)
		}
		if en.typ != "set" {
			return rv(errWrongType())
		}
		for _, m := range sortedKeys(en.set) {
			out.A = append(out.A, resp.Bulk(m))
		}
		return rv(out)
	}})
}

func sortedKeys(m map[string]bool) []string {
	ks := make([]string, 0, len(m))
	for k := range m {
		ks = append(ks, k)
	}
	sortStrings(ks)
	return ks
}

func sortStrings(s []string) {
	for i := 1; i < len(s); i++ {
		for j := i; j > 0 && s[j] < s[j-1]; j-- {
			s[j], s[j-1] = s[j-1], s[j]
		}
	}
}

func popOne(w *World, sc *SrvConn, k string, left bool) (v string, ok, wrongType bool) {
	d := sc.Node.DBs
	d.expireIfNeeded(w, sc, k)
	en := d.get(sc, k)
	if en == nil {
		return "", false, false
	}
	if en.typ != "list" {
		return "", false, true
	}
	if left {
		v = en.list[0]
		en.list = en.list[1:]
	} else {
		v = en.list[len(en.list)-1]
		en.list = en.list[:len(en.list)-1]
	}
	if len(en.list) == 0 {
		d.del(w, sc, k)
	} else {
		d.touch(w, sc, k)
	}
	return v, true, false
}

// tagRead wraps a string read reply so that it describes the command that produced it
// and the invalidation epoch of the key, when World.TagReads is set.
func (w *World) tagRead(sc *SrvConn, argv []string, key, val string) resp.Value {
	if !w.TagReads {
		return resp.Bulk(val)
	}
	return resp.Bulk(strings.Join(argv, " ") + "\x1f" + strconv.Itoa(sc.Node.DBs.Epoch[key]) + "\x1f" + strconv.Itoa(w.curExec.Seq) + "\x1f" + val)
}

func cmdGet(w *World, sc *SrvConn, e *Exec, a []string) result {
	en := sc.Node.DBs.get(sc, a[1])
	if en == nil {
		return rv(resp.Nil())
	}
	if en.typ != "string" {
		return rv(errWrongType())
	}
	return rv(w.tagRead(sc, a[:2], a[1], en.val(w)))
}

func setString(w *World, sc *SrvConn, k, v string, exp time.Time) {
	d := sc.Node.DBs
	d.db(sc.Sess.DB)[k] = &entry{typ: "string", str: v, expireAt: exp}
	d.touch(w, sc, k)
}

func cmdSet(w *World, sc *SrvConn, e *Exec, a []string) result {
	var nx, xx, get, keepttl bool
	exp := time.Time{}
	now := sc.Node.now()
	for i := 3; i < len(a); i++ {
		switch up(a[i]) {
		case "NX":
			nx = true
		case "XX":
			xx = true
		case "GET":
			get = true
		case "KEEPTTL":
			keepttl = true
		case "EX", "PX", "EXAT", "PXAT":
			if i+1 >= len(a) {
				return rv(errSyntax())
			}
			v, ok := atoi(a[i+1])
			if !ok {
				return rv(errNotInt())
			}
			if v <= 0 {
				return rv(resp.Err("ERR invalid expire time in 'set' command"))
			}
			switch up(a[i]) {
			case "EX":
				exp = now.Add(time.Duration(v) * time.Second)
			case "PX":
				exp = now.Add(time.Duration(v) * time.Millisecond)
			case "EXAT":
				exp = time.Unix(v, 0)
			case "PXAT":
				exp = time.UnixMilli(v)
			}
			i++
		default:
			return rv(errSyntax())
		}
	}
	if nx && xx {
		return rv(errSyntax())
	}
	en := sc.Node.DBs.get(sc, a[1])
	var old resp.Value = resp.Nil()
	if get {
		if en != nil && en.typ != "string" {
			return rv(errWrongType())
		}
		if en != nil {
			old = resp.Bulk(en.val(w))
		}
	}
	if (nx && en != nil) || (xx && en == nil) {
		if get {
			return rv(old)
		}
		return rv(resp.Nil())
	}
	if keepttl && en != nil {
		exp = en.expireAt
	}
	setString(w, sc, a[1], a[2], exp)
	if get {
		return rv(old)
	}
	return rv(resp.OK())
}

func incrBy(w *World, sc *SrvConn, k string, d int64) resp.Value {
	en := sc.Node.DBs.get(sc, k)
	cur := int64(0)
	exp := time.Time{}
	if en != nil {
		if en.typ != "string" {
			return errWrongType()
		}
		c, ok := atoi(en.val(w))
		if !ok {
			return errNotInt()
		}
		cur = c
		exp = en.expireAt
	}
	if (d > 0 && cur > (1<<63-1)-d) || (d < 0 && cur < (-1<<63)-d) {
		return resp.Err("ERR increment or decrement would overflow")
	}
	cur += d
	setString(w, sc, k, strconv.FormatInt(cur, 10), exp)
	return resp.Int(cur)
}

func cmdHSet(w *World, sc *SrvConn, e *Exec, a []string) result {
	if len(a)%2 != 0 {
		return rv(resp.Err("ERR wrong number of arguments for 'hset' command"))
	}
	d := sc.Node.DBs
	en := d.get(sc, a[1])
	if en != nil && en.typ != "hash" {
		return rv(errWrongType())
	}
	if en == nil {
		en = &entry{typ: "hash", hash: map[string]string{}}
		d.db(sc.Sess.DB)[a[1]] = en
	}
	n := int64(0)
	for i := 2; i < len(a); i += 2 {
		if _, ok := en.hash[a[i]]; !ok {
			en.hkeys = append(en.hkeys, a[i])
			n++
		}
		en.hash[a[i]] = a[i+1]
	}
	d.touch(w, sc, a[1])
	return rv(resp.Int(n))
}
