package fakeredis

import (
	"strconv"
	"strings"
	"testing"
)

// The sparse representation must be invisible: the same command sequence gives the same replies at a small offset
// (dense string), at a medium one (pages, flattened again by GET) and at the far end of the range Redis allows.
func TestSparseBitmapEquivalence(t *testing.T) {
	w, _, n, c := single(t)
	for _, base := range []uint64{0, 8 * denseBitmapMax, 8 * (maxFlatten + 1000), 1<<32 - 64} {
		key := "k" + strconv.FormatUint(base, 10)
		o := func(d uint64) string { return strconv.FormatUint(base+d, 10) }
		c.want(`*[:0]`, "BITFIELD", key, "SET", "u1", o(3), "1")
		c.want(`*[:1]`, "BITFIELD", key, "SET", "u1", o(3), "1")
		c.want(`*[:1 :0]`, "BITFIELD", key, "GET", "u1", o(3), "GET", "u1", o(4))
		c.want(`*[:1]`, "BITFIELD_RO", key, "GET", "u1", o(3))
		c.want(`*[:16]`, "BITFIELD", key, "GET", "u8", o(0))
		c.want(`*[:0]`, "BITFIELD", key, "SET", "u8", o(8), "255")
		c.want(`*[:255 :-1]`, "BITFIELD", key, "GET", "u8", o(8), "GET", "i8", o(8))
		c.want(`:1`, "GETBIT", key, o(15))
		c.want(`:1`, "SETBIT", key, o(15), "0")
		c.want(`*[:254]`, "BITFIELD", key, "GET", "u8", o(8))
		c.want(`:0`, "GETBIT", key, o(16)) // past the end of the string
		c.want(`:8`, "BITCOUNT", key)
		c.want(`:8`, "BITCOUNT", key, strconv.FormatUint(base/8, 10), "-1")
		c.want(`:1`, "BITCOUNT", key, "0", strconv.FormatUint(base/8, 10))
		c.want(`:7`, "BITCOUNT", key, o(4), o(14), "BIT")
		bytes, pages := n.DBs.SparseBitmapStats(key)
		eq(t, "length of "+key, bytes, int(base/8)+2)
		if base == 0 {
			eq(t, "dense", pages, -1)
		} else {
			eq(t, "pages of "+key, pages, 1)
		}
	}
	noGaps(t, w)
	// non-bit commands see an ordinary string
	c.want(`"\x10\xfe"`, "GET", "k0")
	c.want(`:`+strconv.Itoa(denseBitmapMax+2), "STRLEN", "k"+strconv.Itoa(8*denseBitmapMax))
	_, pages := n.DBs.SparseBitmapStats("k" + strconv.Itoa(8*denseBitmapMax))
	eq(t, "flattened by STRLEN", pages, -1)
	c.want(`"\x10\xfe"`, "GETRANGE", "k"+strconv.Itoa(8*denseBitmapMax), strconv.Itoa(denseBitmapMax), "-1")
	c.want(`*[:254]`, "BITFIELD", "k"+strconv.Itoa(8*denseBitmapMax), "GET", "u8", strconv.Itoa(8*denseBitmapMax+8))
	noGaps(t, w)
	// a value too long to flatten is a harness gap, not a wrong answer passed off as right
	c.do("STRLEN", "k4294967232")
	eq(t, "gap", len(w.Gaps), 1)
	if !strings.Contains(w.Gaps[0], "sparse bitmap") {
		t.Fatalf("gap = %q", w.Gaps[0])
	}
	w.Gaps = nil
}

func TestSparseBitmapKeyspace(t *testing.T) {
	w, clk, n, c := single(t)
	c.want(`+"OK"`, "SET", "s", "foobar")
	c.want(`:0`, "SETBIT", "s", "1000000", "1") // a dense string grows into pages and keeps its content
	c.want(`:27`, "BITCOUNT", "s")
	c.want(`:26`, "BITCOUNT", "s", "0", "5")
	c.want(`*[:102]`, "BITFIELD_RO", "s", "GET", "u8", "0")
	_, pages := n.DBs.SparseBitmapStats("s")
	eq(t, "pages", pages, 2)
	c.want(`"foobar"`, "GETRANGE", "s", "0", "5")
	c.want(`:125001`, "STRLEN", "s")
	c.want(`:1`, "GETBIT", "s", "1000000")

	c.want(`*[:0]`, "BITFIELD", "next", "SET", "u1", "4000000000", "1")
	c.want(`+"OK"`, "SET", "cur", "")
	c.want(`:1`, "PEXPIRE", "next", "5000")
	c.want(`+"OK"`, "RENAME", "next", "cur") // moves the pages, and the expiry with them
	c.want(`:0`, "EXISTS", "next")
	c.want(`*[:1]`, "BITFIELD", "cur", "GET", "u1", "4000000000")
	c.want(`+"string"`, "TYPE", "cur")
	c.want(`+"OK"`, "SET", "next", "")
	c.want(`*[:0]`, "BITFIELD", "next", "GET", "u1", "4000000000")
	c.want(`*[:0]`, "BITFIELD", "cur", "SET", "u1", "4000000001", "1")
	c.want(`*[:1 :1 :0]`, "BITFIELD", "cur", "GET", "u1", "4000000000", "GET", "u1", "4000000001", "GET", "u1", "4000000002")
	clk.advance(5001e6)
	c.want(`*[:0]`, "BITFIELD", "cur", "GET", "u1", "4000000000") // expired
	eq(t, "expired", n.DBs.Has("cur"), false)
	c.want(`*[:0]`, "BITFIELD", "cur", "SET", "u1", "4000000000", "1")
	c.want(`+"OK"`, "SET", "cur", "")
	c.want(`*[:0]`, "BITFIELD", "cur", "GET", "u1", "4000000000")
	c.want(`:1`, "DEL", "cur")
	c.want(`:1`, "RPUSH", "l", "x")
	c.want(errWT, "BITFIELD", "l", "SET", "u1", "4000000000", "1")
	noGaps(t, w)
}

// The Bloom-filter scripts of rueidisprob as shipped when this test was written (fixtures for lualite and the bit
// commands; the simulation itself always runs whatever script text the client sends).
const bloomAddFixture = `
local hashIterations = tonumber(ARGV[1])
local numElements = tonumber(#ARGV) - 1
local filterKey = KEYS[1]
local counterKey = KEYS[2]

local counter = 0
local oneBits = 0
for i=1, numElements do
	local bitset = redis.call('BITFIELD', filterKey, 'SET', 'u1', ARGV[i+1], '1')

	oneBits = oneBits + bitset[1]
	if i % hashIterations == 0 then
		if oneBits ~= hashIterations then
			counter = counter + 1
		end

		oneBits = 0
	end
end

return redis.call('INCRBY', counterKey, counter)
`

const bloomExistsFixture = `
local hashIterations = tonumber(ARGV[1])
local numElements = tonumber(#ARGV) - 1
local filterKey = KEYS[1]

local result = {}
local oneBits = 0
for i=1, numElements do
	local index = tonumber(ARGV[i+1])
	local bitset = redis.call('BITFIELD_RO', filterKey, 'GET', 'u1', index)

	oneBits = oneBits + bitset[1]
	if i % hashIterations == 0 then
		table.insert(result, oneBits == hashIterations)

		oneBits = 0
	end
end

return result
`

const cbfRemoveFixture = `
local function MergeTables(t1, t2)
	for i=1, #t2 do
		table.insert(t1, t2[i])
	end

	return t1
end

local numElements = tonumber(#ARGV) - 1
local hashIterations = tonumber(ARGV[#ARGV])
local filterKey = KEYS[1]
local counterKey = KEYS[2]

local indexCounter = {}
for i=1, numElements do
	local index = ARGV[i]
	local count = redis.call('HGET', filterKey, index)

	if (not indexCounter[index]) then
		if (not count) then
			indexCounter[index] = 0
		else
			indexCounter[index] = tonumber(count)
		end
	end
end

local decreaseIndexes = {}
local deleteItemCount = 0
for i=1, numElements, hashIterations do
	local isAbleToRemove = true
	local temp = {}
	local rollbackIndex = i

	for j=i, i+hashIterations-1 do
		local index = ARGV[j]

		table.insert(temp, index)
		indexCounter[index] = indexCounter[index] - 1
		
		if indexCounter[index] < 0 then
			isAbleToRemove = false
			rollbackIndex = j
			break
		end
	end

	if isAbleToRemove then
		decreaseIndexes = MergeTables(decreaseIndexes, temp)
		deleteItemCount = deleteItemCount + 1
	else
		for j=i, rollbackIndex do
			local index = ARGV[j]
			
			indexCounter[index] = indexCounter[index] + 1
		end
	end
end

for i=1, #decreaseIndexes do
    redis.call('HINCRBY', filterKey, decreaseIndexes[i], -1)
end

return redis.call('DECRBY', counterKey, deleteItemCount)
`

const slidingAddFixture = `
local hashIterations = tonumber(ARGV[1])
local windowHalf = tonumber(ARGV[2])
local numElements = tonumber(#ARGV) - 2

local filterKey = KEYS[1]
local nextFilterKey = KEYS[2]
local counterKey = KEYS[3]
local nextCounterKey = KEYS[4]
local lastRotationKey = KEYS[5]

local time = redis.call('TIME')
local current_time = tonumber(time[1]) * 1000 + math.floor(tonumber(time[2])/1000)
local acquiredLock = redis.call('SET', lastRotationKey, tostring(current_time), 'PX', windowHalf, 'NX')

if acquiredLock then
	redis.call('RENAME', nextFilterKey, filterKey)
	redis.call('RENAME', nextCounterKey, counterKey)
	redis.call('SET', nextFilterKey, "")
	redis.call('SET', nextCounterKey, 0)
end

local counter = 0
local oneBits = 0
for i=1, numElements do
	local bitset = redis.call('BITFIELD', filterKey, 'SET', 'u1', ARGV[i+2], '1')
	redis.call('BITFIELD', nextFilterKey, 'SET', 'u1', ARGV[i+2], '1')

	oneBits = oneBits + bitset[1]
	if i % hashIterations == 0 then
		if oneBits ~= hashIterations then
			counter = counter + 1
		end

		oneBits = 0
	end
end

redis.call('INCRBY', nextCounterKey, counter)
return redis.call('INCRBY', counterKey, counter)
`

func TestBloomScriptsOnSparseBitmaps(t *testing.T) {
	w, _, n, c := single(t)
	keys := []string{"{f}", "{f}:c"}
	// two items of three hash functions each, spread over the whole legal range
	c.wantEval(`:2`, bloomAddFixture, keys, "3", "7", "4294967295", "123456789", "7", "99", "2147483648")
	c.wantEval(`:2`, bloomAddFixture, keys, "3", "7", "4294967295", "123456789") // already there: not counted
	c.wantEval(`:3`, bloomAddFixture, keys, "3", "7", "4294967295", "5")
	c.wantEval(`*[:1 nil :1 nil]`, bloomExistsFixture, keys[:1], "3",
		"7", "4294967295", "123456789", "7", "99", "6", "7", "99", "2147483648", "8", "8", "8")
	c.wantEval(`*[]`, bloomExistsFixture, keys[:1], "0") // no hash functions: nothing is asked, nothing is answered
	bytes, pages := n.DBs.SparseBitmapStats("{f}")
	eq(t, "length", bytes, 1<<29)
	eq(t, "pages", pages, 4)
	noGaps(t, w)
}

func TestCountingBloomRemoveScript(t *testing.T) {
	w, _, n, c := single(t)
	keys := []string{"{f}:cbf", "{f}:cbf:c"}
	c.want(`:3`, "HSET", keys[0], "1", "2", "2", "1", "3", "1")
	c.want(`+"OK"`, "SET", keys[1], "2")
	// item A = {1,2}: removable; item B = {1,9}: would drive 9 negative, so its decrement of 1 is rolled back;
	// item C = {1,3}: removable only because of that roll-back
	c.wantEval(`:0`, cbfRemoveFixture, keys, "1", "2", "1", "9", "1", "3", "2")
	h := n.DBs.HashOf(keys[0])
	eq(t, "1", h["1"], "0")
	eq(t, "2", h["2"], "0")
	eq(t, "3", h["3"], "0")
	_, has9 := h["9"]
	eq(t, "9 untouched", has9, false)
	// nothing can be removed any more: no HINCRBY at all
	c.wantEval(`:0`, cbfRemoveFixture, keys, "1", "2", "2")
	if strings.Contains(c.subLog(), "HINCRBY") {
		t.Fatalf("impossible removal wrote: %s", c.subLog())
	}
	// an index that occurs twice in one item needs a count of two
	c.want(`:0`, "HSET", keys[0], "1", "1")
	c.wantEval(`:0`, cbfRemoveFixture, keys, "1", "1", "2")
	eq(t, "1", n.DBs.HashOf(keys[0])["1"], "1")
	noGaps(t, w)
}

func TestSlidingBloomAddScript(t *testing.T) {
	w, clk, n, c := single(t)
	keys := []string{"{s}", "{s}:n", "{s}:c", "{s}:nc", "{s}:lr"}
	c.want(`+"OK"`, "MSET", keys[0], "", keys[2], "0", keys[1], "", keys[3], "0")
	c.want(`+"OK"`, "SET", keys[4], "x", "PX", "500", "NX")
	c.wantEval(`:1`, slidingAddFixture, keys, "2", "500", "10", "4000000000")
	c.want(`*[:1]`, "BITFIELD", keys[1], "GET", "u1", "4000000000")
	clk.advance(499e6)
	c.wantEval(`:2`, slidingAddFixture, keys, "2", "500", "11", "12") // lock still held: no rotation
	clk.advance(1e6)
	c.wantEval(`:3`, slidingAddFixture, keys, "2", "500", "13", "14") // rotation: next becomes current, keeps everything
	c.want(`*[:1 :1 :1]`, "BITFIELD", keys[0], "GET", "u1", "10", "GET", "u1", "12", "GET", "u1", "13")
	c.want(`*[:0 :1]`, "BITFIELD", keys[1], "GET", "u1", "10", "GET", "u1", "13")
	c.want(`"1"`, "GET", keys[3])
	eq(t, "lock expiry", expiryMs(n, keys[4]), testEpochMs+123+500+500)
	noGaps(t, w)
}
