package fakeredis

import "verifsim/resp"

// Cluster and SentinelModel are filled in by cluster.go / sentinel.go.

type Cluster struct{}

func (c *Cluster) check(sc *SrvConn, name string, spec *cmdSpec, argv []string) (resp.Value, bool) {
	return resp.Value{}, false
}

type SentinelModel struct{}

func (s *SentinelModel) IsSentinel(addr string) bool { return false }
